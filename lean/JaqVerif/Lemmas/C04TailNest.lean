/- C04 — the classification theorem: tail nests are compiled without `CatchAll`. -/
import JaqVerif.Lemmas.C04Tco

namespace Jaq.C04

/-- the compiled term is not a call that re-enters natively -/
def NoCA : CT → Prop
  | .callDef _ _ _ .catchAll => False
  | _ => True

def OutNoCA (s : St) : Prop := ∀ e ∈ s.out, NoCA e.ct

/-- `ρ` maps nesting levels of enclosing definitions to their term ids -/
def Sim (ρ : Nat → Nat) (sc : Scope) (fs : List FunEntry) : Prop :=
  ∀ name ar e, lookupFun fs name ar = some e →
    match e.f with
    | .parent _ id => ∃ l, lookupS sc name ar = some (.anc l) ∧ ρ l = id
    | .sibling _ id trs => ∃ needs, lookupS sc name ar = some (.sib needs) ∧
        ∀ x ∈ trs, x ≠ id → ∃ l ∈ needs, ρ l = x
    | .arg => True

def KindOk (d : Nat) : Kind → Prop
  | .anc l => l < d
  | .sib needs => ∀ l ∈ needs, l < d
  | .arg => True

def WFS (sc : Scope) (d : Nat) : Prop := ∀ name ar k, lookupS sc name ar = some k → KindOk d k

def upd (ρ : Nat → Nat) (d id : Nat) : Nat → Nat := fun l => if l = d then id else ρ l

theorem lookupFun_cons (e0 : FunEntry) (fs : List FunEntry) (name ar : Nat) :
    lookupFun (e0 :: fs) name ar = if (e0.name == name && e0.arity == ar) = true then some e0 else lookupFun fs name ar := by
  simp only [lookupFun, List.find?_cons]
  split <;> simp_all

theorem lookupS_cons (e0 : SEntry) (sc : Scope) (name ar : Nat) :
    lookupS (e0 :: sc) name ar = if (e0.name == name && e0.arity == ar) = true then some e0.k else lookupS sc name ar := by
  simp only [lookupS, List.find?_cons]
  split <;> simp_all

theorem Sim_cons {ρ sc fs} (n a v : Nat) (k : Kind) (f : Fun) (h : Sim ρ sc fs)
    (hk : match f with
      | .parent _ id => ∃ l, k = .anc l ∧ ρ l = id
      | .sibling _ id trs => ∃ needs, k = .sib needs ∧ ∀ x ∈ trs, x ≠ id → ∃ l ∈ needs, ρ l = x
      | .arg => True) :
    Sim ρ (⟨n, a, k⟩ :: sc) (⟨n, a, f, v⟩ :: fs) := by
  intro name ar e he
  rw [lookupFun_cons] at he
  rw [lookupS_cons]
  by_cases hkey : (n == name && a == ar) = true
  · simp only [hkey, if_true, Option.some.injEq] at he ⊢
    subst he
    cases f with
    | arg => trivial
    | parent ps id => obtain ⟨l, h1, h2⟩ := hk; exact ⟨l, by rw [h1], h2⟩
    | sibling ps id trs => obtain ⟨nd, h1, h2⟩ := hk; exact ⟨nd, by rw [h1], h2⟩
  · simp only [hkey] at he ⊢
    exact h name ar e he

theorem WFS_cons {sc d} (n a : Nat) (k : Kind) (h : WFS sc d) (hk : KindOk d k) : WFS (⟨n, a, k⟩ :: sc) d := by
  intro name ar k' hl
  rw [lookupS_cons] at hl
  by_cases hkey : (n == name && a == ar) = true
  · simp only [hkey, if_true, Option.some.injEq] at hl; subst hl; exact hk
  · simp only [hkey] at hl; exact h name ar k' hl

theorem KindOk_mono {d d' : Nat} (hd : d ≤ d') {k : Kind} (h : KindOk d k) : KindOk d' k := by
  cases k with
  | anc l => exact Nat.lt_of_lt_of_le h hd
  | sib needs => intro l hl; exact Nat.lt_of_lt_of_le (h l hl) hd
  | arg => trivial

theorem WFS_mono {sc d d'} (hd : d ≤ d') (h : WFS sc d) : WFS sc d' :=
  fun name ar k hl => KindOk_mono hd (h name ar k hl)

theorem Sim_pushParams {ρ} : ∀ (ps : List Param) (sc : Scope) (L : Locals), Sim ρ sc L.funs →
    Sim ρ (pushParamsS sc ps) (L.pushParams ps).funs
  | [], _, _, h => h
  | p :: ps, sc, L, h => by
    unfold pushParamsS Locals.pushParams
    by_cases hv : p.isVar = true
    · simp only [hv, if_true]
      exact Sim_pushParams ps sc (L.pushVars [p.name]) h
    · simp only [hv]
      exact Sim_pushParams ps _ (L.pushArg p.name) (Sim_cons p.name 0 _ .arg .arg h trivial)

theorem WFS_pushParams {d} : ∀ (ps : List Param) (sc : Scope), WFS sc d → WFS (pushParamsS sc ps) d
  | [], _, h => h
  | p :: ps, sc, h => by
    unfold pushParamsS
    by_cases hv : p.isVar = true
    · simp only [hv, if_true]; exact WFS_pushParams ps sc h
    · simp only [hv]; exact WFS_pushParams ps _ (WFS_cons p.name 0 .arg h trivial)

theorem Sim_upd {ρ sc fs d} (id : Nat) (h : Sim ρ sc fs) (hw : WFS sc d) : Sim (upd ρ d id) sc fs := by
  intro name ar e he
  have := h name ar e he
  cases hf : e.f with
  | arg => trivial
  | parent ps i =>
    rw [hf] at this
    obtain ⟨l, h1, h2⟩ := this
    have hl : l < d := hw name ar _ h1
    exact ⟨l, h1, by simp [upd, Nat.ne_of_lt hl, h2]⟩
  | sibling ps i trs =>
    rw [hf] at this
    obtain ⟨nd, h1, h2⟩ := this
    refine ⟨nd, h1, fun x hx hne => ?_⟩
    obtain ⟨l, hl, hρ⟩ := h2 x hx hne
    have hld : l < d := hw name ar _ h1 l hl
    exact ⟨l, hl, by simp [upd, Nat.ne_of_lt hld, hρ]⟩

theorem both_some {a b : Option (List Nat)} {k} {r : List Nat} (h : both a b k = some r) :
    ∃ x y, a = some x ∧ b = some y ∧ r = k x y := by
  cases a <;> cases b <;> simp [both] at h
  exact ⟨_, _, rfl, rfl, h.symm⟩

theorem nonTail_some {a : Option (List Nat)} {r : List Nat} (h : nonTail a = some r) :
    ∃ x, a = some x ∧ r = [] := by
  cases a <;> simp [nonTail] at h
  exact ⟨_, rfl, h⟩

theorem itermArgs_length (M : List ModDef) : ∀ (as : Args) (L : Locals) (s : St),
    (itermArgs M as L s).1.length = as.length
  | .nil, _, _ => by simp [itermArgs, Args.length]
  | .cons a as, L, s => by
    simp only [itermArgs, Args.length, List.length_cons]
    rw [itermArgs_length M as]

theorem callMod_noCA (M : List ModDef) (total name : Nat) (ids : List Nat) (c : CT)
    (h : callMod M total name ids = some c) : NoCA c := by
  unfold callMod at h
  split at h
  · simp at h
  · simp only [Option.some.injEq] at h; subst h; split <;> trivial

theorem resolve_none (M : List ModDef) (L : Locals) (name : Nat) (ids : List Nat) (tr : Tr)
    (h : lookupFun L.funs name ids.length = none) :
    resolve M L name ids tr = (match callMod M L.total name ids with | some c => (c, []) | none => (.native ids, [])) := by
  simp only [resolve, Locals.call, h]
  rfl

theorem resolve_arg (M : List ModDef) (L : Locals) (name : Nat) (ids : List Nat) (tr : Tr) {e : FunEntry}
    (h : lookupFun L.funs name ids.length = some e) (hf : e.f = .arg) :
    resolve M L name ids tr = (.var (L.total - e.vars), []) := by
  simp [resolve, Locals.call, h, hf]

theorem resolve_parent (M : List ModDef) (L : Locals) (name : Nat) (ids : List Nat) (tr : Tr) {e : FunEntry}
    {ps id} (h : lookupFun L.funs name ids.length = some e) (hf : e.f = .parent ps id) :
    resolve M L name ids tr =
      if tr.contains id = true then (.callDef id (binds ps ids) (L.total - e.vars) .throw, [id])
      else (.callDef id (binds ps ids) (L.total - e.vars) .catchAll, []) := by
  simp only [resolve, Locals.call, h, hf]
  by_cases hc : id ∈ tr <;> simp [hc]

theorem resolve_sibling (M : List ModDef) (L : Locals) (name : Nat) (ids : List Nat) (tr : Tr) {e : FunEntry}
    {ps id trs} (h : lookupFun L.funs name ids.length = some e) (hf : e.f = .sibling ps id trs) :
    resolve M L name ids tr =
      if subB (Tr.remove trs id) tr = true then
        (.callDef id (binds ps ids) (L.total - e.vars) (if trs.contains id = true then .catchOne else .inline), Tr.remove trs id)
      else (.callDef id (binds ps ids) (L.total - e.vars) .catchAll, []) := by
  simp only [resolve, Locals.call, h, hf]
  by_cases hc : subB (Tr.remove trs id) tr = true <;> simp [hc]

/-- the classification of one call, given that the specification accepts it -/
theorem resolve_ok (M : List ModDef) {ρ sc} (L : Locals) (name : Nat) (ids : List Nat) (tr : Tr)
    (T R : List Nat) (hsim : Sim ρ sc L.funs) (hT : ∀ l ∈ T, ρ l ∈ tr)
    (hspec : (match lookupS sc name ids.length with
      | some (.anc l) => if T.contains l then some [l] else none
      | some (.sib needs) => if subB needs T then some needs else none
      | _ => some []) = some R) :
    NoCA (resolve M L name ids tr).1 ∧ (∀ x ∈ (resolve M L name ids tr).2, ∃ l ∈ R, ρ l = x) ∧
      (∀ l ∈ R, l ∈ T) := by
  have hRT : ∀ l ∈ R, l ∈ T := by
    split at hspec
    · split at hspec
      · rename_i hc; simp only [Option.some.injEq] at hspec; subst hspec
        intro l hl; simp at hl; subst hl; simpa using hc
      · simp at hspec
    · split at hspec
      · rename_i hs; simp only [Option.some.injEq] at hspec; subst hspec
        exact (subB_iff _ _).mp hs
      · simp at hspec
    · simp only [Option.some.injEq] at hspec; subst hspec; simp
  cases hl : lookupFun L.funs name ids.length with
  | none =>
    rw [resolve_none M L name ids tr hl]
    cases hm : callMod M L.total name ids with
    | none => exact ⟨trivial, by simp, hRT⟩
    | some c => exact ⟨callMod_noCA M _ _ _ c hm, by simp, hRT⟩
  | some e =>
    have hs := hsim name ids.length e hl
    cases hf : e.f with
    | arg => rw [resolve_arg M L name ids tr hl hf]; exact ⟨trivial, by simp, hRT⟩
    | parent ps id =>
      rw [hf] at hs
      obtain ⟨l, h1, h2⟩ := hs
      rw [h1] at hspec
      simp only at hspec
      split at hspec
      · rename_i hc
        simp only [Option.some.injEq] at hspec; subst hspec
        have hin : tr.contains id = true := by
          have := hT l (by simpa using hc); rw [h2] at this; simpa using this
        rw [resolve_parent M L name ids tr hl hf, if_pos hin]
        exact ⟨trivial, by intro x hx; simp at hx; subst hx; exact ⟨l, by simp, h2⟩, hRT⟩
      · simp at hspec
    | sibling ps id trs =>
      rw [hf] at hs
      obtain ⟨nd, h1, h2⟩ := hs
      rw [h1] at hspec
      simp only at hspec
      split at hspec
      · rename_i hc
        simp only [Option.some.injEq] at hspec; subst hspec
        have hsub : subB (Tr.remove trs id) tr = true := by
          rw [subB_iff]; intro x hx
          obtain ⟨hx1, hx2⟩ := mem_remove.mp hx
          obtain ⟨l, hl1, hl2⟩ := h2 x hx1 hx2
          rw [← hl2]; exact hT l ((subB_iff _ _).mp hc l hl1)
        rw [resolve_sibling M L name ids tr hl hf, if_pos hsub]
        refine ⟨?_, ?_, hRT⟩
        · simp only; split <;> trivial
        · intro x hx
          obtain ⟨hx1, hx2⟩ := mem_remove.mp hx
          exact h2 x hx1 hx2
      · simp at hspec

end Jaq.C04

namespace Jaq.C04

/-- what the classification theorem establishes for one compiled term -/
structure Post (ρ : Nat → Nat) (N T : List Nat) (r : R) : Prop where
  out : OutNoCA r.st
  ct : NoCA r.ct
  tr : ∀ x ∈ r.tr, ∃ l ∈ N, ρ l = x
  sub : ∀ l ∈ N, l ∈ T

theorem wrap_out {ρ N T} {r : R} (id : Nat) (h : Post ρ N T r) : OutNoCA (wrapI id r).st := by
  intro e he
  simp only [wrapI_out, List.mem_cons] at he
  rcases he with rfl | he
  · exact h.ct
  · exact h.out e he

theorem wrap_out' {ρ N T} {r : R} (id : Nat) (h : Post ρ N T r) : OutNoCA (wrapI id r).st.bump :=
  wrap_out id h

theorem post_nontail {ρ : Nat → Nat} {T : List Nat} {c : CT} {s : St} (hs : OutNoCA s) (hc : NoCA c) :
    Post ρ [] T ⟨c, [], s⟩ :=
  ⟨hs, hc, by simp, by simp⟩

mutual
theorem term_ok (M : List ModDef) (wide : Bool) : ∀ (t : Tm) (sc : Scope) (T : List Nat) (d : Nat) (N : List Nat),
    spec wide t sc T d = some N → ∀ (ρ : Nat → Nat) (tr : Tr) (L : Locals) (s : St),
    Sim ρ sc L.funs → WFS sc d → (∀ l ∈ T, l < d) → (∀ l ∈ T, ρ l ∈ tr) → OutNoCA s →
    Post ρ N T (term M t tr L s)
  | .leaf, sc, T, d, N, h, ρ, tr, L, s, _, _, _, _, hs => by
    simp only [spec, Option.some.injEq] at h; subst h
    simp only [term]; exact post_nontail hs trivial
  | .var x, sc, T, d, N, h, ρ, tr, L, s, _, _, _, _, hs => by
    simp only [spec, Option.some.injEq] at h; subst h
    simp only [term]; refine post_nontail hs ?_; split <;> trivial
  | .brk x, sc, T, d, N, h, ρ, tr, L, s, _, _, _, _, hs => by
    simp only [spec, Option.some.injEq] at h; subst h
    simp only [term]; refine post_nontail hs ?_; split <;> trivial
  | .label x t, sc, T, d, N, h, ρ, tr, L, s, hsim, hwf, _, _, hs => by
    simp only [spec] at h
    obtain ⟨n0, h0, hN⟩ := nonTail_some h
    rw [hN]
    have ka := fun s' hs' => term_ok M wide t sc [] d n0 h0 ρ [] (L.pushLabel x) s' hsim hwf (by simp) (by simp) hs'
    simp only [term]; exact post_nontail (wrap_out _ (ka s.bump hs)) trivial
  | .call name args, sc, T, d, N, h, ρ, tr, L, s, hsim, hwf, _, hT2, hs => by
    simp only [spec] at h
    split at h
    · rename_i hargs
      have ha := args_ok M wide args sc d hargs ρ L s hsim hwf hs
      have hlen := itermArgs_length M args L s
      rw [← hlen] at h
      have hr := resolve_ok M L name (itermArgs M args L s).1 tr T N hsim hT2 h
      simp only [term]
      exact ⟨ha, hr.1, hr.2.1, hr.2.2⟩
    · simp at h
  | .nary args, sc, T, d, N, h, ρ, tr, L, s, hsim, hwf, _, _, hs => by
    simp only [spec] at h
    split at h
    · rename_i hargs
      simp only [Option.some.injEq] at h; subst h
      have ha := args_ok M wide args sc d hargs ρ L s hsim hwf hs
      simp only [term]; exact post_nontail ha trivial
    · simp at h
  | .un t, sc, T, d, N, h, ρ, tr, L, s, hsim, hwf, _, _, hs => by
    simp only [spec] at h
    obtain ⟨n0, h0, hN⟩ := nonTail_some h
    rw [hN]
    have ka := fun s' hs' => term_ok M wide t sc [] d n0 h0 ρ [] L s' hsim hwf (by simp) (by simp) hs'
    simp only [term]; exact post_nontail (wrap_out _ (ka s.bump hs)) trivial
  | .tryc a b, sc, T, d, N, h, ρ, tr, L, s, hsim, hwf, _, _, hs => by
    simp only [spec] at h
    obtain ⟨na, nb, h1, h2, hN⟩ := both_some h
    have hN : N = [] := hN
    rw [hN]
    have ka := fun s' hs' => term_ok M wide a sc [] d na h1 ρ [] L s' hsim hwf (by simp) (by simp) hs'
    have kb := fun s' hs' => term_ok M wide b sc [] d nb h2 ρ [] L s' hsim hwf (by simp) (by simp) hs'
    simp only [term]; exact post_nontail (wrap_out _ (kb _ (wrap_out' _ (ka s.bump hs)))) trivial
  | .bin a b, sc, T, d, N, h, ρ, tr, L, s, hsim, hwf, _, _, hs => by
    simp only [spec] at h
    obtain ⟨na, nb, h1, h2, hN⟩ := both_some h
    have hN : N = [] := hN
    rw [hN]
    have ka := fun s' hs' => term_ok M wide a sc [] d na h1 ρ [] L s' hsim hwf (by simp) (by simp) hs'
    have kb := fun s' hs' => term_ok M wide b sc [] d nb h2 ρ [] L s' hsim hwf (by simp) (by simp) hs'
    simp only [term]; exact post_nontail (wrap_out _ (kb _ (wrap_out' _ (ka s.bump hs)))) trivial
  | .pipe a pat b, sc, T, d, N, h, ρ, tr, L, s, hsim, hwf, hT1, hT2, hs => by
    simp only [spec] at h
    obtain ⟨na, nb, h1, h2, hN⟩ := both_some h
    have hN : N = nb := hN
    rw [hN]
    have ka := fun s' hs' => term_ok M wide a sc [] d na h1 ρ [] L s' hsim hwf (by simp) (by simp) hs'
    have kb := fun s' hs' => term_ok M wide b sc T d nb h2 ρ tr (L.pushVars (pat.getD [])) s' hsim hwf hT1 hT2 hs'
    have hb := kb _ (wrap_out' s.next (ka s.bump hs))
    simp only [term]
    exact ⟨wrap_out _ hb, trivial, hb.tr, hb.sub⟩
  | .comma a b, sc, T, d, N, h, ρ, tr, L, s, hsim, hwf, hT1, hT2, hs => by
    simp only [spec] at h
    obtain ⟨na, nb, h1, h2, hN⟩ := both_some h
    have hN : N = na ++ nb := hN
    rw [hN]
    have ha : Post ρ na T (term M a tr L s.bump) := by
      cases wide with
      | true => exact term_ok M true a sc T d na h1 ρ tr L s.bump hsim hwf hT1 hT2 hs
      | false =>
        have := term_ok M false a sc [] d na h1 ρ tr L s.bump hsim hwf (by simp) (by simp) hs
        exact ⟨this.out, this.ct, this.tr, fun l hl => absurd (this.sub l hl) (by simp)⟩
    have kb := fun s' hs' => term_ok M wide b sc T d nb h2 ρ tr L s' hsim hwf hT1 hT2 hs'
    have hb := kb _ (wrap_out' s.next ha)
    simp only [term]
    refine ⟨wrap_out _ hb, trivial, ?_, ?_⟩
    · intro x hx
      simp only [wrapI_tr] at hx
      rcases List.mem_append.mp hx with hx | hx
      · obtain ⟨l, hl, hρ⟩ := ha.tr x hx; exact ⟨l, List.mem_append_left _ hl, hρ⟩
      · obtain ⟨l, hl, hρ⟩ := hb.tr x hx; exact ⟨l, List.mem_append_right _ hl, hρ⟩
    · intro l hl
      rcases List.mem_append.mp hl with hl | hl
      · exact ha.sub l hl
      · exact hb.sub l hl
  | .alt a b, sc, T, d, N, h, ρ, tr, L, s, hsim, hwf, hT1, hT2, hs => by
    simp only [spec] at h
    obtain ⟨na, nb, h1, h2, hN⟩ := both_some h
    have hN : N = nb := hN
    rw [hN]
    have ka := fun s' hs' => term_ok M wide a sc [] d na h1 ρ [] L s' hsim hwf (by simp) (by simp) hs'
    have kb := fun s' hs' => term_ok M wide b sc T d nb h2 ρ tr L s' hsim hwf hT1 hT2 hs'
    have hb := kb _ (wrap_out' s.next (ka s.bump hs))
    simp only [term]
    exact ⟨wrap_out _ hb, trivial, hb.tr, hb.sub⟩
  | .ite c a b, sc, T, d, N, h, ρ, tr, L, s, hsim, hwf, hT1, hT2, hs => by
    simp only [spec] at h
    obtain ⟨nc, nab, h0, h12, hN⟩ := both_some h
    obtain ⟨na, nb, h1, h2, hN2⟩ := both_some h12
    have hN : N = na ++ nb := by rw [hN, hN2]
    rw [hN]
    have kc := fun s' hs' => term_ok M wide c sc [] d nc h0 ρ [] L s' hsim hwf (by simp) (by simp) hs'
    have ka := fun s' hs' => term_ok M wide a sc T d na h1 ρ tr L s' hsim hwf hT1 hT2 hs'
    have kb := fun s' hs' => term_ok M wide b sc T d nb h2 ρ tr L s' hsim hwf hT1 hT2 hs'
    have ha := ka _ (wrap_out' s.next (kc s.bump hs))
    have hb := kb _ (wrap_out (wrapI s.next (term M c [] L s.bump)).st.next ha)
    simp only [term]
    refine ⟨?_, trivial, ?_, ?_⟩
    · intro e he
      simp only [insert_out, List.mem_cons] at he
      rcases he with rfl | he
      · exact hb.ct
      · exact hb.out e he
    · intro x hx
      simp only [wrapI_tr] at hx
      rcases List.mem_append.mp hx with hx | hx
      · obtain ⟨l, hl, hρ⟩ := ha.tr x hx; exact ⟨l, List.mem_append_left _ hl, hρ⟩
      · obtain ⟨l, hl, hρ⟩ := hb.tr x hx; exact ⟨l, List.mem_append_right _ hl, hρ⟩
    · intro l hl
      rcases List.mem_append.mp hl with hl | hl
      · exact ha.sub l hl
      · exact hb.sub l hl
  | .reduce xs pat init upd, sc, T, d, N, h, ρ, tr, L, s, hsim, hwf, _, _, hs => by
    simp only [spec] at h
    obtain ⟨n1, n23, h1, h23, hN⟩ := both_some h
    obtain ⟨n2, n3, h2, h3, _⟩ := both_some h23
    have hN : N = [] := hN
    rw [hN]
    have ka := fun s' hs' => term_ok M wide xs sc [] d n1 h1 ρ [] L s' hsim hwf (by simp) (by simp) hs'
    have kb := fun s' hs' => term_ok M wide init sc [] d n2 h2 ρ [] L s' hsim hwf (by simp) (by simp) hs'
    have kc := fun s' hs' => term_ok M wide upd sc [] d n3 h3 ρ [] (L.pushVars pat) s' hsim hwf (by simp) (by simp) hs'
    simp only [term]
    exact post_nontail (wrap_out _ (kc _ (wrap_out' _ (kb _ (wrap_out' _ (ka s.bump hs)))))) trivial
  | .foreach2 xs pat init upd, sc, T, d, N, h, ρ, tr, L, s, hsim, hwf, _, _, hs => by
    simp only [spec] at h
    obtain ⟨n1, n23, h1, h23, hN⟩ := both_some h
    obtain ⟨n2, n3, h2, h3, _⟩ := both_some h23
    have hN : N = [] := hN
    rw [hN]
    have ka := fun s' hs' => term_ok M wide xs sc [] d n1 h1 ρ [] L s' hsim hwf (by simp) (by simp) hs'
    have kb := fun s' hs' => term_ok M wide init sc [] d n2 h2 ρ [] L s' hsim hwf (by simp) (by simp) hs'
    have kc := fun s' hs' => term_ok M wide upd sc [] d n3 h3 ρ [] (L.pushVars pat) s' hsim hwf (by simp) (by simp) hs'
    simp only [term]
    exact post_nontail (wrap_out _ (kc _ (wrap_out' _ (kb _ (wrap_out' _ (ka s.bump hs)))))) trivial
  | .foreach3 xs pat init upd proj, sc, T, d, N, h, ρ, tr, L, s, hsim, hwf, hT1, hT2, hs => by
    simp only [spec] at h
    obtain ⟨n1, n234, h1, h234, hN⟩ := both_some h
    obtain ⟨n2, n34, h2, h34, hN2⟩ := both_some h234
    obtain ⟨n3, n4, h3, h4, hN3⟩ := both_some h34
    have hN : N = n4 := by rw [hN, hN2, hN3]
    rw [hN]
    have ka := fun s' hs' => term_ok M wide xs sc [] d n1 h1 ρ [] L s' hsim hwf (by simp) (by simp) hs'
    have kb := fun s' hs' => term_ok M wide init sc [] d n2 h2 ρ [] L s' hsim hwf (by simp) (by simp) hs'
    have kc := fun s' hs' => term_ok M wide upd sc [] d n3 h3 ρ [] (L.pushVars pat) s' hsim hwf (by simp) (by simp) hs'
    have kd := fun s' hs' => term_ok M wide proj sc T d n4 h4 ρ tr (L.pushVars pat) s' hsim hwf hT1 hT2 hs'
    simp only [term]
    refine ⟨wrap_out _ (kd _ ?o), trivial, (kd _ ?o).tr, (kd _ ?o).sub⟩
    exact wrap_out' _ (kc _ (wrap_out' _ (kb _ (wrap_out' _ (ka s.bump hs)))))
  | .defIn n ps body rest, sc, T, d, N, h, ρ, tr, L, s, hsim, hwf, hT1, hT2, hs => by
    simp only [spec] at h
    split at h
    · simp at h
    · rename_i rb hb0
      -- the body: one level deeper, `d ↦ id`
      have hsim' : Sim (upd ρ d s.next) (⟨n, ps.length, .anc d⟩ :: pushParamsS sc ps)
          (L.pushParent n ps s.next).funs := by
        refine Sim_cons n ps.length L.total (.anc d) (.parent ps s.next)
          (Sim_pushParams ps sc L (Sim_upd s.next hsim hwf)) ⟨d, rfl, by simp [upd]⟩
      have hwf' : WFS (⟨n, ps.length, .anc d⟩ :: pushParamsS sc ps) (d + 1) :=
        WFS_cons n ps.length (.anc d) (WFS_pushParams ps sc (WFS_mono (Nat.le_succ d) hwf)) (Nat.lt_succ_self d)
      have hT1' : ∀ l ∈ d :: T, l < d + 1 := by
        intro l hl
        rcases List.mem_cons.mp hl with rfl | hl
        · exact Nat.lt_succ_self _
        · exact Nat.lt_succ_of_lt (hT1 l hl)
      have hT2' : ∀ l ∈ d :: T, upd ρ d s.next l ∈ s.next :: tr := by
        intro l hl
        rcases List.mem_cons.mp hl with rfl | hl
        · simp [upd]
        · have : l ≠ d := Nat.ne_of_lt (hT1 l hl)
          simp only [upd, this, if_false]
          exact List.mem_cons_of_mem _ (hT2 l hl)
      have hb := term_ok M wide body _ (d :: T) (d + 1) rb hb0 (upd ρ d s.next) (s.next :: tr)
        (L.pushParent n ps s.next) s.bump hsim' hwf' hT1' hT2' hs
      -- the rest: the definition is a sibling that needs `rb \ {d}`
      have hsimr : Sim ρ (⟨n, ps.length, .sib (Tr.remove rb d)⟩ :: sc)
          (L.pushSibling n ps s.next (term M body (s.next :: tr) (L.pushParent n ps s.next) s.bump).tr).funs := by
        refine Sim_cons n ps.length L.total _ (.sibling ps s.next _) hsim ⟨_, rfl, ?_⟩
        intro x hx hne
        obtain ⟨l, hl, hρ⟩ := hb.tr x hx
        have hld : l ≠ d := by
          intro hld; subst hld; simp [upd] at hρ; exact hne hρ.symm
        refine ⟨l, mem_remove.mpr ⟨hl, hld⟩, ?_⟩
        simpa [upd, hld] using hρ
      have hwfr : WFS (⟨n, ps.length, .sib (Tr.remove rb d)⟩ :: sc) d := by
        refine WFS_cons n ps.length _ hwf ?_
        intro l hl
        obtain ⟨hl1, hl2⟩ := mem_remove.mp hl
        rcases List.mem_cons.mp (hb.sub l hl1) with rfl | hlT
        · exact absurd rfl hl2
        · exact hT1 l hlT
      have hsr : OutNoCA ((term M body (s.next :: tr) (L.pushParent n ps s.next) s.bump).st.emit s.next
          (term M body (s.next :: tr) (L.pushParent n ps s.next) s.bump).ct
          (term M body (s.next :: tr) (L.pushParent n ps s.next) s.bump).tr) := by
        intro e he
        simp only [emit_out, List.mem_cons] at he
        rcases he with rfl | he
        · exact hb.ct
        · exact hb.out e he
      have hr := term_ok M wide rest _ T d N h ρ tr _ _ hsimr hwfr hT1 hT2 hsr
      simp only [term]
      exact hr
theorem args_ok (M : List ModDef) (wide : Bool) : ∀ (as : Args) (sc : Scope) (d : Nat),
    specArgs wide as sc d = true → ∀ (ρ : Nat → Nat) (L : Locals) (s : St),
    Sim ρ sc L.funs → WFS sc d → OutNoCA s → OutNoCA (itermArgs M as L s).2
  | .nil, _, _, _, _, _, s, _, _, hs => by simp only [itermArgs]; exact hs
  | .cons a as, sc, d, h, ρ, L, s, hsim, hwf, hs => by
    simp only [specArgs, Bool.and_eq_true] at h
    obtain ⟨n0, h0⟩ := Option.isSome_iff_exists.mp h.1
    have ha := term_ok M wide a sc [] d n0 h0 ρ [] L s.bump hsim hwf (by simp) (by simp) hs
    have := args_ok M wide as sc d h.2 ρ L _ hsim hwf (wrap_out s.next ha)
    simp only [itermArgs]
    exact this
end

end Jaq.C04

namespace Jaq.C04

/-- one top-level definition of a module (`open_def` with `tr = ∅`, as `Compiler::module` does) -/
theorem module_ok (wide : Bool) (main : Tm) (N : List Nat) : ∀ (ds : List DefS) (sc : Scope) (ρ : Nat → Nat)
    (L : Locals) (acc : List ModDef) (s : St),
    spec wide (nestOf ds main) sc [] 0 = some N → Sim ρ sc L.funs → WFS sc 0 → OutNoCA s →
    (∃ sc', spec wide main sc' [] 0 = some N ∧ WFS sc' 0) ∧ OutNoCA (compileModule ds L acc s).2
  | [], sc, ρ, L, acc, s, h, _, hwf, hs => by
    simp only [nestOf, List.foldr_nil] at h
    exact ⟨⟨sc, h, hwf⟩, by simp only [compileModule]; exact hs⟩
  | dd :: ds, sc, ρ, L, acc, s, h, hsim, hwf, hs => by
    have hn : nestOf (dd :: ds) main = .defIn dd.name dd.params dd.body (nestOf ds main) := rfl
    rw [hn] at h
    simp only [spec] at h
    split at h
    · simp at h
    · rename_i rb hb0
      have hsim' : Sim (upd ρ 0 s.next) (⟨dd.name, dd.params.length, .anc 0⟩ :: pushParamsS sc dd.params)
          (L.pushParent dd.name dd.params s.next).funs :=
        Sim_cons dd.name dd.params.length L.total (.anc 0) (.parent dd.params s.next)
          (Sim_pushParams dd.params sc L (Sim_upd s.next hsim hwf)) ⟨0, rfl, by simp [upd]⟩
      have hwf' : WFS (⟨dd.name, dd.params.length, .anc 0⟩ :: pushParamsS sc dd.params) 1 :=
        WFS_cons dd.name dd.params.length (.anc 0) (WFS_pushParams dd.params sc (WFS_mono (Nat.le_succ 0) hwf))
          (Nat.lt_succ_self 0)
      have hb := term_ok [] wide dd.body _ [0] 1 rb hb0 (upd ρ 0 s.next) [s.next]
        (L.pushParent dd.name dd.params s.next) s.bump hsim' hwf' (by simp) (by simp [upd]) hs
      have hsimr : Sim ρ (⟨dd.name, dd.params.length, .sib (Tr.remove rb 0)⟩ :: sc)
          (L.pushSibling dd.name dd.params s.next
            (term [] dd.body [s.next] (L.pushParent dd.name dd.params s.next) s.bump).tr).funs := by
        refine Sim_cons dd.name dd.params.length L.total _ (.sibling dd.params s.next _) hsim ⟨_, rfl, ?_⟩
        intro x hx hne
        obtain ⟨l, hl, hρ⟩ := hb.tr x hx
        have hld : l ≠ 0 := by
          intro hld; subst hld; simp [upd] at hρ; exact hne hρ.symm
        exact ⟨l, mem_remove.mpr ⟨hl, hld⟩, by simpa [upd, hld] using hρ⟩
      have hwfr : WFS (⟨dd.name, dd.params.length, .sib (Tr.remove rb 0)⟩ :: sc) 0 := by
        refine WFS_cons dd.name dd.params.length _ hwf ?_
        intro l hl
        obtain ⟨hl1, hl2⟩ := mem_remove.mp hl
        have := hb.sub l hl1
        simp at this
        exact absurd this hl2
      have hsr : OutNoCA ((term [] dd.body [s.next] (L.pushParent dd.name dd.params s.next) s.bump).st.emit s.next
          (term [] dd.body [s.next] (L.pushParent dd.name dd.params s.next) s.bump).ct
          (term [] dd.body [s.next] (L.pushParent dd.name dd.params s.next) s.bump).tr) := by
        intro e he
        simp only [emit_out, List.mem_cons] at he
        rcases he with rfl | he
        · exact hb.ct
        · exact hb.out e he
      have := module_ok wide main N ds _ ρ _ (⟨dd.name, dd.params, s.next,
        (term [] dd.body [s.next] (L.pushParent dd.name dd.params s.next) s.bump).tr⟩ :: acc) _ h hsimr hwfr hsr
      simp only [compileModule, openDef]
      exact this

theorem sim_empty (ρ : Nat → Nat) (sc : Scope) : Sim ρ sc ({} : Locals).funs := by
  intro name ar e he
  simp [lookupFun] at he

theorem compileMain_ok (wide : Bool) (ds : List DefS) (main : Tm) (h : TailNest wide (nestOf ds main)) :
    OutNoCA (compileMain ds main).2 := by
  obtain ⟨N, hN⟩ := Option.isSome_iff_exists.mp h
  obtain ⟨⟨sc', hmain, hwf'⟩, hout⟩ := module_ok wide main N ds [] (fun _ => 0) {} [] {} hN
    (sim_empty _ _) (by intro name ar k hk; simp [lookupS] at hk) (by intro e he; simp at he)
  have hm := term_ok (compileModule ds {} [] {}).1 wide main sc' [] 0 N hmain (fun _ => 0) [] {}
    (compileModule ds {} [] {}).2.bump (sim_empty _ _) hwf' (by simp) (by simp) hout
  simp only [compileMain]
  exact wrap_out _ hm

end Jaq.C04
