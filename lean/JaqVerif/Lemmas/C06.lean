/- C06 — helper lemmas: the effect lattice, joins, the monitor automaton. -/
import JaqVerif.C06.Trace

namespace Jaq.C06

open EffectSet

namespace EffectSet

theorem union_def (a b : EffectSet) : a ∪ b = union a b := rfl

theorem union_assoc (a b c : EffectSet) : (a ∪ b) ∪ c = a ∪ (b ∪ c) := by
  simp only [union_def, union, Bool.or_assoc]

theorem union_comm (a b : EffectSet) : a ∪ b = b ∪ a := by
  cases a; cases b
  simp only [union_def, union, mk.injEq]
  refine ⟨?_, ?_, ?_, ?_, ?_, ?_⟩ <;> exact Bool.or_comm _ _

theorem union_idem (a : EffectSet) : a ∪ a = a := by
  cases a; simp [union_def, union]

theorem union_pure (a : EffectSet) : a ∪ pure = a := by
  cases a; simp [union_def, union, pure]

theorem pure_union (a : EffectSet) : pure ∪ a = a := by
  cases a; simp [union_def, union, pure]

theorem joinAll_nil : joinAll [] = pure := rfl
theorem joinAll_cons (a : EffectSet) (l : List EffectSet) : joinAll (a :: l) = a ∪ joinAll l := rfl

theorem joinAll_append (l m : List EffectSet) : joinAll (l ++ m) = joinAll l ∪ joinAll m := by
  induction l with
  | nil => simp [joinAll_nil, pure_union]
  | cons a l ih => simp only [List.cons_append, joinAll_cons, ih, union_assoc]

theorem joinAll_flatMap {α β : Type} (l : List α) (f : α → List β) (g : β → EffectSet) :
    joinAll ((l.flatMap f).map g) = joinAll (l.map fun c => joinAll ((f c).map g)) := by
  induction l with
  | nil => rfl
  | cons a l ih => simp only [List.flatMap_cons, List.map_append, joinAll_append, List.map_cons, joinAll_cons, ih]

theorem fsAccess_union (a b : EffectSet) : (a ∪ b).fsAccess = (a.fsAccess || b.fsAccess) := by
  cases a; cases b
  simp only [union_def, union, fsAccess]
  simp only [Bool.or_assoc, Bool.or_left_comm]

theorem fsAccess_pure : pure.fsAccess = false := rfl

/-- a join touches the file system only if one of its members does -/
theorem fsAccess_joinAll (l : List EffectSet) : (joinAll l).fsAccess = true → ∃ a ∈ l, a.fsAccess = true := by
  induction l with
  | nil => intro h; simp [joinAll_nil, fsAccess_pure] at h
  | cons a l ih =>
    intro h
    rw [joinAll_cons, fsAccess_union, Bool.or_eq_true] at h
    rcases h with h | h
    · exact ⟨a, List.mem_cons_self, h⟩
    · obtain ⟨b, hb, hb'⟩ := ih h
      exact ⟨b, List.mem_cons_of_mem _ hb, hb'⟩

theorem le_refl (a : EffectSet) : le a a = true := by
  cases a; simp [le]

theorem le_union_left (a b : EffectSet) : le a (a ∪ b) = true := by
  cases a; cases b; simp only [union_def, union, le]
  rename_i a1 a2 a3 a4 a5 a6 b1 b2 b3 b4 b5 b6
  cases a1 <;> cases a2 <;> cases a3 <;> cases a4 <;> cases a5 <;> cases a6 <;> simp

theorem bimp_trans (x y z : Bool) : (!x || y) = true → (!y || z) = true → (!x || z) = true := by
  cases x <;> cases y <;> cases z <;> simp

theorem le_trans {a b c : EffectSet} (h1 : le a b = true) (h2 : le b c = true) : le a c = true := by
  cases a; cases b; cases c
  simp only [le, Bool.and_eq_true] at *
  obtain ⟨⟨⟨⟨⟨h11, h12⟩, h13⟩, h14⟩, h15⟩, h16⟩ := h1
  obtain ⟨⟨⟨⟨⟨h21, h22⟩, h23⟩, h24⟩, h25⟩, h26⟩ := h2
  exact ⟨⟨⟨⟨⟨bimp_trans _ _ _ h11 h21, bimp_trans _ _ _ h12 h22⟩, bimp_trans _ _ _ h13 h23⟩,
    bimp_trans _ _ _ h14 h24⟩, bimp_trans _ _ _ h15 h25⟩, bimp_trans _ _ _ h16 h26⟩

theorem le_joinAll_of_mem {a : EffectSet} {l : List EffectSet} (h : a ∈ l) : le a (joinAll l) = true := by
  induction l with
  | nil => cases h
  | cons b l ih =>
    rw [joinAll_cons]
    rcases List.mem_cons.mp h with rfl | h
    · exact le_union_left _ _
    · refine le_trans (ih h) ?_
      rw [union_comm]; exact le_union_left _ _

end EffectSet

/-! ## the monitor -/

theorem step_phase (pol : Policy) (s : MState) (e : Event) : (step pol s e).phase = s.phase.next e := rfl

theorem step_reject (pol : Policy) (s : MState) (e : Event) (i : Nat) (r : Reason)
    (h : s.verdict = .reject i r) : (step pol s e).verdict = .reject i r := by
  simp only [step, h]

/-- a rejection is never forgotten -/
theorem runFrom_reject (pol : Policy) (tr : List Event) : ∀ (s : MState) (i : Nat) (r : Reason),
    s.verdict = .reject i r → (runFrom pol s tr).verdict = .reject i r := by
  induction tr with
  | nil => intro s i r h; exact h
  | cons e tr ih =>
    intro s i r h
    simp only [runFrom, List.foldl_cons]
    exact ih (step pol s e) i r (step_reject pol s e i r h)

theorem runFrom_cons (pol : Policy) (s : MState) (e : Event) (tr : List Event) :
    runFrom pol s (e :: tr) = runFrom pol (step pol s e) tr := rfl

theorem runFrom_accept_start (pol : Policy) (tr : List Event) (s : MState)
    (h : (runFrom pol s tr).verdict = .accept) : s.verdict = .accept := by
  cases hv : s.verdict with
  | accept => rfl
  | reject i r => rw [runFrom_reject pol tr s i r hv] at h; cases h

theorem step_accept_exec (pol : Policy) (s : MState) (e : Event)
    (h : (step pol s e).verdict = .accept) (hph : s.phase = .exec) : permitted pol e = true := by
  cases hp : permitted pol e with
  | true => rfl
  | false =>
    cases hv : s.verdict with
    | accept => simp [step, hv, hph, hp] at h
    | reject i r => rw [step_reject pol s e i r hv] at h; cases h

/-- soundness of the automaton w.r.t. the inductive specification of the exec phase -/
theorem runFrom_sound (pol : Policy) (tr : List Event) : ∀ (s : MState) (ph : Phase), s.phase = ph →
    (runFrom pol s tr).verdict = .accept → ∀ e, ExecEvent ph tr e → permitted pol e = true := by
  induction tr with
  | nil => intro s ph _ _ e he; cases he
  | cons e' tr ih =>
    intro s ph hph h e he
    rw [runFrom_cons] at h
    cases he with
    | here => exact step_accept_exec pol s _ (runFrom_accept_start pol tr _ h) hph
    | there he2 => exact ih (step pol s _) _ (by rw [step_phase, hph]) h _ he2

/-- completeness: if every exec-phase event is permitted, the automaton accepts -/
theorem runFrom_complete (pol : Policy) (tr : List Event) : ∀ (s : MState) (ph : Phase), s.phase = ph →
    s.verdict = .accept → (∀ e, ExecEvent ph tr e → permitted pol e = true) →
    (runFrom pol s tr).verdict = .accept := by
  induction tr with
  | nil => intro s ph _ hs _; exact hs
  | cons e' tr ih =>
    intro s ph hph hs hall
    rw [runFrom_cons]
    apply ih (step pol s e') (ph.next e') (by rw [step_phase, hph])
    · simp only [step, hs]
      cases ph with
      | exec =>
        have : permitted pol e' = true := hall e' ExecEvent.here
        simp [this]
      | load => simp [hph]
      | done => simp [hph]
    · intro e he
      exact hall e (ExecEvent.there he)

end Jaq.C06
