import JaqVerif.Lemmas.C07Rfc
namespace Jaq.C07

theorem writeNum_canon (c : Cfg) (n : Num) : writeNum c (canonNum c n) = writeNum c n := by
  cases n with
  | int i => simp only [canonNum, Num.ofInt]; split <;> rfl
  | big i => simp only [canonNum, Num.ofInt]; split <;> rfl
  | float f =>
    simp only [canonNum]
    by_cases h1 : F64.isNaN f = true
    · have : F64.isNaN F64.nan = true := by decide
      simp [h1, writeNum, this]
    · by_cases h2 : (f == F64.posInf) = true
      · have e : f = F64.posInf := by simpa using h2
        have : F64.isNaN F64.posInf = false := by decide
        subst e
        simp [writeNum, this]
      · by_cases h3 : (f == F64.negInf) = true
        · have e : f = F64.negInf := by simpa using h3
          have a : F64.isNaN F64.negInf = false := by decide
          have b : (F64.negInf == F64.posInf) = false := by decide
          subst e
          simp [writeNum, a, b]
        · simp [h1, h2, h3, writeNum, decBytes_stringOfBytes]
  | dec s => rfl

/-- the value read back prints exactly like the original (no key sorting involved) -/
theorem writeVal_canon (c : Cfg) (pp : Pp) (hns : pp.sortKeys = false) : ∀ (k : Nat) (v : Val), v.size ≤ k →
    ∀ lvl, writeVal c pp lvl (canon c pp v) = writeVal c pp lvl v := by
  intro k
  induction k with
  | zero => intro v h; have := Val.size_pos v; omega
  | succ k ih =>
    intro v hsz lvl
    cases v with
    | null => rfl
    | bool b => rfl
    | num n => simp only [canon, writeVal, writeNum_canon]
    | tstr s => rfl
    | bstr s => rfl
    | arr a =>
      simp only [Val.size] at hsz
      have hl : writeList c pp (lvl + 1) (canonList c pp a) = writeList c pp (lvl + 1) a := by
        rw [canonList_map, writeList_map, writeList_map, List.map_map]
        apply List.map_congr_left
        intro v hv
        have := Val.size_lt_of_mem hv
        exact ih v (by omega) (lvl + 1)
      have he : (canonList c pp a).isEmpty = a.isEmpty := by cases a <;> simp [canonList]
      simp only [canon, writeVal, hl, he]
    | obj o =>
      simp only [Val.size] at hsz
      have hc : (sortTagged pp (canonEntries c pp o)).map (·.2) = o.map (fun e => (canon c pp e.1, canon c pp e.2)) := by
        simp [sortTagged, hns, canonEntries_map, Function.comp_def]
      have hl : writeEntries c pp (lvl + 1) (o.map (fun e => (canon c pp e.1, canon c pp e.2))) =
          (writeEntries c pp (lvl + 1) o).map (fun p => (canon c pp p.1, p.2)) := by
        rw [writeEntries_map, writeEntries_map, List.map_map, List.map_map]
        apply List.map_congr_left
        intro e he
        obtain ⟨a, b⟩ := e
        have := Val.size_entry_of_mem he
        simp only [Function.comp]
        rw [ih a (by omega) (lvl + 1), ih b (by omega) (lvl + 1)]
      have he : (o.map (fun e => (canon c pp e.1, canon c pp e.2))).isEmpty = o.isEmpty := by cases o <;> simp
      simp only [canon, writeVal, hc, hl, he, sortItems, hns, Bool.false_eq_true, if_false, List.map_map, Function.comp_def]

end Jaq.C07
