/- helper lemmas for Props/C14.lean (TOML part) -/
import JaqVerif.C14.Toml
namespace Jaq.C14.TomlLemmas
open Jaq Jaq.C14.Yaml Jaq.C14.Toml

theorem intOk_fixed (i : Int) (h : intOk true i = true) : i64Min ≤ i ∧ i ≤ i64Max := by
  simpa [intOk] using h

def SV (N : Nat) : Prop := ∀ v, v.size ≤ N → checkValue true v = .ok () → InDomain v
def SL (N : Nat) : Prop := ∀ a, Val.sizeList a ≤ N → checkList true a = .ok () → InDomainList a
def SE (N : Nat) : Prop := ∀ o, Val.sizeEntries o ≤ N → checkEntries true o = .ok () → InDomainEntries o

theorem toml_all (N : Nat) : SV N ∧ SL N ∧ SE N := by
  induction N with
  | zero =>
    refine ⟨?_, ?_, ?_⟩
    · intro v hv; have := Val.size_pos v; omega
    · intro a ha _
      cases a with
      | nil => exact .nil
      | cons v vs => simp only [Val.sizeList] at ha; have := Val.size_pos v; omega
    · intro o ho _
      cases o with
      | nil => exact .nil
      | cons e es => obtain ⟨k, v⟩ := e; simp only [Val.sizeEntries] at ho; have := Val.size_pos k; omega
  | succ N ih =>
    obtain ⟨ihV, ihL, ihE⟩ := ih
    have hV : SV (N + 1) := by
      intro v hv hc
      cases v with
      | null => simp [checkValue] at hc
      | bstr b => simp [checkValue] at hc
      | bool b => exact .bool b
      | tstr s => exact .tstr s
      | num n =>
        cases n with
        | int i =>
          simp only [checkValue] at hc
          split at hc
          · rename_i h; obtain ⟨h1, h2⟩ := intOk_fixed i h; exact .int i h1 h2
          · cases hc
        | big i =>
          simp only [checkValue] at hc
          split at hc
          · rename_i h; obtain ⟨h1, h2⟩ := intOk_fixed i h; exact .big i h1 h2
          · cases hc
        | float f => exact .float f
        | dec s => exact .dec s
      | arr a =>
        simp only [Val.size] at hv
        simp only [checkValue] at hc
        exact .arr a (ihL a (by omega) hc)
      | obj o =>
        simp only [Val.size] at hv
        simp only [checkValue] at hc
        exact .obj o (ihE o (by omega) hc)
    refine ⟨hV, ?_, ?_⟩
    · intro a
      induction a with
      | nil => intro _ _; exact .nil
      | cons v vs iha =>
        intro ha hc
        simp only [Val.sizeList] at ha
        simp only [checkList] at hc
        cases hv : checkValue true v with
        | error e => rw [hv] at hc; cases hc
        | ok u =>
          rw [hv] at hc
          exact .cons v vs (hV v (by omega) hv) (iha (by omega) hc)
    · intro o
      induction o with
      | nil => intro _ _; exact .nil
      | cons e es iho =>
        intro ho hc
        obtain ⟨k, v⟩ := e
        simp only [Val.sizeEntries] at ho
        cases k with
        | tstr s =>
          simp only [checkEntries] at hc
          cases hv : checkValue true v with
          | error e => rw [hv] at hc; cases hc
          | ok u =>
            rw [hv] at hc
            exact .cons s v es (hV v (by omega) hv) (iho (by omega) hc)
        | _ => simp [checkEntries] at hc

theorem spanBare_all (k tail : Bytes) (hk : k.all isBareChar = true)
    (ht : ∀ c r, tail = c :: r → isBareChar c = false) : spanBare (k ++ tail) = (k, tail) := by
  induction k with
  | nil =>
    cases tail with
    | nil => rfl
    | cons c r => simp [spanBare, ht c r rfl]
  | cons c r ih =>
    simp only [List.all_cons, Bool.and_eq_true] at hk
    simp [spanBare, hk.1, ih hk.2]

end Jaq.C14.TomlLemmas
