/- Round 2: `index_upd` on objects, `slice_upd` on strings (lemmas behind Props/C02.lean §3b). -/
import JaqVerif.Lemmas.C02Update

namespace Jaq.C02

/-! ### `swap_remove` is a removal up to the order of the entries -/

theorem swap_perm {α : Type} (l : List α) (k : Nat) (last : α) (hk : k < l.length)
    (hl : l.getLast? = some last) :
    (if k + 1 == l.length then l.dropLast else (l.set k last).dropLast).Perm (l.eraseIdx k) := by
  obtain ⟨ini, rfl⟩ := List.getLast?_eq_some_iff.mp hl
  simp only [List.length_append, List.length_cons, List.length_nil] at hk ⊢
  by_cases h : k + 1 = ini.length + (0 + 1)
  · have hki : ini.length ≤ k := by omega
    have hk0 : k - ini.length = 0 := by omega
    simp [h, List.eraseIdx_append_of_length_le hki, hk0]
  · have hki : k < ini.length := by omega
    have hb : (k + 1 == ini.length + (0 + 1)) = false := by simpa using h
    rw [hb]
    simp only [Bool.false_eq_true, if_false]
    rw [List.eraseIdx_append_of_lt_length hki, List.set_append_left _ _ hki, List.dropLast_concat,
      List.set_eq_take_append_cons_drop, if_pos hki, List.eraseIdx_eq_take_drop_succ]
    rw [List.append_assoc]
    exact List.Perm.append_left _ (List.perm_append_singleton _ _).symm

theorem swapRemove_perm (o : List (Val × Val)) (i : Val) :
    (Obj.swapRemove o i).Perm (o.eraseP fun kx => Obj.sameKey i kx.1) := by
  have hp : (fun (x : Val × Val) => match x with | (k', _) => Obj.sameKey i k')
      = fun kx => Obj.sameKey i kx.1 := by funext ⟨a, b⟩; rfl
  unfold Obj.swapRemove
  rw [hp, List.eraseP_eq_eraseIdx]
  cases hf : o.findIdx? (fun kx => Obj.sameKey i kx.1) with
  | none => exact List.Perm.refl _
  | some k =>
    have hk : k < o.length := (List.findIdx?_eq_some_iff_getElem.mp hf).1
    cases hl : o.getLast? with
    | none =>
      have : o = [] := List.getLast?_eq_none_iff.mp hl
      subst this; simp at hk
    | some last => exact swap_perm o k last hk hl

theorem insert_of_get {o : List (Val × Val)} {i x : Val} (h : Obj.get o i = some x) (y : Val) :
    Obj.insert o i y = o.map fun kx => if Obj.sameKey i kx.1 then (kx.1, y) else kx := by
  have hh : Obj.has o i = true := by simp [Obj.has, h]
  unfold Obj.insert
  rw [if_pos hh]

/-- `.[$i] |= u` on an object against the manual's `index_upd` -/
theorem mapIndex_obj_spec (o : List (Val × Val)) (i : Val) (opt : Bool) (u : Val → Out Val) :
    SameEntries (mapIndex (.obj o) i opt u) (indexUpdObj o i u) := by
  have hm : mapIndex (.obj o) i opt u =
      match Obj.get o i with
      | some x =>
        match (u x).next? with
        | .error e => .error e
        | .ok (some y) => .ok (.obj (Obj.insert o i y))
        | .ok none => .ok (.obj (Obj.swapRemove o i))
      | none =>
        match (u .null).next? with
        | .error e => .error e
        | .ok (some y) => .ok (.obj (o ++ [(i, y)]))
        | .ok none => .ok (.obj o) := by
    cases i <;> rfl
  rw [hm]
  unfold indexUpdObj firstOf
  cases hg : Obj.get o i with
  | none =>
    simp only []
    cases (u .null).next? with
    | error e => exact rfl
    | ok r => cases r <;> exact List.Perm.refl _
  | some x =>
    simp only []
    cases (u x).next? with
    | error e => exact rfl
    | ok r =>
      cases r with
      | none => exact swapRemove_perm o i
      | some y => show (Obj.insert o i y).Perm _; rw [insert_of_get hg]

/-- without deletion the result is *equal* to the manual's (entries in the same order) -/
theorem mapIndex_obj_exact (o : List (Val × Val)) (i : Val) (opt : Bool) (u : Val → Out Val)
    (hnd : ∀ x, (u x).next? ≠ .ok none) :
    mapIndex (.obj o) i opt u = (indexUpdObj o i u).map .obj := by
  have hm : mapIndex (.obj o) i opt u =
      match Obj.get o i with
      | some x =>
        match (u x).next? with
        | .error e => .error e
        | .ok (some y) => .ok (.obj (Obj.insert o i y))
        | .ok none => .ok (.obj (Obj.swapRemove o i))
      | none =>
        match (u .null).next? with
        | .error e => .error e
        | .ok (some y) => .ok (.obj (o ++ [(i, y)]))
        | .ok none => .ok (.obj o) := by
    cases i <;> rfl
  rw [hm]
  unfold indexUpdObj firstOf
  cases hg : Obj.get o i with
  | none =>
    simp only []
    cases hr : (u .null).next? with
    | error e => rfl
    | ok r =>
      cases r with
      | none => exact absurd hr (hnd _)
      | some y => rfl
  | some x =>
    simp only []
    cases hr : (u x).next? with
    | error e => rfl
    | ok r =>
      cases r with
      | none => exact absurd hr (hnd _)
      | some y => simp only [Except.map]; rw [insert_of_get hg]

/-! ### slices of sequences -/

theorem mapRange_seq (v : Val) (s : Seq) (hs : seqOf v = some s) (f t : Option Val) (opt : Bool)
    (u : Val → Out Val) :
    mapRange v f t opt u =
      match rangeInt f t with
      | .error e => optFail opt v e
      | .ok r => sliceUpdSeq s (skipTake r s.length).1 (skipTake r s.length).2 u := by
  cases v <;> simp only [seqOf, Option.some.injEq, reduceCtorEq] at hs
  all_goals
    subst hs
    simp only [mapRange, sliceUpdSeq, firstOf, Seq.length, Seq.sub, Seq.toVal, Seq.splice]
    cases rangeInt f t with
    | error e => rfl
    | ok r =>
      simp only []
      cases (u _).next? with
      | error e => rfl
      | ok y =>
        cases y with
        | none => rfl
        | some y => cases y <;> rfl

/-- the slice handed to the update is the slice that `.[$i:$j]` reads -/
theorem rangeV_seq (v : Val) (s : Seq) (hs : seqOf v = some s) (f t : Option Val) :
    rangeV v f t =
      (rangeInt f t).map fun r => (s.sub (skipTake r s.length).1 (skipTake r s.length).2).toVal := by
  cases v <;> simp only [seqOf, Option.some.injEq, reduceCtorEq] at hs
  all_goals
    subst hs
    rfl

theorem mapRange_nonseq (v : Val) (hs : seqOf v = none) (f t : Option Val) (opt : Bool) (u : Val → Out Val) :
    mapRange v f t opt u = optFail opt v (.typ v tyArr) := by
  cases v <;> simp only [seqOf, reduceCtorEq] at hs <;> rfl

end Jaq.C02
