/-
  C20 — the strict RFC 3339 parser `parseIso` reads back what jiff's printer `Timestamp.print`
  wrote, for EVERY instant of jiff's `Timestamp` range (`parseIso_print`), and also the same
  civil text followed by a numeric offset `±HH:MM` (`parseIso_printOff`, specification-side
  printer `printDateTimeOff`).

  Layout: digit lemmas (`digitVal_digitChar`, `readDigits*_pad*`), the fraction
  (`fracNanos_trimZeros`, `frac_facts`), `parseFields` on the printed shape (`parseFields_pos`,
  `parseFields_neg`, `parseFields_printWith`), validity of the civil fields of an instant
  (`toDateTimeUTC_valid`), the round trips.
-/
import JaqVerif.Lemmas.C20Epoch
namespace Jaq.Time

theorem digitVal_table : ∀ k : Fin 10, digitVal (Char.ofNat (48 + k.val)) = some (Int.ofNat k.val) := by decide

theorem digitVal_digitChar (n : Int) (h : 0 ≤ n) : digitVal (digitChar n) = some (n % 10) := by
  unfold digitChar
  have := digitVal_table ⟨n.toNat % 10, Nat.mod_lt _ (by decide)⟩
  simp only at this
  rw [this]
  congr 1
  simp only [Int.ofNat_eq_natCast]
  omega
theorem digitVal_zero : digitVal '0' = some 0 := by decide

theorem readDigits2_pad2 (n : Int) (r : List Char) (h0 : 0 ≤ n) (h1 : n < 100) :
    readDigits 2 0 (pad2 n ++ r) = some (n, r) := by
  have a := digitVal_digitChar (n / 10) (by omega)
  have b := digitVal_digitChar n h0
  simp only [pad2, List.cons_append, List.nil_append, readDigits, a, b]
  congr 2
  omega

theorem readDigits4_pad4 (n : Int) (r : List Char) (h0 : 0 ≤ n) (h1 : n < 10000) :
    readDigits 4 0 (pad4 n ++ r) = some (n, r) := by
  have a := digitVal_digitChar (n / 1000) (by omega)
  have b := digitVal_digitChar (n / 100) (by omega)
  have c := digitVal_digitChar (n / 10) (by omega)
  have d := digitVal_digitChar n h0
  simp only [pad4, List.cons_append, List.nil_append, readDigits, a, b, c, d]
  congr 2
  omega

theorem readDigits6_pad4 (n : Int) (r : List Char) (h0 : 0 ≤ n) (h1 : n < 10000) :
    readDigits 6 0 ('0' :: '0' :: (pad4 n ++ r)) = some (n, r) := by
  have a := digitVal_digitChar (n / 1000) (by omega)
  have b := digitVal_digitChar (n / 100) (by omega)
  have c := digitVal_digitChar (n / 10) (by omega)
  have d := digitVal_digitChar n h0
  simp only [pad4, List.cons_append, List.nil_append, readDigits, a, b, c, d, digitVal_zero]
  congr 2
  omega

/-- the digit-string value that `fracNanos` folds -/
def digStep (a : Int) (c : Char) : Int := 10 * a + (digitVal c).getD 0

theorem fracNanos_eq (fr : List Char) : fracNanos fr = fr.foldl digStep 0 * (10 : Int) ^ (9 - fr.length) := rfl

theorem fracNanos_snoc_zero (ds : List Char) (h : ds.length + 1 ≤ 9) :
    fracNanos (ds ++ ['0']) = fracNanos ds := by
  rw [fracNanos_eq, fracNanos_eq, List.foldl_append]
  simp only [List.foldl_cons, List.foldl_nil, digStep, digitVal_zero, Option.getD_some,
    List.length_append, List.length_cons, List.length_nil]
  have e : 9 - ds.length = (9 - (ds.length + 1)) + 1 := by omega
  rw [e, Int.pow_succ]
  generalize (10:Int) ^ (9 - (ds.length + 1)) = p
  generalize List.foldl digStep 0 ds = v
  rw [Int.add_zero, Int.mul_assoc, Int.mul_left_comm, Int.mul_comm 10 p]

theorem fracNanos_trim_aux (rs : List Char) (h : rs.length ≤ 9) :
    fracNanos (rs.dropWhile (· == '0')).reverse = fracNanos rs.reverse := by
  induction rs with
  | nil => rfl
  | cons c rs ih =>
    by_cases hc : (c == '0') = true
    · have hl : rs.length + 1 ≤ 9 := by simpa using h
      simp only [List.dropWhile_cons, hc, if_true]
      rw [ih (by omega)]
      have : c = '0' := by simpa using hc
      subst this
      rw [List.reverse_cons, fracNanos_snoc_zero]
      simpa using hl
    · simp only [List.dropWhile_cons, hc, if_false, Bool.false_eq_true]

theorem fracNanos_trimZeros (ds : List Char) (h : ds.length ≤ 9) : fracNanos (trimZeros ds) = fracNanos ds := by
  unfold trimZeros
  rw [fracNanos_trim_aux _ (by simpa using h), List.reverse_reverse]

theorem fracNanos_pad9 (n : Int) (h0 : 0 ≤ n) (h1 : n ≤ 999999999) : fracNanos (pad9 n) = n := by
  have a1 := digitVal_digitChar (n / 100000000) (by omega)
  have a2 := digitVal_digitChar (n / 10000000) (by omega)
  have a3 := digitVal_digitChar (n / 1000000) (by omega)
  have a4 := digitVal_digitChar (n / 100000) (by omega)
  have a5 := digitVal_digitChar (n / 10000) (by omega)
  have a6 := digitVal_digitChar (n / 1000) (by omega)
  have a7 := digitVal_digitChar (n / 100) (by omega)
  have a8 := digitVal_digitChar (n / 10) (by omega)
  have a9 := digitVal_digitChar n h0
  simp only [fracNanos, pad9, List.foldl_cons, List.foldl_nil, a1, a2, a3, a4, a5, a6, a7, a8, a9,
    Option.getD_some, List.length_cons, List.length_nil]
  omega

theorem isDigitC_digitChar (n : Int) (h : 0 ≤ n) : isDigitC (digitChar n) = true := by
  simp [isDigitC, digitVal_digitChar n h]

theorem pad9_digits (n : Int) (h0 : 0 ≤ n) : ∀ c ∈ pad9 n, isDigitC c = true := by
  intro c hc
  simp only [pad9, List.mem_cons, List.not_mem_nil, or_false] at hc
  rcases hc with h|h|h|h|h|h|h|h|h <;> subst h <;> apply isDigitC_digitChar <;> omega

theorem trimZeros_subset (ds : List Char) : ∀ c ∈ trimZeros ds, c ∈ ds := by
  intro c hc
  unfold trimZeros at hc
  rw [List.mem_reverse] at hc
  have := (List.dropWhile_sublist (· == '0') (l := ds.reverse)).subset hc
  simpa using this

theorem trimZeros_length (ds : List Char) : (trimZeros ds).length ≤ ds.length := by
  unfold trimZeros
  rw [List.length_reverse]
  have := (List.dropWhile_sublist (· == '0') (l := ds.reverse)).length_le
  simpa using this

/-- everything the parser needs about the printed fraction -/
theorem frac_facts (n : Int) (h0 : 0 < n) (h1 : n ≤ 999999999) :
    (trimZeros (pad9 n)) ≠ [] ∧ (trimZeros (pad9 n)).length ≤ 9 ∧
    (∀ c ∈ trimZeros (pad9 n), isDigitC c = true) ∧ fracNanos (trimZeros (pad9 n)) = n := by
  have hv : fracNanos (trimZeros (pad9 n)) = n := by
    rw [fracNanos_trimZeros _ (by simp [pad9]), fracNanos_pad9 n (by omega) h1]
  refine ⟨?_, ?_, ?_, hv⟩
  · intro he
    rw [he] at hv
    have : fracNanos [] = 0 := by decide
    omega
  · have := trimZeros_length (pad9 n); simpa [pad9] using this
  · intro c hc
    exact pad9_digits n (by omega) c (trimZeros_subset _ c hc)

theorem takeWhile_digits (ds : List Char) (z : Char) (t : List Char) (h : ∀ c ∈ ds, isDigitC c = true)
    (hz : isDigitC z = false) : (ds ++ z :: t).takeWhile isDigitC = ds ∧ (ds ++ z :: t).dropWhile isDigitC = z :: t := by
  induction ds with
  | nil => simp [hz]
  | cons c ds ih =>
    have hc := h c (by simp)
    have := ih (fun c hc => h c (by simp [hc]))
    simp [hc, this]



/-! ## `parseFields` on the printed shape -/

theorem expect_cons (c : Char) (r : List Char) : expect c (c :: r) = some r := by
  simp [expect]

/-- the text after the year: `-MM-DDTHH:MM:SS` followed by `tl` -/
def bodyS (mo d h mi s : Int) (tl : List Char) : List Char :=
  '-' :: (pad2 mo ++ '-' :: (pad2 d ++ 'T' :: (pad2 h ++ ':' :: (pad2 mi ++ ':' :: (pad2 s ++ tl)))))

theorem minus_table : ∀ k : Fin 10, ¬ Char.ofNat (48 + k.val) = '-' := by decide

theorem digitChar_ne_minus (n : Int) : ¬ digitChar n = '-' := by
  unfold digitChar
  exact minus_table ⟨n.toNat % 10, Nat.mod_lt _ (by decide)⟩

theorem isDigitC_Z : isDigitC 'Z' = false := by decide

theorem isDigitC_plus : isDigitC '+' = false := by decide
theorem isDigitC_minus : isDigitC '-' = false := by decide

/-- the offset texts `Z`, `+HH:MM`, `-HH:MM` with the offset in seconds that they denote -/
def OffS (z : List Char) (off : Int) : Prop :=
  ∃ oh om, (0 ≤ oh ∧ oh ≤ 25) ∧ (0 ≤ om ∧ om ≤ 59) ∧
    ((z = ['Z'] ∧ off = 0) ∨
     (z = '+' :: (pad2 oh ++ ':' :: pad2 om) ∧ off = oh * 3600 + om * 60) ∨
     (z = '-' :: (pad2 oh ++ ':' :: pad2 om) ∧ off = -(oh * 3600 + om * 60)))

theorem offS_Z : OffS ['Z'] 0 := ⟨0, 0, by omega, by omega, Or.inl ⟨rfl, rfl⟩⟩

/-- the tails `[.f{1,9}]<offset>`, with the fraction digits and the offset they denote -/
def TailS (tl fr : List Char) (off : Int) : Prop :=
  ∃ z, OffS z off ∧ fr.length ≤ 9 ∧ (∀ c ∈ fr, isDigitC c = true) ∧
    ((tl = z ∧ fr = []) ∨ (tl = '.' :: (fr ++ z) ∧ fr ≠ []))

theorem readDigits2_pad2_nil (n : Int) (h0 : 0 ≤ n) (h1 : n < 100) :
    readDigits 2 0 (pad2 n) = some (n, []) := by
  have := readDigits2_pad2 n [] h0 h1
  rwa [List.append_nil] at this

set_option linter.unusedSimpArgs false in
/-- year ≥ 0: `YYYY-MM-DDTHH:MM:SS<tail>` -/
theorem parseFields_pos (y mo d h mi s : Int) (tl fr : List Char) (off : Int)
    (hy : 0 ≤ y ∧ y < 10000) (hmo : 0 ≤ mo ∧ mo < 100) (hd : 0 ≤ d ∧ d < 100)
    (hh : 0 ≤ h ∧ h < 100) (hmi : 0 ≤ mi ∧ mi < 100) (hs : 0 ≤ s ∧ s < 100) (ht : TailS tl fr off) :
    parseFields (pad4 y ++ bodyS mo d h mi s tl) = some (y, mo, d, h, mi, s, fr, some off) := by
  unfold parseFields
  split
  rename_i neg cs heq
  split at heq
  · rename_i r hr
    simp only [pad4, List.cons_append, List.cons.injEq] at hr
    exact absurd hr.1 (digitChar_ne_minus _)
  · simp only [Prod.mk.injEq] at heq
    obtain ⟨rfl, rfl⟩ := heq
    obtain ⟨z, hz, hlen, hdig, hfr⟩ := ht
    have hl : ¬ fr.length > 9 := by omega
    have ⟨tw1, dw1⟩ := takeWhile_digits fr 'Z' [] hdig isDigitC_Z
    have tw2 := fun r => (takeWhile_digits fr '+' r hdig isDigitC_plus).1
    have dw2 := fun r => (takeWhile_digits fr '+' r hdig isDigitC_plus).2
    have tw3 := fun r => (takeWhile_digits fr '-' r hdig isDigitC_minus).1
    have dw3 := fun r => (takeWhile_digits fr '-' r hdig isDigitC_minus).2
    obtain ⟨oh, om, hoh, hom, hz⟩ := hz
    rcases hz with ⟨rfl, rfl⟩ | ⟨rfl, rfl⟩ | ⟨rfl, rfl⟩ <;>
    rcases hfr with ⟨rfl, rfl⟩ | ⟨rfl, hne⟩ <;>
    simp only [bodyS, readDigits4_pad4 _ _ hy.1 hy.2, readDigits2_pad2 _ _ hmo.1 hmo.2,
      readDigits2_pad2 _ _ hd.1 hd.2, readDigits2_pad2 _ _ hh.1 hh.2, readDigits2_pad2 _ _ hmi.1 hmi.2,
      readDigits2_pad2 _ _ hs.1 hs.2, expect_cons, Bool.false_eq_true, if_false, Option.bind_eq_bind, Option.bind,
      tw1, dw1, tw2, dw2, tw3, dw3] <;>
    simp [hl, readDigits2_pad2 _ _ hoh.1 (show oh < 100 by omega),
      readDigits2_pad2_nil _ hom.1 (show om < 100 by omega), expect_cons,
      Int.not_lt.mpr hoh.2, Int.not_lt.mpr hom.2, *]

set_option linter.unusedSimpArgs false in
/-- year < 0: `-00YYYY-MM-DDTHH:MM:SS<tail>` (`y` is the absolute value) -/
theorem parseFields_neg (y mo d h mi s : Int) (tl fr : List Char) (off : Int)
    (hy : 0 < y ∧ y < 10000) (hmo : 0 ≤ mo ∧ mo < 100) (hd : 0 ≤ d ∧ d < 100)
    (hh : 0 ≤ h ∧ h < 100) (hmi : 0 ≤ mi ∧ mi < 100) (hs : 0 ≤ s ∧ s < 100) (ht : TailS tl fr off) :
    parseFields ('-' :: '0' :: '0' :: (pad4 y ++ bodyS mo d h mi s tl)) = some (-y, mo, d, h, mi, s, fr, some off) := by
  have hy0 : y ≠ 0 := by omega
  obtain ⟨z, hz, hlen, hdig, hfr⟩ := ht
  have hl : ¬ fr.length > 9 := by omega
  have ⟨tw1, dw1⟩ := takeWhile_digits fr 'Z' [] hdig isDigitC_Z
  have tw2 := fun r => (takeWhile_digits fr '+' r hdig isDigitC_plus).1
  have dw2 := fun r => (takeWhile_digits fr '+' r hdig isDigitC_plus).2
  have tw3 := fun r => (takeWhile_digits fr '-' r hdig isDigitC_minus).1
  have dw3 := fun r => (takeWhile_digits fr '-' r hdig isDigitC_minus).2
  obtain ⟨oh, om, hoh, hom, hz⟩ := hz
  rcases hz with ⟨rfl, rfl⟩ | ⟨rfl, rfl⟩ | ⟨rfl, rfl⟩ <;>
  rcases hfr with ⟨rfl, rfl⟩ | ⟨rfl, hne⟩ <;>
  simp only [parseFields, bodyS, readDigits6_pad4 _ _ (Int.le_of_lt hy.1) hy.2, readDigits2_pad2 _ _ hmo.1 hmo.2,
    readDigits2_pad2 _ _ hd.1 hd.2, readDigits2_pad2 _ _ hh.1 hh.2, readDigits2_pad2 _ _ hmi.1 hmi.2,
    readDigits2_pad2 _ _ hs.1 hs.2, expect_cons, if_true, Option.bind_eq_bind, Option.bind,
    tw1, dw1, tw2, dw2, tw3, dw3] <;>
  simp [hy0, hl, readDigits2_pad2 _ _ hoh.1 (show oh < 100 by omega),
    readDigits2_pad2_nil _ hom.1 (show om < 100 by omega), expect_cons,
    Int.not_lt.mpr hoh.2, Int.not_lt.mpr hom.2, *]

/-- the fraction digits that the printer writes for `ns` nanoseconds -/
def fracDigits (ns : Int) : List Char := if ns != 0 then trimZeros (pad9 ns) else []

theorem fracNanos_fracDigits (ns : Int) (h0 : 0 ≤ ns) (h1 : ns ≤ 999999999) : fracNanos (fracDigits ns) = ns := by
  unfold fracDigits
  by_cases h : ns = 0
  · subst h; decide
  · have : (ns != 0) = true := by simpa using h
    rw [if_pos this]
    exact (frac_facts ns (by omega) h1).2.2.2

/-- the RFC 3339 printer with an arbitrary offset text `z` in place of `Z` -/
def printDateTimeWith (dt : DateTime) (z : List Char) : List Char :=
  (if dt.year < 0 then ['-', '0', '0'] else []) ++ pad4 (if dt.year < 0 then -dt.year else dt.year) ++ ['-'] ++ pad2 dt.month ++ ['-'] ++ pad2 dt.day ++
  ['T'] ++ pad2 dt.hour ++ [':'] ++ pad2 dt.minute ++ [':'] ++ pad2 dt.second ++
  (if dt.nanos != 0 then '.' :: trimZeros (pad9 dt.nanos) else []) ++ z

theorem printDateTimeZ_eq (dt : DateTime) : printDateTimeZ dt = printDateTimeWith dt ['Z'] := rfl

theorem printDateTimeWith_shape (dt : DateTime) (z : List Char) :
    printDateTimeWith dt z =
      (if dt.year < 0 then ['-', '0', '0'] else []) ++
        (pad4 (if dt.year < 0 then -dt.year else dt.year) ++
          bodyS dt.month dt.day dt.hour dt.minute dt.second
            ((if dt.nanos != 0 then '.' :: trimZeros (pad9 dt.nanos) else []) ++ z)) := by
  simp only [printDateTimeWith, bodyS, List.append_assoc, List.cons_append, List.nil_append]

theorem tailS_print (ns : Int) (h0 : 0 ≤ ns) (h1 : ns ≤ 999999999) (z : List Char) (off : Int) (hz : OffS z off) :
    TailS ((if ns != 0 then '.' :: trimZeros (pad9 ns) else []) ++ z) (fracDigits ns) off := by
  unfold fracDigits
  refine ⟨z, hz, ?_⟩
  by_cases h : ns = 0
  · subst h; simp
  · have hb : (ns != 0) = true := by simpa using h
    obtain ⟨a, b, c, _⟩ := frac_facts ns (by omega) h1
    rw [if_pos hb, if_pos hb]
    exact ⟨b, c, Or.inr ⟨rfl, a⟩⟩

/-- the syntactic fields of a printed civil date-time are its fields -/
theorem parseFields_printWith (dt : DateTime) (z : List Char) (off : Int) (hz : OffS z off)
    (hy : -9999 ≤ dt.year ∧ dt.year ≤ 9999)
    (hmo : 0 ≤ dt.month ∧ dt.month < 100) (hd : 0 ≤ dt.day ∧ dt.day < 100)
    (hh : 0 ≤ dt.hour ∧ dt.hour < 100) (hmi : 0 ≤ dt.minute ∧ dt.minute < 100)
    (hs : 0 ≤ dt.second ∧ dt.second < 100) (hn : 0 ≤ dt.nanos ∧ dt.nanos ≤ 999999999) :
    parseFields (printDateTimeWith dt z) =
      some (dt.year, dt.month, dt.day, dt.hour, dt.minute, dt.second, fracDigits dt.nanos, some off) := by
  rw [printDateTimeWith_shape]
  have ht := tailS_print dt.nanos hn.1 hn.2 z off hz
  by_cases hneg : dt.year < 0
  · simp only [hneg, if_true, List.cons_append, List.nil_append]
    have := parseFields_neg (-dt.year) dt.month dt.day dt.hour dt.minute dt.second _ _ _
      (by omega) hmo hd hh hmi hs ht
    rw [this, Int.neg_neg]
  · simp only [hneg, if_false, List.nil_append]
    exact parseFields_pos dt.year dt.month dt.day dt.hour dt.minute dt.second _ _ _
      (by omega) hmo hd hh hmi hs ht

/-- **printer/parser round trip on civil date-times**: every valid `DateTime`, printed with an
offset text denoting `off` seconds, is read back as the instant `off` seconds before its UTC
reading, provided that instant is inside the `Timestamp` range -/
theorem parseIso_printWith (dt : DateTime) (z : List Char) (off : Int) (hz : OffS z off)
    (hv : DateTime.new dt.year dt.month dt.day dt.hour dt.minute dt.second dt.nanos = some dt)
    (hr : Timestamp.inRange (dt.toNs - off * 1000000000) = true) :
    parseIso (printDateTimeWith dt z) = .ok ⟨dt.toNs - off * 1000000000⟩ := by
  have hv' := hv
  unfold DateTime.new at hv'
  split at hv'
  · rename_i hc
    obtain ⟨c1, c2, ⟨m1, m2, d1, d2⟩, c4, c5, c6, c7, c8, c9, c10, c11⟩ := hc
    have ⟨_, dl⟩ := daysInMonth_le dt.year dt.month m1 m2
    have hp := parseFields_printWith dt z off hz ⟨c1, c2⟩ (by omega) (by omega) (by omega) (by omega) (by omega)
      ⟨c10, c11⟩
    have hs60 : (dt.second == 60) = false := by
      simp only [beq_eq_false_iff_ne, ne_eq]; omega
    simp only [parseIso, hp, hs60, Bool.false_eq_true, if_false, fracNanos_fracDigits dt.nanos c10 c11, hv,
      hr, if_true]
  · simp at hv'

/-- the `Z` form: every valid `DateTime` whose UTC instant is inside the `Timestamp` range is
read back from its RFC 3339 text -/
theorem parseIso_printZ (dt : DateTime)
    (hv : DateTime.new dt.year dt.month dt.day dt.hour dt.minute dt.second dt.nanos = some dt)
    (hr : Timestamp.inRange dt.toNs = true) :
    parseIso (printDateTimeZ dt) = .ok ⟨dt.toNs⟩ := by
  have := parseIso_printWith dt ['Z'] 0 offS_Z hv (by rw [Int.zero_mul, Int.sub_zero]; exact hr)
  rw [Int.zero_mul, Int.sub_zero] at this
  exact this

/-- the fields of the UTC civil date-time of an instant whose civil year is in -9999..9999 are valid -/
theorem toDateTimeUTC_valid_of_year (t : Timestamp)
    (hy : -9999 ≤ t.toDateTimeUTC.year ∧ t.toDateTimeUTC.year ≤ 9999) :
    DateTime.new t.toDateTimeUTC.year t.toDateTimeUTC.month t.toDateTimeUTC.day t.toDateTimeUTC.hour
      t.toDateTimeUTC.minute t.toDateTimeUTC.second t.toDateTimeUTC.nanos = some t.toDateTimeUTC := by
  have hval := (daysFromCivil_civilFromDays (t.ns / 1000000000 / 86400)).1
  unfold DateTime.new
  rw [if_pos]
  simp only [Timestamp.toDateTimeUTC] at hy ⊢
  refine ⟨hy.1, hy.2, hval, ?_⟩
  omega

/-- an instant of the `Timestamp` range has a civil year in -9999..9999 -/
theorem toDateTimeUTC_year (t : Timestamp) (h : Timestamp.inRange t.ns = true) :
    -9999 ≤ t.toDateTimeUTC.year ∧ t.toDateTimeUTC.year ≤ 9999 := by
  simp only [Timestamp.inRange, Bool.and_eq_true, decide_eq_true_eq] at h
  have := year_of_sec_range (t.ns / 1000000000)
    (by unfold unixSecMin at *; omega) (by unfold unixSecMax at *; omega)
  unfold utcYear at this
  simpa only [Timestamp.toDateTimeUTC] using this

theorem toDateTimeUTC_valid (t : Timestamp) (h : Timestamp.inRange t.ns = true) :
    DateTime.new t.toDateTimeUTC.year t.toDateTimeUTC.month t.toDateTimeUTC.day t.toDateTimeUTC.hour
      t.toDateTimeUTC.minute t.toDateTimeUTC.second t.toDateTimeUTC.nanos = some t.toDateTimeUTC :=
  toDateTimeUTC_valid_of_year t (toDateTimeUTC_year t h)

/-- **C20 round trip**: for EVERY instant of jiff's `Timestamp` range, the strict RFC 3339 parser
reads back exactly what `Timestamp: Display` printed -/
theorem parseIso_print (t : Timestamp) (h : Timestamp.inRange t.ns = true) : parseIso t.print = .ok t := by
  have hv := toDateTimeUTC_valid t h
  have hn := toNs_toDateTimeUTC t
  have := parseIso_printZ t.toDateTimeUTC hv (by rw [hn]; exact h)
  rw [hn] at this
  exact this

/-! ## numeric offsets (specification-side printer) -/

/-- `+HH:MM` / `-HH:MM` of an offset in seconds -/
def printOff (off : Int) : List Char :=
  (if off < 0 then '-' else '+') ::
    (pad2 ((if off < 0 then -off else off) / 3600) ++ ':' :: pad2 ((if off < 0 then -off else off) % 3600 / 60))

/-- like `printDateTimeZ`, but the civil time `dt` is followed by the numeric offset `off` (seconds) -/
def printDateTimeOff (dt : DateTime) (off : Int) : List Char := printDateTimeWith dt (printOff off)

theorem offS_printOff (off : Int) (h60 : off % 60 = 0) (hb : -93540 ≤ off ∧ off ≤ 93540) :
    OffS (printOff off) off := by
  unfold printOff
  by_cases hneg : off < 0
  · refine ⟨-off / 3600, -off % 3600 / 60, by omega, by omega, Or.inr (Or.inr ?_)⟩
    rw [show (if off < 0 then '-' else '+') = '-' from if_pos hneg,
      show (if off < 0 then -off else off) = -off from if_pos hneg]
    exact ⟨rfl, by omega⟩
  · refine ⟨off / 3600, off % 3600 / 60, by omega, by omega, Or.inr (Or.inl ?_)⟩
    rw [show (if off < 0 then '-' else '+') = '+' from if_neg hneg,
      show (if off < 0 then -off else off) = off from if_neg hneg]
    exact ⟨rfl, by omega⟩

/-- **round trip with numeric offsets**: an instant `t` of the `Timestamp` range, shown as the civil
time of the zone `off` seconds east of UTC (whole minutes, at most ±25:59, civil year still in
-9999..9999) followed by `±HH:MM`, is read back as `t` -/
theorem parseIso_printOff (t : Timestamp) (off : Int) (h : Timestamp.inRange t.ns = true)
    (h60 : off % 60 = 0) (hb : -93540 ≤ off ∧ off ≤ 93540)
    (hy : -9999 ≤ (Timestamp.toDateTimeUTC ⟨t.ns + off * 1000000000⟩).year ∧
          (Timestamp.toDateTimeUTC ⟨t.ns + off * 1000000000⟩).year ≤ 9999) :
    parseIso (printDateTimeOff (Timestamp.toDateTimeUTC ⟨t.ns + off * 1000000000⟩) off) = .ok t := by
  have hv := toDateTimeUTC_valid_of_year ⟨t.ns + off * 1000000000⟩ hy
  have hn := toNs_toDateTimeUTC ⟨t.ns + off * 1000000000⟩
  have e : t.ns + off * 1000000000 - off * 1000000000 = t.ns := by omega
  have := parseIso_printWith (Timestamp.toDateTimeUTC ⟨t.ns + off * 1000000000⟩) (printOff off) off
    (offS_printOff off h60 hb) hv (by rw [hn]; simp only [e]; exact h)
  rw [hn] at this
  simp only [e] at this
  exact this

/-- sanity: the offset printer on +05:30 and -00:01, and the hypotheses of `parseIso_printOff` are satisfiable -/
example : printOff 19800 = ['+', '0', '5', ':', '3', '0'] ∧ printOff (-60) = ['-', '0', '0', ':', '0', '1'] := by
  decide

end Jaq.Time
