/-
  C07 — an INDEPENDENT rendering of the RFC 8259 grammar (numbers §6, whole texts §2-§7) and the
  proof that every text of that grammar is read by the reader model as the value the RFC assigns.

  Nothing in the definitions `AllDigits`, `RfcInt`, `RfcFrac`, `RfcExp`, `RfcNumParts`, `RfcNumber`,
  `decNat`, `rfcIntValue`, `RfcSpelling*`, `RfcText` mentions the reader (`numLex`, `numPart`,
  `isDigit`, `digitsVal`, `intOfText` …) or the writer (`intText`, `natDigits`): bytes are compared
  with numeric ranges and constants only.
-/
import JaqVerif.Lemmas.C07Rfc
import JaqVerif.Lemmas.C07Top
namespace Jaq.C07

/-! ## RFC 8259 §6 numbers

```
number = [ minus ] int [ frac ] [ exp ]
int    = zero / ( digit1-9 *DIGIT )
frac   = decimal-point 1*DIGIT
exp    = e [ minus / plus ] 1*DIGIT         e = %x65 / %x45
```
-/

/-- `*DIGIT` (`DIGIT` = %x30-39) -/
def AllDigits (ds : Bytes) : Prop := ∀ c ∈ ds, 48 ≤ c.toNat ∧ c.toNat ≤ 57

/-- RFC 8259 `int = zero / ( digit1-9 *DIGIT )` -/
def RfcInt (t : Bytes) : Prop :=
  t = [0x30] ∨ ∃ d ds, t = d :: ds ∧ 0x31 ≤ d.toNat ∧ d.toNat ≤ 0x39 ∧ AllDigits ds

/-- RFC 8259 `frac = decimal-point 1*DIGIT` -/
def RfcFrac (t : Bytes) : Prop := ∃ ds, ds ≠ [] ∧ AllDigits ds ∧ t = 0x2e :: ds

/-- RFC 8259 `exp = e [ minus / plus ] 1*DIGIT` -/
def RfcExp (t : Bytes) : Prop :=
  ∃ e sg ds, (e = 0x65 ∨ e = 0x45) ∧ (sg = [] ∨ sg = [0x2b] ∨ sg = [0x2d]) ∧ ds ≠ [] ∧ AllDigits ds ∧
    t = e :: (sg ++ ds)

/-- the four parts of `number = [ minus ] int [ frac ] [ exp ]`; an absent optional part is `[]` -/
structure RfcNumParts (minus int frac exp : Bytes) : Prop where
  minus : minus = [] ∨ minus = [0x2d]
  int : RfcInt int
  frac : frac = [] ∨ RfcFrac frac
  exp : exp = [] ∨ RfcExp exp

/-- RFC 8259 `number` -/
def RfcNumber (t : Bytes) : Prop :=
  ∃ minus int frac exp, RfcNumParts minus int frac exp ∧ t = minus ++ (int ++ (frac ++ exp))

/-- a number with a fraction or an exponent -/
def RfcNonIntNumber (t : Bytes) : Prop :=
  ∃ minus int frac exp, RfcNumParts minus int frac exp ∧ (frac ≠ [] ∨ exp ≠ []) ∧
    t = minus ++ (int ++ (frac ++ exp))

/-- the value of a string of decimal digits, most significant first (Horner):
`decNat [] = 0`, `decNat (ds ++ [c]) = 10 * decNat ds + (c - '0')` (`decNat_snoc`) -/
def decNat (ds : Bytes) : Nat := ds.foldl (fun a c => 10 * a + (c.toNat - 48)) 0

/-- the integer denoted by `[ minus ] int` -/
def rfcIntValue (minus int : Bytes) : Int :=
  if minus = [] then (decNat int : Int) else -(decNat int : Int)

/-- a number without fraction and exponent, and its value -/
def RfcIntNumber (i : Int) (t : Bytes) : Prop :=
  ∃ minus int, RfcNumParts minus int [] [] ∧ t = minus ++ int ∧ i = rfcIntValue minus int

theorem decNat_nil : decNat [] = 0 := rfl
theorem decNat_snoc (ds : Bytes) (c : UInt8) : decNat (ds ++ [c]) = 10 * decNat ds + (c.toNat - 48) :=
  digitsVal_append ds c
theorem decNat_eq_digitsVal (ds : Bytes) : decNat ds = digitsVal ds := rfl

/-! ### bridge to the reader's `isDigit` -/

theorem isDigit_of_range (c : UInt8) (h : 48 ≤ c.toNat ∧ c.toNat ≤ 57) : isDigit c = true := by
  simp [isDigit, h.1, h.2]

theorem isDigit_iff_range (c : UInt8) : isDigit c = true ↔ (48 ≤ c.toNat ∧ c.toNat ≤ 57) := by
  simp [isDigit]

theorem allDigits_isDigit {ds : Bytes} (h : AllDigits ds) : ∀ c ∈ ds, isDigit c = true :=
  fun c hc => isDigit_of_range c (h c hc)

/-! ### the lexer runs through a whole text -/

/-- from state `s` the lexer consumes `t` entirely and ends in state `sf` -/
def Run (s : NumSt) (t : Bytes) (sf : NumSt) : Prop := numLex s t = (t, [], sf)

theorem run_nil (s : NumSt) : Run s [] s := rfl

theorem run_cons {s s' sf : NumSt} {c : UInt8} {t : Bytes} (hp : numPart s c = some s') (h : Run s' t sf) :
    Run s (c :: t) sf := by
  unfold Run at *
  simp only [numLex, hp, h]

theorem run_append : ∀ (a : Bytes) {s s' sf : NumSt} {b : Bytes}, Run s a s' → Run s' b sf → Run s (a ++ b) sf := by
  intro a
  induction a with
  | nil =>
    intro s s' sf b h1 h2
    unfold Run at h1
    simp only [numLex] at h1
    cases h1
    exact h2
  | cons c a ih =>
    intro s s' sf b h1 h2
    unfold Run at h1
    simp only [numLex] at h1
    cases hp : numPart s c with
    | none => simp [hp] at h1
    | some s1 =>
      simp only [hp] at h1
      cases hl : numLex s1 a with
      | mk t' x =>
        obtain ⟨rest', sf'⟩ := x
        simp only [hl] at h1
        cases h1
        exact run_cons hp (ih hl h2)

theorem endsWithDigit_of_run {s sf : NumSt} {t : Bytes} (h : Run s t sf) (hne : t ≠ [])
    (hd : isDigit sf.read = true) : endsWithDigit t = true := by
  unfold endsWithDigit
  cases hl : t.getLast? with
  | none => simp [List.getLast?_eq_none_iff] at hl; exact absurd hl hne
  | some l =>
    simp only
    rw [← numLex_final_read t s sf h l hl]
    exact hd

/-- a digit in a state that is past the leading-zero rule -/
theorem step_digit (s : NumSt) (c : UInt8) (hc : isDigit c = true)
    (hpre : (s.zero = false ∧ s.read ≠ 0 ∧ s.read ≠ 0x2d) ∨ s.dot = true ∨ s.exp = true) :
    numPart s c = some { s with read := c } := by
  obtain ⟨_, cm, _⟩ := isDigit_ne c hc
  rcases hpre with ⟨hz, h0, hm⟩ | hd | he
  · simp [numPart, hc, cm, hz, h0, hm]
  · simp [numPart, hc, cm, hd]
  · simp [numPart, hc, cm, he]

/-- a digit `1`-`9` at the start or after the minus sign -/
theorem step_digit_nz (s : NumSt) (c : UInt8) (hc : isDigit c = true) (hz : s.zero = false) (hnz : c ≠ 0x30) :
    numPart s c = some { s with read := c } := by
  obtain ⟨_, cm, _⟩ := isDigit_ne c hc
  simp [numPart, hc, cm, hz, hnz]

theorem step_dot (s : NumSt) (hr : isDigit s.read = true) (hd : s.dot = false) (he : s.exp = false) :
    numPart s 0x2e = some { s with read := 0x2e, dot := true } := by
  have h1 : isDigit 0x2e = false := by decide
  simp [numPart, hr, hd, he, h1]

theorem step_e (s : NumSt) (e : UInt8) (hr : isDigit s.read = true) (he : e = 0x65 ∨ e = 0x45) (hx : s.exp = false) :
    numPart s e = some { s with read := e, exp := true } := by
  have h1 : isDigit 0x65 = false := by decide
  have h2 : isDigit 0x45 = false := by decide
  have h3 : isE 0x65 = true := by decide
  have h4 : isE 0x45 = true := by decide
  rcases he with rfl | rfl
  · simp [numPart, hr, hx, h1, h3]
  · simp [numPart, hr, hx, h2, h4]

theorem step_sign (s : NumSt) (c : UInt8) (hr : isE s.read = true) (hc : c = 0x2b ∨ c = 0x2d) :
    numPart s c = some { s with read := c } := by
  obtain ⟨r, z, d, x⟩ := s
  simp only [isE, Bool.or_eq_true, beq_iff_eq] at hr
  rcases hr with rfl | rfl <;> rcases hc with rfl | rfl <;> simp [numPart, isDigit, isE, isSign]

/-- a run of digits past the leading-zero rule is consumed entirely -/
theorem run_digits : ∀ (ds : Bytes), AllDigits ds → ∀ (s : NumSt),
    ((s.zero = false ∧ s.read ≠ 0 ∧ s.read ≠ 0x2d) ∨ s.dot = true ∨ s.exp = true) →
    ∃ sf, Run s ds sf ∧ sf.dot = s.dot ∧ sf.exp = s.exp ∧ (ds ≠ [] → isDigit sf.read = true) ∧ (ds = [] → sf = s) := by
  intro ds
  induction ds with
  | nil => intro _ s _; exact ⟨s, run_nil s, rfl, rfl, fun h => absurd rfl h, fun _ => rfl⟩
  | cons c ds ih =>
    intro hall s hpre
    have hc : isDigit c = true := isDigit_of_range c (hall c (by simp))
    obtain ⟨c0, cm, _⟩ := isDigit_ne c hc
    have hp := step_digit s c hc hpre
    have hpre' : (({ s with read := c } : NumSt).zero = false ∧ ({ s with read := c } : NumSt).read ≠ 0 ∧
        ({ s with read := c } : NumSt).read ≠ 0x2d) ∨ ({ s with read := c } : NumSt).dot = true ∨
        ({ s with read := c } : NumSt).exp = true := by
      rcases hpre with ⟨hz, _, _⟩ | hd | he
      · exact Or.inl ⟨hz, c0, cm⟩
      · exact Or.inr (Or.inl hd)
      · exact Or.inr (Or.inr he)
    obtain ⟨sf, h1, h2, h3, h4, h5⟩ := ih (fun x hx => hall x (by simp [hx])) { s with read := c } hpre'
    refine ⟨sf, run_cons hp h1, h2, h3, ?_, by simp⟩
    intro _
    by_cases hds : ds = []
    · rw [h5 hds]; exact hc
    · exact h4 hds

theorem step_minus : numPart NumSt.init 0x2d = some { NumSt.init with read := 0x2d } := by decide

/-- `int` at the start or after the minus sign -/
theorem run_int (s0 : NumSt) (hs0 : s0 = NumSt.init ∨ s0 = { NumSt.init with read := 0x2d }) (i : Bytes)
    (hi : RfcInt i) : ∃ s2, Run s0 i s2 ∧ isDigit s2.read = true ∧ s2.dot = false ∧ s2.exp = false := by
  have hz0 : s0.zero = false ∧ s0.dot = false ∧ s0.exp = false := by rcases hs0 with rfl | rfl <;> exact ⟨rfl, rfl, rfl⟩
  rcases hi with rfl | ⟨d, ds, rfl, hd1, hd2, hds⟩
  · rcases hs0 with rfl | rfl
    · exact ⟨_, (by unfold Run; decide : Run NumSt.init [0x30] (numLex NumSt.init [0x30]).2.2), by decide, by decide, by decide⟩
    · exact ⟨_, (by unfold Run; decide : Run { NumSt.init with read := 0x2d } [0x30] (numLex { NumSt.init with read := 0x2d } [0x30]).2.2),
        by decide, by decide, by decide⟩
  · have hd : isDigit d = true := isDigit_of_range d ⟨by omega, hd2⟩
    have hnz : d ≠ 0x30 := by intro h; subst h; exact absurd hd1 (by decide)
    obtain ⟨d0, dm, _⟩ := isDigit_ne d hd
    have hp := step_digit_nz s0 d hd hz0.1 hnz
    obtain ⟨sf, h1, h2, h3, h4, h5⟩ := run_digits ds hds { s0 with read := d } (Or.inl ⟨hz0.1, d0, dm⟩)
    refine ⟨sf, run_cons hp h1, ?_, by rw [h2]; exact hz0.2.1, by rw [h3]; exact hz0.2.2⟩
    by_cases hn : ds = []
    · rw [h5 hn]; exact hd
    · exact h4 hn

/-- `[ frac ]` after a digit -/
theorem run_frac (s2 : NumSt) (hr : isDigit s2.read = true) (hd : s2.dot = false) (he : s2.exp = false)
    (f : Bytes) (hf : f = [] ∨ RfcFrac f) :
    ∃ s3, Run s2 f s3 ∧ isDigit s3.read = true ∧ s3.exp = false ∧ (f ≠ [] → s3.dot = true) ∧ (f = [] → s3.dot = false) := by
  rcases hf with rfl | ⟨ds, hne, hds, rfl⟩
  · exact ⟨s2, run_nil s2, hr, he, fun h => absurd rfl h, fun _ => hd⟩
  · have hp := step_dot s2 hr hd he
    obtain ⟨sf, h1, h2, h3, h4, _⟩ := run_digits ds hds { s2 with read := 0x2e, dot := true } (Or.inr (Or.inl rfl))
    exact ⟨sf, run_cons hp h1, h4 hne, by rw [h3]; exact he, fun _ => by rw [h2], fun h => by simp at h⟩

/-- `[ exp ]` after a digit -/
theorem run_exp (s3 : NumSt) (hr : isDigit s3.read = true) (he : s3.exp = false)
    (x : Bytes) (hx : x = [] ∨ RfcExp x) :
    ∃ s4, Run s3 x s4 ∧ isDigit s4.read = true ∧ s4.dot = s3.dot ∧ (x ≠ [] → s4.exp = true) ∧ (x = [] → s4.exp = false) := by
  rcases hx with rfl | ⟨e, sg, ds, hee, hsg, hne, hds, rfl⟩
  · exact ⟨s3, run_nil s3, hr, rfl, fun h => absurd rfl h, fun _ => he⟩
  · have hp := step_e s3 e hr hee he
    have hE : isE e = true := by rcases hee with rfl | rfl <;> decide
    rcases hsg with rfl | hsg
    · obtain ⟨sf, h1, h2, h3, h4, _⟩ := run_digits ds hds { s3 with read := e, exp := true } (Or.inr (Or.inr rfl))
      exact ⟨sf, run_cons hp (by simpa using h1), h4 hne, by rw [h2], fun _ => by rw [h3], fun h => by simp at h⟩
    · have hsg' : ∃ c, sg = [c] ∧ (c = 0x2b ∨ c = 0x2d) := by
        rcases hsg with rfl | rfl
        · exact ⟨_, rfl, Or.inl rfl⟩
        · exact ⟨_, rfl, Or.inr rfl⟩
      obtain ⟨c, rfl, hc⟩ := hsg'
      have hp2 := step_sign { s3 with read := e, exp := true } c hE hc
      obtain ⟨sf, h1, h2, h3, h4, _⟩ := run_digits ds hds { s3 with read := c, exp := true } (Or.inr (Or.inr rfl))
      exact ⟨sf, run_cons hp (run_cons hp2 h1), h4 hne, by rw [h2], fun _ => by rw [h3], fun h => by simp at h⟩

/-- the reader's lexer consumes every RFC number entirely, ends after a digit, and has noted
exactly the parts that are present -/
theorem rfcNumParts_run (m i f x : Bytes) (h : RfcNumParts m i f x) :
    ∃ sf, Run NumSt.init (m ++ (i ++ (f ++ x))) sf ∧ isDigit sf.read = true ∧
      (f ≠ [] → sf.dot = true) ∧ (f = [] → sf.dot = false) ∧ (x ≠ [] → sf.exp = true) ∧ (x = [] → sf.exp = false) := by
  obtain ⟨hm, hi, hf, hx⟩ := h
  have hA : ∃ s2, Run NumSt.init (m ++ i) s2 ∧ isDigit s2.read = true ∧ s2.dot = false ∧ s2.exp = false := by
    rcases hm with rfl | rfl
    · exact run_int NumSt.init (Or.inl rfl) i hi
    · obtain ⟨s2, h1, h2⟩ := run_int { NumSt.init with read := 0x2d } (Or.inr rfl) i hi
      exact ⟨s2, run_cons step_minus h1, h2⟩
  obtain ⟨s2, r2, d2, dot2, exp2⟩ := hA
  obtain ⟨s3, r3, d3, exp3, dotT, dotF⟩ := run_frac s2 d2 dot2 exp2 f hf
  obtain ⟨s4, r4, d4, dot4, expT, expF⟩ := run_exp s3 d3 exp3 x hx
  refine ⟨s4, ?_, d4, fun h => by rw [dot4]; exact dotT h, fun h => by rw [dot4]; exact dotF h, expT, expF⟩
  have := run_append (m ++ i) r2 (run_append f r3 r4)
  simpa [List.append_assoc] using this

theorem rfcInt_ne_nil {i : Bytes} (h : RfcInt i) : i ≠ [] := by
  rcases h with rfl | ⟨d, ds, rfl, _⟩ <;> simp

/-- **Every RFC 8259 number with a fraction or an exponent is a complete non-integer literal of the
reader** (lexed entirely, ends in a digit, fraction or exponent noted). -/
theorem rfcNumber_nonInt (m i f x : Bytes) (h : RfcNumParts m i f x) (hfx : f ≠ [] ∨ x ≠ []) :
    NonIntLit (m ++ (i ++ (f ++ x))) := by
  obtain ⟨sf, hr, hd, dotT, _, expT, _⟩ := rfcNumParts_run m i f x h
  refine ⟨sf, hr, endsWithDigit_of_run hr ?_ hd, ?_⟩
  · have := rfcInt_ne_nil h.int
    simp [this]
  · rcases hfx with h1 | h1
    · simp [dotT h1]
    · simp [expT h1]

theorem rfcNonIntNumber_nonInt (t : Bytes) (h : RfcNonIntNumber t) : NonIntLit t := by
  obtain ⟨m, i, f, x, hp, hfx, rfl⟩ := h
  exact rfcNumber_nonInt m i f x hp hfx

/-! ### integers: the value is the exact decimal value -/

theorem digitByte_of_digit (c : UInt8) (h : 48 ≤ c.toNat ∧ c.toNat ≤ 57) : digitByte (c.toNat - 48) = c := by
  unfold digitByte
  have : 48 + (c.toNat - 48) = c.toNat := by omega
  rw [this]; simp

theorem natDigits_foldl : ∀ (ds : Bytes), AllDigits ds → ∀ acc, 0 < acc →
    natDigits (ds.foldl (fun a c => 10 * a + (c.toNat - 48)) acc) = natDigits acc ++ ds := by
  intro ds
  induction ds with
  | nil => intro _ acc _; simp
  | cons c ds ih =>
    intro h acc hacc
    have hc := h c (by simp)
    simp only [List.foldl_cons]
    rw [ih (fun x hx => h x (by simp [hx])) _ (by omega)]
    rw [natDigits_ge (10 * acc + (c.toNat - 48)) (by omega)]
    have e1 : (10 * acc + (c.toNat - 48)) / 10 = acc := by omega
    have e2 : (10 * acc + (c.toNat - 48)) % 10 = c.toNat - 48 := by omega
    rw [e1, e2, digitByte_of_digit c hc]
    simp

/-- an `int` (no leading zero) is the decimal text of its value -/
theorem natDigits_decNat (n : Bytes) (h : RfcInt n) : natDigits (decNat n) = n := by
  rcases h with rfl | ⟨d, ds, rfl, h1, h2, hds⟩
  · have : decNat [0x30] = 0 := by decide
    rw [this, natDigits_lt 0 (by omega)]; decide
  · unfold decNat
    simp only [List.foldl_cons]
    have e : 10 * 0 + (d.toNat - 48) = d.toNat - 48 := by omega
    rw [e, natDigits_foldl ds hds _ (by omega), natDigits_lt _ (by omega), digitByte_of_digit d ⟨by omega, h2⟩]
    rfl

theorem rfcInt_spelling (m n : Bytes) (hm : m = [] ∨ m = [0x2d]) (hn : RfcInt n) :
    (m ++ n = intText (rfcIntValue m n) ∨ (rfcIntValue m n = 0 ∧ m ++ n = [0x2d, 0x30])) := by
  have hnd := natDigits_decNat n hn
  rcases hm with rfl | rfl
  · left
    have : ¬ ((decNat n : Int) < 0) := by omega
    simp only [rfcIntValue, if_true, intText, this, if_false, List.nil_append]
    exact hnd.symm
  · by_cases h0 : decNat n = 0
    · right
      rw [h0, natDigits_lt 0 (by omega)] at hnd
      subst hnd
      exact ⟨by simp [rfcIntValue, h0], by decide⟩
    · left
      have hlt : -(decNat n : Int) < 0 := by
        have : 0 < decNat n := by omega
        omega
      have hne : ([0x2d] : Bytes) ≠ [] := by simp
      have hab : (-(decNat n : Int)).natAbs = decNat n := by omega
      simp only [rfcIntValue, hne, if_false, intText, hlt, if_true, hab, hnd]
      rfl

/-- **Every RFC 8259 number without fraction and exponent spells its exact decimal value.** -/
theorem rfcNumber_int (i : Int) (t : Bytes) (h : RfcIntNumber i t) : Spelling (.int i) t := by
  obtain ⟨m, n, hp, rfl, rfl⟩ := h
  simp only [Spelling]
  exact rfcInt_spelling m n hp.minus hp.int

/-- conversely (the grammar is not too narrow): the decimal text of every natural number is an `int` … -/
theorem rfcInt_natDigits (n : Nat) : RfcInt (natDigits n) := by
  by_cases h0 : n = 0
  · subst h0; left; rw [natDigits_lt 0 (by omega)]; rfl
  · right
    obtain ⟨c, t, e, hc⟩ := natDigits_head n (by omega)
    have hall := natDigits_all_digit n
    rw [e] at hall
    have hcd := (isDigit_iff_range c).1 (hall c (by simp))
    refine ⟨c, t, e, ?_, hcd.2, fun x hx => (isDigit_iff_range x).1 (hall x (by simp [hx]))⟩
    have : c.toNat ≠ 48 := by
      intro h
      apply hc
      have e : c = UInt8.ofNat c.toNat := by simp
      rw [e, h]; rfl
    omega

/-- … and the text that the writer prints for the integer `i` is an RFC number with value `i` -/
theorem rfcIntNumber_intText (i : Int) : RfcIntNumber i (intText i) := by
  unfold intText
  by_cases hi : i < 0
  · simp only [hi, if_true]
    refine ⟨[0x2d], natDigits i.natAbs, ⟨Or.inr rfl, rfcInt_natDigits _, Or.inl rfl, Or.inl rfl⟩, rfl, ?_⟩
    simp only [rfcIntValue, decNat_eq_digitsVal, digitsVal_natDigits]
    simp; omega
  · simp only [hi, if_false]
    refine ⟨[], natDigits i.natAbs, ⟨Or.inl rfl, rfcInt_natDigits _, Or.inl rfl, Or.inl rfl⟩, rfl, ?_⟩
    simp only [rfcIntValue, decNat_eq_digitsVal, digitsVal_natDigits]
    simp; omega

/-- every RFC number is one or the other -/
theorem rfcNumber_cases (t : Bytes) (h : RfcNumber t) : (∃ i, RfcIntNumber i t) ∨ RfcNonIntNumber t := by
  obtain ⟨m, n, f, x, hp, rfl⟩ := h
  by_cases hf : f = []
  · by_cases hx : x = []
    · subst hf; subst hx
      exact Or.inl ⟨_, m, n, hp, by simp, rfl⟩
    · exact Or.inr ⟨m, n, f, x, hp, Or.inr hx, rfl⟩
  · exact Or.inr ⟨m, n, f, x, hp, Or.inl hf, rfl⟩


instance (ds : Bytes) : Decidable (AllDigits ds) :=
  inferInstanceAs (Decidable (∀ c ∈ ds, 48 ≤ c.toNat ∧ c.toNat ≤ 57))

/-- every RFC number ends in a digit -/
theorem rfcNumber_endsWithDigit (t : Bytes) (h : RfcNumber t) : endsWithDigit t = true := by
  obtain ⟨m, i, f, x, hp, rfl⟩ := h
  obtain ⟨sf, hr, hd, _⟩ := rfcNumParts_run m i f x hp
  refine endsWithDigit_of_run hr ?_ hd
  have := rfcInt_ne_nil hp.int
  simp [this]

theorem rfcNumber_head (t : Bytes) (h : RfcNumber t) :
    ∃ c r, t = c :: r ∧ (c = 0x2d ∨ (48 ≤ c.toNat ∧ c.toNat ≤ 57)) := by
  obtain ⟨m, i, f, x, ⟨hm, hi, hf, hx⟩, rfl⟩ := h
  rcases hm with rfl | rfl
  · rcases hi with rfl | ⟨d, ds, rfl, hd1, hd2, _⟩
    · exact ⟨_, _, rfl, Or.inr (by decide)⟩
    · exact ⟨d, _, rfl, Or.inr ⟨by omega, hd2⟩⟩
  · exact ⟨_, _, rfl, Or.inl rfl⟩

/-- no leading zeros: after an initial `0` only a fraction or an exponent may follow -/
theorem rfcNumber_leading_zero (c : UInt8) (r : Bytes) (h : RfcNumber (0x30 :: c :: r)) :
    c = 0x2e ∨ c = 0x65 ∨ c = 0x45 := by
  obtain ⟨m, i, f, x, ⟨hm, hi, hf, hx⟩, e⟩ := h
  rcases hm with rfl | rfl
  · rcases hi with rfl | ⟨d, ds, rfl, hd1, _, _⟩
    · rcases hf with rfl | ⟨ds, _, _, rfl⟩
      · rcases hx with rfl | ⟨e', sg, ds, he, _, _, _, rfl⟩
        · simp at e
        · simp at e; rcases he with rfl | rfl <;> simp [e.1]
      · simp at e; simp [e.1]
    · simp at e; obtain ⟨rfl, _⟩ := e; exact absurd hd1 (by decide)
  · simp at e

/-- the same after the minus sign -/
theorem rfcNumber_leading_zero_neg (c : UInt8) (r : Bytes) (h : RfcNumber (0x2d :: 0x30 :: c :: r)) :
    c = 0x2e ∨ c = 0x65 ∨ c = 0x45 := by
  obtain ⟨m, i, f, x, ⟨hm, hi, hf, hx⟩, e⟩ := h
  rcases hm with rfl | rfl
  · rcases hi with rfl | ⟨d, ds, rfl, hd1, _, _⟩
    · simp at e
    · simp at e; obtain ⟨rfl, _⟩ := e; exact absurd hd1 (by decide)
  · have e' : 0x30 :: c :: r = [] ++ (i ++ (f ++ x)) := by simpa using e
    exact rfcNumber_leading_zero c r ⟨[], i, f, x, ⟨Or.inl rfl, hi, hf, hx⟩, e'⟩

/-! ### examples -/

-- `-0.5`, `1E+2`, `0e0`, `10.25e-3` are RFC numbers with a fraction or an exponent …
example : RfcNonIntNumber [0x2d, 0x30, 0x2e, 0x35] :=
  ⟨[0x2d], [0x30], [0x2e, 0x35], [], ⟨Or.inr rfl, Or.inl rfl, Or.inr ⟨[0x35], by simp, by decide, rfl⟩, Or.inl rfl⟩,
    Or.inl (by simp), rfl⟩
example : RfcNonIntNumber [0x31, 0x45, 0x2b, 0x32] :=
  ⟨[], [0x31], [], [0x45, 0x2b, 0x32],
    ⟨Or.inl rfl, Or.inr ⟨0x31, [], rfl, by decide, by decide, by decide⟩, Or.inl rfl,
     Or.inr ⟨0x45, [0x2b], [0x32], Or.inr rfl, Or.inr (Or.inl rfl), by simp, by decide, rfl⟩⟩,
    Or.inr (by simp), rfl⟩
example : RfcNonIntNumber [0x30, 0x65, 0x30] :=
  ⟨[], [0x30], [], [0x65, 0x30],
    ⟨Or.inl rfl, Or.inl rfl, Or.inl rfl, Or.inr ⟨0x65, [], [0x30], Or.inl rfl, Or.inl rfl, by simp, by decide, rfl⟩⟩,
    Or.inr (by simp), rfl⟩
example : RfcNonIntNumber [0x31, 0x30, 0x2e, 0x32, 0x35, 0x65, 0x2d, 0x33] :=
  ⟨[], [0x31, 0x30], [0x2e, 0x32, 0x35], [0x65, 0x2d, 0x33],
    ⟨Or.inl rfl, Or.inr ⟨0x31, [0x30], rfl, by decide, by decide, by decide⟩,
     Or.inr ⟨[0x32, 0x35], by simp, by decide, rfl⟩,
     Or.inr ⟨0x65, [0x2d], [0x33], Or.inl rfl, Or.inr (Or.inr rfl), by simp, by decide, rfl⟩⟩,
    Or.inl (by simp), rfl⟩
-- … hence complete non-integer literals of the reader
example : NonIntLit [0x2d, 0x30, 0x2e, 0x35] :=
  rfcNumber_nonInt [0x2d] [0x30] [0x2e, 0x35] []
    ⟨Or.inr rfl, Or.inl rfl, Or.inr ⟨[0x35], by simp, by decide, rfl⟩, Or.inl rfl⟩ (Or.inl (by simp))
-- `0`, `-0`, `120` are RFC numbers without fraction and exponent, with values 0, 0, 120
example : RfcIntNumber 0 [0x30] := ⟨[], [0x30], ⟨Or.inl rfl, Or.inl rfl, Or.inl rfl, Or.inl rfl⟩, rfl, by decide⟩
example : RfcIntNumber 0 [0x2d, 0x30] := ⟨[0x2d], [0x30], ⟨Or.inr rfl, Or.inl rfl, Or.inl rfl, Or.inl rfl⟩, rfl, by decide⟩
example : RfcIntNumber 120 [0x31, 0x32, 0x30] :=
  ⟨[], [0x31, 0x32, 0x30], ⟨Or.inl rfl, Or.inr ⟨0x31, [0x32, 0x30], rfl, by decide, by decide, by decide⟩, Or.inl rfl, Or.inl rfl⟩,
    rfl, by decide⟩
example : RfcIntNumber (-120) [0x2d, 0x31, 0x32, 0x30] :=
  ⟨[0x2d], [0x31, 0x32, 0x30], ⟨Or.inr rfl, Or.inr ⟨0x31, [0x32, 0x30], rfl, by decide, by decide, by decide⟩, Or.inl rfl, Or.inl rfl⟩,
    rfl, by decide⟩
-- `01`, `-01`, `1.`, `.5`, `+1`, `1e`, the empty text and `-` are NOT RFC numbers
example : ¬ RfcNumber [0x30, 0x31] := fun h => by
  have := rfcNumber_leading_zero _ _ h; revert this; decide
example : ¬ RfcNumber [0x2d, 0x30, 0x31] := fun h => by
  have := rfcNumber_leading_zero_neg _ _ h; revert this; decide
example : ¬ RfcNumber [0x31, 0x2e] := fun h => by
  have := rfcNumber_endsWithDigit _ h; revert this; decide
example : ¬ RfcNumber [0x2e, 0x35] := fun h => by
  obtain ⟨c, r, e, hc⟩ := rfcNumber_head _ h; cases e; revert hc; decide
example : ¬ RfcNumber [0x2b, 0x31] := fun h => by
  obtain ⟨c, r, e, hc⟩ := rfcNumber_head _ h; cases e; revert hc; decide
example : ¬ RfcNumber [0x31, 0x65] := fun h => by
  have := rfcNumber_endsWithDigit _ h; revert this; decide
example : ¬ RfcNumber [] := fun h => by
  obtain ⟨c, r, e, _⟩ := rfcNumber_head _ h; cases e
example : ¬ RfcNumber [0x2d] := fun h => by
  have := rfcNumber_endsWithDigit _ h; revert this; decide

/-! ## RFC 8259 §2-§7: whole texts

```
JSON-text = ws value ws
value     = false / null / true / object / array / number / string
object    = begin-object [ member *( value-separator member ) ] end-object
member    = string name-separator value
array     = begin-array [ value *( value-separator value ) ] end-array
begin-array = ws %x5B ws   begin-object = ws %x7B ws   end-array = ws %x5D ws   end-object = ws %x7D ws
name-separator = ws %x3A ws   value-separator = ws %x2C ws
ws        = *( %x20 / %x09 / %x0A / %x0D )
string    = quotation-mark *char quotation-mark
```

`RfcSpelling j s`: the byte string `s` is a `value` of this grammar that denotes the abstract JSON
value `j` (`JVal`: integers by their exact value, numbers with a fraction or exponent by their
literal text, strings by the UTF-8 encoding of their characters, objects by their members as
written).  The `ws` around the structural characters is spelled out at every position where the
grammar has it; the `ws` before and after the whole `value` belongs to `RfcText`.

String bodies are `Body`/`Piece` of C07/Rfc.lean, which mention no part of the reader except the
value of one hexadecimal digit (`hexVal8`: `0-9`, `a-f`, `A-F`).  A body is any sequence of
* unescaped bytes ≥ 0x20 other than `"` (0x22) and `\` (0x5C) — this includes every byte of the
  UTF-8 encoding of every scalar value ≥ U+0020, so it is a superset of the RFC's `unescaped`
  (the RFC text is a sequence of characters; here a text is its UTF-8 encoding, and bytes that do
  not form valid UTF-8 are allowed as well and denote themselves);
* the eight two-character escapes `\" \\ \/ \b \f \n \r \t`;
* `\uXXXX` (hexadecimal digits in either case) for a code point outside the surrogate range;
* a surrogate pair `\uD800-DBFF \uDC00-DFFF` for a code point from U+10000 on;
i.e. exactly the RFC strings that denote sequences of Unicode scalar values.  Escapes of LONE
surrogates (which the RFC grammar allows but calls unpredictable, §8.2) are excluded.
-/

/-- RFC 8259 `ws = *( %x20 / %x09 / %x0A / %x0D )` -/
def RfcWs (w : Bytes) : Prop := ∀ b ∈ w, b = 0x20 ∨ b = 0x09 ∨ b = 0x0a ∨ b = 0x0d

instance (w : Bytes) : Decidable (RfcWs w) :=
  inferInstanceAs (Decidable (∀ b ∈ w, b = 0x20 ∨ b = 0x09 ∨ b = 0x0a ∨ b = 0x0d))

theorem rfcWs_iff_ws (w : Bytes) : RfcWs w ↔ Ws w := by
  unfold RfcWs Ws
  constructor
  · intro h b hb
    rcases h b hb with rfl | rfl | rfl | rfl <;> decide
  · intro h b hb
    have := h b hb
    simp only [isWs, Bool.or_eq_true, beq_iff_eq] at this
    rcases this with ((h | h) | h) | h
    · exact Or.inl h
    · exact Or.inr (Or.inl h)
    · exact Or.inr (Or.inr (Or.inr h))
    · exact Or.inr (Or.inr (Or.inl h))

theorem rfcWs_ws {w : Bytes} (h : RfcWs w) : Ws w := (rfcWs_iff_ws w).1 h

mutual
  /-- `value` -/
  def RfcSpelling : JVal → Bytes → Prop
    | .null, s => s = [0x6e, 0x75, 0x6c, 0x6c]
    | .bool b, s => s = (if b then [0x74, 0x72, 0x75, 0x65] else [0x66, 0x61, 0x6c, 0x73, 0x65])
    | .int i, s => RfcIntNumber i s
    | .lit t, s => s = t ∧ RfcNonIntNumber t
    | .str u, s => ∃ p, Body u p ∧ s = 0x22 :: (p ++ [0x22])
    | .arr [], s => ∃ w, RfcWs w ∧ s = 0x5b :: (w ++ [0x5d])
    | .arr (v :: vs), s => ∃ w body, RfcWs w ∧ RfcSpellingList (v :: vs) body ∧ s = 0x5b :: (w ++ body)
    | .obj [], s => ∃ w, RfcWs w ∧ s = 0x7b :: (w ++ [0x7d])
    | .obj (m :: ms), s => ∃ w body, RfcWs w ∧ RfcSpellingMembers (m :: ms) body ∧ s = 0x7b :: (w ++ body)
  /-- `value ws *( %x2C ws value ws ) %x5D`: from the first element to the closing bracket -/
  def RfcSpellingList : List JVal → Bytes → Prop
    | [], _ => False
    | v :: vs, s => ∃ t w2, RfcSpelling v t ∧ RfcWs w2 ∧
        ((vs = [] ∧ s = t ++ (w2 ++ [0x5d])) ∨
         (vs ≠ [] ∧ ∃ w1 body, RfcWs w1 ∧ RfcSpellingList vs body ∧ s = t ++ (w2 ++ 0x2c :: (w1 ++ body))))
  /-- `string ws %x3A ws value ws *( %x2C ws member ws ) %x7D`: from the first member to the closing brace -/
  def RfcSpellingMembers : List (Bytes × JVal) → Bytes → Prop
    | [], _ => False
    | (k, v) :: ms, s => ∃ p w1 w2 tv w3, Body k p ∧ RfcWs w1 ∧ RfcWs w2 ∧ RfcSpelling v tv ∧ RfcWs w3 ∧
        ((ms = [] ∧ s = (0x22 :: (p ++ [0x22])) ++ (w1 ++ 0x3a :: (w2 ++ (tv ++ (w3 ++ [0x7d]))))) ∨
         (ms ≠ [] ∧ ∃ w4 body, RfcWs w4 ∧ RfcSpellingMembers ms body ∧
            s = (0x22 :: (p ++ [0x22])) ++ (w1 ++ 0x3a :: (w2 ++ (tv ++ (w3 ++ 0x2c :: (w4 ++ body)))))))
end

mutual
  /-- every `value` of the independent grammar is a `Spelling` (the predicate the reader theorems
  are stated with) of the same abstract value -/
  theorem rfcSpelling_spelling : ∀ (j : JVal) (s : Bytes), RfcSpelling j s → Spelling j s
    | .null, s, h => by
      simp only [RfcSpelling] at h
      simp only [Spelling]
      rw [h]; rfl
    | .bool b, s, h => by
      simp only [RfcSpelling] at h
      simp only [Spelling]
      rw [h]; cases b <;> rfl
    | .int i, s, h => by
      simp only [RfcSpelling] at h
      exact rfcNumber_int i s h
    | .lit t, s, h => by
      simp only [RfcSpelling] at h
      simp only [Spelling]
      exact ⟨h.1, rfcNonIntNumber_nonInt t h.2⟩
    | .str u, s, h => by
      simp only [RfcSpelling] at h
      simp only [Spelling]
      exact h
    | .arr [], s, h => by
      simp only [RfcSpelling] at h
      simp only [Spelling]
      obtain ⟨w, hw, e⟩ := h
      exact ⟨w, rfcWs_ws hw, e⟩
    | .arr (v :: vs), s, h => by
      simp only [RfcSpelling] at h
      simp only [Spelling]
      obtain ⟨w, body, hw, hb, e⟩ := h
      exact ⟨w, body, rfcWs_ws hw, rfcSpellingList_spellingList (v :: vs) body hb, e⟩
    | .obj [], s, h => by
      simp only [RfcSpelling] at h
      simp only [Spelling]
      obtain ⟨w, hw, e⟩ := h
      exact ⟨w, rfcWs_ws hw, e⟩
    | .obj ((k, v) :: ms), s, h => by
      simp only [RfcSpelling] at h
      simp only [Spelling]
      obtain ⟨w, body, hw, hb, e⟩ := h
      exact ⟨w, body, rfcWs_ws hw, rfcSpellingMembers_spellingMembers ((k, v) :: ms) body hb, e⟩
  theorem rfcSpellingList_spellingList : ∀ (vs : List JVal) (s : Bytes), RfcSpellingList vs s → SpellingList vs s
    | [], s, h => by simp [RfcSpellingList] at h
    | v :: vs, s, h => by
      simp only [RfcSpellingList] at h
      simp only [SpellingList]
      obtain ⟨t, w2, ht, hw2, h⟩ := h
      refine ⟨t, w2, rfcSpelling_spelling v t ht, rfcWs_ws hw2, ?_⟩
      rcases h with h | ⟨hne, w1, body, hw1, hb, e⟩
      · exact Or.inl h
      · exact Or.inr ⟨hne, w1, body, rfcWs_ws hw1, rfcSpellingList_spellingList vs body hb, e⟩
  theorem rfcSpellingMembers_spellingMembers : ∀ (ms : List (Bytes × JVal)) (s : Bytes),
      RfcSpellingMembers ms s → SpellingMembers ms s
    | [], s, h => by simp [RfcSpellingMembers] at h
    | (k, v) :: ms, s, h => by
      simp only [RfcSpellingMembers] at h
      simp only [SpellingMembers]
      obtain ⟨p, w1, w2, tv, w3, hk, hw1, hw2, hv, hw3, h⟩ := h
      refine ⟨p, w1, w2, tv, w3, hk, rfcWs_ws hw1, rfcWs_ws hw2, rfcSpelling_spelling v tv hv, rfcWs_ws hw3, ?_⟩
      rcases h with h | ⟨hne, w4, body, hw4, hb, e⟩
      · exact Or.inl h
      · exact Or.inr ⟨hne, w4, body, rfcWs_ws hw4, rfcSpellingMembers_spellingMembers ms body hb, e⟩
end

-- `[1, null]` denotes the array of the integer 1 and null
example : RfcSpelling (.arr [.int 1, .null]) [0x5b, 0x31, 0x2c, 0x20, 0x6e, 0x75, 0x6c, 0x6c, 0x5d] := by
  simp only [RfcSpelling, RfcSpellingList]
  exact ⟨[], _, by decide,
    ⟨[0x31], [], ⟨[], [0x31], ⟨Or.inl rfl, Or.inr ⟨0x31, [], rfl, by decide, by decide, by decide⟩, Or.inl rfl, Or.inl rfl⟩,
        rfl, by decide⟩, by decide,
      Or.inr ⟨by simp, [0x20], _, by decide, ⟨[0x6e, 0x75, 0x6c, 0x6c], [], rfl, by decide, Or.inl ⟨trivial, rfl⟩⟩, rfl⟩⟩, rfl⟩

/-- **RFC 8259 texts mean what the RFC says.**  For every abstract JSON value `j`, every `value`
text `s` of `j` in the independent grammar, and white space `w1`, `w2` around it: `parse_single`
returns the jaq value of `j` (`resolve (embedRaw j)` = `embed j` of Props/C07.lean: integers exact
at any size, non-integer literals kept as their text, strings as their UTF-8 bytes, arrays
elementwise, object members inserted in order). -/
theorem parse_rfc_text (j : JVal) (s w1 w2 : Bytes) (h : RfcSpelling j s) (h1 : Ws w1) (h2 : Ws w2) :
    parseSingle (w1 ++ (s ++ w2)) = some (resolve (embedRaw j)) :=
  parseSingle_spells _ _ w1 w2 (spelling_spells j s (rfcSpelling_spelling j s h)) (ws_gap h1) (ws_gap h2)

/-- `JSON-text = ws value ws` denoting `j` -/
def RfcTextOf (j : JVal) (s : Bytes) : Prop :=
  ∃ w1 t w2, RfcWs w1 ∧ RfcWs w2 ∧ RfcSpelling j t ∧ s = w1 ++ (t ++ w2)

/-- `JSON-text = ws value ws` -/
def RfcText (s : Bytes) : Prop := ∃ j, RfcTextOf j s

theorem parse_rfc_textOf (j : JVal) (s : Bytes) (h : RfcTextOf j s) :
    parseSingle s = some (resolve (embedRaw j)) := by
  obtain ⟨w1, t, w2, h1, h2, ht, rfl⟩ := h
  exact parse_rfc_text j t w1 w2 ht (rfcWs_ws h1) (rfcWs_ws h2)

/-- every RFC 8259 text is accepted, with the value of the abstract value it denotes … -/
theorem rfc_text_value (s : Bytes) (h : RfcText s) :
    ∃ j, RfcTextOf j s ∧ parseSingle s = some (resolve (embedRaw j)) := by
  obtain ⟨j, hj⟩ := h
  exact ⟨j, hj, parse_rfc_textOf j s hj⟩

/-- … in particular it is accepted -/
theorem rfc_text_accepted (s : Bytes) (h : RfcText s) : ∃ v, parseSingle s = some v := by
  obtain ⟨j, _, hj⟩ := rfc_text_value s h
  exact ⟨_, hj⟩

end Jaq.C07
