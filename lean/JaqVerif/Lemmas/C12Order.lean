/-
  C12 helper lemmas: consequences of `TotalPreorder`, its lifting to key vectors (`lexCmp`),
  `listEq` vs `lexCmp`.
-/
import JaqVerif.C12.Sort

namespace Jaq.Coll

theorem Ordering.swap_eq_gt {o : Ordering} : o.swap = .gt ↔ o = .lt := by cases o <;> simp [Ordering.swap]
theorem Ordering.swap_eq_lt {o : Ordering} : o.swap = .lt ↔ o = .gt := by cases o <;> simp [Ordering.swap]
theorem Ordering.swap_eq_eq {o : Ordering} : o.swap = .eq ↔ o = .eq := by cases o <;> simp [Ordering.swap]

namespace TotalPreorder
variable {α : Type} {c : α → α → Ordering}

theorem gt_iff_lt (h : TotalPreorder c) (a b : α) : c a b = .gt ↔ c b a = .lt := by
  rw [h.swap a b]; exact Ordering.swap_eq_lt.symm

theorem lt_iff_gt (h : TotalPreorder c) (a b : α) : c a b = .lt ↔ c b a = .gt := by
  rw [h.swap a b]; exact Ordering.swap_eq_gt.symm

theorem eq_symm (h : TotalPreorder c) {a b : α} (e : c a b = .eq) : c b a = .eq := by
  rw [h.swap a b, e]; rfl

/-- `a ≤ b` and `b ≤ a` give `a ~ b` -/
theorem eq_of_le_of_le (h : TotalPreorder c) {a b : α} (h1 : c a b ≠ .gt) (h2 : c b a ≠ .gt) : c a b = .eq := by
  have := h.swap a b
  cases hab : c a b <;> simp_all [Ordering.swap]

theorem le_of_eq {a b : α} (e : c a b = .eq) : c a b ≠ .gt := by simp [e]
theorem le_of_lt {a b : α} (e : c a b = .lt) : c a b ≠ .gt := by simp [e]

theorem eq_trans (h : TotalPreorder c) {a b d : α} (e1 : c a b = .eq) (e2 : c b d = .eq) : c a d = .eq := by
  apply h.eq_of_le_of_le
  · exact h.trans_le a b d (le_of_eq e1) (le_of_eq e2)
  · exact h.trans_le d b a (le_of_eq (h.eq_symm e2)) (le_of_eq (h.eq_symm e1))

theorem lt_of_lt_of_le (h : TotalPreorder c) {a b d : α} (h1 : c a b = .lt) (h2 : c b d ≠ .gt) : c a d = .lt := by
  have hle : c a d ≠ .gt := h.trans_le a b d (le_of_lt h1) h2
  cases had : c a d with
  | lt => rfl
  | gt => exact absurd had hle
  | eq =>
    -- d ≤ a, b ≤ d so b ≤ a, contradiction with a < b
    have hda : c d a ≠ .gt := le_of_eq (h.eq_symm had)
    have hba : c b a ≠ .gt := h.trans_le b d a h2 hda
    have : c b a = .gt := (h.lt_iff_gt a b).1 h1
    exact absurd this hba

theorem lt_of_le_of_lt (h : TotalPreorder c) {a b d : α} (h1 : c a b ≠ .gt) (h2 : c b d = .lt) : c a d = .lt := by
  have hle : c a d ≠ .gt := h.trans_le a b d h1 (le_of_lt h2)
  cases had : c a d with
  | lt => rfl
  | gt => exact absurd had hle
  | eq =>
    have hda : c d a ≠ .gt := le_of_eq (h.eq_symm had)
    have hdb : c d b ≠ .gt := h.trans_le d a b hda h1
    have : c d b = .gt := (h.lt_iff_gt b d).1 h2
    exact absurd this hdb

theorem lt_trans (h : TotalPreorder c) {a b d : α} (h1 : c a b = .lt) (h2 : c b d = .lt) : c a d = .lt :=
  h.lt_of_lt_of_le h1 (le_of_lt h2)

theorem lt_of_le_of_ne (_h : TotalPreorder c) {a b : α} (h1 : c a b ≠ .gt) (h2 : c a b ≠ .eq) : c a b = .lt := by
  cases hab : c a b <;> simp_all

theorem lt_irrefl (h : TotalPreorder c) (a : α) : c a a ≠ .lt := by simp [h.refl a]

/-- congruence: `~` on the left -/
theorem cmp_congr_left (h : TotalPreorder c) {a a' b : α} (e : c a a' = .eq) : c a b = c a' b := by
  cases hab : c a' b with
  | lt => exact h.lt_of_le_of_lt (le_of_eq e) hab
  | eq => exact h.eq_trans e hab
  | gt =>
    have : c b a' = .lt := (h.gt_iff_lt a' b).1 hab
    have : c b a = .lt := h.lt_of_lt_of_le this (le_of_eq (h.eq_symm e))
    exact (h.gt_iff_lt a b).2 this

theorem cmp_congr_right (h : TotalPreorder c) {a b b' : α} (e : c b b' = .eq) : c a b = c a b' := by
  rw [h.swap b a, h.swap b' a, h.cmp_congr_left e]

end TotalPreorder

/-! ### lexicographic lifting -/

theorem lexCmp_nil_nil {α : Type} (c : α → α → Ordering) : lexCmp c [] [] = .eq := rfl
theorem lexCmp_nil_cons {α : Type} (c : α → α → Ordering) (y : α) (ys : List α) : lexCmp c [] (y :: ys) = .lt := rfl
theorem lexCmp_cons_nil {α : Type} (c : α → α → Ordering) (x : α) (xs : List α) : lexCmp c (x :: xs) [] = .gt := rfl
theorem lexCmp_cons_cons {α : Type} (c : α → α → Ordering) (x y : α) (xs ys : List α) :
    lexCmp c (x :: xs) (y :: ys) = (match c x y with | .eq => lexCmp c xs ys | o => o) := rfl

theorem lexCmp_cons_eq {α : Type} {c : α → α → Ordering} {x y : α} (e : c x y = .eq) (xs ys : List α) :
    lexCmp c (x :: xs) (y :: ys) = lexCmp c xs ys := by rw [lexCmp_cons_cons, e]
theorem lexCmp_cons_lt {α : Type} {c : α → α → Ordering} {x y : α} (e : c x y = .lt) (xs ys : List α) :
    lexCmp c (x :: xs) (y :: ys) = .lt := by rw [lexCmp_cons_cons, e]
theorem lexCmp_cons_gt {α : Type} {c : α → α → Ordering} {x y : α} (e : c x y = .gt) (xs ys : List α) :
    lexCmp c (x :: xs) (y :: ys) = .gt := by rw [lexCmp_cons_cons, e]

theorem lexCmp_refl {α : Type} {c : α → α → Ordering} (h : TotalPreorder c) : ∀ l : List α, lexCmp c l l = .eq
  | [] => rfl
  | x :: xs => by rw [lexCmp_cons_eq (h.refl x)]; exact lexCmp_refl h xs

theorem lexCmp_swap {α : Type} {c : α → α → Ordering} (h : TotalPreorder c) :
    ∀ a b : List α, lexCmp c b a = (lexCmp c a b).swap
  | [], [] => rfl
  | [], _ :: _ => rfl
  | _ :: _, [] => rfl
  | x :: xs, y :: ys => by
    cases hxy : c x y with
    | eq => rw [lexCmp_cons_eq hxy, lexCmp_cons_eq (h.eq_symm hxy)]; exact lexCmp_swap h xs ys
    | lt => rw [lexCmp_cons_lt hxy, lexCmp_cons_gt ((h.lt_iff_gt x y).1 hxy)]; rfl
    | gt => rw [lexCmp_cons_gt hxy, lexCmp_cons_lt ((h.gt_iff_lt x y).1 hxy)]; rfl

theorem lexCmp_trans_le {α : Type} {c : α → α → Ordering} (h : TotalPreorder c) :
    ∀ a b d : List α, lexCmp c a b ≠ .gt → lexCmp c b d ≠ .gt → lexCmp c a d ≠ .gt
  | [], _, [], _, _ => by simp [lexCmp]
  | [], _, _ :: _, _, _ => by simp [lexCmp]
  | _ :: _, [], _, h1, _ => by simp [lexCmp] at h1
  | _ :: _, _ :: _, [], _, h2 => by simp [lexCmp] at h2
  | x :: xs, y :: ys, z :: zs, h1, h2 => by
    cases hxy : c x y with
    | gt => rw [lexCmp_cons_gt hxy] at h1; exact absurd rfl h1
    | lt =>
      cases hyz : c y z with
      | gt => rw [lexCmp_cons_gt hyz] at h2; exact absurd rfl h2
      | lt => rw [lexCmp_cons_lt (h.lt_trans hxy hyz)]; simp
      | eq => rw [lexCmp_cons_lt (h.lt_of_lt_of_le hxy (TotalPreorder.le_of_eq hyz))]; simp
    | eq =>
      cases hyz : c y z with
      | gt => rw [lexCmp_cons_gt hyz] at h2; exact absurd rfl h2
      | lt => rw [lexCmp_cons_lt (h.lt_of_le_of_lt (TotalPreorder.le_of_eq hxy) hyz)]; simp
      | eq =>
        rw [lexCmp_cons_eq hxy] at h1
        rw [lexCmp_cons_eq hyz] at h2
        rw [lexCmp_cons_eq (h.eq_trans hxy hyz)]
        exact lexCmp_trans_le h xs ys zs h1 h2

/-- the order on key vectors is again a total preorder -/
theorem lexCmp_preorder {α : Type} {c : α → α → Ordering} (h : TotalPreorder c) : TotalPreorder (lexCmp c) :=
  ⟨lexCmp_refl h, lexCmp_swap h, lexCmp_trans_le h⟩

/-- `Vec == Vec` is the equivalence of `Vec::cmp` -/
theorem listEq_iff {α : Type} {c : α → α → Ordering} {e : α → α → Bool} (h : OrderLaws c e) :
    ∀ a b : List α, listEq e a b = true ↔ lexCmp c a b = .eq
  | [], [] => by simp [listEq, lexCmp]
  | [], _ :: _ => by simp [listEq, lexCmp]
  | _ :: _, [] => by simp [listEq, lexCmp]
  | x :: xs, y :: ys => by
    simp only [listEq, Bool.and_eq_true]
    cases hxy : c x y with
    | eq => rw [lexCmp_cons_eq hxy, listEq_iff h xs ys]; simp [(h.eq_iff x y).2 hxy]
    | lt =>
      rw [lexCmp_cons_lt hxy]
      have : e x y ≠ true := fun he => by have := (h.eq_iff x y).1 he; simp [hxy] at this
      simp [this]
    | gt =>
      rw [lexCmp_cons_gt hxy]
      have : e x y ≠ true := fun he => by have := (h.eq_iff x y).1 he; simp [hxy] at this
      simp [this]

/-- the order of key-decorated elements is a total preorder -/
theorem keyCmp_preorder {α κ : Type} {c : κ → κ → Ordering} (h : TotalPreorder c) :
    TotalPreorder (keyCmp (α := α) c) :=
  let hl := lexCmp_preorder h
  ⟨fun a => hl.refl a.1, fun a b => hl.swap a.1 b.1, fun a b d => hl.trans_le a.1 b.1 d.1⟩

end Jaq.Coll
