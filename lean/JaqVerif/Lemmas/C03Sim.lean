/-
  C03 helper lemmas, part 3: the simulation relations (`Sync`, `Rel`, `Matches`), dead
  residuals, preservation of index-filter purity, honesty of `size_hint`.
-/
import JaqVerif.Lemmas.C03Rel
namespace Jaq.C03
variable {D : List T}

/-- a residual that is finished and touches no input, in every world -/
def Dead (D : List T) (th : Th) : Prop := ∀ w, ∃ n, force D n th w = some (.done, w)

/-- continuations that agree: equal, or the collected form of a simple index filter -/
inductive KRel : K → K → Prop where
  | refl (k : K) : KRel k k
  | idx {i c v x} : i.simple = true → simpleVal i c v = some x → KRel (.idxL x) (.idxR i c v)

/-- what is related: streams, the agenda/stack of a fold, the source of the list of a fold -/
inductive Mode where
  | stream | stack | src

/-- in-step states (world-free): the iterator `it` and the residual stream `th` deliver the same.
Mode `stack`: the explicit stack of `fold` against the reference's agenda (the interpreter drops
exhausted `Output` frames early: `sDrop`); mode `src`: the iterator under the lazy list against
the reference's stream of `xs` (in step, or both not started: `srcFresh`). -/
inductive SyncG (D : List T) : Mode → It → Th → Prop where
  | nil : SyncG D .stream .nil .nil
  | once (x : Item) : SyncG D .stream (.once x) (.ret x)
  | inputs : SyncG D .stream .inputs .inputs
  | range (c t b : Int) : SyncG D .stream (.range c t b) (.range c t b)
  | chain {a a' t c v} : SyncG D .stream a a' → SyncG D .stream (.chain a t c v) (.app a' (.run t c v))
  | flat {src src' cur cur' k k'} : KRel k k' → SyncG D .stream src src' → SyncG D .stream cur cur' →
      SyncG D .stream (.flat src k cur) (.app cur' (.bind src' k'))
  | flat0 {src src' k k'} : KRel k k' → SyncG D .stream src src' → SyncG D .stream (.flat src k .nil) (.bind src' k')
  | wrap {a a'} (s : Wr) : SyncG D .stream a a' → SyncG D .stream (.wrap s a) (.wrapC s a')
  | appDead {it th rest} : SyncG D .stream it th → Dead D rest → SyncG D .stream it (.app th rest)
  | dead {th} : Dead D th → SyncG D .stream .nil th
  | fold {kind upd ctx cells src src' ended ini ini' stk stk'} :
      SyncG D .src src src' → SyncG D .stream ini ini' → SyncG D .stack stk stk' →
      SyncG D .stream (.fold kind upd ctx cells src ended ini stk) (.fold kind upd ctx cells src' ended ini' stk')
  | srcSync {a a'} : SyncG D .stream a a' → SyncG D .src a a'
  | srcFresh {t c v it} : (∀ w, MkR D t c v w (it, w)) → SyncG D .src it (.run t c v)
  | sNil : SyncG D .stack .nil .nil
  | sInp {pos y rest rest'} : SyncG D .stack rest rest' → SyncG D .stack (.fInp pos y rest) (.fInp pos y rest')
  | sOut {pos x ys ys' rest rest'} : SyncG D .stream ys ys' → SyncG D .stack rest rest' →
      SyncG D .stack (.fOut pos x ys rest) (.fOut pos x ys' rest')
  | sDrop {pos x ys' rest rest'} : Dead D ys' → SyncG D .stack rest rest' → SyncG D .stack rest (.fOut pos x ys' rest')

abbrev Sync (D : List T) : It → Th → Prop := SyncG D .stream

/-- states whose construction ran ahead: the iterator at world `wi` corresponds to the residual
at world `ws` (the reference has not yet performed what building the iterator performed) -/
inductive Rel (D : List T) : It → World → Th → World → Prop where
  | sync {it th} (w : World) : Sync D it th → Rel D it w th w
  | mk {t c v w it w'} : MkR D t c v w (it, w') → Rel D it w' (.run t c v) w
  | chain {a wa a' wa' t c v} : Rel D a wa a' wa' → Rel D (.chain a t c v) wa (.app a' (.run t c v)) wa'
  | flatInit {a wa a' wa' k k'} : KRel k k' → Rel D a wa a' wa' → Rel D (.flat a k .nil) wa (.bind a' k') wa'
  | flatRun {src src' cur wc cur' wc' k k'} : KRel k k' → Sync D src src' → Rel D cur wc cur' wc' →
      Rel D (.flat src k cur) wc (.app cur' (.bind src' k')) wc'
  | wrap {a wa a' wa'} {s : Wr} : s.ready = true → Rel D a wa a' wa' → Rel D (.wrap s a) wa (.wrapC s a') wa'
  | appDead {it wi th ws rest} : Rel D it wi th ws → Dead D rest → Rel D it wi (.app th rest) ws
  | idxS {i c v x} (y : Val) (w : World) : i.simple = true → simpleVal i c v = some x →
      Rel D (.once (indexItem y x)) w (.run (.pipe i (.idxOf y)) c v) w
  | foldIni {kind upd ctx cells src src' ended ini wi ini' ws} : SyncG D .src src src' → Rel D ini wi ini' ws →
      Rel D (.fold kind upd ctx cells src ended ini .nil) wi (.fold kind upd ctx cells src' ended ini' .nil) ws
  | foldFast {kind upd ctx cells src src' ended ini' wi ws i th'} : SyncG D .src src src' →
      (∃ n, force D n ini' ws = some (.yield (.ok i) th', wi)) → Dead D th' →
      Rel D (.fold kind upd ctx cells src ended .nil (.fInp 0 i .nil)) wi (.fold kind upd ctx cells src' ended ini' .nil) ws
  | foldTop {kind upd ctx cells src src' ended ini ini' pos x ys wi ys' ws rest rest'} :
      SyncG D .src src src' → Sync D ini ini' → Rel D ys wi ys' ws → SyncG D .stack rest rest' →
      Rel D (.fold kind upd ctx cells src ended ini (.fOut pos x ys rest)) wi
        (.fold kind upd ctx cells src' ended ini' (.fOut pos x ys' rest')) ws

/-- what one pull of the iterator must deliver for a given result of the reference -/
def Matches (D : List T) (r : Step × World) (it : It) (wi : World) : Prop :=
  match r with
  | (.done, ws') => ∃ it', NextR D it wi (none, it', ws')
  | (.yield x th', ws') => ∃ it', NextR D it wi (some x, it', ws') ∧ Sync D it' th'

theorem Matches.transfer {r : Step × World} {it1 it2 : It} {w1 w2 : World}
    (h : ∀ res, NextR D it1 w1 res → NextR D it2 w2 res) (hm : Matches D r it1 w1) : Matches D r it2 w2 := by
  obtain ⟨s, ws'⟩ := r
  cases s with
  | done => obtain ⟨it', hn⟩ := hm; exact ⟨it', h _ hn⟩
  | yield x th' => obtain ⟨it', hn, hs⟩ := hm; exact ⟨it', h _ hn, hs⟩

/-! ### dead residuals -/

theorem dead_nil : Dead D .nil := fun _ => ⟨1, rfl⟩

theorem dead_app {a b : Th} (ha : Dead D a) (hb : Dead D b) : Dead D (.app a b) := by
  intro w
  obtain ⟨n1, h1⟩ := ha w
  obtain ⟨n2, h2⟩ := hb w
  refine ⟨n1 + n2 + 1, ?_⟩
  rw [force_succ]
  simp only [forceStep, force_mono_le h1 (by omega : n1 ≤ n1 + n2), force_mono_le h2 (by omega : n2 ≤ n1 + n2)]

theorem dead_bind {a : Th} (k : K) (ha : Dead D a) : Dead D (.bind a k) := by
  intro w
  obtain ⟨n1, h1⟩ := ha w
  exact ⟨n1 + 1, by rw [force_succ]; simp only [forceStep, h1]⟩

theorem dead_wrap {a : Th} (s : Wr) (he : s.atEnd = none) (ha : Dead D a) : Dead D (.wrapC s a) := by
  intro w
  obtain ⟨n1, h1⟩ := ha w
  refine ⟨n1 + 1, ?_⟩
  rw [force_succ]
  by_cases hs : s.ready = true
  · simp only [forceStep, hs, h1, he, if_true]
  · simp only [forceStep, hs]; rfl

theorem transparent_atEnd {s : Wr} (hs : s.transparent = true) : s.atEnd = none := by
  cases s <;> simp [Wr.transparent] at hs <;> rfl

/-- a fold whose `init` is over and whose agenda is empty is over -/
theorem dead_foldEmpty {kind upd ctx cells src ended} {ini : Th} (h : Dead D ini) :
    Dead D (.fold kind upd ctx cells src ended ini .nil) := by
  intro w
  obtain ⟨n1, h1⟩ := h w
  exact ⟨n1 + 1, by rw [force_succ]; simp only [forceStep, h1]⟩

/-- `size_hint` is honest: an iterator whose upper bound is 0 is in step with a dead residual -/
theorem sync_upper0_dead_aux : ∀ {m : Mode} {it : It} {th : Th}, SyncG D m it th → m = .stream → it.upper = some 0 → Dead D th := by
  intro m it th h
  induction h with
  | nil => intro _ _; exact dead_nil
  | once x => intro _ h; simp [It.upper] at h
  | inputs => intro _ h; simp [It.upper] at h
  | range _ _ _ => intro _ h; simp [It.upper] at h
  | chain _ _ => intro _ h; simp [It.upper] at h
  | flat _ _ _ _ _ => intro _ h; simp [It.upper] at h
  | flat0 _ _ _ => intro _ h; simp [It.upper] at h
  | wrap s _ ih =>
    intro _ h
    simp only [It.upper] at h
    split at h
    · rename_i hs
      exact dead_wrap s (transparent_atEnd hs) (ih rfl h)
    · simp at h
  | appDead _ hd ih => intro _ h; exact dead_app (ih rfl h) hd
  | dead hd => intro _ _; exact hd
  | fold _ _ _ _ _ _ => intro _ h; simp [It.upper] at h
  | srcSync _ _ => intro h; cases h
  | srcFresh _ => intro h; cases h
  | sNil => intro h; cases h
  | sInp _ _ => intro h; cases h
  | sOut _ _ _ _ => intro h; cases h
  | sDrop _ _ _ => intro h; cases h

theorem sync_upper0_dead {it : It} {th : Th} (h : Sync D it th) (hu : it.upper = some 0) : Dead D th :=
  sync_upper0_dead_aux h rfl hu


/-! ### purity of index filters is preserved by the reference -/

theorem step_pure {s : Wr} (hs : s.pureIdx = true) (x : Item) :
    match s.step x with
    | .emit _ s' => s'.pureIdx = true
    | .drop s' => s'.pureIdx = true
    | .stop => True
    | .handler c ctx _ => c.pureIdx = true ∧ ctx.pure = true := by
  cases s with
  | limit n => cases n <;> simp [Wr.step, Wr.pureIdx]
  | skip n => cases n <;> cases x <;> simp [Wr.step, Wr.pureIdx]
  | label l =>
    cases x with
    | brk l' => by_cases hl : l' = l <;> simp [Wr.step, hl, Wr.pureIdx]
    | _ => simp [Wr.step, Wr.pureIdx]
  | try_ c ctx =>
    cases x with
    | err e => simpa [Wr.step, Wr.pureIdx] using hs
    | _ => simpa [Wr.step, Wr.pureIdx] using hs
  | filt => cases hk : x.keep <;> simp [Wr.step, hk, Wr.pureIdx]
  | toBool => cases x <;> simp [Wr.step, Wr.pureIdx]
  | stack => simp [Wr.step, Wr.pureIdx]
  | collect acc => cases x <;> simp [Wr.step, Wr.pureIdx]
  | mathL op l => simp [Wr.step, Wr.pureIdx]

def PureStep (g : Th → World → ForceRes) : Prop :=
  ∀ th w x th' w', th.pureIdx = true → g th w = some (.yield x th', w') → th'.pureIdx = true

syntax "pure1" : tactic
set_option hygiene false in
macro_rules
  | `(tactic| pure1) => `(tactic|
      first
        | (simp at h; done)
        | (simp only [Option.some.injEq, Prod.mk.injEq, Step.yield.injEq] at h
           obtain ⟨⟨rfl, rfl⟩, rfl⟩ := h
           simp_all [Th.pureIdx, T.pureIdx, K.pureIdx, Wr.pureIdx]; done)
        | (exact hg _ _ _ _ _ (by simp_all [Th.pureIdx, T.pureIdx, K.pureIdx, Wr.pureIdx, K.th_pure, Ctx.forDef]) h)
        | (split at h <;>
            (try (rename_i heq; have hq := hg _ _ _ _ _ (by simp_all [Th.pureIdx, T.pureIdx, K.pureIdx, Wr.pureIdx]) heq)) <;>
            pure1))

theorem foldEndS_pure {g : Th → World → ForceRes} (hg : PureStep g) {kind upd ctx cells src ended ini y rest w x th' w'}
    (hp : (Th.fold kind upd ctx cells src ended ini rest).pureIdx = true)
    (h : foldEndS g kind upd ctx cells src ended ini y rest w = some (.yield x th', w')) : th'.pureIdx = true := by
  unfold foldEndS at h
  split at h
  · simp only [Option.some.injEq, Prod.mk.injEq, Step.yield.injEq] at h
    obtain ⟨⟨_, rfl⟩, _⟩ := h
    exact hp
  · exact hg _ _ _ _ _ hp h

theorem foldCellS_pure {g : Th → World → ForceRes} (hg : PureStep g) {kind upd ctx cells cells0 src ended ini pos y rest cell w x th' w'}
    (hp : (Th.fold kind upd ctx cells0 src ended ini rest).pureIdx = true)
    (h : foldCellS g kind upd ctx cells src ended ini pos y rest cell w = some (.yield x th', w')) : th'.pureIdx = true := by
  unfold foldCellS at h
  simp only [Th.pureIdx, Bool.and_eq_true] at hp
  split at h
  · exact hg _ _ _ _ _ (by simp [Th.pureIdx, hp.1.1.1.1, hp.1.1.1.2, hp.1.1.2, hp.1.2, hp.2]) h
  · simp only [Option.some.injEq, Prod.mk.injEq, Step.yield.injEq] at h
    obtain ⟨⟨_, rfl⟩, _⟩ := h
    simp [Th.pureIdx, hp.1.1.1.1, hp.1.1.1.2, hp.1.1.2, hp.1.2, hp.2]

theorem foldOutS_pure {g : Th → World → ForceRes} (hg : PureStep g) {kind upd ctx cells src ended ini pos x0 yi rest w x th' w'}
    (hp : (Th.fold kind upd ctx cells src ended ini rest).pureIdx = true)
    (h : foldOutS g kind upd ctx cells src ended ini pos x0 yi rest w = some (.yield x th', w')) : th'.pureIdx = true := by
  unfold foldOutS at h
  have hp' : ∀ yv, (Th.fold kind upd ctx cells src ended ini (.fInp pos yv rest)).pureIdx = true := by
    intro yv; simpa [Th.pureIdx] using hp
  split at h
  · split at h
    · exact hg _ _ _ _ _ (hp' _) h
    · simp only [Option.some.injEq, Prod.mk.injEq, Step.yield.injEq] at h
      obtain ⟨⟨_, rfl⟩, _⟩ := h
      exact hp' _
    · simp only [Option.some.injEq, Prod.mk.injEq, Step.yield.injEq] at h
      obtain ⟨⟨_, rfl⟩, _⟩ := h
      exact hp' _
  · simp only [Option.some.injEq, Prod.mk.injEq, Step.yield.injEq] at h
    obtain ⟨⟨_, rfl⟩, _⟩ := h
    exact hp

theorem forceStep_pure (hD : DPure D) {g : Th → World → ForceRes} (hg : PureStep g)
    {th w x th' w'} (hp : th.pureIdx = true) (h : forceStep D g th w = some (.yield x th', w')) :
    th'.pureIdx = true := by
  cases th with
  | wrapC s a =>
    simp only [Th.pureIdx, Bool.and_eq_true] at hp
    simp only [forceStep] at h
    split at h
    · split at h
      · simp at h
      · split at h
        · simp at h
        · simp only [Option.some.injEq, Prod.mk.injEq, Step.yield.injEq] at h
          obtain ⟨⟨_, rfl⟩, _⟩ := h
          rfl
      · rename_i x0 a' w1 heq
        have hq := hg _ _ _ _ _ hp.2 heq
        have hsp := step_pure hp.1 x0
        split at h
        · rename_i x' s' hst
          rw [hst] at hsp
          simp only [Option.some.injEq, Prod.mk.injEq, Step.yield.injEq] at h
          obtain ⟨⟨rfl, rfl⟩, rfl⟩ := h
          simp [Th.pureIdx, hsp, hq]
        · rename_i s' hst
          rw [hst] at hsp
          exact hg _ _ _ _ _ (by simp [Th.pureIdx, hsp, hq]) h
        · simp at h
        · rename_i c ctx e hst
          rw [hst] at hsp
          exact hg _ _ _ _ _ (by simpa [Th.pureIdx] using hsp) h
    · simp at h
  | fold kind upd ctx cells src ended ini stack =>
    have hp0 := hp
    simp only [Th.pureIdx, Bool.and_eq_true] at hp
    obtain ⟨⟨⟨⟨hu, hc⟩, hsrc⟩, hini⟩, hstk⟩ := hp
    simp only [forceStep] at h
    split at h
    · -- fInp
      rename_i pos y rest
      have hrest : rest.pureIdx = true := by simpa [Th.pureIdx] using hstk
      have hpr : ∀ cells' src' e', src'.pureIdx = true → (Th.fold kind upd ctx cells' src' e' ini rest).pureIdx = true := by
        intro cells' src' e' hs'; simp [Th.pureIdx, hu, hc, hs', hini, hrest]
      split at h
      · exact foldCellS_pure hg (hpr cells src ended hsrc) h
      · split at h
        · exact foldEndS_pure hg (hpr cells src ended hsrc) h
        · split at h
          · simp at h
          · exact foldEndS_pure hg (hpr cells .nil true rfl) h
          · rename_i x0 src' w1 heq
            exact foldCellS_pure hg (hpr (cells ++ [x0]) src' false (hg _ _ _ _ _ hsrc heq)) h
    · -- fOut
      rename_i pos x0 ys rest
      simp only [Th.pureIdx, Bool.and_eq_true] at hstk
      split at h
      · simp at h
      · exact hg _ _ _ _ _ (by simp [Th.pureIdx, hu, hc, hsrc, hini, hstk.2]) h
      · rename_i yi ys' w1 heq
        have hq := hg _ _ _ _ _ hstk.1 heq
        exact foldOutS_pure hg (by simp [Th.pureIdx, hu, hc, hsrc, hini, hstk.2, hq]) h
    · -- empty agenda
      split at h
      · simp at h
      · simp at h
      · rename_i x0 ini' w1 heq
        have hq := hg _ _ _ _ _ hini heq
        split at h
        · exact hg _ _ _ _ _ (by simp [Th.pureIdx, hu, hc, hsrc, hq]) h
        · simp only [Option.some.injEq, Prod.mk.injEq, Step.yield.injEq] at h
          obtain ⟨⟨_, rfl⟩, _⟩ := h
          simp [Th.pureIdx, hu, hc, hsrc, hq]
  | fInp _ _ _ => simp [forceStep] at h
  | fOut _ _ _ _ => simp [forceStep] at h
  | run t c v =>
    simp only [Th.pureIdx, Bool.and_eq_true] at hp
    obtain ⟨hpt, hpc⟩ := hp
    cases t with
    | call i =>
      simp only [forceStep] at h
      split at h
      · rename_i body hb
        exact hg _ _ _ _ _ (by simpa [Th.pureIdx, Wr.pureIdx] using hD _ _ hb) h
      · simp at h
    | fvar i =>
      simp only [forceStep] at h
      split at h
      · rename_i t env hl
        have := lookupFn_pure hpc hl
        exact hg _ _ _ _ _ (by simp [Th.pureIdx, this.1, this.2]) h
      · simp at h
    | callA ty i skip args =>
      simp only [T.pureIdx] at hpt
      simp only [forceStep] at h
      split at h
      · simp at h
      · rename_i c' hc'
        have hcp := callCtx_pure hpc hpt hc'
        split at h
        · rename_i body hb
          split at h
          · exact hg _ _ _ _ _ (by simp [Th.pureIdx, hD _ _ hb, hcp]) h
          · exact hg _ _ _ _ _ (by simp [Th.pureIdx, Wr.pureIdx, hD _ _ hb, hcp]) h
        · simp at h
    | tcallA i skip args =>
      simp only [T.pureIdx] at hpt
      simp only [forceStep] at h
      split at h
      · simp at h
      · rename_i c' hc'
        have hcp := callCtx_pure hpc hpt hc'
        exact hg _ _ _ _ _ (by simp [Th.pureIdx, T.pureIdx, T.pureArgs, hcp]) h
    | fold kind xs i u p =>
      simp only [T.pureIdx, Bool.and_eq_true] at hpt
      simp only [forceStep] at h
      split at h
      · exact hg _ _ _ _ _ (by simp [Th.pureIdx, K.pureIdx, hpt.1.1.1.2, hpt.1.1.2, hpt.1.2, hpt.2, hpc]) h
      · exact hg _ _ _ _ _ (by simp [Th.pureIdx, hpt.1.1.1.2, hpt.1.1.2, hpt.1.2, hpc]) h
    | _ => simp only [forceStep] at h <;> pure1
  | _ => simp only [forceStep] at h <;> pure1

theorem force_pure (hD : DPure D) : ∀ n, PureStep (force D n) := by
  intro n
  induction n with
  | zero => intro th w x th' w' _ h; simp [force] at h
  | succ n ih => intro th w x th' w' hp h; exact forceStep_pure hD ih hp h


/-! ### `size_hint` is honest: every delivered item lowers the upper bound -/

theorem step_transparent {s : Wr} (hs : s.transparent = true) (x : Item) :
    match s.step x with
    | .emit _ s' => s'.transparent = true
    | .drop s' => s'.transparent = true
    | .stop => True
    | .handler _ _ _ => False := by
  cases s with
  | label l =>
    cases x with
    | brk l' => by_cases hl : l' = l <;> simp [Wr.step, hl, Wr.transparent]
    | _ => simp [Wr.step, Wr.transparent]
  | filt => cases hk : x.keep <;> simp [Wr.step, hk, Wr.transparent]
  | toBool => cases x <;> simp [Wr.step, Wr.transparent]
  | mathL op l => simp [Wr.step, Wr.transparent]
  | _ => simp [Wr.transparent] at hs

theorem upper_dec : ∀ (n : Nat) {it : It} {w : World} {x : Item} {it' : It} {w' : World} {u : Nat},
    next D n it w = some (some x, it', w') → it.upper = some u → ∃ u', it'.upper = some u' ∧ u' < u := by
  intro n
  induction n with
  | zero => intro it w x it' w' u h; simp [next] at h
  | succ n ih =>
    intro it w x it' w' u h hu
    rw [next_succ] at h
    cases it with
    | nil => simp [nextStep] at h
    | once y =>
      simp only [nextStep, Option.some.injEq, Prod.mk.injEq] at h
      obtain ⟨_, rfl, _⟩ := h
      simp only [It.upper, Option.some.injEq] at hu ⊢
      exact ⟨0, rfl, by omega⟩
    | cons y r =>
      simp only [nextStep, Option.some.injEq, Prod.mk.injEq] at h
      obtain ⟨_, rfl, _⟩ := h
      simp only [It.upper] at hu
      cases hr : r.upper with
      | none => simp [hr] at hu
      | some ur => simp [hr] at hu; exact ⟨ur, rfl, by omega⟩
    | chain a t c v => simp [It.upper] at hu
    | flat src k cur => simp [It.upper] at hu
    | inputs => simp [It.upper] at hu
    | range a b c => simp [It.upper] at hu
    | wrap s a =>
      simp only [It.upper] at hu
      split at hu
      · rename_i hs
        simp only [nextStep] at h
        split at h
        · split at h
          · simp at h
          · simp [transparent_atEnd hs] at h
          · rename_i x0 a' w1 heq
            obtain ⟨ua, hua, hlt⟩ := ih heq hu
            have hst := step_transparent hs x0
            split at h
            · rename_i x' s' hstep
              rw [hstep] at hst
              simp only [Option.some.injEq, Prod.mk.injEq] at h
              obtain ⟨_, rfl, _⟩ := h
              exact ⟨ua, by simp [It.upper, hst, hua], hlt⟩
            · rename_i s' hstep
              rw [hstep] at hst
              have hst' : s'.transparent = true := hst
              obtain ⟨u2, hu2, hlt2⟩ := ih h (u := ua) (by simp [It.upper, hst', hua])
              exact ⟨u2, hu2, by omega⟩
            · simp at h
            · rename_i hstep
              rw [hstep] at hst
              exact hst.elim
        · simp at h
      · simp at hu
    | fold _ _ _ _ _ _ _ _ => simp [It.upper] at hu
    | fInp _ _ _ => simp [It.upper] at hu
    | fOut _ _ _ _ => simp [It.upper] at hu

/-! ### the induction hypotheses of the simulation -/

def A (D : List T) (n : Nat) : Prop := ∀ it wi th ws r, Rel D it wi th ws → th.pureIdx = true →
  force D n th ws = some r → Matches D r it wi
def B (D : List T) (n : Nat) : Prop := ∀ t c v w r, t.pureIdx = true → c.pure = true → force D n (.run t c v) w = some r →
  ∃ it w', MkR D t c v w (it, w') ∧ Matches D r it w'

theorem lowerA {n : Nat} (hA : A D (n + 1)) : A D n :=
  fun it wi th ws r hr hp h => hA it wi th ws r hr hp (force_mono D _ _ _ _ h)
theorem lowerB {n : Nat} (hB : B D (n + 1)) : B D n :=
  fun t c v w r hp hc h => hB t c v w r hp hc (force_mono D _ _ _ _ h)

end Jaq.C03
