/-
  C08 helper lemmas, part 1: total preorders given by a three-way comparison, lexicographic
  comparison, the stable insertion sort, and the lift to `cmpF` / `cmp` on values.
-/
import JaqVerif.C08.Model

namespace Jaq.C08
open Jaq

/-- `c` is a total preorder on the elements satisfying `S`: reflexive, antisymmetric in the
sense of `Ordering.swap` (this includes totality), and `≤` is transitive. -/
structure TPO {α : Type} (S : α → Prop) (c : α → α → Ordering) : Prop where
  refl : ∀ a, S a → c a a = .eq
  swap : ∀ a b, S a → S b → c b a = (c a b).swap
  trans : ∀ a b d, S a → S b → S d → c a b ≠ .gt → c b d ≠ .gt → c a d ≠ .gt

namespace TPO
variable {α : Type} {S : α → Prop} {c : α → α → Ordering}

theorem gt_iff (h : TPO S c) {a b : α} (ha : S a) (hb : S b) : c a b = .gt ↔ c b a = .lt := by
  rw [h.swap a b ha hb]; cases c a b <;> simp [Ordering.swap]

theorem lt_iff (h : TPO S c) {a b : α} (ha : S a) (hb : S b) : c a b = .lt ↔ c b a = .gt := by
  rw [h.swap a b ha hb]; cases c a b <;> simp [Ordering.swap]

theorem eq_iff (h : TPO S c) {a b : α} (ha : S a) (hb : S b) : c a b = .eq ↔ c b a = .eq := by
  rw [h.swap a b ha hb]; cases c a b <;> simp [Ordering.swap]

/-- the ordering is determined by `≤` in both directions -/
theorem determined (h : TPO S c) {a b a' b' : α} (ha : S a) (hb : S b) (ha' : S a') (hb' : S b')
    (h1 : c a b ≠ .gt ↔ c a' b' ≠ .gt) (h2 : c b a ≠ .gt ↔ c b' a' ≠ .gt) : c a b = c a' b' := by
  have e1 := h.swap a b ha hb
  have e2 := h.swap a' b' ha' hb'
  rw [e1] at h2; rw [e2] at h2
  revert h1 h2
  cases c a b <;> cases c a' b' <;> simp [Ordering.swap]

/-- equivalent elements compare alike (left) -/
theorem congr_left (h : TPO S c) {a b d : α} (ha : S a) (hb : S b) (hd : S d) (e : c a b = .eq) :
    c a d = c b d := by
  have e' : c b a = .eq := (h.eq_iff ha hb).1 e
  apply h.determined ha hd hb hd
  · constructor
    · intro h1; exact h.trans b a d hb ha hd (by simp [e']) h1
    · intro h1; exact h.trans a b d ha hb hd (by simp [e]) h1
  · constructor
    · intro h1; exact h.trans d a b hd ha hb h1 (by simp [e])
    · intro h1; exact h.trans d b a hd hb ha h1 (by simp [e'])

theorem congr_right (h : TPO S c) {a b d : α} (ha : S a) (hb : S b) (hd : S d) (e : c a b = .eq) :
    c d a = c d b := by
  rw [h.swap a d ha hd, h.swap b d hb hd, h.congr_left ha hb hd e]

theorem eq_trans (h : TPO S c) {a b d : α} (ha : S a) (hb : S b) (hd : S d)
    (e1 : c a b = .eq) (e2 : c b d = .eq) : c a d = .eq := by
  rw [h.congr_left ha hb hd e1, e2]

theorem lt_of_lt_of_le (h : TPO S c) {a b d : α} (ha : S a) (hb : S b) (hd : S d)
    (e1 : c a b = .lt) (e2 : c b d ≠ .gt) : c a d = .lt := by
  have h1 : c a d ≠ .gt := h.trans a b d ha hb hd (by simp [e1]) e2
  cases hc : c a d with
  | lt => rfl
  | gt => exact absurd hc h1
  | eq =>
    have : c d a = .eq := (h.eq_iff ha hd).1 hc
    have h2 : c b a ≠ .gt := h.trans b d a hb hd ha e2 (by simp [this])
    have : c b a = .gt := (h.lt_iff ha hb).1 e1
    exact absurd this h2

theorem lt_of_le_of_lt (h : TPO S c) {a b d : α} (ha : S a) (hb : S b) (hd : S d)
    (e1 : c a b ≠ .gt) (e2 : c b d = .lt) : c a d = .lt := by
  have h1 : c a d ≠ .gt := h.trans a b d ha hb hd e1 (by simp [e2])
  cases hc : c a d with
  | lt => rfl
  | gt => exact absurd hc h1
  | eq =>
    have : c d a = .eq := (h.eq_iff ha hd).1 hc
    have h2 : c d b ≠ .gt := h.trans d a b hd ha hb (by simp [this]) e1
    have : c d b = .gt := (h.lt_iff hb hd).1 e2
    exact absurd this h2

theorem lt_trans (h : TPO S c) {a b d : α} (ha : S a) (hb : S b) (hd : S d)
    (e1 : c a b = .lt) (e2 : c b d = .lt) : c a d = .lt :=
  h.lt_of_lt_of_le ha hb hd e1 (by simp [e2])

/-- restriction to a smaller set -/
theorem mono {S' : α → Prop} (h : TPO S c) (hs : ∀ a, S' a → S a) : TPO S' c :=
  ⟨fun a ha => h.refl a (hs a ha), fun a b ha hb => h.swap a b (hs a ha) (hs b hb),
   fun a b d ha hb hd => h.trans a b d (hs a ha) (hs b hb) (hs d hd)⟩

/-- a comparison that agrees with a total preorder on `S` is one -/
theorem of_agree {c' : α → α → Ordering} (h : TPO S c) (e : ∀ a b, S a → S b → c' a b = c a b) :
    TPO S c' :=
  ⟨fun a ha => by rw [e a a ha ha]; exact h.refl a ha,
   fun a b ha hb => by rw [e b a hb ha, e a b ha hb]; exact h.swap a b ha hb,
   fun a b d ha hb hd => by rw [e a b ha hb, e b d hb hd, e a d ha hd]; exact h.trans a b d ha hb hd⟩

/-- pull-back along a function -/
theorem comap {β : Type} (f : β → α) (h : TPO S c) : TPO (fun b => S (f b)) (fun x y => c (f x) (f y)) :=
  ⟨fun _ ha => h.refl _ ha, fun _ _ ha hb => h.swap _ _ ha hb, fun _ _ _ ha hb hd => h.trans _ _ _ ha hb hd⟩

/-- lexicographic combination of two comparisons on the same set -/
theorem andThen {c2 : α → α → Ordering} (h1 : TPO S c) (h2 : TPO S c2) :
    TPO S (fun a b => (c a b).then (c2 a b)) := by
  refine ⟨?_, ?_, ?_⟩
  · intro a ha; simp [h1.refl a ha, h2.refl a ha]
  · intro a b ha hb
    simp only [h1.swap a b ha hb, h2.swap a b ha hb]
    cases c a b <;> simp [Ordering.swap, Ordering.then]
  · intro a b d ha hb hd e1 e2
    cases hab : c a b with
    | gt => simp [hab] at e1
    | lt =>
      have hbd : c b d ≠ .gt := by intro hh; simp [hh] at e2
      simp [h1.lt_of_lt_of_le ha hb hd hab hbd]
    | eq =>
      cases hbd : c b d with
      | gt => simp [hbd] at e2
      | lt => simp [h1.lt_of_le_of_lt ha hb hd (by simp [hab]) hbd]
      | eq =>
        simp only [hab, hbd, Ordering.then] at e1 e2
        simp only [h1.eq_trans ha hb hd hab hbd, Ordering.then]
        exact h2.trans a b d ha hb hd e1 e2

end TPO

/-! ### `compare` on `Nat` and `Int` -/

theorem natCompare_tpo : TPO (fun _ : Nat => True) compare := by
  refine ⟨?_, ?_, ?_⟩
  · intro a _; simp
  · intro a b _ _; exact (Nat.compare_swap a b).symm
  · intro a b d _ _ _ h1 h2
    rw [ne_eq, Nat.compare_eq_gt] at *
    omega

theorem intCompare_tpo : TPO (fun _ : Int => True) compare := by
  refine ⟨?_, ?_, ?_⟩
  · intro a _; simp
  · intro a b _ _; exact (Int.compare_swap a b).symm
  · intro a b d _ _ _ h1 h2
    rw [ne_eq, Int.compare_eq_gt] at *
    omega

/-! ### lexicographic comparison -/

section lex
variable {α : Type} {S : α → Prop} {c : α → α → Ordering}

@[simp] theorem lexCmp_nil_nil : lexCmp c [] [] = .eq := rfl
@[simp] theorem lexCmp_nil_cons (y : α) (ys : List α) : lexCmp c [] (y :: ys) = .lt := rfl
@[simp] theorem lexCmp_cons_nil (x : α) (xs : List α) : lexCmp c (x :: xs) [] = .gt := rfl
theorem lexCmp_cons_cons (x y : α) (xs ys : List α) :
    lexCmp c (x :: xs) (y :: ys) = (c x y).then (lexCmp c xs ys) := by
  simp only [lexCmp]; cases c x y <;> rfl

theorem lexCmp_congr {c' : α → α → Ordering} :
    ∀ (x y : List α), (∀ a ∈ x, ∀ b ∈ y, c a b = c' a b) → lexCmp c x y = lexCmp c' x y
  | [], [], _ => rfl
  | [], _ :: _, _ => rfl
  | _ :: _, [], _ => rfl
  | a :: as, b :: bs, h => by
    rw [lexCmp_cons_cons, lexCmp_cons_cons, h a (by simp) b (by simp),
      lexCmp_congr as bs (fun p hp q hq => h p (by simp [hp]) q (by simp [hq]))]

theorem lexCmp_tpo (h : TPO S c) : TPO (fun l : List α => ∀ x ∈ l, S x) (lexCmp c) := by
  refine ⟨?_, ?_, ?_⟩
  · intro l hl
    induction l with
    | nil => rfl
    | cons x xs ih =>
      rw [lexCmp_cons_cons, h.refl x (hl x (by simp)), ih (fun y hy => hl y (by simp [hy]))]; rfl
  · intro a
    induction a with
    | nil => intro b _ _; cases b <;> rfl
    | cons x xs ih =>
      intro b ha hb
      cases b with
      | nil => rfl
      | cons y ys =>
        rw [lexCmp_cons_cons, lexCmp_cons_cons, h.swap x y (ha x (by simp)) (hb y (by simp)),
          ih ys (fun z hz => ha z (by simp [hz])) (fun z hz => hb z (by simp [hz]))]
        cases c x y <;> simp [Ordering.swap, Ordering.then]
  · intro a
    induction a with
    | nil =>
      intro b d _ _ _ _ e2
      cases d with
      | nil => simp
      | cons => simp
    | cons x xs ih =>
      intro b d ha hb hd e1 e2
      cases b with
      | nil => simp at e1
      | cons y ys =>
        cases d with
        | nil => simp at e2
        | cons z zs =>
          have sx := ha x (by simp)
          have sy := hb y (by simp)
          have sz := hd z (by simp)
          rw [lexCmp_cons_cons] at e1 e2 ⊢
          cases hxy : c x y with
          | gt => simp [hxy] at e1
          | lt =>
            have hyz : c y z ≠ .gt := by intro hh; simp [hh] at e2
            simp [h.lt_of_lt_of_le sx sy sz hxy hyz]
          | eq =>
            cases hyz : c y z with
            | gt => simp [hyz] at e2
            | lt => simp [h.lt_of_le_of_lt sx sy sz (by simp [hxy]) hyz]
            | eq =>
              simp only [hxy, hyz, Ordering.then] at e1 e2
              simp only [h.eq_trans sx sy sz hxy hyz, Ordering.then]
              exact ih ys zs (fun w hw => ha w (by simp [hw])) (fun w hw => hb w (by simp [hw]))
                (fun w hw => hd w (by simp [hw])) e1 e2

end lex

/-! ### the stable insertion sort -/

section sort
variable {α : Type} {c : α → α → Ordering}

theorem insertBy_perm (x : α) : ∀ l : List α, (insertBy c x l).Perm (x :: l)
  | [] => List.Perm.refl _
  | y :: ys => by
    simp only [insertBy]
    split
    · exact ((insertBy_perm x ys).cons y).trans (List.Perm.swap x y ys)
    · exact List.Perm.refl _

/-- `sortBy` returns a permutation of its input -/
theorem sortBy_perm : ∀ l : List α, (sortBy c l).Perm l
  | [] => List.Perm.refl _
  | x :: xs => (insertBy_perm x (sortBy c xs)).trans ((sortBy_perm xs).cons x)

theorem mem_sortBy {a : α} {l : List α} : a ∈ sortBy c l ↔ a ∈ l := (sortBy_perm l).mem_iff

theorem length_sortBy (l : List α) : (sortBy c l).length = l.length := (sortBy_perm l).length_eq

theorem insertBy_congr {c' : α → α → Ordering} (x : α) :
    ∀ l : List α, (∀ y ∈ l, c x y = c' x y) → insertBy c x l = insertBy c' x l
  | [], _ => rfl
  | y :: ys, h => by
    simp only [insertBy, h y (by simp), insertBy_congr x ys (fun z hz => h z (by simp [hz]))]

theorem sortBy_congr {c' : α → α → Ordering} :
    ∀ l : List α, (∀ x ∈ l, ∀ y ∈ l, c x y = c' x y) → sortBy c l = sortBy c' l
  | [], _ => rfl
  | x :: xs, h => by
    simp only [sortBy]
    rw [sortBy_congr xs (fun a ha b hb => h a (by simp [ha]) b (by simp [hb]))]
    exact insertBy_congr x _ (fun y hy => h x (by simp) y (by simp [mem_sortBy.1 hy]))

/-- sortedness: every element is `≤` every later one -/
def Sorted (c : α → α → Ordering) (l : List α) : Prop := l.Pairwise fun a b => c a b ≠ .gt

variable {S : α → Prop}

theorem insertBy_sorted (h : TPO S c) (x : α) (hx : S x) :
    ∀ l : List α, (∀ y ∈ l, S y) → Sorted c l → Sorted c (insertBy c x l)
  | [], _, _ => by simp [insertBy, Sorted]
  | y :: ys, hs, hl => by
    have hy := hs y (by simp)
    have hys : ∀ z ∈ ys, S z := fun z hz => hs z (by simp [hz])
    simp only [Sorted, List.pairwise_cons] at hl
    simp only [insertBy]
    split
    · rename_i hgt
      have hgt : c x y = .gt := by simpa using hgt
      simp only [Sorted, List.pairwise_cons]
      refine ⟨?_, insertBy_sorted h x hx ys hys hl.2⟩
      intro z hz
      rcases List.mem_cons.1 ((insertBy_perm x ys).mem_iff.1 hz) with hz | hz
      · subst hz
        rw [h.swap z y hx hy, hgt]; simp [Ordering.swap]
      · exact hl.1 z hz
    · rename_i hng
      have hng : c x y ≠ .gt := by simpa using hng
      simp only [Sorted, List.pairwise_cons]
      refine ⟨?_, hl⟩
      intro z hz
      rcases List.mem_cons.1 hz with rfl | hz
      · exact hng
      · exact h.trans x y z hx hy (hys z hz) hng (hl.1 z hz)

/-- `sortBy` returns a sorted list (for a total preorder on the elements) -/
theorem sortBy_sorted (h : TPO S c) : ∀ l : List α, (∀ y ∈ l, S y) → Sorted c (sortBy c l)
  | [], _ => by simp [sortBy, Sorted]
  | x :: xs, hs =>
    insertBy_sorted h x (hs x (by simp)) _ (fun y hy => hs y (by simp [mem_sortBy.1 hy]))
      (sortBy_sorted h xs (fun y hy => hs y (by simp [hy])))

/-- inserting `x` into a sorted list: the elements equivalent to `e` stay in order, `x` first
if it is one of them -/
theorem insertBy_filter_eq (h : TPO S c) (x e : α) (hx : S x) (he : S e) :
    ∀ l : List α, (∀ y ∈ l, S y) → Sorted c l →
      (insertBy c x l).filter (fun y => c e y == .eq) = (x :: l).filter (fun y => c e y == .eq)
  | [], _, _ => rfl
  | y :: ys, hs, hl => by
    have hy := hs y (by simp)
    have hys : ∀ z ∈ ys, S z := fun z hz => hs z (by simp [hz])
    simp only [Sorted, List.pairwise_cons] at hl
    simp only [insertBy]
    split
    · rename_i hgt
      have hgt : c x y = .gt := by simpa using hgt
      rw [List.filter_cons, insertBy_filter_eq h x e hx he ys hys hl.2]
      -- `x > y`: not both equivalent to `e`
      by_cases hex : c e x = .eq
      · have hey : c e y ≠ .eq := by
          intro hey
          have : c x y = .eq := by rw [← h.congr_left he hx hy hex]; exact hey
          rw [this] at hgt; cases hgt
        simp [hex, hey]
      · simp [List.filter_cons, hex]
    · rfl

/-- **stability**: the elements equivalent to any `e` appear in the output in their input order -/
theorem sortBy_stable (h : TPO S c) (e : α) (he : S e) :
    ∀ l : List α, (∀ y ∈ l, S y) →
      (sortBy c l).filter (fun y => c e y == .eq) = l.filter (fun y => c e y == .eq)
  | [], _ => rfl
  | x :: xs, hs => by
    have hxs : ∀ y ∈ xs, S y := fun y hy => hs y (by simp [hy])
    simp only [sortBy]
    rw [insertBy_filter_eq h x e (hs x (by simp)) he _ (fun y hy => hxs y (mem_sortBy.1 hy))
      (sortBy_sorted h xs hxs)]
    simp only [List.filter_cons]
    rw [sortBy_stable h e he xs hxs]

end sort

end Jaq.C08
