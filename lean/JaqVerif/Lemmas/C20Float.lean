/-
  C20 (round 2) — rounding lemmas for the shared pure-integer IEEE model `Jaq.F64`
  (`Val/Float.lean`, read-only): `roundRat` rounds correctly (`roundRat_normal`, `roundRat_near`:
  result within half a unit in the last place), what `ofInt / div / add / sub / mul` compute on
  finite non-negative operands in terms of magnitudes, and the consequence used by the
  fractional round trips: the seconds field `s + ns/1e9` written by `datetime_to_array` is read
  back exactly by the repaired `array_to_datetime` (`seconds_roundtrip`).  Core Lean only.
-/
import JaqVerif.Lemmas.C20Epoch
namespace Jaq.Time
open Jaq

theorem mul_pow_succ (x i : Nat) : x * 2 ^ (i + 1) = 2 * (x * 2 ^ i) := by
  rw [Nat.pow_succ, ← Nat.mul_assoc, Nat.mul_comm]

theorem pow2_pos (i : Nat) : 0 < 2 ^ i := Nat.pow_pos (by decide)

/-- move a common power of two between both sides of `x·2^i ≤ y·2^j` -/
theorem shift_le {x y i j i' j' : Nat} (h : x * 2 ^ i ≤ y * 2 ^ j) (hij : i + j' = j + i') :
    x * 2 ^ i' ≤ y * 2 ^ j' := by
  by_cases c : i ≤ i'
  · have e1 : i' = i + (i' - i) := by omega
    have e2 : j' = j + (i' - i) := by omega
    rw [e1, e2, Nat.pow_add, Nat.pow_add, ← Nat.mul_assoc, ← Nat.mul_assoc]
    exact Nat.mul_le_mul_right _ h
  · have e1 : i = i' + (i - i') := by omega
    have e2 : j = j' + (i - i') := by omega
    rw [e1, e2, Nat.pow_add, Nat.pow_add, ← Nat.mul_assoc, ← Nat.mul_assoc] at h
    exact Nat.le_of_mul_le_mul_right h (pow2_pos _)

theorem shift_lt {x y i j i' j' : Nat} (h : x * 2 ^ i < y * 2 ^ j) (hij : i + j' = j + i') :
    x * 2 ^ i' < y * 2 ^ j' := by
  by_cases c : i ≤ i'
  · have e1 : i' = i + (i' - i) := by omega
    have e2 : j' = j + (i' - i) := by omega
    rw [e1, e2, Nat.pow_add, Nat.pow_add, ← Nat.mul_assoc, ← Nat.mul_assoc]
    exact Nat.mul_lt_mul_of_pos_right h (pow2_pos _)
  · have e1 : i = i' + (i - i') := by omega
    have e2 : j = j' + (i - i') := by omega
    rw [e1, e2, Nat.pow_add, Nat.pow_add, ← Nat.mul_assoc, ← Nat.mul_assoc] at h
    exact Nat.lt_of_mul_lt_mul_right h

/-- from `d·2^i ≤ n·2^j < d·2^i'` follows `i < i'` (used to bound exponents) -/
theorem exp_lt_of {n d i j i' : Nat} (h1 : d * 2 ^ i ≤ n * 2 ^ j) (h2 : n * 2 ^ j < d * 2 ^ i') : i < i' := by
  have h : d * 2 ^ i < d * 2 ^ i' := Nat.lt_of_le_of_lt h1 h2
  have hd : 0 < d := by
    rcases Nat.eq_zero_or_pos d with z | p
    · subst z; simp at h
    · exact p
  have := Nat.lt_of_mul_lt_mul_left h
  exact (Nat.pow_lt_pow_iff_right (by decide)).1 this

/-- the round-to-nearest-even step of `roundRat` is within half a unit -/
theorem round_step (n d : Nat) (hd : 0 < d) :
    2 * ((if (decide (2 * (n % d) > d) || (2 * (n % d) == d && n / d % 2 == 1)) then n / d + 1 else n / d) * d) ≤ 2 * n + d ∧
    2 * n ≤ 2 * ((if (decide (2 * (n % d) > d) || (2 * (n % d) == d && n / d % 2 == 1)) then n / d + 1 else n / d) * d) + d ∧
    n / d ≤ (if (decide (2 * (n % d) > d) || (2 * (n % d) == d && n / d % 2 == 1)) then n / d + 1 else n / d) ∧
    (if (decide (2 * (n % d) > d) || (2 * (n % d) == d && n / d % 2 == 1)) then n / d + 1 else n / d) ≤ n / d + 1 := by
  have h1 := Nat.div_add_mod n d
  have h2 := Nat.mod_lt n hd
  have h3 : d * (n / d) = n / d * d := Nat.mul_comm _ _
  have h4 : (n / d + 1) * d = n / d * d + d := by rw [Nat.add_mul, Nat.one_mul]
  split
  · rename_i h
    simp only [Bool.or_eq_true, decide_eq_true_eq, Bool.and_eq_true, beq_iff_eq] at h
    rw [h4]; omega
  · rename_i h
    simp only [Bool.or_eq_true, decide_eq_true_eq, Bool.and_eq_true, beq_iff_eq, not_or, not_and] at h
    omega

/-- the exponent estimate `L` of `F64.roundRat` (copied from its definition) -/
def Lcode (num den : Nat) : Int :=
  let lb : Int := Int.ofNat num.log2 - Int.ofNat den.log2
  let ge : Bool := if lb ≥ 0 then num ≥ den * 2 ^ lb.toNat else num * 2 ^ (-lb).toNat ≥ den
  if ge then lb else lb - 1

/-- the scaled numerator / denominator pair of `F64.roundRat` -/
def rrPair (num den : Nat) (E : Int) : Nat × Nat :=
  if E ≥ 0 then (num, den * 2 ^ E.toNat) else (num * 2 ^ (-E).toNat, den)

/-- the round-to-nearest-even quotient of `F64.roundRat` -/
def rrQ (n d : Nat) : Nat :=
  if (decide (2 * (n % d) > d) || (2 * (n % d) == d && n / d % 2 == 1)) then n / d + 1 else n / d

/-- the packing step of `F64.roundRat` -/
def rrBits (neg : Bool) (e q : Nat) : UInt64 :=
  if e * 2 ^ 52 + q ≥ 2047 * 2 ^ 52 then F64.inf neg
  else UInt64.ofNat (e * 2 ^ 52 + q + (if neg then 2 ^ 63 else 0))

def rrE (L : Int) : Int := if L - 52 < -1074 then -1074 else L - 52

/-- the rest of `F64.roundRat` as a function of `L` -/
def rrCore (neg : Bool) (num den : Nat) (L : Int) : UInt64 :=
  rrBits neg (rrE L + 1074).toNat (rrQ (rrPair num den (rrE L)).1 (rrPair num den (rrE L)).2)

theorem roundRat_eq (neg : Bool) (num den : Nat) (hn : 0 < num) (hd : 0 < den) :
    F64.roundRat neg num den = rrCore neg num den (Lcode num den) := by
  have e0 : (num == 0 || den == 0) = false := by
    simp only [Bool.or_eq_false_iff, beq_eq_false_iff_ne]; omega
  unfold F64.roundRat rrCore Lcode rrBits rrQ rrPair rrE
  rw [e0]
  simp only [Bool.false_eq_true, if_false]

/-- the exponent estimate of `roundRat`: with `a = log2 num`, `b = log2 den` the code's `L` is
`⌊log2 (num/den)⌋`, written without negative exponents as `L = p - n`. -/
theorem floorLog (num den : Nat) (hn : 0 < num) (hd : 0 < den) :
    ∃ p n : Nat, Lcode num den = (p : Int) - (n : Int) ∧
      den * 2 ^ p ≤ num * 2 ^ n ∧ num * 2 ^ n < den * 2 ^ (p + 1) := by
  unfold Lcode
  have ha1 : 2 ^ num.log2 ≤ num := Nat.log2_self_le (by omega)
  have ha2 : num < 2 ^ (num.log2 + 1) := Nat.lt_log2_self
  have hb1 : 2 ^ den.log2 ≤ den := Nat.log2_self_le (by omega)
  have hb2 : den < 2 ^ (den.log2 + 1) := Nat.lt_log2_self
  generalize num.log2 = a at *
  generalize den.log2 = b at *
  have hge : (if (Int.ofNat a - Int.ofNat b : Int) ≥ 0 then decide (num ≥ den * 2 ^ (Int.ofNat a - Int.ofNat b : Int).toNat)
      else decide (num * 2 ^ (-(Int.ofNat a - Int.ofNat b : Int)).toNat ≥ den)) = decide (den * 2 ^ a ≤ num * 2 ^ b) := by
    by_cases c : (Int.ofNat a - Int.ofNat b : Int) ≥ 0
    · rw [if_pos c]
      have e : (Int.ofNat a - Int.ofNat b : Int).toNat = a - b := by simp only [Int.ofNat_eq_natCast]; omega
      have hab : b ≤ a := by simp only [Int.ofNat_eq_natCast] at c; omega
      rw [e]
      apply decide_eq_decide.2
      constructor
      · intro h
        have : den * 2 ^ (a - b) ≤ num * 2 ^ 0 := by simpa using h
        exact shift_le this (by omega)
      · intro h
        have : den * 2 ^ (a - b) ≤ num * 2 ^ 0 := shift_le h (by omega)
        simpa using this
    · rw [if_neg c]
      have e : (-(Int.ofNat a - Int.ofNat b : Int)).toNat = b - a := by simp only [Int.ofNat_eq_natCast]; omega
      have hab : a ≤ b := by simp only [Int.ofNat_eq_natCast] at c; omega
      rw [e]
      apply decide_eq_decide.2
      constructor
      · intro h
        have : den * 2 ^ 0 ≤ num * 2 ^ (b - a) := by simpa using h
        exact shift_le this (by omega)
      · intro h
        have : den * 2 ^ 0 ≤ num * 2 ^ (b - a) := shift_le h (by omega)
        simpa using this
  simp only [hge]
  by_cases g : den * 2 ^ a ≤ num * 2 ^ b
  · refine ⟨a, b, ?_, g, ?_⟩
    · simp [g]
    · calc num * 2 ^ b < 2 ^ (a + 1) * 2 ^ b := Nat.mul_lt_mul_of_pos_right ha2 (pow2_pos _)
        _ ≤ 2 ^ (a + 1) * den := Nat.mul_le_mul_left _ hb1
        _ = den * 2 ^ (a + 1) := Nat.mul_comm _ _
  · refine ⟨a, b + 1, ?_, ?_, ?_⟩
    · simp [g]; omega
    · calc den * 2 ^ a ≤ 2 ^ (b + 1) * 2 ^ a := Nat.mul_le_mul_right _ (Nat.le_of_lt hb2)
        _ ≤ 2 ^ (b + 1) * num := Nat.mul_le_mul_left _ ha1
        _ = num * 2 ^ (b + 1) := Nat.mul_comm _ _
    · rw [mul_pow_succ, mul_pow_succ]; omega


theorem round_step' (n d : Nat) (hd : 0 < d) :
    2 * (rrQ n d * d) ≤ 2 * n + d ∧ 2 * n ≤ 2 * (rrQ n d * d) + d ∧ n / d ≤ rrQ n d ∧ rrQ n d ≤ n / d + 1 :=
  round_step n d hd

theorem exp_lt {x y i i' : Nat} (h1 : x * 2 ^ i ≤ y) (h2 : y < x * 2 ^ i') : i < i' := by
  have h : x * 2 ^ i < x * 2 ^ i' := Nat.lt_of_le_of_lt h1 h2
  exact (Nat.pow_lt_pow_iff_right (by decide)).1 (Nat.lt_of_mul_lt_mul_left h)

theorem exp_lt' {x y i i' : Nat} (h1 : x * 2 ^ i < y) (h2 : y ≤ x * 2 ^ i') : i < i' := by
  have h : x * 2 ^ i < x * 2 ^ i' := Nat.lt_of_lt_of_le h1 h2
  exact (Nat.pow_lt_pow_iff_right (by decide)).1 (Nat.lt_of_mul_lt_mul_left h)

/-- `roundRat` on a ratio in `[2^-1022, 2^53)` (a normal number with non-positive `E`): the bits,
and the rounded significand `q` of `num·2^k/den ∈ [2^52, 2^53)`, `k = 52 - L`. -/
theorem roundRat_normal (neg : Bool) (num den : Nat) (hn : 0 < num) (hd : 0 < den)
    (hlo : den ≤ num * 2 ^ 1022) (hhi : num < den * 2 ^ 53) :
    ∃ k q : Nat, k ≤ 1074 ∧
      F64.roundRat neg num den = UInt64.ofNat ((1074 - k) * 2 ^ 52 + q + (if neg then 2 ^ 63 else 0)) ∧
      2 ^ 52 ≤ q ∧ q ≤ 2 ^ 53 ∧
      2 * (q * den) ≤ 2 * (num * 2 ^ k) + den ∧ 2 * (num * 2 ^ k) ≤ 2 * (q * den) + den ∧
      den * 2 ^ 52 ≤ num * 2 ^ k ∧ num * 2 ^ k < den * 2 ^ 53 := by
  obtain ⟨p, n, hL, h1, h2⟩ := floorLog num den hn hd
  have b1 : p < 53 + n := by
    have : num * 2 ^ n < den * 2 ^ (53 + n) := shift_lt (i := 0) (j := 53) (by simpa using hhi) (by omega)
    exact exp_lt h1 this
  have b2 : n < p + 1023 := by
    have : den * 2 ^ (p + 1) ≤ num * 2 ^ (p + 1023) := shift_le (i := 0) (j := 1022) (by rw [Nat.pow_zero, Nat.mul_one]; exact hlo) (by omega)
    exact exp_lt' h2 this
  refine ⟨52 + n - p, ?_⟩
  generalize hk : 52 + n - p = k
  have hk1 : den * 2 ^ 52 ≤ num * 2 ^ k := shift_le h1 (by omega)
  have hk2 : num * 2 ^ k < den * 2 ^ 53 := shift_lt h2 (by omega)
  have hLk : Lcode num den = 52 - (k : Int) := by omega
  have hq1 : 2 ^ 52 ≤ num * 2 ^ k / den := (Nat.le_div_iff_mul_le hd).2 (by rw [Nat.mul_comm]; exact hk1)
  have hq2 : num * 2 ^ k / den < 2 ^ 53 := (Nat.div_lt_iff_lt_mul hd).2 (by rw [Nat.mul_comm (2 ^ 53)]; exact hk2)
  obtain ⟨r1, r2, r3, r4⟩ := round_step' (num * 2 ^ k) den hd
  refine ⟨_, by omega, ?_, ?_, ?_, r1, r2, hk1, hk2⟩
  · rw [roundRat_eq neg num den hn hd, hLk]
    have hE : rrE (52 - (k : Int)) = -(k : Int) := by unfold rrE; split <;> omega
    have hP : rrPair num den (-(k : Int)) = (num * 2 ^ k, den) ∨ (k = 0 ∧ rrPair num den (-(k : Int)) = (num, den * 2 ^ 0)) := by
      unfold rrPair
      by_cases k0 : k = 0
      · right; subst k0; simp
      · left; rw [if_neg (by omega)]; congr 3; omega
    have hb : (-(k : Int) + 1074).toNat = 1074 - k := by omega
    unfold rrCore
    rw [hE, hb]
    have hfin : ¬ ((1074 - k) * 2 ^ 52 + rrQ (num * 2 ^ k) den ≥ 2047 * 2 ^ 52) := by omega
    rcases hP with hP | ⟨k0, hP⟩
    · rw [hP]; simp only [rrBits, if_neg hfin]
    · rw [hP]; subst k0; simp only [Nat.pow_zero, Nat.mul_one] at *; simp only [rrBits, if_neg hfin]
  · omega
  · omega



/-! ## reading back the packed bits -/

theorem bits_toNat (neg : Bool) (e q : Nat) (he : e ≤ 1074) (hq2 : q ≤ 2 ^ 53) :
    (UInt64.ofNat (e * 2 ^ 52 + q + (if neg then 2 ^ 63 else 0))).toNat =
      e * 2 ^ 52 + q + (if neg then 2 ^ 63 else 0) := by
  rw [UInt64.toNat_ofNat']
  apply Nat.mod_eq_of_lt
  cases neg
  · simp only [Bool.false_eq_true, if_false]; omega
  · simp only [if_true]; omega

theorem read_sign (neg : Bool) (e q : Nat) (he : e ≤ 1074) (hq2 : q ≤ 2 ^ 53) (r : UInt64)
    (ht : r.toNat = e * 2 ^ 52 + q + (if neg then 2 ^ 63 else 0)) : F64.signBit r = neg := by
  simp only [F64.signBit, ht]
  cases neg
  · simp only [Bool.false_eq_true, if_false, decide_eq_false_iff_not]; omega
  · simp only [if_true, decide_eq_true_eq]; omega

theorem read_fields (neg : Bool) (e q : Nat) (he : e ≤ 1074) (hq1 : 2 ^ 52 ≤ q) (hq2 : q < 2 ^ 53) (r : UInt64)
    (ht : r.toNat = e * 2 ^ 52 + q + (if neg then 2 ^ 63 else 0)) :
    r.toNat / 2 ^ 52 % 2048 = e + 1 ∧ r.toNat % 2 ^ 52 = q - 2 ^ 52 := by
  rw [ht]; cases neg
  · simp only [Bool.false_eq_true, if_false]; omega
  · simp only [if_true]; omega

theorem read_fields' (neg : Bool) (e q : Nat) (he : e ≤ 1074) (hq : q = 2 ^ 53) (r : UInt64)
    (ht : r.toNat = e * 2 ^ 52 + q + (if neg then 2 ^ 63 else 0)) :
    r.toNat / 2 ^ 52 % 2048 = e + 2 ∧ r.toNat % 2 ^ 52 = 0 := by
  rw [ht]; cases neg
  · simp only [Bool.false_eq_true, if_false]; omega
  · simp only [if_true]; omega

theorem read_mag (x frac : Nat) (r : UInt64) (hx : r.toNat / 2 ^ 52 % 2048 = x + 1) (hf : r.toNat % 2 ^ 52 = frac) :
    F64.magUnits r = (frac + 2 ^ 52) * 2 ^ x ∧ (x + 1 ≤ 2046 → F64.isFinite r = true) := by
  constructor
  · simp only [F64.magUnits, F64.mantExp, F64.expField, F64.fracField, hx, hf]
    have : (x + 1 == 0) = false := by simp
    simp only [this, Bool.false_eq_true, if_false, Nat.add_sub_cancel]
  · intro h
    simp only [F64.isFinite, F64.expField, hx, bne_iff_ne, ne_eq]; omega

theorem bits_read (neg : Bool) (e q : Nat) (he : e ≤ 1074) (hq1 : 2 ^ 52 ≤ q) (hq2 : q ≤ 2 ^ 53) :
    F64.isFinite (UInt64.ofNat (e * 2 ^ 52 + q + (if neg then 2 ^ 63 else 0))) = true ∧
    F64.signBit (UInt64.ofNat (e * 2 ^ 52 + q + (if neg then 2 ^ 63 else 0))) = neg ∧
    F64.magUnits (UInt64.ofNat (e * 2 ^ 52 + q + (if neg then 2 ^ 63 else 0))) = q * 2 ^ e := by
  have ht := bits_toNat neg e q he hq2
  generalize UInt64.ofNat (e * 2 ^ 52 + q + (if neg then 2 ^ 63 else 0)) = r at ht ⊢
  have hs := read_sign neg e q he hq2 r ht
  by_cases hq : q = 2 ^ 53
  · obtain ⟨hx, hf⟩ := read_fields' neg e q he hq r ht
    obtain ⟨hm, hfin⟩ := read_mag (e + 1) 0 r hx hf
    refine ⟨hfin (by omega), hs, ?_⟩
    have h53 : (2:Nat) ^ 52 * 2 = 2 ^ 53 := by decide
    rw [hm, hq, Nat.zero_add, Nat.pow_succ 2 e, ← Nat.mul_assoc, Nat.mul_right_comm, h53]
  · obtain ⟨hx, hf⟩ := read_fields neg e q he hq1 (by omega) r ht
    obtain ⟨hm, hfin⟩ := read_mag e (q - 2 ^ 52) r hx hf
    refine ⟨hfin (by omega), hs, ?_⟩
    rw [hm, Nat.sub_add_cancel hq1]



/-! ## the rounding bound in the form used below -/

/-- **correct rounding**: for a ratio `num/den` in `[2^-1022, 2^(T-1074))`, `53 ≤ T ≤ 1127`, the result
of `roundRat` is finite, has the requested sign, and its magnitude `M` (in units of `2^-1074`)
satisfies `|M·den − num·2^1074| ≤ den·2^(T-53)/2`: half a unit in the last place of numbers below
`2^(T-1074)`. -/
theorem roundRat_near (neg : Bool) (num den T : Nat) (hn : 0 < num) (hd : 0 < den)
    (hlo : den ≤ num * 2 ^ 1022) (hT : num * 2 ^ 1074 < den * 2 ^ T) (hT1 : 53 ≤ T) (hT2 : T ≤ 1127) :
    F64.isFinite (F64.roundRat neg num den) = true ∧
    F64.signBit (F64.roundRat neg num den) = neg ∧
    2 * (F64.magUnits (F64.roundRat neg num den) * den) ≤ 2 * (num * 2 ^ 1074) + den * 2 ^ (T - 53) ∧
    2 * (num * 2 ^ 1074) ≤ 2 * (F64.magUnits (F64.roundRat neg num den) * den) + den * 2 ^ (T - 53) := by
  have hhi : num < den * 2 ^ 53 := by
    have h1 : num * 2 ^ 1074 < den * 2 ^ 1127 :=
      Nat.lt_of_lt_of_le hT (Nat.mul_le_mul_left _ (Nat.pow_le_pow_right (by decide) hT2))
    have := shift_lt (i' := 0) (j' := 53) h1 (by omega)
    rwa [Nat.pow_zero, Nat.mul_one] at this
  obtain ⟨k, q, hk, hr, q1, q2, r1, r2, s1, s2⟩ := roundRat_normal neg num den hn hd hlo hhi
  obtain ⟨f1, f2, f3⟩ := bits_read neg (1074 - k) q (by omega) q1 q2
  rw [hr]
  refine ⟨f1, f2, ?_, ?_⟩ <;> rw [f3]
  all_goals
    have e1 : q * 2 ^ (1074 - k) * den = q * den * 2 ^ (1074 - k) := Nat.mul_right_comm _ _ _
    have e2 : num * 2 ^ k * 2 ^ (1074 - k) = num * 2 ^ 1074 := by
      rw [Nat.mul_assoc, ← Nat.pow_add]; congr 2; omega
    have he : 52 + (1074 - k) < T := by
      have : den * 2 ^ (52 + (1074 - k)) ≤ num * 2 ^ 1074 := shift_le s1 (by omega)
      exact exp_lt this hT
    have m3 : den * 2 ^ (1074 - k) ≤ den * 2 ^ (T - 53) :=
      Nat.mul_le_mul_left _ (Nat.pow_le_pow_right (by decide) (by omega))
    rw [e1]
  · have m1 := Nat.mul_le_mul_right (2 ^ (1074 - k)) r1
    rw [Nat.add_mul, Nat.mul_assoc 2, Nat.mul_assoc 2, e2] at m1
    omega
  · have m1 := Nat.mul_le_mul_right (2 ^ (1074 - k)) r2
    rw [Nat.add_mul, Nat.mul_assoc 2, Nat.mul_assoc 2, e2] at m1
    omega




/-! ## the operations on finite non-negative floats, in magnitudes -/

theorem finite_flags {f : UInt64} (h : F64.isFinite f = true) : F64.isNaN f = false ∧ F64.isInf f = false := by
  simp only [F64.isFinite, bne_iff_ne, ne_eq] at h
  simp [F64.isNaN, F64.isInf, h]

theorem magUnits_eq (f : UInt64) : F64.magUnits f = (F64.mantExp f).1 * 2 ^ (F64.mantExp f).2 := rfl

theorem isZero_false {f : UInt64} (hs : F64.signBit f = false) (hm : 0 < F64.magUnits f) : F64.isZero f = false := by
  cases hz : F64.isZero f with
  | false => rfl
  | true =>
    exfalso
    simp only [F64.isZero, beq_iff_eq] at hz
    simp only [F64.signBit, decide_eq_false_iff_not] at hs
    have h0 : f.toNat = 0 := by omega
    have : F64.magUnits f = 0 := by
      simp [F64.magUnits, F64.mantExp, F64.expField, F64.fracField, h0]
    omega

/-- `i as f64` is exact below 2^53 -/
theorem ofInt_exact (i : Int) (h0 : 0 ≤ i) (h1 : i < 2 ^ 53) :
    F64.isFinite (F64.ofInt i) = true ∧ F64.signBit (F64.ofInt i) = false ∧
    F64.magUnits (F64.ofInt i) = i.toNat * 2 ^ 1074 := by
  have hneg : ¬ i < 0 := by omega
  simp only [F64.ofInt, hneg, if_false]
  have hna : i.natAbs = i.toNat := by omega
  rw [hna]
  generalize hn : i.toNat = n
  have hn53 : n < 2 ^ 53 := by omega
  by_cases n0 : n = 0
  · subst n0
    have hz : F64.roundRat false 0 1 = 0 := by decide
    rw [hz, Nat.zero_mul]
    exact ⟨by decide, by decide, by decide⟩
  · obtain ⟨k, q, hk, hr, q1, q2, r1, r2, s1, s2⟩ :=
      roundRat_normal false n 1 (by omega) (by decide) (by
        have := Nat.mul_le_mul (show 1 ≤ n by omega) (pow2_pos 1022); omega) (by omega)
    obtain ⟨f1, f2, f3⟩ := bits_read false (1074 - k) q (by omega) q1 q2
    rw [hr]
    refine ⟨f1, f2, ?_⟩
    rw [f3]
    have : q = n * 2 ^ k := by omega
    rw [this, Nat.mul_assoc, ← Nat.pow_add]; congr 2; omega

theorem div_pos_eq {a b : UInt64} (ha : F64.isFinite a = true) (hb : F64.isFinite b = true)
    (sa : F64.signBit a = false) (sb : F64.signBit b = false)
    (ma : 0 < F64.magUnits a) (mb : 0 < F64.magUnits b) :
    F64.div a b = F64.roundRat false (F64.magUnits a) (F64.magUnits b) := by
  have ⟨na, ia⟩ := finite_flags ha
  have ⟨nb, ib⟩ := finite_flags hb
  simp [F64.div, na, nb, ia, ib, isZero_false sa ma, isZero_false sb mb, sa, sb]

theorem add_pos_eq {a b : UInt64} (ha : F64.isFinite a = true) (hb : F64.isFinite b = true)
    (sa : F64.signBit a = false) (sb : F64.signBit b = false)
    (hp : 0 < F64.magUnits a + F64.magUnits b) :
    F64.add a b = F64.roundRat false (F64.magUnits a + F64.magUnits b) (2 ^ 1074) := by
  have ⟨na, ia⟩ := finite_flags ha
  have ⟨nb, ib⟩ := finite_flags hb
  have hu : F64.units a + F64.units b = ((F64.magUnits a + F64.magUnits b : Nat) : Int) := by
    simp [F64.units, sa, sb]
  simp only [F64.add, na, nb, ia, ib, Bool.or_self, Bool.false_eq_true, if_false, hu, F64.ofUnits]
  have h1 : (((F64.magUnits a + F64.magUnits b : Nat) : Int) == 0) = false := by
    simp only [beq_eq_false_iff_ne, ne_eq]; omega
  have h2 : decide (((F64.magUnits a + F64.magUnits b : Nat) : Int) < 0) = false := by
    simp only [decide_eq_false_iff_not]; omega
  simp only [h1, h2, Bool.false_eq_true, if_false, Int.natAbs_natCast]

theorem neg_read' {b nb : UInt64} (hb : F64.isFinite b = true) (sb : ¬ b.toNat ≥ 2 ^ 63)
    (ht : nb.toNat = b.toNat + 2 ^ 63)
    (hx : F64.expField nb = F64.expField b) (hf : F64.fracField nb = F64.fracField b) :
    F64.isFinite nb = true ∧ F64.signBit nb = true ∧ F64.magUnits nb = F64.magUnits b := by
  refine ⟨?_, ?_, ?_⟩
  · unfold F64.isFinite at hb ⊢
    rw [hx]; exact hb
  · unfold F64.signBit
    rw [ht, decide_eq_true_eq]; omega
  · unfold F64.magUnits F64.mantExp
    rw [hx, hf]

theorem neg_toNat {b : UInt64} (sb : ¬ b.toNat ≥ 2 ^ 63) : (F64.neg b).toNat = b.toNat + 2 ^ 63 := by
  have hlt := b.toNat_lt
  simp only [F64.neg, UInt64.toNat_ofNat']
  omega

theorem neg_read {b : UInt64} (hb : F64.isFinite b = true) (sb : F64.signBit b = false) :
    F64.isFinite (F64.neg b) = true ∧ F64.signBit (F64.neg b) = true ∧ F64.magUnits (F64.neg b) = F64.magUnits b := by
  simp only [F64.signBit, decide_eq_false_iff_not] at sb
  have ht := neg_toNat sb
  have hx0 : (F64.neg b).toNat / 2 ^ 52 % 2048 = b.toNat / 2 ^ 52 % 2048 := by rw [ht]; omega
  have hf0 : (F64.neg b).toNat % 2 ^ 52 = b.toNat % 2 ^ 52 := by rw [ht]; omega
  exact neg_read' hb sb ht hx0 hf0

theorem sub_pos_eq {a b : UInt64} (ha : F64.isFinite a = true) (hb : F64.isFinite b = true)
    (sa : F64.signBit a = false) (sb : F64.signBit b = false)
    (hp : F64.magUnits b < F64.magUnits a) :
    F64.sub a b = F64.roundRat false (F64.magUnits a - F64.magUnits b) (2 ^ 1074) := by
  have ⟨na, ia⟩ := finite_flags ha
  have ⟨nb, ib⟩ := finite_flags hb
  obtain ⟨fn, sn, mn⟩ := neg_read hb sb
  have ⟨nn, inn⟩ := finite_flags fn
  have hu : F64.units a + F64.units (F64.neg b) = ((F64.magUnits a - F64.magUnits b : Nat) : Int) := by
    simp only [F64.units, sa, sn, mn, Bool.false_eq_true, if_false, if_true, Int.ofNat_eq_natCast]; omega
  simp only [F64.sub, nb, Bool.false_eq_true, if_false, F64.add, na, nn, ia, inn, Bool.or_self, hu, F64.ofUnits]
  have h1 : (((F64.magUnits a - F64.magUnits b : Nat) : Int) == 0) = false := by
    simp only [beq_eq_false_iff_ne, ne_eq]; omega
  have h2 : decide (((F64.magUnits a - F64.magUnits b : Nat) : Int) < 0) = false := by
    simp only [decide_eq_false_iff_not]; omega
  simp only [h1, h2, Bool.false_eq_true, if_false, Int.natAbs_natCast]

theorem mul_pos_eq {a b : UInt64} (ha : F64.isFinite a = true) (hb : F64.isFinite b = true)
    (sa : F64.signBit a = false) (sb : F64.signBit b = false)
    (ma : 0 < F64.magUnits a) (mb : 0 < F64.magUnits b) :
    F64.mul a b = F64.roundRat false (F64.magUnits a * F64.magUnits b) (2 ^ 2148) := by
  have ⟨na, ia⟩ := finite_flags ha
  have ⟨nb, ib⟩ := finite_flags hb
  rw [magUnits_eq] at ma mb
  have pa : 0 < (F64.mantExp a).1 := Nat.pos_of_mul_pos_right ma
  have pb : 0 < (F64.mantExp b).1 := Nat.pos_of_mul_pos_right mb
  have z : ((F64.mantExp a).1 == 0 || (F64.mantExp b).1 == 0) = false := by
    simp only [Bool.or_eq_false_iff, beq_eq_false_iff_ne]; omega
  have e : (F64.mantExp a).1 * (F64.mantExp b).1 * 2 ^ ((F64.mantExp a).2 + (F64.mantExp b).2) =
      F64.magUnits a * F64.magUnits b := by
    rw [magUnits_eq, magUnits_eq, Nat.pow_add, Nat.mul_mul_mul_comm]
  simp only [F64.mul, na, nb, ia, ib, Bool.or_self, Bool.false_eq_true, if_false, sa, sb, bne_self_eq_false, z, e]



set_option exponentiation.threshold 2200

/-! ## the seconds field `s + ns/1e9` of `datetime_to_array` read back by `array_to_datetime` -/

theorem f1e9_read : F64.isFinite f1e9 = true ∧ F64.signBit f1e9 = false ∧
    F64.magUnits f1e9 = 1000000000 * 2 ^ 1074 := by
  obtain ⟨a, b, c⟩ := ofInt_exact 1000000000 (by omega) (by omega)
  have e : (1000000000 : Int).toNat = 1000000000 := by decide
  rw [e] at c
  exact ⟨a, b, c⟩

theorem zero_read : F64.isFinite (F64.zero false) = true ∧ F64.signBit (F64.zero false) = false ∧
    F64.magUnits (F64.zero false) = 0 := by decide

/-- `trunc` / `floor` / `round` of a finite non-negative float in magnitudes -/
theorem trunc_pos {f : UInt64} (sf : F64.signBit f = false) :
    F64.trunc f = ((F64.magUnits f / 2 ^ 1074 : Nat) : Int) := by
  simp only [F64.trunc, sf, Bool.false_eq_true, if_false, Int.ofNat_eq_natCast]

theorem floorInt_pos {f : UInt64} (sf : F64.signBit f = false) :
    floorInt f = ((F64.magUnits f / 2 ^ 1074 : Nat) : Int) := by
  simp only [floorInt, sf, Bool.false_and, Bool.false_eq_true, if_false, trunc_pos sf]

theorem roundInt_pos {f : UInt64} (sf : F64.signBit f = false) :
    roundInt f = (((2 * F64.magUnits f + 2 ^ 1074) / 2 ^ 1075 : Nat) : Int) := by
  simp only [roundInt, sf, Bool.false_eq_true, if_false, Int.ofNat_eq_natCast]

set_option maxRecDepth 8000 in
/-- **the seconds field survives.**  For whole seconds `s ∈ 0..59` and a sub-second part of
`m ∈ 1..999999` micro-seconds, the float `s + (1000·m)/1e9` that `datetime_to_array` writes is read
back by the repaired `array_to_datetime` as exactly `s` seconds and `1000·m` nanoseconds:
`floor` is `s`, and `(fract·1e9).round()` is `1000·m` (five correctly rounded operations, total
error below 2^-17 ns). -/
theorem seconds_roundtrip (s m : Int) (hs0 : 0 ≤ s) (hs1 : s ≤ 59) (hm0 : 1 ≤ m) (hm1 : m ≤ 999999) :
    F64.isFinite (F64.add (F64.ofInt s) (F64.div (F64.ofInt (m * 1000)) f1e9)) = true ∧
    floorCastI8 (F64.add (F64.ofInt s) (F64.div (F64.ofInt (m * 1000)) f1e9)) = s ∧
    subsecNanos Fixes.all (F64.add (F64.ofInt s) (F64.div (F64.ofInt (m * 1000)) f1e9)) = m * 1000 := by
  obtain ⟨fa, sa, ma⟩ := ofInt_exact s hs0 (by omega)
  obtain ⟨fb, sb, mb⟩ := ofInt_exact (m * 1000) (by omega) (by omega)
  obtain ⟨fc, sc, mc⟩ := f1e9_read
  generalize hsn : s.toNat = sn at ma
  generalize hmn : (m * 1000).toNat = mn at mb
  have hsn' : s = (sn : Int) := by omega
  have hmn' : m * 1000 = (mn : Int) := by omega
  have bsn : sn ≤ 59 := by omega
  have bmn1 : 1000 ≤ mn := by omega
  have bmn2 : mn ≤ 999999000 := by omega
  generalize F64.ofInt s = a at *
  generalize F64.ofInt (m * 1000) = b at *
  -- d = b / 1e9
  have pb : 0 < F64.magUnits b := by rw [mb]; omega
  have pc : 0 < F64.magUnits f1e9 := by rw [mc]; omega
  have hd := div_pos_eq fb fc sb sc pb pc
  obtain ⟨fd, sd, d1, d2⟩ := roundRat_near false (F64.magUnits b) (F64.magUnits f1e9) 1074 pb pc
    (by rw [mb, mc]; omega) (by rw [mb, mc]; omega) (by omega) (by omega)
  rw [← hd] at fd sd d1 d2
  generalize F64.div b f1e9 = d at *
  rw [mb, mc] at d1 d2
  generalize hD : F64.magUnits d = D at *
  have D1 : 1000000000 * D ≤ mn * 2 ^ 1074 + 1000000000 * 2 ^ 1020 := by omega
  have D2 : mn * 2 ^ 1074 ≤ 1000000000 * D + 1000000000 * 2 ^ 1020 := by omega
  clear d1 d2
  -- secF = a + d
  have hadd := add_pos_eq fa fd sa sd (by rw [hD]; omega)
  obtain ⟨fS, sS, s1, s2⟩ := roundRat_near false (F64.magUnits a + F64.magUnits d) (2 ^ 1074) 1080
    (by rw [hD]; omega) (by omega) (by rw [ma, hD]; omega) (by rw [ma, hD]; omega) (by omega) (by omega)
  rw [← hadd] at fS sS s1 s2
  generalize F64.add a d = secF at *
  rw [ma, hD] at s1 s2
  generalize hS : F64.magUnits secF = S at *
  have S1 : S ≤ sn * 2 ^ 1074 + D + 2 ^ 1026 := by omega
  have S2 : sn * 2 ^ 1074 + D ≤ S + 2 ^ 1026 := by clear S1 s1 D1 D2 hmn' hsn' hm0 hm1 hs0 hs1; omega
  clear s1 s2
  have hfl : S / 2 ^ 1074 = sn := by omega
  obtain ⟨nS, iS⟩ := finite_flags fS
  refine ⟨fS, ?_, ?_⟩
  · simp only [floorCastI8, nS, iS, Bool.false_eq_true, if_false, floorInt_pos sS, hS, hfl]
    rw [hsn']
    split
    · omega
    · split
      · omega
      · rfl
  · -- trunc
    have hfx : Fixes.all.roundNanos = true := rfl
    simp only [subsecNanos, hfx, if_true]
    have htr : F64.isFinite (truncF secF) = true ∧ F64.signBit (truncF secF) = false ∧
        F64.magUnits (truncF secF) = sn * 2 ^ 1074 := by
      simp only [truncF, fS, Bool.not_true, Bool.false_eq_true, if_false, trunc_pos sS, hS, hfl, sS]
      by_cases z : sn = 0
      · subst z
        simp only [Int.natCast_zero, beq_self_eq_true, if_true, Nat.zero_mul]
        exact zero_read
      · have : ((sn : Int) == 0) = false := by simp only [beq_eq_false_iff_ne, ne_eq]; omega
        simp only [this, Bool.false_eq_true, if_false]
        obtain ⟨x, y, w⟩ := ofInt_exact (sn : Int) (by omega) (by omega)
        exact ⟨x, y, by rw [w, Int.toNat_natCast]⟩
    obtain ⟨fT, sT, mT⟩ := htr
    have hsub := sub_pos_eq fS fT sS sT (by rw [hS, mT]; omega)
    obtain ⟨fF, sF, f1, f2⟩ := roundRat_near false (F64.magUnits secF - F64.magUnits (truncF secF)) (2 ^ 1074) 1074
      (by rw [hS, mT]; omega) (by omega) (by rw [hS, mT]; omega) (by rw [hS, mT]; omega) (by omega) (by omega)
    rw [← hsub] at fF sF f1 f2
    have hfr : F64.sub secF (truncF secF) = fractF secF := rfl
    rw [hfr] at fF sF f1 f2
    generalize fractF secF = fr at *
    rw [hS, mT] at f1 f2
    generalize hF : F64.magUnits fr = F at *
    have F1 : F + sn * 2 ^ 1074 ≤ S + 2 ^ 1020 := by omega
    have F2 : S ≤ F + sn * 2 ^ 1074 + 2 ^ 1020 := by omega
    clear f1 f2
    -- x = fr * 1e9
    have hmul := mul_pos_eq fF fc sF sc (by rw [hF]; omega) pc
    obtain ⟨fX, sX, x1, x2⟩ := roundRat_near false (F64.magUnits fr * F64.magUnits f1e9) (2 ^ 2148) 1104
      (by rw [hF, mc]; exact Nat.mul_pos (by omega) (by omega)) (by omega)
      (by rw [hF, mc]; omega) (by rw [hF, mc]; omega) (by omega) (by omega)
    rw [← hmul] at fX sX x1 x2
    generalize F64.mul fr f1e9 = x at *
    rw [hF, mc] at x1 x2
    generalize hX : F64.magUnits x = X at *
    have X1 : X ≤ 1000000000 * F + 2 ^ 1050 := by omega
    have X2 : 1000000000 * F ≤ X + 2 ^ 1050 := by omega
    clear x1 x2
    have hr : (2 * X + 2 ^ 1074) / 2 ^ 1075 = mn := by omega
    obtain ⟨nX, iX⟩ := finite_flags fX
    simp only [castSatRound, nX, iX, Bool.false_eq_true, if_false, roundInt_pos sX, hX, hr]
    rw [hmn']
    split
    · omega
    · split
      · omega
      · split
        · omega
        · rfl


end Jaq.Time
