/-
  C08 helper lemmas, part 9 (round 2): the order/equality based filters on arrays.  Elements
  that are `==` are interchangeable in `sort`, `group_by`, `unique`, array subtraction, `indices`;
  `min`/`max` are extremal for the order; `unique` is the sorted list with adjacent `==` elements
  dropped; `bsearch`'s answers on a sorted array.
-/
import JaqVerif.Lemmas.C08Cong

namespace Jaq.C08
open Jaq

section congr
variable {m : Mode}

theorem sort_all2 {l l' : List Val} (h : All2 (Eqv m) l l') : All2 (Eqv m) (sort l) (sort l') :=
  sortBy_all2 (c := cmp) (fun _ _ _ _ h1 h2 => Eqv.cmp_congr h1 h2) h

theorem groupLoop_all2 : ∀ {xs xs' : List Val} {gk gk' : Val} {cur cur' : List Val},
    Eqv m gk gk' → All2 (Eqv m) cur cur' → All2 (Eqv m) xs xs' →
    All2 (All2 (Eqv m)) (groupLoop gk cur xs) (groupLoop gk' cur' xs')
  | [], [], _, _, _, _, _, hc, _ => ⟨hc.reverse, trivial⟩
  | [], _ :: _, _, _, _, _, _, _, h => h.elim
  | _ :: _, [], _, _, _, _, _, _, h => h.elim
  | x :: xs, x' :: xs', gk, gk', cur, cur', hg, hc, h => by
    simp only [groupLoop, Eqv.eq_congr hg h.1]
    split
    · exact groupLoop_all2 hg ⟨h.1, hc⟩ h.2
    · exact ⟨hc.reverse, groupLoop_all2 h.1 ⟨h.1, trivial⟩ h.2⟩

theorem groupBy_all2 {l l' : List Val} (h : All2 (Eqv m) l l') :
    All2 (All2 (Eqv m)) (groupBy l) (groupBy l') := by
  unfold groupBy
  have hs := sort_all2 h
  revert hs
  generalize sort l = s
  generalize sort l' = s'
  intro hs
  match s, s', hs with
  | [], [], _ => trivial
  | [], _ :: _, hs => exact hs.elim
  | _ :: _, [], hs => exact hs.elim
  | x :: xs, x' :: xs', hs => exact groupLoop_all2 hs.1 ⟨hs.1, trivial⟩ hs.2

theorem filterMap_head_all2 {R : Val → Val → Prop} :
    ∀ {g g' : List (List Val)}, All2 (All2 R) g g' → All2 R (g.filterMap List.head?) (g'.filterMap List.head?)
  | [], [], _ => trivial
  | [], _ :: _, h => h.elim
  | _ :: _, [], h => h.elim
  | a :: as, b :: bs, h => by
    match a, b, h with
    | [], [], h =>
      rw [List.filterMap_cons_none rfl, List.filterMap_cons_none rfl]
      exact filterMap_head_all2 h.2
    | [], _ :: _, h => exact h.1.elim
    | _ :: _, [], h => exact h.1.elim
    | x :: xt, y :: yt, h =>
      rw [List.filterMap_cons_some (f := List.head?) (a := x :: xt) (b := x) rfl,
        List.filterMap_cons_some (f := List.head?) (a := y :: yt) (b := y) rfl]
      exact ⟨h.1.1, filterMap_head_all2 h.2⟩

theorem unique_all2 {l l' : List Val} (h : All2 (Eqv m) l l') : All2 (Eqv m) (unique l) (unique l') :=
  filterMap_head_all2 (groupBy_all2 h)

theorem sub_all2 {l l' r r' : List Val} (hl : All2 (Eqv m) l l') (hr : All2 (Eqv m) r r') :
    All2 (Eqv m) (sub l r) (sub l' r') := by
  unfold sub
  apply All2.filter
  refine hl.imp (fun a a' ha => ⟨ha, ?_⟩)
  congr 1
  exact All2.any_eq (hr.imp (fun y y' hy => by rw [Eqv.cmp_congr hy ha]))

theorem eqList_eqv : ∀ {w w' ys ys' : List Val}, All2 (Eqv m) w w' → All2 (Eqv m) ys ys' →
    eqList eq w ys = eqList eq w' ys'
  | [], _ :: _, _, _, h, _ => h.elim
  | _ :: _, [], _, _, h, _ => h.elim
  | _, _, [], _ :: _, _, h => h.elim
  | _, _, _ :: _, [], _, h => h.elim
  | [], [], [], [], _, _ => rfl
  | [], [], _ :: _, _ :: _, _, _ => rfl
  | _ :: _, _ :: _, [], [], _, _ => rfl
  | _ :: _, _ :: _, _ :: _, _ :: _, h1, h2 => by
    simp only [eqList, Eqv.eq_congr h1.1 h2.1, eqList_eqv h1.2 h2.2]

theorem zipIdx_filter_all2 {α β : Type} {f : α → Bool} {g : β → Bool} :
    ∀ {x : List α} {y : List β} (k : Nat), All2 (fun a b => f a = g b) x y →
      ((x.zipIdx k).filter (fun w => f w.1)).map (·.2) = ((y.zipIdx k).filter (fun w => g w.1)).map (·.2)
  | [], [], _, _ => rfl
  | [], _ :: _, _, h => h.elim
  | _ :: _, [], _, h => h.elim
  | a :: as, b :: bs, k, h => by
    simp only [List.zipIdx_cons, List.filter_cons, h.1]
    split
    · simp only [List.map_cons, zipIdx_filter_all2 (k + 1) h.2]
    · exact zipIdx_filter_all2 (k + 1) h.2

theorem windows_all2 {x x' : List Val} (n : Nat) (h : All2 (Eqv m) x x') :
    All2 (All2 (Eqv m)) (windows n x) (windows n x') := by
  unfold windows
  rw [← h.length_eq]
  split
  · trivial
  · exact All2.map_same (fun i _ => All2.take n (All2.drop i h))

theorem indices_nonarr (x : List Val) {y : Val} (hy : ∀ ys, y ≠ .arr ys) :
    indices x y = (x.zipIdx.filter fun w => eq w.1 y).map (·.2) := by
  cases y <;> first | rfl | exact absurd rfl (hy _)

theorem eqv_arr {y' : Val} {ys : List Val} (h : Eqv m (.arr ys) y') :
    ∃ ys', y' = .arr ys' ∧ All2 (Eqv m) ys ys' := by
  cases y' with
  | arr ys' =>
    refine ⟨ys', rfl, ?_⟩
    have := h.e
    rw [eq_arr, eqList_iff] at this
    exact All2.imp_of_mem (fun a ha b hb hab => ⟨h.ga.arr a ha, h.gb.arr b hb, hab⟩) this
  | _ => have := h.e; rw [eq_rank_ne (by simp [Val.rank])] at this; cases this

/-- `indices` / `index`: the same positions when elements and the searched value (or the searched
sub-array, element by element) are replaced by `==` ones -/
theorem indices_all2 {x x' : List Val} {y y' : Val} (hx : All2 (Eqv m) x x') (hy : Eqv m y y') :
    indices x y = indices x' y' := by
  by_cases ha : ∃ ys, y = .arr ys
  · obtain ⟨ys, rfl⟩ := ha
    obtain ⟨ys', rfl, hys⟩ := eqv_arr hy
    match ys, ys', hys with
    | [], [], _ => rfl
    | [], _ :: _, h => exact h.elim
    | _ :: _, [], h => exact h.elim
    | b :: bs, b' :: bs', hys =>
      simp only [indices]
      have hl : (b :: bs).length = (b' :: bs').length := hys.length_eq
      rw [hl]
      exact zipIdx_filter_all2 (f := fun w => eqList eq w (b :: bs)) (g := fun w => eqList eq w (b' :: bs')) 0
        ((windows_all2 _ hx).imp (fun w w' hw => eqList_eqv hw hys))
  · have hy1 : ∀ ys, y ≠ .arr ys := fun ys h => ha ⟨ys, h⟩
    have hy2 : ∀ ys, y' ≠ .arr ys := by
      intro ys h
      subst h
      obtain ⟨zs, hz, _⟩ := eqv_arr hy.symm
      exact hy1 zs hz
    rw [indices_nonarr x hy1, indices_nonarr x' hy2]
    exact zipIdx_filter_all2 (f := fun w => eq w y) (g := fun w => eq w y') 0
      (hx.imp (fun a a' haa => Eqv.eq_congr haa hy))

end congr

/-! ### `min` / `max` -/

section minmax
variable {α : Type} {S : α → Prop} {c : α → α → Ordering}

theorem foldl_min_spec (hT : TPO S c) : ∀ (xs : List α) (m0 : α) (seen : List α),
    m0 ∈ seen → (∀ z ∈ seen, S z) → (∀ z ∈ xs, S z) → (∀ z ∈ seen, c m0 z ≠ .gt) →
    xs.foldl (fun m y => if c y m == .lt then y else m) m0 ∈ seen ++ xs ∧
    ∀ z ∈ seen ++ xs, c (xs.foldl (fun m y => if c y m == .lt then y else m) m0) z ≠ .gt
  | [], m0, seen, hm, _, _, hmin => by simpa using ⟨hm, hmin⟩
  | y :: ys, m0, seen, hm, hs, hxs, hmin => by
    have sy := hxs y (by simp)
    have sm := hs m0 hm
    simp only [List.foldl_cons]
    have key := foldl_min_spec hT ys (if c y m0 == .lt then y else m0) (seen ++ [y])
      (by split <;> simp [hm]) (by
        intro z hz
        rcases List.mem_append.1 hz with hz | hz
        · exact hs z hz
        · have : z = y := by simpa using hz
          subst this; exact sy)
      (fun z hz => hxs z (by simp [hz])) (by
        intro z hz
        by_cases hlt : c y m0 = .lt
        · simp only [hlt, beq_self_eq_true, if_true]
          rcases List.mem_append.1 hz with hz | hz
          · rw [hT.lt_of_lt_of_le sy sm (hs z hz) hlt (hmin z hz)]; simp
          · have : z = y := by simpa using hz
            subst this; rw [hT.refl z sy]; simp
        · have hb : (c y m0 == .lt) = false := by simpa using hlt
          simp only [hb, Bool.false_eq_true, if_false]
          rcases List.mem_append.1 hz with hz | hz
          · exact hmin z hz
          · have : z = y := by simpa using hz
            subst this
            intro hgt
            exact hlt ((hT.gt_iff sm sy).1 hgt))
    simpa [List.append_assoc] using key

theorem foldl_max_spec (hT : TPO S c) : ∀ (xs : List α) (m0 : α) (seen : List α),
    m0 ∈ seen → (∀ z ∈ seen, S z) → (∀ z ∈ xs, S z) → (∀ z ∈ seen, c z m0 ≠ .gt) →
    xs.foldl (fun m y => if c y m != .lt then y else m) m0 ∈ seen ++ xs ∧
    ∀ z ∈ seen ++ xs, c z (xs.foldl (fun m y => if c y m != .lt then y else m) m0) ≠ .gt
  | [], m0, seen, hm, _, _, hmax => by simpa using ⟨hm, hmax⟩
  | y :: ys, m0, seen, hm, hs, hxs, hmax => by
    have sy := hxs y (by simp)
    have sm := hs m0 hm
    simp only [List.foldl_cons]
    have key := foldl_max_spec hT ys (if c y m0 != .lt then y else m0) (seen ++ [y])
      (by split <;> simp [hm]) (by
        intro z hz
        rcases List.mem_append.1 hz with hz | hz
        · exact hs z hz
        · have : z = y := by simpa using hz
          subst this; exact sy)
      (fun z hz => hxs z (by simp [hz])) (by
        intro z hz
        by_cases hlt : c y m0 = .lt
        · have hb : (c y m0 != .lt) = false := by simp [hlt]
          simp only [hb, Bool.false_eq_true, if_false]
          rcases List.mem_append.1 hz with hz | hz
          · exact hmax z hz
          · have : z = y := by simpa using hz
            subst this; rw [hlt]; simp
        · have hb : (c y m0 != .lt) = true := by simpa using hlt
          simp only [hb, if_true]
          have hle : c m0 y ≠ .gt := fun hgt => hlt ((hT.gt_iff sm sy).1 hgt)
          rcases List.mem_append.1 hz with hz | hz
          · exact hT.trans z m0 y (hs z hz) sm sy (hmax z hz) hle
          · have : z = y := by simpa using hz
            subst this; rw [hT.refl z sy]; simp)
    simpa [List.append_assoc] using key

end minmax

/-! ### `unique` is the sorted list with adjacent `==` elements dropped -/

/-- keep the first of every run of adjacent elements that are `==` to it -/
def dedupLoop (gk : Val) : List Val → List Val
  | [] => [gk]
  | x :: xs => if eq gk x then dedupLoop gk xs else gk :: dedupLoop x xs

theorem groupLoop_heads : ∀ (xs : List Val) (gk : Val) (cur : List Val), cur.reverse.head? = some gk →
    (groupLoop gk cur xs).filterMap List.head? = dedupLoop gk xs
  | [], gk, cur, h => by simp [groupLoop, dedupLoop, h]
  | x :: xs, gk, cur, h => by
    simp only [groupLoop, dedupLoop]
    split
    · apply groupLoop_heads xs gk (x :: cur)
      rw [List.reverse_cons]
      cases hc : cur.reverse with
      | nil => rw [hc] at h; cases h
      | cons a as => rw [hc] at h; simpa using h
    · rw [List.filterMap_cons_some h, groupLoop_heads xs x [x] rfl]

theorem unique_eq_dedup (l : List Val) :
    unique l = match sort l with
      | [] => []
      | x :: xs => dedupLoop x xs := by
  unfold unique groupBy
  cases sort l with
  | nil => rfl
  | cons x xs => exact groupLoop_heads xs x [x] rfl

theorem dedupLoop_mem : ∀ (xs : List Val) (gk u : Val), u ∈ dedupLoop gk xs → u ∈ gk :: xs
  | [], gk, u, h => by simpa [dedupLoop] using h
  | x :: xs, gk, u, h => by
    simp only [dedupLoop] at h
    split at h
    · have := dedupLoop_mem xs gk u h
      rcases List.mem_cons.1 this with rfl | h'
      · simp
      · simp [h']
    · rcases List.mem_cons.1 h with rfl | h'
      · simp
      · exact List.mem_cons_of_mem _ (dedupLoop_mem xs x u h')

section dedup
variable {m : Mode}

theorem dedupLoop_cover : ∀ (xs : List Val) (gk : Val), Good m gk → (∀ z ∈ xs, Good m z) →
    ∀ z ∈ gk :: xs, ∃ u ∈ dedupLoop gk xs, eq u z = true
  | [], gk, g, _, z, hz => by
    have : z = gk := by simpa using hz
    subst this
    exact ⟨z, by simp [dedupLoop], (Eqv.refl g).e⟩
  | x :: xs, gk, g, hxs, z, hz => by
    have gx := hxs x (by simp)
    have hxs' : ∀ z ∈ xs, Good m z := fun z hz => hxs z (by simp [hz])
    simp only [dedupLoop]
    by_cases he : eq gk x = true
    · simp only [he, if_true]
      rcases List.mem_cons.1 hz with rfl | hz
      · exact dedupLoop_cover xs z g hxs' z (by simp)
      · rcases List.mem_cons.1 hz with rfl | hz
        · obtain ⟨u, hu, hug⟩ := dedupLoop_cover xs gk g hxs' gk (by simp)
          have gu : Good m u := by
            rcases List.mem_cons.1 (dedupLoop_mem xs gk u hu) with rfl | h'
            · exact g
            · exact hxs' u h'
          exact ⟨u, hu, ((Eqv.mk gu g hug).trans ⟨g, gx, he⟩).e⟩
        · exact dedupLoop_cover xs gk g hxs' z (by simp [hz])
    · have hb : eq gk x = false := by simpa using he
      simp only [hb, Bool.false_eq_true, if_false]
      rcases List.mem_cons.1 hz with rfl | hz
      · exact ⟨z, by simp, (Eqv.refl g).e⟩
      · obtain ⟨u, hu, huz⟩ := dedupLoop_cover xs x gx hxs' z hz
        exact ⟨u, List.mem_cons_of_mem _ hu, huz⟩

theorem dedupLoop_ssorted : ∀ (xs : List Val) (gk : Val), Good m gk → (∀ z ∈ xs, Good m z) →
    Sorted cmp (gk :: xs) → SSorted cmp (dedupLoop gk xs)
  | [], gk, _, _, _ => by simp [dedupLoop, SSorted]
  | x :: xs, gk, g, hxs, hs => by
    have gx := hxs x (by simp)
    have hxs' : ∀ z ∈ xs, Good m z := fun z hz => hxs z (by simp [hz])
    simp only [Sorted, List.pairwise_cons] at hs
    simp only [dedupLoop]
    by_cases he : eq gk x = true
    · simp only [he, if_true]
      apply dedupLoop_ssorted xs gk g hxs'
      simp only [Sorted, List.pairwise_cons]
      exact ⟨fun z hz => hs.1 z (by simp [hz]), hs.2.2⟩
    · have hb : eq gk x = false := by simpa using he
      simp only [hb, Bool.false_eq_true, if_false, SSorted, List.pairwise_cons]
      have hlt : cmp gk x = .lt := by
        cases hc : cmp gk x with
        | lt => rfl
        | eq => exact absurd ((eq_iff_cmp g gx).2 hc) he
        | gt => exact absurd hc (hs.1 x (by simp))
      refine ⟨?_, dedupLoop_ssorted xs x gx hxs' (by simp only [Sorted, List.pairwise_cons]; exact hs.2)⟩
      intro u hu
      rcases List.mem_cons.1 (dedupLoop_mem xs x u hu) with rfl | h'
      · exact hlt
      · exact (valTPO m).lt_of_lt_of_le g.dom gx.dom (hxs' u h').dom hlt (hs.2.1 u h')

end dedup

/-! ### values that are `==` have the same size (so `Obj.merge` gives them the same fuel) -/

theorem sizeEntries_cons (p : Val × Val) (ps : Entries) :
    Val.sizeEntries (p :: ps) = p.1.size + p.2.size + Val.sizeEntries ps := by
  cases p; rfl

theorem sizeEntries_perm {x y : Entries} (h : x.Perm y) : Val.sizeEntries x = Val.sizeEntries y := by
  induction h with
  | nil => rfl
  | cons p _ ih => rw [sizeEntries_cons, sizeEntries_cons, ih]
  | swap p q l => simp only [sizeEntries_cons]; omega
  | trans _ _ ih1 ih2 => rw [ih1, ih2]

theorem sizeList_all2 : ∀ {x y : List Val}, All2 (fun a b => a.size = b.size) x y → Val.sizeList x = Val.sizeList y
  | [], [], _ => rfl
  | [], _ :: _, h => h.elim
  | _ :: _, [], h => h.elim
  | _ :: _, _ :: _, h => by simp only [Val.sizeList, h.1, sizeList_all2 h.2]

theorem sizeEntries_all2 : ∀ {x y : Entries},
    All2 (fun p q : Val × Val => p.1.size = q.1.size ∧ p.2.size = q.2.size) x y → Val.sizeEntries x = Val.sizeEntries y
  | [], [], _ => rfl
  | [], _ :: _, h => h.elim
  | _ :: _, [], h => h.elim
  | _ :: _, _ :: _, h => by simp only [sizeEntries_cons, h.1.1, h.1.2, sizeEntries_all2 h.2]

theorem size_eq_of_eqv (m : Mode) : ∀ (n : Nat) (a b : Val), a.size ≤ n → Eqv m a b → a.size = b.size
  | 0, a, _, hs, _ => by have := a.size_pos; omega
  | n + 1, a, b, hs, h => by
    have ih := size_eq_of_eqv m n
    by_cases hr : a.rank = b.rank
    · rcases same_rank_cases hr with ⟨rfl, rfl⟩ | ⟨x, y, rfl, rfl⟩ | ⟨x, y, rfl, rfl⟩ | ⟨x, y, hx, hy⟩ |
        ⟨x, y, rfl, rfl⟩ | ⟨x, y, rfl, rfl⟩
      · rfl
      · rfl
      · rfl
      · cases a <;> cases b <;> simp_all [str?, Val.size]
      · have hall := h.e
        rw [eq_arr, eqList_iff] at hall
        simp only [Val.size] at hs ⊢
        congr 1
        apply sizeList_all2
        refine All2.imp_of_mem ?_ hall
        intro u hu v hv huv
        have := Val.size_lt_of_mem hu
        exact ih u v (by omega) ⟨h.ga.arr u hu, h.gb.arr v hv, huv⟩
      · have hall := (cmp_obj_eq_iff x y).1 h.cmp_eq
        simp only [Val.size] at hs ⊢
        congr 1
        rw [← sizeEntries_perm (sortBy_perm (c := keyCmp cmp) x), ← sizeEntries_perm (sortBy_perm (c := keyCmp cmp) y)]
        apply sizeEntries_all2
        refine All2.imp_of_mem ?_ hall
        intro p hp q hq hpq
        have hp' := mem_sortBy.1 hp
        have hq' := mem_sortBy.1 hq
        have := Val.size_entry_of_mem (k := p.1) (v := p.2) hp'
        have := p.1.size_pos; have := p.2.size_pos
        exact ⟨ih p.1 q.1 (by omega) (Eqv.of_cmp (h.ga.obj p hp').1 (h.gb.obj q hq').1 hpq.1),
          ih p.2 q.2 (by omega) (Eqv.of_cmp (h.ga.obj p hp').2 (h.gb.obj q hq').2 hpq.2)⟩
    · have := h.e
      rw [eq_rank_ne hr] at this; cases this

theorem Eqv.size_eq {m : Mode} {a b : Val} (h : Eqv m a b) : a.size = b.size :=
  size_eq_of_eqv m a.size a b (Nat.le_refl _) h

theorem merge_all2 {m : Mode} {l l' r r' : Entries} (hl : KeysEqv m Eq l l') (hr : KeysEqv m Eq r r') :
    KeysEqv m Eq (Obj.merge l r) (Obj.merge l' r') := by
  have key : ∀ {x y : Entries}, KeysEqv m Eq x y → Val.sizeEntries x = Val.sizeEntries y := by
    intro x y h
    apply sizeEntries_all2
    exact All2.imp (fun p q hpq => ⟨hpq.1.size_eq, by rw [hpq.2]⟩) h
  unfold Obj.merge
  rw [key hl, key hr]
  exact mergeF_all2 _ hr hl

/-! ### `bsearch` on a sorted array -/

section bsearch
variable {α : Type}

/-- in a list where `P` is downward closed along the list order, the elements satisfying `P`
form a prefix -/
theorem filter_prefix {P : α → Bool} : ∀ (l : List α), l.Pairwise (fun u v => P v = true → P u = true) →
    l.take (l.filter P).length = l.filter P ∧ ∀ v ∈ l.drop (l.filter P).length, P v = false
  | [], _ => by simp
  | u :: l, h => by
    rw [List.pairwise_cons] at h
    by_cases hu : P u = true
    · have ih := filter_prefix l h.2
      simp only [List.filter_cons, hu, if_true, List.length_cons, List.take_succ_cons, List.drop_succ_cons]
      exact ⟨by rw [ih.1], ih.2⟩
    · have hnone : ∀ v ∈ l, ¬ P v = true := fun v hv hp => hu (h.1 v hv hp)
      have hf : l.filter P = [] := List.filter_eq_nil_iff.2 hnone
      have hu' : P u = false := by simpa using hu
      simp only [List.filter_cons, hu', Bool.false_eq_true, if_false, hf, List.length_nil, List.take_zero, List.drop_zero]
      refine ⟨trivial, ?_⟩
      intro v hv
      rcases List.mem_cons.1 hv with rfl | hv
      · simpa using hu
      · simpa using hnone v hv

end bsearch

/-- **`bsearch` on a sorted array**: every admissible answer `r` is either the index of an
element that compares `Equal` to `x`, or `-1 - i` where no element compares `Equal`, the first `i`
elements are all below `x` and the rest all above (so inserting `x` at `i` keeps the array sorted) -/
theorem bsearchSpec_sorted {m : Mode} (a : List Val) (x : Val) (ha : ∀ v ∈ a, InDom m v = true)
    (hx : InDom m x = true) (hs : Sorted cmp a) :
    ∀ r ∈ bsearchSpec a x,
      (0 ≤ r ∧ ∃ v, a[r.toNat]? = some v ∧ cmp v x = .eq) ∨
      (∃ i : Nat, r = -1 - (i : Int) ∧ i ≤ a.length ∧ (∀ v ∈ a, cmp v x ≠ .eq) ∧
        (∀ v ∈ a.take i, cmp v x = .lt) ∧ (∀ v ∈ a.drop i, cmp v x = .gt)) := by
  intro r hr
  have hT := valTPO m
  unfold bsearchSpec at hr
  dsimp only at hr
  split at hr
  · rename_i hempty
    right
    have hr' : r = -1 - Int.ofNat (a.filter fun y => cmp y x == .lt).length := by simpa using hr
    have hnohit : ∀ v ∈ a, cmp v x ≠ .eq := by
      intro v hv hc
      obtain ⟨i, hi, rfl⟩ := List.mem_iff_getElem.1 hv
      have hmem : (a[i], i) ∈ a.zipIdx := List.mem_zipIdx_iff_getElem?.2 (by simp [hi])
      have : Int.ofNat i ∈ ((a.zipIdx.filter fun w => cmp w.1 x == .eq).map fun w => Int.ofNat w.2) :=
        List.mem_map.2 ⟨(a[i], i), List.mem_filter.2 ⟨hmem, by simp [hc]⟩, rfl⟩
      rw [List.isEmpty_iff.1 hempty] at this
      cases this
    have hpre := filter_prefix (P := fun y => cmp y x == .lt) a (by
      refine List.Pairwise.imp_of_mem ?_ hs
      intro u v hu hv huv hvx
      have hvx' : cmp v x = .lt := by simpa using hvx
      have := hT.lt_of_le_of_lt (ha u hu) (ha v hv) hx huv hvx'
      simp [this])
    refine ⟨(a.filter fun y => cmp y x == .lt).length, hr', List.length_filter_le _ _, hnohit, ?_, ?_⟩
    · intro v hv
      rw [hpre.1] at hv
      simpa using (List.mem_filter.1 hv).2
    · intro v hv
      have h1 := hpre.2 v hv
      have h2 := hnohit v (List.mem_of_mem_drop hv)
      cases hc : cmp v x with
      | lt => simp [hc] at h1
      | eq => exact absurd hc h2
      | gt => rfl
  · left
    obtain ⟨w, hw, rfl⟩ := List.mem_map.1 hr
    obtain ⟨hw1, hw2⟩ := List.mem_filter.1 hw
    refine ⟨Int.natCast_nonneg _, w.1, ?_, by simpa using hw2⟩
    have := List.mem_zipIdx_iff_getElem?.1 hw1
    simpa using this

end Jaq.C08
