/-
  C11 — helper lemmas: laws of the stream algebra (`append`, `bind`), the explicit-stack `fold`
  against its frame-wise specification, the counting loops.
-/
import JaqVerif.C11.Stream

namespace Jaq.C11
open Jaq Out

variable {α β γ : Type}

/-! ### append / bind laws -/

@[simp] theorem append_done (vs : List α) (b : Out α) :
    append ⟨vs, .done⟩ b = ⟨vs ++ b.vals, b.stop⟩ := rfl

theorem append_stop {s : Stop} (h : s.isDone = false) (vs : List α) (b : Out α) :
    append ⟨vs, s⟩ b = ⟨vs, s⟩ := by
  cases s <;> first | rfl | simp [Stop.isDone] at h

@[simp] theorem nil_append (b : Out α) : append nil b = b := by
  cases b; rfl

@[simp] theorem append_nil (a : Out α) : append a nil = a := by
  obtain ⟨vs, s⟩ := a
  cases s <;> simp [append, nil]

@[simp] theorem pure_append (v : α) (b : Out α) : append (pure v) b = cons v b := rfl

@[simp] theorem halted_append {s : Stop} (h : s.isDone = false) (b : Out α) :
    append (halted s) b = halted s := append_stop h [] b

@[simp] theorem fail_append (e : Err) (b : Out α) : append (fail e) b = fail e := rfl

@[simp] theorem cons_append (v : α) (a b : Out α) : append (cons v a) b = cons v (append a b) := by
  obtain ⟨vs, s⟩ := a
  cases s <;> rfl

theorem append_assoc (a b c : Out α) : append (append a b) c = append a (append b c) := by
  obtain ⟨vs, s⟩ := a
  cases s
  case done =>
    obtain ⟨ws, t⟩ := b
    cases t <;> simp [append]
  all_goals rfl

@[simp] theorem bind_mk_nil (s : Stop) (f : α → Out β) : bind ⟨[], s⟩ f = ⟨[], s⟩ := rfl

@[simp] theorem bind_mk_cons (v : α) (vs : List α) (s : Stop) (f : α → Out β) :
    bind ⟨v :: vs, s⟩ f = append (f v) (bind ⟨vs, s⟩ f) := rfl

@[simp] theorem nil_bind (f : α → Out β) : bind nil f = nil := rfl
@[simp] theorem halted_bind (s : Stop) (f : α → Out β) : bind (halted s) f = halted s := rfl
@[simp] theorem fail_bind (e : Err) (f : α → Out β) : bind (fail e) f = fail e := rfl
@[simp] theorem pure_bind (v : α) (f : α → Out β) : bind (pure v) f = f v := by
  show append (f v) ⟨[], .done⟩ = f v
  exact append_nil (f v)

@[simp] theorem cons_bind (v : α) (o : Out α) (f : α → Out β) :
    bind (cons v o) f = append (f v) (bind o f) := rfl

theorem bind_pure (o : Out α) : bind o pure = o := by
  obtain ⟨vs, s⟩ := o
  induction vs with
  | nil => rfl
  | cons v vs ih => simp [ih, cons]

theorem bind_append (a b : Out α) (f : α → Out β) :
    bind (append a b) f = append (bind a f) (bind b f) := by
  obtain ⟨vs, s⟩ := a
  induction vs with
  | nil => cases s <;> first | (obtain ⟨ws, t⟩ := b; rfl) | rfl
  | cons v vs ih =>
    have h : append ⟨v :: vs, s⟩ b = cons v (append ⟨vs, s⟩ b) := cons_append v ⟨vs, s⟩ b
    rw [h, cons_bind, ih, bind_mk_cons, append_assoc]

theorem bind_assoc (o : Out α) (f : α → Out β) (g : β → Out γ) :
    bind (bind o f) g = bind o (fun v => bind (f v) g) := by
  obtain ⟨vs, s⟩ := o
  induction vs with
  | nil => rfl
  | cons v vs ih => rw [bind_mk_cons, bind_append, ih, bind_mk_cons]

theorem bind_congr (o : Out α) {f g : α → Out β} (h : ∀ v ∈ o.vals, f v = g v) :
    bind o f = bind o g := by
  obtain ⟨vs, s⟩ := o
  induction vs with
  | nil => rfl
  | cons v vs ih =>
    rw [bind_mk_cons, bind_mk_cons, h v (by simp), ih (fun w hw => h w (by simp at hw ⊢; exact Or.inr hw))]

theorem ofExcept_bind_ok (v : α) (f : α → Out β) : bind (ofExcept (.ok v)) f = f v := pure_bind v f
theorem ofExcept_bind_error (e : Err) (f : α → Out β) : bind (ofExcept (.error e : Except Err α)) f = fail e := rfl

theorem cons_eq (v : α) (vs : List α) (s : Stop) : cons v ⟨vs, s⟩ = ⟨v :: vs, s⟩ := rfl

/-- values of a bind whose continuation never stops early -/
theorem bind_vals_done (o : Out α) (f : α → Out β) (h : ∀ v ∈ o.vals, (f v).stop = .done) :
    bind o f = ⟨o.vals.flatMap (fun v => (f v).vals), o.stop⟩ := by
  obtain ⟨vs, s⟩ := o
  induction vs with
  | nil => rfl
  | cons v vs ih =>
    rw [bind_mk_cons, ih (fun w hw => h w (by simp at hw ⊢; exact Or.inr hw))]
    have hv := h v (by simp)
    cases hfv : f v with
    | mk ws t =>
      rw [hfv] at hv; simp at hv; subst hv
      simp [List.flatMap_cons, hfv]

/-! ### the explicit-stack `fold` against its frame-wise specification -/

section fold
variable {X TC U UC : Type}

/-- frame-wise specification of `fold` (structural in `xs`): what an `Input` frame produces -/
def foldS (O : FoldOps X TC U UC) : List X → Stop → U → Out UC
  | [], .done, y => ofOption (O.outer y)
  | [], s, _ => halted s
  | x :: xs, s, y => (O.f x y).bind fun y' => append (ofOption (O.inner (O.tc x) y')) (foldS O xs s y')

/-- what an `Output(x, ys)` frame over the remaining `xs` produces -/
def foldT (O : FoldOps X TC U UC) (xs : Out X) (x : TC) (ys : Out U) : Out UC :=
  ys.bind fun y' => append (ofOption (O.inner x y')) (foldS O xs.vals xs.stop y')

def frameSpec (O : FoldOps X TC U UC) : Out X × FoldSt TC U → Out UC
  | (xs, .input y) => foldS O xs.vals xs.stop y
  | (xs, .output x ys) => foldT O xs x ys

def stackSpec (O : FoldOps X TC U UC) : List (Out X × FoldSt TC U) → Out UC
  | [] => nil
  | fr :: st => append (frameSpec O fr) (stackSpec O st)

/-- number of loop iterations an `Input` frame needs -/
def costS (O : FoldOps X TC U UC) : List X → U → Nat
  | [], _ => 1
  | x :: xs, y => 2 + ((O.f x y).vals.map fun y' => 1 + costS O xs y').sum

def costT (O : FoldOps X TC U UC) (xs : List X) (ys : List U) : Nat :=
  1 + (ys.map fun y' => 1 + costS O xs y').sum

def frameCost (O : FoldOps X TC U UC) : Out X × FoldSt TC U → Nat
  | (xs, .input y) => costS O xs.vals y
  | (xs, .output _ ys) => costT O xs.vals ys.vals

def stackCost (O : FoldOps X TC U UC) (st : List (Out X × FoldSt TC U)) : Nat :=
  (st.map (frameCost O)).sum

/-- a hint is sound when it only claims emptiness of streams that are empty -/
def HintSound (hint : Out U → Bool) : Prop := ∀ o, hint o = true → o = nil

theorem foldS_cons (O : FoldOps X TC U UC) (x : X) (xs : List X) (s : Stop) (y : U) :
    foldS O (x :: xs) s y = foldT O ⟨xs, s⟩ (O.tc x) (O.f x y) := by
  cases s <;> rfl

theorem ofOption_append_cons (o : Option UC) (r : Out UC) :
    append (ofOption o) r = match o with | some uc => cons uc r | none => r := by
  cases o <;> simp [ofOption]

theorem foldGo_eq (O : FoldOps X TC U UC) (hs : HintSound O.hint) :
    ∀ (n : Nat) (st : List (Out X × FoldSt TC U)), stackCost O st < n →
      foldGo O n st = stackSpec O st := by
  intro n
  induction n with
  | zero => intro st h; omega
  | succ n ih =>
    intro st h
    match st with
    | [] => rfl
    | (xs, .input y) :: st =>
      obtain ⟨xv, xstop⟩ := xs
      cases xv with
      | nil =>
        cases xstop with
        | done =>
          simp only [foldGo, Out.next, stackSpec, frameSpec, foldS]
          have : stackCost O st < n := by
            simp [stackCost, frameCost, costS] at h ⊢; omega
          rw [ofOption_append_cons]
          cases O.outer y <;> simp [ih st this]
        | _ => simp [foldGo, Out.next, stackSpec, frameSpec, foldS, halted, append]
      | cons x xv =>
        have hc : stackCost O ((⟨xv, xstop⟩, FoldSt.output (O.tc x) (O.f x y)) :: st) < n := by
          simp [stackCost, frameCost, costS, costT] at h ⊢; omega
        simp only [foldGo, Out.next]
        rw [ih _ hc]
        simp only [stackSpec, frameSpec, foldS_cons]
    | (xs, .output x ys) :: st =>
      obtain ⟨yv, ystop⟩ := ys
      cases yv with
      | nil =>
        cases ystop with
        | done =>
          have : stackCost O st < n := by
            simp [stackCost, frameCost, costT] at h ⊢; omega
          simp only [foldGo, Out.next, stackSpec, frameSpec, foldT]
          rw [ih st this]; simp
        | _ => simp [foldGo, Out.next, stackSpec, frameSpec, foldT, halted, append, Out.bind, Out.bindL]
      | cons y yv =>
        simp only [foldGo, Out.next]
        have hcost1 : stackCost O ((xs, FoldSt.input y) :: (xs, FoldSt.output x ⟨yv, ystop⟩) :: st) < n := by
          simp [stackCost, frameCost, costT] at h ⊢; omega
        have hcost2 : stackCost O ((xs, FoldSt.input y) :: st) < n := by
          simp [stackCost, frameCost, costT] at h ⊢; omega
        have hspec : stackSpec O ((xs, FoldSt.output x ⟨y :: yv, ystop⟩) :: st) =
            append (ofOption (O.inner x y))
              (stackSpec O ((xs, FoldSt.input y) :: (xs, FoldSt.output x ⟨yv, ystop⟩) :: st)) := by
          simp only [stackSpec, frameSpec, foldT, bind_mk_cons, append_assoc]
        rw [hspec, ofOption_append_cons]
        by_cases hh : O.hint ⟨yv, ystop⟩ = true
        · have hnil := hs _ hh
          have e : stackSpec O ((xs, FoldSt.input y) :: (xs, FoldSt.output x ⟨yv, ystop⟩) :: st) =
              stackSpec O ((xs, FoldSt.input y) :: st) := by
            simp only [stackSpec, frameSpec, foldT, hnil, nil_bind, nil_append]
          simp only [hh, if_true, e]
          cases O.inner x y <;> simp [ih _ hcost2]
        · simp only [hh]
          cases O.inner x y <;> simp [ih _ hcost1]

end fold

section fold2
variable {X TC U UC W : Type}

theorem hintExact_sound : HintSound (hintExact : Out U → Bool) := by
  intro o h
  obtain ⟨vs, s⟩ := o
  cases vs <;> cases s <;> simp_all [hintExact, nil]

theorem hintNever_sound : HintSound (fun (_ : Out U) => false) := by
  intro o h; simp at h

theorem foldS_reduce (f : X → U → Out U) (hint : Out U → Bool) :
    ∀ (xs : List X) (s : Stop) (y : U), foldS (reduceOps f hint) xs s y = reduceSpec f xs s y := by
  intro xs
  induction xs with
  | nil => intro s y; cases s <;> rfl
  | cons x xs ih =>
    intro s y
    simp only [foldS, reduceSpec, reduceOps, ofOption, nil_append]
    exact bind_congr _ (fun v _ => ih s v)

theorem foldS_foreach (f : X → U → Out U) (hint : Out U → Bool) :
    ∀ (xs : List X) (s : Stop) (y : U),
      foldS (foreachOps f hint) xs s y = foreachSpec f (fun _ y' => pure y') xs s y := by
  intro xs
  induction xs with
  | nil => intro s y; cases s <;> rfl
  | cons x xs ih =>
    intro s y
    simp only [foldS, foreachSpec, foreachOps, ofOption]
    exact bind_congr _ (fun v _ => by rw [← ih s v]; rfl)

theorem foldS_foreachProj (f : X → U → Out U) (proj : X → U → Out W) (hint : Out U → Bool) :
    ∀ (xs : List X) (s : Stop) (y : U),
      (foldS (foreachProjOps f hint) xs s y).bind (fun p => proj p.1 p.2) = foreachSpec f proj xs s y := by
  intro xs
  induction xs with
  | nil => intro s y; cases s <;> rfl
  | cons x xs ih =>
    intro s y
    simp only [foldS, foreachSpec, foreachProjOps, ofOption]
    rw [bind_assoc]
    refine bind_congr _ (fun v _ => ?_)
    rw [bind_append, pure_bind]
    have := ih s v
    simp only [foreachProjOps] at this
    rw [this]

theorem foldRun_eq (O : FoldOps X TC U UC) (hs : HintSound O.hint) (fuel : Nat) (xs : Out X) (init : U)
    (h : costS O xs.vals init < fuel) : foldRun O fuel xs init = foldS O xs.vals xs.stop init := by
  unfold foldRun
  rw [foldGo_eq O hs fuel _ (by simpa [stackCost, frameCost] using h)]
  simp [stackSpec, frameSpec]

/-- fuel that suffices for every output of `init` -/
def runCost (O : FoldOps X TC U UC) (xs : Out X) (init : Out U) : Nat :=
  (init.vals.map fun i => costS O xs.vals i).sum + 1

theorem le_sum_of_mem {l : List Nat} {a : Nat} (h : a ∈ l) : a ≤ l.sum := by
  induction l with
  | nil => cases h
  | cons b l ih =>
    simp only [List.sum_cons]
    cases h with
    | head => omega
    | tail _ h => have := ih h; omega

theorem costS_lt_runCost (O : FoldOps X TC U UC) (xs : Out X) (init : Out U) {i : U} (hi : i ∈ init.vals) :
    costS O xs.vals i < runCost O xs init := by
  have : costS O xs.vals i ∈ init.vals.map fun i => costS O xs.vals i := List.mem_map.mpr ⟨i, hi, rfl⟩
  have := le_sum_of_mem this
  unfold runCost; omega

/-- the left-nested pipeline `init | x1 as $x | update | … | xn as $x | update` -/
theorem reduceSpec_foldl (f : X → U → Out U) (xs : List X) (acc : Out U) :
    acc.bind (reduceSpec f xs .done) = xs.foldl (fun a x => a.bind (f x)) acc := by
  induction xs generalizing acc with
  | nil =>
    have : reduceSpec f [] .done = pure := by funext y; rfl
    rw [this, bind_pure]; rfl
  | cons x xs ih =>
    have : reduceSpec f (x :: xs) .done = fun y => (f x y).bind (reduceSpec f xs .done) := by funext y; rfl
    rw [this, ← bind_assoc, ih]; rfl

end fold2

/-! ### the counting loops of `limit!` / `skip!` -/

section counting
variable {α : Type} {C : Type}

theorem limit_append_skip_loop (K : Counter C) (P : C → Prop)
    (hP : ∀ c, P c → K.gtz c = true → ∃ c', K.dec c = .ok c' ∧ P c') :
    ∀ (vs : List α) (s : Stop) (n : C), P n →
      append (limitLoop K n vs s) (skipLoop K n vs s) = ⟨vs, s⟩ := by
  intro vs
  induction vs with
  | nil =>
    intro s n hn
    unfold limitLoop skipLoop
    by_cases hg : K.gtz n = true
    · obtain ⟨c', hc, _⟩ := hP n hn hg
      simp only [hg, if_true, hc]
      cases s <;> rfl
    · simp only [hg]; exact nil_append _
  | cons v vs ih =>
    intro s n hn
    unfold limitLoop skipLoop
    by_cases hg : K.gtz n = true
    · obtain ⟨c', hc, hp⟩ := hP n hn hg
      simp only [hg, if_true, hc]
      rw [cons_append, ih s c' hp]; rfl
    · simp only [hg]; exact nil_append _

/-- the stop of the argument is reached by `skip` exactly as by the argument itself -/
theorem skipLoop_stop (K : Counter C) : ∀ (vs : List α) (s : Stop) (n : C),
    skipLoop K n vs s = append (skipLoop K n vs .done) (halted s) := by
  intro vs
  induction vs with
  | nil =>
    intro s n
    unfold skipLoop
    by_cases hg : K.gtz n = true
    · simp only [hg, if_true]
      cases K.dec n <;> simp [halted, fail, append]
    · simp [hg, halted, append]
  | cons v vs ih =>
    intro s n
    unfold skipLoop
    by_cases hg : K.gtz n = true
    · simp only [hg, if_true]
      cases h : K.dec n with
      | error e => simp [fail, append]
      | ok n' => exact ih s n'
    · simp [hg, halted, append]

/-- `limit` either never pulls the stop of its argument, or delivers it after the outputs -/
theorem limitLoop_stop (K : Counter C) : ∀ (vs : List α) (s : Stop) (n : C),
    limitLoop K n vs s = limitLoop K n vs .done ∨
    limitLoop K n vs s = append (limitLoop K n vs .done) (halted s) := by
  intro vs
  induction vs with
  | nil =>
    intro s n
    unfold limitLoop
    by_cases hg : K.gtz n = true
    · simp only [hg, if_true]
      cases K.dec n <;> simp [halted, fail, append]
    · simp [hg]
  | cons v vs ih =>
    intro s n
    unfold limitLoop
    by_cases hg : K.gtz n = true
    · simp only [hg, if_true]
      cases h : K.dec n with
      | error e => simp
      | ok n' =>
        rcases ih s n' with h1 | h1
        · left; show cons v (limitLoop K n' vs s) = cons v (limitLoop K n' vs .done); rw [h1]
        · right
          show cons v (limitLoop K n' vs s) = append (cons v (limitLoop K n' vs .done)) (halted s)
          rw [h1, cons_append]
    · simp [hg]

end counting

/-! ### counts that are jaq values -/

theorem cmp_of_rank_ne (a b : Val) (h : a.rank ≠ b.rank) : Val.cmp a b = compare a.rank b.rank := by
  unfold Val.cmp
  have ha := Val.size_pos a
  obtain ⟨k, hk⟩ : ∃ k, a.size + b.size = k + 1 := ⟨a.size + b.size - 1, by omega⟩
  rw [hk]
  cases a <;> cases b <;> simp_all [Val.cmpF, Val.rank]

theorem cmp_num_zero (x : Num) : Val.cmp (.num x) vZero = Num.cmp x (.int 0) := rfl

theorem le0_of_not_num {n : Val} (hc : isCount n = true) (hn : ∀ x, n ≠ .num x) : le0 n = true := by
  cases n with
  | null => unfold le0; rw [cmp_of_rank_ne _ _ (by simp [vZero, Val.rank])]; decide
  | bool b => unfold le0; rw [cmp_of_rank_ne _ _ (by simp [vZero, Val.rank])]; simp [vZero, Val.rank]; decide
  | num x => exact absurd rfl (hn x)
  | _ => simp [isCount] at hc

theorem gt0_of_wrong_type {n : Val} (hc : isCount n = false) : gt0 n = true := by
  cases n <;> simp [isCount] at hc <;>
    (unfold gt0; rw [cmp_of_rank_ne _ _ (by simp [vZero, Val.rank])]; simp [vZero, Val.rank]; decide)

theorem sub_wrong_type {n : Val} (hc : isCount n = false) : Val.sub n vOne = .error (.math n "-" vOne) := by
  cases n <;> simp [isCount] at hc <;> rfl

theorem le0_gt0 (n : Val) : le0 n = !gt0 n := by
  unfold le0 gt0; cases Val.cmp n vZero <;> rfl

theorem valCounter_num : ∀ c, (∃ x, c = Val.num x) → valCounter.gtz c = true →
    ∃ c', valCounter.dec c = .ok c' ∧ ∃ x, c' = Val.num x := by
  rintro c ⟨x, rfl⟩ _
  exact ⟨.num (Num.sub x (.int 1)), rfl, _, rfl⟩


/-! ### integer counts -/

section intcounts
variable {α : Type}

theorem intVal_cases {x : Num} {k : Int} (h : x.intVal? = some k) : x = .int k ∨ x = .big k := by
  cases x <;> simp_all [Num.intVal?]

theorem ofInt_intVal (i : Int) : (Num.ofInt i).intVal? = some i := by
  unfold Num.ofInt; split <;> rfl

theorem gt0_int {n : Val} {k : Int} (h : IsIntV n k) : gt0 n = decide (0 < k) := by
  obtain ⟨x, rfl, hx⟩ := h
  unfold gt0
  rw [show Val.cmp (.num x) vZero = Num.cmp x (.int 0) from rfl]
  rcases intVal_cases hx with rfl | rfl <;>
    simp only [Num.cmp, Num.undec] <;>
    (by_cases hk : 0 < k
     · simp [hk, Int.compare_eq_gt.mpr hk]
     · have : compare k 0 ≠ .gt := fun h => hk (Int.compare_eq_gt.mp h)
       simp [hk, this])

theorem dec_int {n : Val} {k : Int} (h : IsIntV n k) :
    ∃ n', Val.sub n vOne = .ok n' ∧ IsIntV n' (k - 1) := by
  obtain ⟨x, rfl, hx⟩ := h
  refine ⟨.num (Num.sub x (.int 1)), rfl, _, rfl, ?_⟩
  rcases intVal_cases hx with rfl | rfl
  · simp only [Num.sub, Num.undec]; exact ofInt_intVal _
  · simp only [Num.sub, Num.undec]; rfl

theorem valCounter_gtz (n : Val) : valCounter.gtz n = gt0 n := rfl
theorem valCounter_dec (n : Val) : valCounter.dec n = Val.sub n vOne := rfl

theorem take_cons (m : Nat) (v : α) (vs : List α) (s : Stop) :
    Out.take (m + 1) ⟨v :: vs, s⟩ = cons v (Out.take m ⟨vs, s⟩) := by
  unfold Out.take
  by_cases h : m ≤ vs.length
  · simp [h, cons]
  · simp [h, cons]

theorem limitLoop_int : ∀ (vs : List α) (s : Stop) (n : Val) (k : Int), IsIntV n k →
    limitLoop valCounter n vs s = Out.take k.toNat ⟨vs, s⟩ := by
  intro vs
  induction vs with
  | nil =>
    intro s n k h
    unfold limitLoop
    obtain ⟨n', hd, _⟩ := dec_int h
    simp only [valCounter_gtz, valCounter_dec, gt0_int h, hd]
    by_cases hk : 0 < k
    · have : ¬ k.toNat ≤ 0 := by omega
      simp [hk, Out.take, halted, this]
    · have : k.toNat = 0 := by omega
      simp [hk, Out.take, this, nil]
  | cons v vs ih =>
    intro s n k h
    unfold limitLoop
    obtain ⟨n', hd, hn'⟩ := dec_int h
    simp only [valCounter_gtz, valCounter_dec, gt0_int h, hd]
    by_cases hk : 0 < k
    · have e : k.toNat = (k - 1).toNat + 1 := by omega
      simp only [hk, decide_true, if_true]
      rw [ih s n' (k - 1) hn', e, take_cons]
    · have : k.toNat = 0 := by omega
      simp [hk, Out.take, this, nil]

theorem skipLoop_int : ∀ (vs : List α) (s : Stop) (n : Val) (k : Int), IsIntV n k →
    skipLoop valCounter n vs s = Out.drop k.toNat ⟨vs, s⟩ := by
  intro vs
  induction vs with
  | nil =>
    intro s n k h
    unfold skipLoop
    obtain ⟨n', hd, _⟩ := dec_int h
    simp only [valCounter_gtz, valCounter_dec, gt0_int h, hd]
    by_cases hk : 0 < k <;> simp [hk, Out.drop, halted]
  | cons v vs ih =>
    intro s n k h
    unfold skipLoop
    obtain ⟨n', hd, hn'⟩ := dec_int h
    simp only [valCounter_gtz, valCounter_dec, gt0_int h, hd]
    by_cases hk : 0 < k
    · have e : k.toNat = (k - 1).toNat + 1 := by omega
      simp only [hk, decide_true, if_true]
      rw [ih s n' (k - 1) hn', e]; simp [Out.drop]
    · have : k.toNat = 0 := by omega
      simp [hk, Out.drop, this]

theorem le0_int {n : Val} {k : Int} (h : IsIntV n k) : le0 n = decide (k ≤ 0) := by
  rw [le0_gt0, gt0_int h]; by_cases hk : 0 < k <;> simp [hk] <;> omega


end intcounts

/-! ### consumers -/

section consumers
variable {α β : Type}

theorem first_mk_nil (s : Stop) : first (⟨[], s⟩ : Out α) = halted s := by
  cases s <;> rfl

theorem first_mk_cons (v : α) (vs : List α) (s : Stop) : first ⟨v :: vs, s⟩ = pure v := rfl

theorem first_cons (v : α) (o : Out α) : first (cons v o) = pure v := rfl

theorem lastLoop_done (acc : Option α) (vs : List α) :
    lastLoop acc vs .done = .ok (match vs.getLast? with | some v => some v | none => acc) := by
  induction vs generalizing acc with
  | nil => rfl
  | cons v vs ih =>
    rw [lastLoop, ih]
    cases vs with
    | nil => rfl
    | cons w ws =>
      simp only [List.getLast?_cons_cons]
      cases h : (w :: ws).getLast? with
      | none => simp at h
      | some z => rfl

theorem lastLoop_stop (acc : Option α) (vs : List α) {s : Stop} (h : s.isDone = false) :
    lastLoop acc vs s = .error s := by
  induction vs generalizing acc with
  | nil => cases s <;> first | rfl | simp [Stop.isDone] at h
  | cons v vs ih => rw [lastLoop, ih]

theorem limitLoop_zero (vs : List α) (s : Stop) : limitLoop valCounter vZero vs s = nil := by
  cases vs <;> rfl

theorem isempty_mk_nil (s : Stop) :
    isempty (⟨[], s⟩ : Out α) = if s.isDone then pure true else halted s := by
  cases s <;> rfl

theorem isempty_mk_cons (v : α) (vs : List α) (s : Stop) : isempty ⟨v :: vs, s⟩ = pure false := by
  unfold isempty
  rw [bind_mk_cons, pure_append, cons_append, first_cons]

/-- `isempty (c | if . == stop then stop else empty)`: first `stop` value decides -/
theorem isempty_logic (stop : Bool) (bs : List Bool) (s : Stop) :
    isempty ((⟨bs, s⟩ : Out Bool).bind fun b => logic stop (pure b) nil) =
      if bs.contains stop then pure false
      else if s.isDone then pure true else halted s := by
  induction bs with
  | nil => simp [isempty_mk_nil]
  | cons b bs ih =>
    rw [bind_mk_cons]
    by_cases hb : b = stop
    · subst hb
      have : logic b (pure b) nil = pure b := by simp [logic]
      rw [this]
      show first (append (bind (append (pure b) _) _) (pure true)) = _
      simp [first_cons]
    · have : logic stop (pure b) nil = nil := by simp [logic, hb]
      rw [this, nil_append, ih]
      have : (b :: bs).contains stop = bs.contains stop := by
        simp [Ne.symm hb]
      rw [this]

end consumers

/-! ### stops, add, range, definitional expansions -/

section more
variable {α β X U V : Type}

theorem bind_stop_last (vs : List α) (s : Stop) (g : α → Out β) :
    bind ⟨vs, s⟩ g = append (bind ⟨vs, .done⟩ g) (halted s) := by
  induction vs with
  | nil => simp [halted]
  | cons v vs ih => rw [bind_mk_cons, bind_mk_cons, ih, append_assoc]

theorem reduceSpec_stop (f : X → U → Out U) {s : Stop} (hs : s.isDone = false) :
    ∀ (vs : List X) (y : U),
      reduceSpec f vs s y = (reduceSpec f vs .done y).bind (fun _ => halted s) := by
  intro vs
  induction vs with
  | nil =>
    intro y
    have : reduceSpec f [] s y = halted s := by cases s <;> first | rfl | simp [Stop.isDone] at hs
    rw [this]
    show halted s = (Out.pure y).bind (fun _ => halted s)
    rw [pure_bind]
  | cons x vs ih =>
    intro y
    show (f x y).bind (reduceSpec f vs s) = ((f x y).bind (reduceSpec f vs .done)).bind _
    rw [bind_assoc]
    exact bind_congr _ (fun v _ => ih v)

theorem reduceSpec_add : ∀ (vs : List Val) (s : Stop) (y : Val),
    reduceSpec (fun x acc => ofExcept (Val.add acc x)) vs s y =
      match vs.foldlM (fun acc x => Val.add acc x) y with
      | .error e => fail e
      | .ok acc => if s.isDone then pure acc else halted s := by
  intro vs
  induction vs with
  | nil => intro s y; cases s <;> rfl
  | cons x vs ih =>
    intro s y
    show (ofExcept (Val.add y x)).bind (reduceSpec _ vs s) = _
    rw [List.foldlM_cons]
    cases h : Val.add y x with
    | error e => rfl
    | ok y' =>
      rw [ofExcept_bind_ok, ih s y']
      rfl

theorem rangeNative_error (O : RangeOps V) (to by_ : V) (k : Nat) (e : Err) :
    rangeNative O to by_ k (.error e) = fail e := by
  cases k <;> rfl

theorem rangeNative_eq_while (O : RangeOps V) (to by_ : V) : ∀ (fuel : Nat) (x : V),
    rangeNative O to by_ fuel (.ok x) =
      while_ (fun x => pure (rangeCond O (O.cmp by_ O.zero) to x)) (fun x => ofExcept (O.add x by_)) fuel x := by
  intro fuel
  induction fuel with
  | zero => intro x; rfl
  | succ k ih =>
    intro x
    rw [rangeNative, while_, pure_bind]
    by_cases hc : rangeCond O (O.cmp by_ O.zero) to x = true
    · simp only [hc, if_true]
      cases h : O.add x by_ with
      | error e => rw [rangeNative_error]; rfl
      | ok y => rw [ofExcept_bind_ok, ih y]
    · simp [hc]

theorem label_cons (l : Nat) (v : α) (o : Out α) : label l (cons v o) = cons v (label l o) := by
  obtain ⟨vs, s⟩ := o
  cases s <;> simp [label, cons]
  split <;> rfl

theorem limitDef_loop (l : Nat) (s : Stop) (hl : ∀ l', s = .brk l' → l' ≠ l) :
    ∀ (vs : List α) (c : Val), (∃ x, c = Val.num x) → gt0 c = true →
      label l (foreachSpec (fun (_ : α) c => ofExcept (Val.sub c vOne))
        (fun x c => if le0 c then append (pure x) (halted (.brk l)) else pure x) vs s c)
      = limitLoop valCounter c vs s := by
  intro vs
  induction vs with
  | nil =>
    intro c hx hg
    obtain ⟨c', hd, _⟩ := valCounter_num c hx hg
    simp only [foreachSpec, limitLoop, valCounter_gtz, hg, if_true, hd]
    cases s <;> simp [label, halted]
    intro h; exact absurd h (hl _ rfl)
  | cons v vs ih =>
    intro c hx hg
    obtain ⟨c', hd, hx'⟩ := valCounter_num c hx hg
    have hd' : Val.sub c vOne = .ok c' := hd
    simp only [foreachSpec, limitLoop, valCounter_gtz, hg, if_true, hd, hd', ofExcept_bind_ok]
    by_cases hc : le0 c' = true
    · have hng : gt0 c' = false := by rw [le0_gt0] at hc; simpa using hc
      have : limitLoop valCounter c' vs s = nil := by
        cases vs <;> simp [limitLoop, valCounter_gtz, hng]
      simp only [hc, if_true, this]
      have e1 : ∀ X : Out α, append (append (Out.pure v) (halted (.brk l))) X = ⟨[v], .brk l⟩ := fun _ => rfl
      rw [e1]
      simp [label, cons, nil]
    · have hg' : gt0 c' = true := by rw [le0_gt0] at hc; simpa using hc
      have hc' : le0 c' = false := by simpa using hc
      simp only [hc']
      show label l (append (Out.pure v) _) = _
      rw [pure_append, label_cons, ih c' hx' hg']

theorem mem_bind {o : Out α} {f : α → Out β} {b : β} (h : b ∈ (o.bind f).vals) :
    ∃ a ∈ o.vals, b ∈ (f a).vals := by
  obtain ⟨vs, s⟩ := o
  induction vs with
  | nil => simp at h
  | cons v vs ih =>
    rw [bind_mk_cons] at h
    have : b ∈ (f v).vals ∨ b ∈ (bind ⟨vs, s⟩ f).vals := by
      generalize f v = fv at h
      obtain ⟨ws, t⟩ := fv
      cases t <;> simp [append] at h <;> first | exact h | exact Or.inl h
    rcases this with h1 | h1
    · exact ⟨v, by simp, h1⟩
    · obtain ⟨a, ha, hb⟩ := ih h1
      exact ⟨a, by simp [ha], hb⟩

theorem while_outputs (cond : α → Out Bool) (upd : α → Out α) : ∀ (k : Nat) (x : α),
    ∀ v ∈ (while_ cond upd k x).vals, true ∈ (cond v).vals := by
  intro k
  induction k with
  | zero => intro x v h; simp [while_, halted] at h
  | succ k ih =>
    intro x v h
    rw [while_] at h
    obtain ⟨b, hb, hv⟩ := mem_bind h
    cases b with
    | false => simp [nil] at hv
    | true =>
      simp only [if_true, cons] at hv
      rcases List.mem_cons.mp hv with rfl | hv
      · exact hb
      · obtain ⟨y, _, hy⟩ := mem_bind hv
        exact ih y v hy

theorem until_outputs (cond : α → Out Bool) (upd : α → Out α) : ∀ (k : Nat) (x : α),
    ∀ v ∈ (until_ cond upd k x).vals, true ∈ (cond v).vals := by
  intro k
  induction k with
  | zero => intro x v h; simp [until_, halted] at h
  | succ k ih =>
    intro x v h
    rw [until_] at h
    obtain ⟨b, hb, hv⟩ := mem_bind h
    cases b with
    | false =>
      obtain ⟨y, _, hy⟩ := mem_bind hv
      exact ih y v hy
    | true =>
      have : v = x := by simpa [Out.pure] using hv
      subst this; exact hb

theorem ofList_bind_subvals (k : Nat) : ∀ (l : List Val),
    (∀ w ∈ l, recurse iterOpt k w = ofList (subvals w)) →
    (ofList l).bind (recurse iterOpt k) = ofList (subvalsList l) := by
  intro l
  induction l with
  | nil => intro _; rfl
  | cons w l ih =>
    intro h
    show append (recurse iterOpt k w) (bind (ofList l) _) = _
    rw [h w (by simp), ih (fun w' hw' => h w' (by simp [hw']))]
    rfl

theorem subvalsEntries_eq (o : List (Val × Val)) : subvalsEntries o = subvalsList (o.map (·.2)) := by
  induction o with
  | nil => rfl
  | cons e o ih => obtain ⟨k, v⟩ := e; simp [subvalsEntries, subvalsList, ih]

theorem recurse_subvals : ∀ (k : Nat) (v : Val), v.size ≤ k → recurse iterOpt k v = ofList (subvals v) := by
  intro k
  induction k with
  | zero => intro v h; have := Val.size_pos v; omega
  | succ k ih =>
    intro v h
    rw [recurse]
    cases v with
    | arr a =>
      have : (iterOpt (.arr a)).bind (recurse iterOpt k) = ofList (subvalsList a) := by
        apply ofList_bind_subvals
        intro w hw
        apply ih
        have := Val.size_lt_of_mem hw
        simp [Val.size] at h; omega
      rw [this]; rfl
    | obj o =>
      have : (iterOpt (.obj o)).bind (recurse iterOpt k) = ofList (subvalsList (o.map (·.2))) := by
        apply ofList_bind_subvals
        intro w hw
        apply ih
        obtain ⟨e, he, rfl⟩ := List.mem_map.mp hw
        have := Val.size_entry_of_mem (k := e.1) (v := e.2) he
        simp [Val.size] at h; omega
      rw [this, ← subvalsEntries_eq]; rfl
    | _ => rfl

end more

/-! ### `skip` against its `foreach` definition (integer counts) -/

section skipdef
variable {α : Type}

theorem cmp_int0 {n : Val} {k : Int} (h : IsIntV n k) : Val.cmp n vZero = compare k 0 := by
  obtain ⟨x, rfl, hx⟩ := h
  rw [show Val.cmp (.num x) vZero = Num.cmp x (.int 0) from rfl]
  rcases intVal_cases hx with rfl | rfl <;> simp only [Num.cmp, Num.undec]

theorem not_lt0_int {n : Val} {k : Int} (h : IsIntV n k) : (Val.cmp n vZero != .lt) = decide (0 ≤ k) := by
  rw [cmp_int0 h]
  by_cases hk : 0 ≤ k
  · have : compare k 0 ≠ .lt := fun hh => by have := Int.compare_eq_lt.mp hh; omega
    simp [hk, this]
  · have : compare k 0 = .lt := Int.compare_eq_lt.mpr (by omega)
    simp [hk, this]

/-- once the count is `<= 0` the `foreach` of `skipDef` passes everything through -/
theorem skipDef_pass : ∀ (vs : List α) (s : Stop) (c : Val) (k : Int), IsIntV c k → k ≤ 0 →
    foreachSpec (fun (_ : α) c => ofExcept (Val.sub c vOne))
      (fun x c => if Val.cmp c vZero != .lt then nil else Out.pure x) vs s c = ⟨vs, s⟩ := by
  intro vs
  induction vs with
  | nil => intro s c k _ _; rfl
  | cons v vs ih =>
    intro s c k h hk
    obtain ⟨c', hd, hc'⟩ := dec_int h
    simp only [foreachSpec, hd, ofExcept_bind_ok, not_lt0_int hc']
    have : ¬ (0 ≤ k - 1) := by omega
    simp only [this, decide_false]
    rw [ih s c' (k - 1) hc' (by omega)]
    rfl

theorem skipDef_loop : ∀ (vs : List α) (s : Stop) (c : Val) (k : Int), IsIntV c k → 0 < k →
    foreachSpec (fun (_ : α) c => ofExcept (Val.sub c vOne))
      (fun x c => if Val.cmp c vZero != .lt then nil else Out.pure x) vs s c
    = skipLoop valCounter c vs s := by
  intro vs
  induction vs with
  | nil =>
    intro s c k h hk
    obtain ⟨c', hd, _⟩ := dec_int h
    simp [foreachSpec, skipLoop, valCounter_gtz, valCounter_dec, gt0_int h, hk, hd]
  | cons v vs ih =>
    intro s c k h hk
    obtain ⟨c', hd, hc'⟩ := dec_int h
    simp only [foreachSpec, skipLoop, valCounter_gtz, valCounter_dec, gt0_int h, hk, decide_true, if_true,
      hd, ofExcept_bind_ok, not_lt0_int hc']
    have : 0 ≤ k - 1 := by omega
    simp only [this, decide_true, if_true, nil_append]
    by_cases hk1 : 0 < k - 1
    · exact ih s c' (k - 1) hc' hk1
    · rw [skipDef_pass vs s c' (k - 1) hc' (by omega)]
      have hg : gt0 c' = false := by rw [gt0_int hc']; exact decide_eq_false hk1
      cases vs <;> simp [skipLoop, valCounter_gtz, hg, halted]

end skipdef

end Jaq.C11
