/- C13 table facts: re-export of the four parts. -/
import JaqVerif.Lemmas.C13TablesA
import JaqVerif.Lemmas.C13TablesB
import JaqVerif.Lemmas.C13TablesC
import JaqVerif.Lemmas.C13TablesD
