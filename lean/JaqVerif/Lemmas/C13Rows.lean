/- `@tsv` / `@csv` rows are read back by the TSV reader / the RFC 4180 reader. -/
import JaqVerif.Lemmas.C13Sh

namespace Jaq.C13

/-! ## TSV -/

theorem splitOnByte_ne_nil (sep : UInt8) : ∀ s : Bytes, splitOnByte sep s ≠ [] := by
  intro s
  induction s with
  | nil => simp [splitOnByte]
  | cons b r ih =>
    simp only [splitOnByte]
    cases h : splitOnByte sep r with
    | nil => simp
    | cons f fs => simp only; split <;> simp

theorem splitOnByte_no_sep (sep : UInt8) : ∀ x : Bytes, sep ∉ x → splitOnByte sep x = [x] := by
  intro x
  induction x with
  | nil => intro _; rfl
  | cons b t ih =>
    intro h
    simp only [List.mem_cons, not_or] at h
    simp only [splitOnByte, ih h.2]
    have : ¬ (b = sep) := fun e => h.1 e.symm
    simp [this]

theorem splitOnByte_append_sep (sep : UInt8) (rest : Bytes) : ∀ x : Bytes, sep ∉ x →
    splitOnByte sep (x ++ sep :: rest) = x :: splitOnByte sep rest := by
  intro x
  induction x with
  | nil =>
    intro _
    simp only [List.nil_append, splitOnByte]
    cases h : splitOnByte sep rest with
    | nil => exact absurd h (splitOnByte_ne_nil sep rest)
    | cons f fs => simp
  | cons b t ih =>
    intro h
    simp only [List.mem_cons, not_or] at h
    simp only [List.cons_append, splitOnByte, ih h.2]
    have : ¬ (b = sep) := fun e => h.1 e.symm
    simp [this]

theorem splitOnByte_joinWith (sep : UInt8) : ∀ xs : List Bytes, xs ≠ [] → (∀ x ∈ xs, sep ∉ x) →
    splitOnByte sep (joinWith [sep] xs) = xs := by
  intro xs
  induction xs with
  | nil => intro h; exact absurd rfl h
  | cons x t ih =>
    intro _ hx
    cases t with
    | nil => simp only [joinWith]; exact splitOnByte_no_sep sep x (hx x (by simp))
    | cons y r =>
      have : joinWith [sep] (x :: y :: r) = x ++ sep :: joinWith [sep] (y :: r) := by
        simp [joinWith]
      rw [this, splitOnByte_append_sep sep _ x (hx x (by simp))]
      rw [ih (by simp) (fun z hz => hx z (by simp only [List.mem_cons] at hz ⊢; right; exact hz))]

theorem tsvUnescape_tsvEscape (s : Bytes) : tsvUnescape (tsvEscape s) = s :=
  scan_flatMap' tsvUnescStep tsvEsc tsvEsc_ne_nil tsvUnescStep_tsvEsc s

theorem tsvUnescape_plain : ∀ t : Bytes, (92 : UInt8) ∉ t → tsvUnescape t = t := by
  intro t
  induction t with
  | nil => intro _; rfl
  | cons b r ih =>
    intro h
    simp only [List.mem_cons, not_or] at h
    have hb : ¬ (b = 92) := fun e => h.1 e.symm
    have hstep : tsvUnescStep ([b] ++ r) = ([b], [b].length) := by simp [tsvUnescStep, hb]
    have := scan_code tsvUnescStep [b] [b] r (by simp) hstep
    unfold tsvUnescape
    simp only [List.cons_append, List.nil_append] at this
    rw [this]
    have ih' := ih h.2
    unfold tsvUnescape at ih'
    rw [ih']

theorem tsvEscape_no_tab (s : Bytes) : (9 : UInt8) ∉ tsvEscape s ∧ (10 : UInt8) ∉ tsvEscape s := by
  unfold tsvEscape
  constructor
  · intro h
    obtain ⟨b, _, hb⟩ := List.mem_flatMap.mp h
    exact (tsvEsc_no_sep b 9 hb).1 rfl
  · intro h
    obtain ⟨b, _, hb⟩ := List.mem_flatMap.mp h
    exact (tsvEsc_no_sep b 10 hb).2 rfl

/-- printed numbers must not contain a tab, a line feed or a backslash (they never do) -/
def Field.tsvOk : Field → Bool
  | .num t => !t.contains 9 && !t.contains 10 && !t.contains 92
  | _ => true

theorem tsvField_facts (f : Field) (h : f.tsvOk = true) :
    (9 : UInt8) ∉ tsvField f ∧ tsvUnescape (tsvField f) = f.rawText := by
  cases f with
  | null => exact ⟨by simp [tsvField, Field.rawText], rfl⟩
  | bool b => cases b <;> exact ⟨by decide, by decide⟩
  | num t =>
    simp only [Field.tsvOk, Bool.and_eq_true, Bool.not_eq_true', List.contains_eq_mem, decide_eq_false_iff_not] at h
    exact ⟨h.1.1, tsvUnescape_plain t h.2⟩
  | str s => exact ⟨(tsvEscape_no_tab s).1, tsvUnescape_tsvEscape s⟩

theorem tsvReadRow_tsvRow (row : List Field) (hne : row ≠ []) (hok : ∀ f ∈ row, f.tsvOk = true) :
    tsvReadRow (tsvRow row) = row.map Field.rawText := by
  unfold tsvReadRow tsvRow
  rw [splitOnByte_joinWith 9 (row.map tsvField) (by simpa using hne)]
  · rw [List.map_map]
    apply List.map_congr_left
    intro f hf
    exact (tsvField_facts f (hok f hf)).2
  · intro x hx
    obtain ⟨f, hf, rfl⟩ := List.mem_map.mp hx
    exact (tsvField_facts f (hok f hf)).1

/-! ## CSV -/

theorem csvEsc_cases (b : UInt8) : (b ≠ 34 ∧ csvEsc b = [b]) ∨ (b = 34 ∧ csvEsc b = [34, 34]) := by
  have h := forall_byte_of_fin csvEntryOk csvEntry_ok b
  unfold csvEntryOk at h
  simp only [Bool.and_eq_true, beq_iff_eq] at h
  by_cases hb : b = 34
  · right; refine ⟨hb, ?_⟩
    have h2 := h.2
    rw [if_pos (by simpa using hb)] at h2
    simpa using h2
  · left; refine ⟨hb, ?_⟩
    have h2 := h.2
    rw [if_neg (by simpa using hb)] at h2
    simpa using h2

theorem csvLex_nil (st : CsvSt) (cur : List CsvField) :
    csvLex st cur [] = st.field.map fun f => [cur ++ [f]] := by
  rw [csvLex.eq_def]

theorem csvLex_quoted_cons (f : Bytes) (cur : List CsvField) (b : UInt8) (r : Bytes) :
    csvLex (.quoted f) cur (b :: r) =
      if b = 34 then
        match r with
        | c :: r' => if c = 34 then csvLex (.quoted (f ++ [34])) cur r' else csvLex (.closed f) cur (c :: r')
        | [] => csvLex (.closed f) cur []
      else csvLex (.quoted (f ++ [b])) cur r := by
  rw [csvLex.eq_def]
  rfl

/-- the non-quoted states on a comma -/
theorem csvLex_comma (st : CsvSt) (hq : ∀ f, st ≠ .quoted f) (cur : List CsvField) (r : Bytes) :
    csvLex st cur (44 :: r) = st.field.bind fun f => csvLex .start (cur ++ [f]) r := by
  rw [csvLex.eq_def]
  cases st with
  | quoted f => exact absurd rfl (hq f)
  | start => simp [CsvSt.field]
  | plain f => simp [CsvSt.field]
  | closed f => simp [CsvSt.field]

theorem csvLex_start_quote (cur : List CsvField) (r : Bytes) :
    csvLex .start cur (34 :: r) = csvLex (.quoted []) cur r := by
  rw [csvLex.eq_def]
  simp [CsvSt.openQuote]

/-- a byte that is ordinary in an unquoted field -/
def csvPlainByte (b : UInt8) : Bool := b != 44 && b != 10 && b != 13 && b != 34

theorem csvLex_push (st : CsvSt) (hq : ∀ f, st ≠ .quoted f) (cur : List CsvField) (b : UInt8) (r : Bytes)
    (hb : csvPlainByte b = true) :
    csvLex st cur (b :: r) = (st.push b).bind fun st' => csvLex st' cur r := by
  simp only [csvPlainByte, Bool.and_eq_true, bne_iff_ne, ne_eq] at hb
  obtain ⟨⟨⟨h44, h10⟩, h13⟩, h34⟩ := hb
  rw [csvLex.eq_def]
  cases st with
  | quoted f => exact absurd rfl (hq f)
  | start => simp [h44, h10, h13, h34, CsvSt.push]
  | plain f => simp [h44, h10, h13, h34, CsvSt.push]
  | closed f => simp [h44, h10, h13, h34, CsvSt.push]

theorem csvLex_quoted_content (s : Bytes) : ∀ (f : Bytes) (cur : List CsvField) (rest : Bytes),
    rest.head? ≠ some 34 →
    csvLex (.quoted f) cur (s.flatMap csvEsc ++ 34 :: rest) = csvLex (.closed (f ++ s)) cur rest := by
  induction s with
  | nil =>
    intro f cur rest hr
    simp only [List.flatMap_nil, List.nil_append, List.append_nil]
    rw [csvLex_quoted_cons]
    simp only [if_true]
    cases rest with
    | nil => rfl
    | cons c r' =>
      have : ¬ (c = 34) := by intro e; subst e; simp at hr
      simp [this]
  | cons b s ih =>
    intro f cur rest hr
    rw [List.flatMap_cons, List.append_assoc]
    rcases csvEsc_cases b with ⟨hb, he⟩ | ⟨hb, he⟩
    · rw [he]
      simp only [List.cons_append, List.nil_append]
      rw [csvLex_quoted_cons]
      simp only [hb, if_false]
      rw [ih _ _ _ hr]
      simp
    · rw [he, hb]
      simp only [List.cons_append, List.nil_append]
      rw [csvLex_quoted_cons]
      simp only [if_true]
      rw [ih _ _ _ hr]
      simp

theorem csvLex_plain_run (t : Bytes) (ht : t.all csvPlainByte = true) : ∀ (f : Bytes) (cur : List CsvField) (rest : Bytes),
    csvLex (.plain f) cur (t ++ rest) = csvLex (.plain (f ++ t)) cur rest := by
  induction t with
  | nil => intro f cur rest; simp
  | cons b t ih =>
    intro f cur rest
    simp only [List.all_cons, Bool.and_eq_true] at ht
    simp only [List.cons_append]
    rw [csvLex_push _ (by intro g h; cases h) _ _ _ ht.1]
    simp only [CsvSt.push, Option.bind_some]
    rw [ih ht.2]
    simp

/-- the state after an unquoted text `t` read from the start of a field -/
def afterPlain (t : Bytes) : CsvSt := if t.isEmpty then .start else .plain t

theorem afterPlain_field (t : Bytes) : (afterPlain t).field = some ⟨false, t⟩ := by
  unfold afterPlain
  cases t with
  | nil => rfl
  | cons _ _ => rfl

theorem afterPlain_not_quoted (t : Bytes) : ∀ f, afterPlain t ≠ .quoted f := by
  intro f
  unfold afterPlain
  cases t with
  | nil => simp
  | cons _ _ => simp

theorem csvLex_start_plain (t : Bytes) (ht : t.all csvPlainByte = true) (cur : List CsvField) (rest : Bytes) :
    csvLex .start cur (t ++ rest) = csvLex (afterPlain t) cur rest := by
  cases t with
  | nil => rfl
  | cons b t =>
    simp only [List.all_cons, Bool.and_eq_true] at ht
    simp only [List.cons_append]
    rw [csvLex_push _ (by intro g h; cases h) _ _ _ ht.1]
    simp only [CsvSt.push, Option.bind_some]
    rw [csvLex_plain_run t ht.2]
    simp [afterPlain]

/-- what the reader should see for a field: strings quoted, everything else unquoted text -/
def Field.csvView : Field → CsvField
  | .str s => ⟨true, s⟩
  | f => ⟨false, f.rawText⟩

/-- printed numbers must not contain `,` `"` CR LF (they never do) -/
def Field.csvOk : Field → Bool
  | .num t => t.all csvPlainByte
  | _ => true

/-- reading one field from the start state: ends in a state whose field is the expected one -/
theorem csvLex_field (f : Field) (hf : f.csvOk = true) (cur : List CsvField) (rest : Bytes)
    (hr : rest.head? ≠ some 34) :
    ∃ st, (∀ g, st ≠ .quoted g) ∧ st.field = some f.csvView ∧
      csvLex .start cur (csvField f ++ rest) = csvLex st cur rest := by
  cases f with
  | str s =>
    refine ⟨.closed s, (by intro g h; cases h), rfl, ?_⟩
    simp only [csvField, csvQuote, List.cons_append, List.append_assoc, List.nil_append]
    rw [csvLex_start_quote]
    have := csvLex_quoted_content s [] cur rest hr
    simpa using this
  | null =>
    exact ⟨.start, (by intro g h; cases h), rfl, rfl⟩
  | bool b =>
    refine ⟨afterPlain (Field.rawText (.bool b)), afterPlain_not_quoted _, afterPlain_field _, ?_⟩
    have : (Field.rawText (.bool b)).all csvPlainByte = true := by cases b <;> decide
    exact csvLex_start_plain _ this cur rest
  | num t =>
    refine ⟨afterPlain t, afterPlain_not_quoted _, afterPlain_field _, ?_⟩
    exact csvLex_start_plain t hf cur rest

theorem csvLex_row : ∀ (fs : List Field), fs ≠ [] → (∀ f ∈ fs, f.csvOk = true) → ∀ cur : List CsvField,
    csvLex .start cur (joinWith [44] (fs.map csvField)) = some [cur ++ fs.map Field.csvView] := by
  intro fs
  induction fs with
  | nil => intro h; exact absurd rfl h
  | cons f t ih =>
    intro _ hok cur
    cases t with
    | nil =>
      obtain ⟨st, _, hfield, hlex⟩ := csvLex_field f (hok f (by simp)) cur [] (by simp)
      simp only [List.map_cons, List.map_nil, joinWith]
      simp only [List.append_nil] at hlex
      rw [hlex, csvLex_nil, hfield]
      rfl
    | cons g r =>
      have hj : joinWith [44] ((f :: g :: r).map csvField) = csvField f ++ 44 :: joinWith [44] ((g :: r).map csvField) := by
        simp [joinWith]
      rw [hj]
      obtain ⟨st, hnq, hfield, hlex⟩ := csvLex_field f (hok f (by simp)) cur (44 :: joinWith [44] ((g :: r).map csvField)) (by simp)
      rw [hlex, csvLex_comma st hnq, hfield]
      simp only [Option.bind_some]
      rw [ih (by simp) (fun z hz => hok z (by simp only [List.mem_cons] at hz ⊢; right; exact hz))]
      simp

theorem csvRead_csvRow (row : List Field) (hok : ∀ f ∈ row, f.csvOk = true) (hne : csvRow row ≠ []) :
    csvRead (csvRow row) = some [row.map Field.csvView] := by
  unfold csvRead
  have : (csvRow row).isEmpty = false := by
    cases h : csvRow row with
    | nil => exact absurd h hne
    | cons _ _ => rfl
  rw [this]
  simp only [Bool.false_eq_true, if_false]
  have hrow : row ≠ [] := by
    intro e; subst e; exact hne rfl
  have := csvLex_row row hrow hok []
  simpa [csvRow] using this

end Jaq.C13
