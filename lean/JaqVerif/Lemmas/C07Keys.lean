import JaqVerif.Lemmas.C07KeysNum
import JaqVerif.Lemmas.C08Val
namespace Jaq.C07
open Jaq

/-! ## values: without key sorting `canon` is a relabelling of the number leaves, and `cmp`, `==`
and the hash feed do not see it -/

/-- entrywise `canon` -/
def canonPair (c : Cfg) (pp : Pp) (e : Val × Val) : Val × Val := (canon c pp e.1, canon c pp e.2)

theorem canon_arr (c : Cfg) (pp : Pp) (a : List Val) : canon c pp (.arr a) = .arr (a.map (canon c pp)) := by
  simp [canon, canonList_map]

theorem canon_obj (c : Cfg) (pp : Pp) (h : pp.sortKeys = false) (o : List (Val × Val)) :
    canon c pp (.obj o) = .obj (o.map (canonPair c pp)) := by
  simp [canon, sortTagged, h, canonEntries_map, Function.comp_def, canonPair]

theorem rank_canon (c : Cfg) (pp : Pp) (v : Val) : (canon c pp v).rank = v.rank := by
  cases v <;> simp [canon, Val.rank]

theorem lexCmp_map {α β : Type} (f : α → β) (ca : α → α → Ordering) (cb : β → β → Ordering) :
    ∀ (x y : List α), (∀ a ∈ x, ∀ b ∈ y, cb (f a) (f b) = ca a b) →
      lexCmp cb (x.map f) (y.map f) = lexCmp ca x y
  | [], [], _ => rfl
  | [], _ :: _, _ => rfl
  | _ :: _, [], _ => rfl
  | a :: x, b :: y, h => by
    simp only [List.map_cons, lexCmp]
    rw [h a (by simp) b (by simp), lexCmp_map f ca cb x y (fun a ha b hb => h a (by simp [ha]) b (by simp [hb]))]

theorem sizeList_map_canon (c : Cfg) (pp : Pp) (a : List Val) (h : ∀ v ∈ a, (canon c pp v).size = v.size) :
    Val.sizeList (a.map (canon c pp)) = Val.sizeList a := by
  induction a with
  | nil => rfl
  | cons v vs ih =>
    simp only [List.map_cons, Val.sizeList]
    rw [h v (by simp), ih (fun x hx => h x (by simp [hx]))]

theorem sizeEntries_map_canon (c : Cfg) (pp : Pp) (o : List (Val × Val))
    (h : ∀ e ∈ o, (canon c pp e.1).size = e.1.size ∧ (canon c pp e.2).size = e.2.size) :
    Val.sizeEntries (o.map (canonPair c pp)) = Val.sizeEntries o := by
  induction o with
  | nil => rfl
  | cons e es ih =>
    obtain ⟨k, v⟩ := e
    simp only [List.map_cons, canonPair, Val.sizeEntries]
    rw [(h (k, v) (by simp)).1, (h (k, v) (by simp)).2]
    rw [ih (fun x hx => h x (by simp [hx]))]

theorem size_canon (c : Cfg) (pp : Pp) (hns : pp.sortKeys = false) : ∀ (k : Nat) (v : Val), v.size ≤ k →
    (canon c pp v).size = v.size := by
  intro k
  induction k with
  | zero => intro v h; have := Val.size_pos v; omega
  | succ k ih =>
    intro v hsz
    cases v with
    | arr a =>
      simp only [Val.size] at hsz
      rw [canon_arr]
      simp only [Val.size]
      rw [sizeList_map_canon c pp a (fun v hv => ih v (by have := Val.size_lt_of_mem hv; omega))]
    | obj o =>
      simp only [Val.size] at hsz
      rw [canon_obj c pp hns]
      simp only [Val.size]
      rw [sizeEntries_map_canon c pp o (fun e he => by
        have := Val.size_entry_of_mem (k := e.1) (v := e.2) he
        exact ⟨ih e.1 (by omega), ih e.2 (by omega)⟩)]
    | null => rfl
    | bool _ => rfl
    | num _ => simp [canon, Val.size]
    | tstr _ => rfl
    | bstr _ => rfl

theorem cmpF_canon (c : Cfg) (hv : RyuVal c) (pp : Pp) (hns : pp.sortKeys = false) : ∀ (n : Nat) (a b : Val),
    Val.cmpF n (canon c pp a) (canon c pp b) = Val.cmpF n a b := by
  intro n
  induction n with
  | zero => intro a b; rfl
  | succ n ih =>
    intro a b
    cases a with
    | num x =>
      cases b <;> first
        | (simp only [canon, Val.cmpF]; exact numCmp_canon c hv _ _)
        | (simp [canon, Val.cmpF, Val.rank])
        | (rw [canon_arr]; simp [canon, Val.cmpF, Val.rank])
        | (rw [canon_obj c pp hns]; simp [canon, Val.cmpF, Val.rank])
    | arr x =>
      cases b with
      | arr y =>
        rw [canon_arr, canon_arr]
        simp only [Val.cmpF]
        exact lexCmp_map _ _ _ x y (fun a _ b _ => ih a b)
      | obj y => rw [canon_arr, canon_obj c pp hns]; simp [Val.cmpF, Val.rank]
      | _ => rw [canon_arr]; simp [canon, Val.cmpF, Val.rank]
    | obj x =>
      cases b with
      | obj y =>
        rw [canon_obj c pp hns, canon_obj c pp hns]
        cases x with
        | nil => cases y <;> simp [Val.cmpF]
        | cons e es =>
          cases y with
          | nil => simp [Val.cmpF]
          | cons e' es' =>
            have hs : ∀ l : List (Val × Val),
                sortBy (fun p q => Val.cmpF n p.1 q.1) (l.map (canonPair c pp)) =
                (sortBy (fun p q => Val.cmpF n p.1 q.1) l).map (canonPair c pp) :=
              fun l => sortBy_map (canonPair c pp) _ _ (fun p q => ih p.1 q.1) l
            have h1 : ∀ l : List (Val × Val), (l.map (canonPair c pp)).map (·.1) = (l.map (·.1)).map (canon c pp) := by
              intro l; simp [canonPair, Function.comp_def]
            have h2 : ∀ l : List (Val × Val), (l.map (canonPair c pp)).map (·.2) = (l.map (·.2)).map (canon c pp) := by
              intro l; simp [canonPair, Function.comp_def]
            simp only [Val.cmpF, hs, h1, h2]
            rw [lexCmp_map _ _ _ _ _ (fun a _ b _ => ih a b), lexCmp_map _ _ _ _ _ (fun a _ b _ => ih a b)]
            simp only [List.map_cons]
      | arr y => rw [canon_arr, canon_obj c pp hns]; simp [Val.cmpF, Val.rank]
      | _ => rw [canon_obj c pp hns]; simp [canon, Val.cmpF, Val.rank]
    | null =>
      cases b <;> first
        | (simp [canon, Val.cmpF, Val.rank])
        | (rw [canon_arr]; simp [canon, Val.cmpF, Val.rank])
        | (rw [canon_obj c pp hns]; simp [canon, Val.cmpF, Val.rank])
    | bool _ =>
      cases b <;> first
        | (simp [canon, Val.cmpF, Val.rank])
        | (rw [canon_arr]; simp [canon, Val.cmpF, Val.rank])
        | (rw [canon_obj c pp hns]; simp [canon, Val.cmpF, Val.rank])
    | tstr _ =>
      cases b <;> first
        | (simp [canon, Val.cmpF, Val.rank])
        | (rw [canon_arr]; simp [canon, Val.cmpF, Val.rank])
        | (rw [canon_obj c pp hns]; simp [canon, Val.cmpF, Val.rank])
    | bstr _ =>
      cases b <;> first
        | (simp [canon, Val.cmpF, Val.rank])
        | (rw [canon_arr]; simp [canon, Val.cmpF, Val.rank])
        | (rw [canon_obj c pp hns]; simp [canon, Val.cmpF, Val.rank])

theorem cmp_canon (c : Cfg) (hv : RyuVal c) (pp : Pp) (hns : pp.sortKeys = false) (a b : Val) :
    Val.cmp (canon c pp a) (canon c pp b) = Val.cmp a b := by
  unfold Val.cmp
  rw [size_canon c pp hns _ a (Nat.le_refl _), size_canon c pp hns _ b (Nat.le_refl _)]
  exact cmpF_canon c hv pp hns _ a b

/-! ### hash feed -/

/-- machine integers inside the value fit a machine word (the type invariant of `Num::Int(isize)`;
the model's `Int` is unbounded) -/
abbrev WfInts (v : Val) : Prop := C08.WfInts v = true

theorem wfInts_arr {a : List Val} (h : WfInts (.arr a)) : ∀ v ∈ a, WfInts v := C08.allNums_arr.1 h
theorem wfInts_obj {o : List (Val × Val)} (h : WfInts (.obj o)) : ∀ e ∈ o, WfInts e.1 ∧ WfInts e.2 :=
  C08.allNums_obj.1 h

theorem flatMap_map_congr {α β γ : Type} (g : α → β) (f : β → List γ) (f' : α → List γ) :
    ∀ l : List α, (∀ e ∈ l, f (g e) = f' e) → (l.map g).flatMap f = l.flatMap f'
  | [], _ => rfl
  | e :: l, h => by
    simp only [List.map_cons, List.flatMap_cons]
    rw [h e (by simp), flatMap_map_congr g f f' l (fun x hx => h x (by simp [hx]))]

theorem sortedEntries_canon (c : Cfg) (hv : RyuVal c) (pp : Pp) (hns : pp.sortKeys = false) (o : List (Val × Val)) :
    sortedEntries (o.map (canonPair c pp)) = (sortedEntries o).map (canonPair c pp) :=
  sortBy_map (canonPair c pp) _ _ (fun p q => cmp_canon c hv pp hns p.1 q.1) o

theorem feedF_canon (c : Cfg) (hv : RyuVal c) (pp : Pp) (hns : pp.sortKeys = false) : ∀ (n : Nat) (v : Val),
    WfInts v → Val.feedF n (canon c pp v) = Val.feedF n v := by
  intro n
  induction n with
  | zero => intro v _; rfl
  | succ n ih =>
    intro v hw
    cases v with
    | null => rfl
    | bool _ => rfl
    | tstr _ => rfl
    | bstr _ => rfl
    | num x =>
      have hx : Num.wf x = true := by simpa [WfInts, C08.WfInts, C08.allNums] using hw
      simp only [canon, Val.feedF, hashFeed_canon c hv x hx]
    | arr a =>
      rw [canon_arr]
      simp only [Val.feedF, List.length_map]
      rw [flatMap_map_congr (canon c pp) (Val.feedF n) (Val.feedF n) a (fun e he => ih e (wfInts_arr hw e he))]
    | obj o =>
      rw [canon_obj c pp hns]
      simp only [Val.feedF, sortedEntries_canon c hv pp hns]
      congr 1
      apply flatMap_map_congr
      intro e he
      have hm := wfInts_obj hw e (mem_sortBy _ _ _ he)
      simp only [canonPair, ih e.1 hm.1, ih e.2 hm.2]

theorem feed_canon (c : Cfg) (hv : RyuVal c) (pp : Pp) (hns : pp.sortKeys = false) (v : Val) (hw : WfInts v) :
    Val.feed (canon c pp v) = Val.feed v := by
  unfold Val.feed
  rw [size_canon c pp hns _ v (Nat.le_refl _)]
  exact feedF_canon c hv pp hns _ v hw

/-! ### `==` -/

theorem zipWith_map_congr {α β γ : Type} (g : α → β) (f : β → β → γ) (f' : α → α → γ) :
    ∀ x y : List α, (∀ a ∈ x, ∀ b ∈ y, f (g a) (g b) = f' a b) →
      List.zipWith f (x.map g) (y.map g) = List.zipWith f' x y
  | [], _, _ => by simp
  | _ :: _, [], _ => by simp
  | a :: x, b :: y, h => by
    simp only [List.map_cons, List.zipWith_cons_cons]
    rw [h a (by simp) b (by simp), zipWith_map_congr g f f' x y (fun a ha b hb => h a (by simp [ha]) b (by simp [hb]))]

theorem find?_congr_mem {α : Type} (p q : α → Bool) : ∀ l : List α, (∀ a ∈ l, p a = q a) → l.find? p = l.find? q
  | [], _ => rfl
  | a :: l, h => by
    simp only [List.find?_cons]
    rw [h a (by simp), find?_congr_mem p q l (fun x hx => h x (by simp [hx]))]

theorem all_congr_mem {α : Type} (p q : α → Bool) : ∀ l : List α, (∀ a ∈ l, p a = q a) → l.all p = l.all q
  | [], _ => rfl
  | a :: l, h => by
    simp only [List.all_cons]
    rw [h a (by simp), all_congr_mem p q l (fun x hx => h x (by simp [hx]))]

/-- the per-entry test of `IndexMap == IndexMap` -/
def objBody (n : Nat) (y : List (Val × Val)) (e : Val × Val) : Bool :=
  match y.find? (fun e' => Val.feed e.1 == Val.feed e'.1 && Val.eqF n e.1 e'.1) with
  | some e' => Val.eqF n e.2 e'.2
  | none => false

theorem eqF_obj (n : Nat) (x y : List (Val × Val)) :
    Val.eqF (n + 1) (.obj x) (.obj y) = (x.length == y.length && x.all (objBody n y)) := by
  simp only [Val.eqF]
  congr 2
  funext e
  unfold objBody
  generalize List.find? _ y = r
  cases r with
  | none => rfl
  | some p => obtain ⟨a, b⟩ := p; rfl

theorem eqF_canon (c : Cfg) (hv : RyuVal c) (pp : Pp) (hns : pp.sortKeys = false) : ∀ (n : Nat) (a b : Val),
    WfInts a → WfInts b → Val.eqF n (canon c pp a) (canon c pp b) = Val.eqF n a b := by
  intro n
  induction n with
  | zero => intro a b _ _; rfl
  | succ n ih =>
    intro a b ha hb
    cases a with
    | num x =>
      cases b <;> first
        | (simp only [canon, Val.eqF]; exact numEq_canon c hv _ _)
        | (simp [canon, Val.eqF])
        | (rw [canon_arr]; simp [canon, Val.eqF])
        | (rw [canon_obj c pp hns]; simp [canon, Val.eqF])
    | arr x =>
      cases b with
      | arr y =>
        rw [canon_arr, canon_arr]
        simp only [Val.eqF, List.length_map]
        rw [zipWith_map_congr (canon c pp) (Val.eqF n) (Val.eqF n) x y
          (fun a ha' b hb' => ih a b (wfInts_arr ha a ha') (wfInts_arr hb b hb'))]
      | obj y => rw [canon_arr, canon_obj c pp hns]; simp [Val.eqF]
      | _ => rw [canon_arr]; simp [canon, Val.eqF]
    | obj x =>
      cases b with
      | obj y =>
        rw [canon_obj c pp hns, canon_obj c pp hns, eqF_obj, eqF_obj]
        simp only [List.length_map, List.all_map]
        congr 1
        apply all_congr_mem
        intro e he
        have hwe := wfInts_obj ha e he
        simp only [Function.comp, objBody, List.find?_map]
        have hp : y.find? ((fun e' => Val.feed (canonPair c pp e).1 == Val.feed e'.1 && Val.eqF n (canonPair c pp e).1 e'.1) ∘ canonPair c pp)
            = y.find? (fun e' => Val.feed e.1 == Val.feed e'.1 && Val.eqF n e.1 e'.1) := by
          apply find?_congr_mem
          intro e' he'
          have hwe' := wfInts_obj hb e' he'
          simp only [Function.comp, canonPair]
          rw [feed_canon c hv pp hns _ hwe.1, feed_canon c hv pp hns _ hwe'.1, ih _ _ hwe.1 hwe'.1]
        rw [hp]
        cases hf : y.find? (fun e' => Val.feed e.1 == Val.feed e'.1 && Val.eqF n e.1 e'.1) with
        | none => rfl
        | some e' =>
          have hwe' := wfInts_obj hb e' (List.mem_of_find?_eq_some hf)
          simp only [Option.map_some, canonPair]
          exact ih _ _ hwe.2 hwe'.2
      | arr y => rw [canon_arr, canon_obj c pp hns]; simp [Val.eqF]
      | _ => rw [canon_obj c pp hns]; simp [canon, Val.eqF]
    | null =>
      cases b <;> first
        | (simp [canon, Val.eqF])
        | (rw [canon_arr]; simp [canon, Val.eqF])
        | (rw [canon_obj c pp hns]; simp [canon, Val.eqF])
    | bool _ =>
      cases b <;> first
        | (simp [canon, Val.eqF])
        | (rw [canon_arr]; simp [canon, Val.eqF])
        | (rw [canon_obj c pp hns]; simp [canon, Val.eqF])
    | tstr _ =>
      cases b <;> first
        | (simp [canon, Val.eqF])
        | (rw [canon_arr]; simp [canon, Val.eqF])
        | (rw [canon_obj c pp hns]; simp [canon, Val.eqF])
    | bstr _ =>
      cases b <;> first
        | (simp [canon, Val.eqF])
        | (rw [canon_arr]; simp [canon, Val.eqF])
        | (rw [canon_obj c pp hns]; simp [canon, Val.eqF])

theorem eq_canon (c : Cfg) (hv : RyuVal c) (pp : Pp) (hns : pp.sortKeys = false) (a b : Val)
    (ha : WfInts a) (hb : WfInts b) : Val.eq (canon c pp a) (canon c pp b) = Val.eq a b := by
  unfold Val.eq
  rw [size_canon c pp hns _ a (Nat.le_refl _), size_canon c pp hns _ b (Nat.le_refl _)]
  exact eqF_canon c hv pp hns _ a b ha hb

/-- the probe of a hashed look-up does not see `canon` -/
theorem sameKey_canon (c : Cfg) (hv : RyuVal c) (pp : Pp) (hns : pp.sortKeys = false) (a b : Val)
    (ha : WfInts a) (hb : WfInts b) : Obj.sameKey (canon c pp a) (canon c pp b) = Obj.sameKey a b := by
  unfold Obj.sameKey
  rw [feed_canon c hv pp hns a ha, feed_canon c hv pp hns b hb, eq_canon c hv pp hns a b ha hb]

/-! ### the `IndexMap` invariant survives the round trip -/

theorem freshFrom_map (c : Cfg) (hv : RyuVal c) (pp : Pp) (hns : pp.sortKeys = false) :
    ∀ (es acc : List (Val × Val)), (∀ e ∈ acc, WfInts e.1) → (∀ e ∈ es, WfInts e.1) → FreshFrom acc es →
      FreshFrom (acc.map (canonPair c pp)) (es.map (canonPair c pp)) := by
  intro es
  induction es with
  | nil => intro acc _ _ _; simp [FreshFrom]
  | cons e es ih =>
    intro acc ha he h
    obtain ⟨k, v⟩ := e
    simp only [FreshFrom] at h
    simp only [List.map_cons, canonPair, FreshFrom]
    refine ⟨?_, ?_⟩
    · intro e' he'
      simp only [List.mem_map] at he'
      obtain ⟨e0, he0, rfl⟩ := he'
      show Obj.sameKey (canon c pp k) (canon c pp e0.1) = false
      rw [sameKey_canon c hv pp hns k e0.1 (he (k, v) (by simp)) (ha e0 he0)]
      exact h.1 e0 he0
    · have := ih (acc ++ [(k, v)]) (by
        intro e' he'
        simp only [List.mem_append, List.mem_singleton] at he'
        rcases he' with h' | rfl
        · exact ha e' h'
        · exact he (k, v) (by simp)) (fun e' he' => he e' (by simp [he'])) h.2
      simpa [canonPair] using this

theorem keysOkList_mem : ∀ (a : List Val), KeysOkList a → ∀ v ∈ a, KeysOk v
  | [], _, _, hv => by cases hv
  | x :: xs, h, v, hv => by
    simp only [KeysOkList] at h
    cases hv with
    | head => exact h.1
    | tail _ hv => exact keysOkList_mem xs h.2 v hv

theorem keysOkList_map (f : Val → Val) : ∀ (a : List Val), (∀ v ∈ a, KeysOk (f v)) → KeysOkList (a.map f)
  | [], _ => by simp [KeysOkList]
  | x :: xs, h => by
    simp only [List.map_cons, KeysOkList]
    exact ⟨h x (by simp), keysOkList_map f xs (fun v hv => h v (by simp [hv]))⟩

theorem keysOkEntries_mem : ∀ (o : List (Val × Val)), KeysOkEntries o → ∀ e ∈ o, KeysOk e.1 ∧ KeysOk e.2
  | [], _, _, he => by cases he
  | (k, v) :: es, h, e, he => by
    simp only [KeysOkEntries] at h
    cases he with
    | head => exact ⟨h.1, h.2.1⟩
    | tail _ he => exact keysOkEntries_mem es h.2.2 e he

theorem keysOkEntries_of_mem : ∀ (o : List (Val × Val)), (∀ e ∈ o, KeysOk e.1 ∧ KeysOk e.2) → KeysOkEntries o
  | [], _ => by simp [KeysOkEntries]
  | (k, v) :: es, h => by
    simp only [KeysOkEntries]
    exact ⟨(h (k, v) (by simp)).1, (h (k, v) (by simp)).2, keysOkEntries_of_mem es (fun e he => h e (by simp [he]))⟩

/-- without key sorting: if the keys of every object of `v` are pairwise different (the `IndexMap`
invariant of `v` itself), so are the keys of the value read back — floats that became literals,
integers that changed representation and NaNs included, at any depth, also inside keys -/
theorem keysOk_canon (c : Cfg) (hv : RyuVal c) (pp : Pp) (hns : pp.sortKeys = false) : ∀ (k : Nat) (v : Val),
    v.size ≤ k → WfInts v → KeysOk v → KeysOk (canon c pp v) := by
  intro k
  induction k with
  | zero => intro v h; have := Val.size_pos v; omega
  | succ k ih =>
    intro v hsz hw hk
    cases v with
    | arr a =>
      simp only [Val.size] at hsz
      simp only [KeysOk] at hk
      rw [canon_arr]
      simp only [KeysOk]
      exact keysOkList_map _ a (fun x hx => ih x (by have := Val.size_lt_of_mem hx; omega)
        (wfInts_arr hw x hx) (keysOkList_mem a hk x hx))
    | obj o =>
      simp only [Val.size] at hsz
      simp only [KeysOk] at hk
      rw [canon_obj c pp hns]
      simp only [KeysOk]
      refine ⟨?_, ?_⟩
      · have := freshFrom_map c hv pp hns o [] (by intro e he; cases he) (fun e he => (wfInts_obj hw e he).1) hk.1
        simpa [DistinctKeysR] using this
      · apply keysOkEntries_of_mem
        intro e he
        simp only [List.mem_map] at he
        obtain ⟨e0, he0, rfl⟩ := he
        have hs := Val.size_entry_of_mem (k := e0.1) (v := e0.2) he0
        have hm := keysOkEntries_mem o hk.2 e0 he0
        have hwm := wfInts_obj hw e0 he0
        exact ⟨ih e0.1 (by omega) hwm.1 hm.1, ih e0.2 (by omega) hwm.2 hm.2⟩
    | null => simp [canon, KeysOk]
    | bool _ => simp [canon, KeysOk]
    | num _ => simp [canon, KeysOk]
    | tstr _ => simp [canon, KeysOk]
    | bstr _ => simp [canon, KeysOk]

end Jaq.C07
