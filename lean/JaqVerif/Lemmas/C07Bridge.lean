import JaqVerif.Lemmas.C07Sort
import JaqVerif.Lemmas.C08Eq
namespace Jaq.C07
open Jaq

/-! ## `SortDom` from the domain of C08's order theorems

C08 proves that `Ord` (its model `C08.cmp`, which follows the repaired `Num::cmp`) is a total
preorder on NaN-free values satisfying the big-integer/float guard.  On values without objects
whose integers convert to finite floats the shared `Val.cmp` (which the writer's `sort_keys` model
uses) is the same function; so there the keys of an object with C08's `WfKeys` invariant are
pairwise strictly ordered in the sense of `strictKeys`. -/

/-- no NaN, and every integer converts to a finite `f64` (|i| < 2^1024) -/
def numPlain (n : Num) : Bool :=
  C08.Num.nanFree n && (match n with | .int i | .big i => F64.isFinite (F64.ofInt i) | _ => true)

theorem bigFloat_shared (i : Int) (f : UInt64) (hf : F64.isNaN f = false) (hi : F64.isFinite (F64.ofInt i) = true) :
    C08.bigFloatCmp i f = F64.cmp (F64.ofInt i) f ∧ (C08.bigFloatCmp i f).swap = F64.cmp f (F64.ofInt i) := by
  unfold C08.bigFloatCmp
  by_cases h1 : (f == F64.posInf) = true
  · have e : f = F64.posInf := by simpa using h1
    subst e
    have := C08.cmp_finite_inf hi (f := F64.posInf) (by decide)
    have s : F64.signBit F64.posInf = false := by decide
    rw [s] at this
    simp [this.1, this.2]
  · by_cases h2 : (f == F64.negInf) = true
    · have e : f = F64.negInf := by simpa using h2
      subst e
      have := C08.cmp_finite_inf hi (f := F64.negInf) (by decide)
      have s : F64.signBit F64.negInf = true := by decide
      have n4 : (F64.negInf == F64.posInf) = false := by decide
      rw [s] at this
      simp [this.1, this.2, n4]
    · simp only [h1, h2, Bool.false_eq_true, if_false, true_and]
      rw [C08.F64.cmp_eq_compare_fkey _ _ (C08.ofInt_not_nan i) hf, C08.F64.cmp_eq_compare_fkey _ _ hf (C08.ofInt_not_nan i)]
      exact Int.compare_swap _ _

theorem numCmp_shared (a b : Num) (ha : numPlain a = true) (hb : numPlain b = true) : C08.numCmp a b = Num.cmp a b := by
  unfold C08.numCmp
  cases hsw : C08.Cfg.hugeIntBelowInfinity with
  | false => simp
  | true =>
    simp only [if_true]
    cases a <;> cases b <;>
      simp only [numPlain, C08.Num.nanFree, Bool.and_eq_true, Bool.not_eq_true', Bool.true_and, Bool.and_true] at ha hb <;>
      simp only [Num.undec, Num.ofDecStr, Num.cmp] <;>
      first
        | rfl
        | exact (bigFloat_shared _ _ hb ha).1
        | exact (bigFloat_shared _ _ ha hb).2

theorem lexCmp_congr_mem {α : Type} (c c' : α → α → Ordering) : ∀ (x y : List α),
    (∀ a ∈ x, ∀ b ∈ y, c a b = c' a b) → lexCmp c x y = lexCmp c' x y := by
  intro x y h
  have := lexCmp_map (fun a : α => a) c' c x y h
  simpa using this

abbrev Plain (v : Val) : Prop := C08.allNums numPlain v = true

theorem cmpF_shared : ∀ (n : Nat) (a b : Val), objFree a = true → objFree b = true → Plain a → Plain b →
    C08.cmpF n a b = Val.cmpF n a b := by
  intro n
  induction n with
  | zero => intro a b _ _ _ _; rfl
  | succ n ih =>
    intro a b oa ob pa pb
    cases a with
    | obj o => rw [objFree_obj] at oa; cases oa
    | num x =>
      cases b with
      | obj o => rw [objFree_obj] at ob; cases ob
      | num y =>
        simp only [C08.cmpF, Val.cmpF]
        exact numCmp_shared x y (by simpa [Plain, C08.allNums] using pa) (by simpa [Plain, C08.allNums] using pb)
      | _ => simp [C08.cmpF, Val.cmpF]
    | arr x =>
      cases b with
      | obj o => rw [objFree_obj] at ob; cases ob
      | arr y =>
        simp only [C08.cmpF, Val.cmpF]
        exact lexCmp_congr_mem _ _ x y (fun a ha b hb =>
          ih a b (objFree_arr oa a ha) (objFree_arr ob b hb) (C08.allNums_arr.1 pa a ha) (C08.allNums_arr.1 pb b hb))
      | _ => simp [C08.cmpF, Val.cmpF]
    | null => cases b <;> first | (rw [objFree_obj] at ob; cases ob) | simp [C08.cmpF, Val.cmpF]
    | bool _ => cases b <;> first | (rw [objFree_obj] at ob; cases ob) | simp [C08.cmpF, Val.cmpF, C08.cmpBool]
    | tstr _ => cases b <;> first | (rw [objFree_obj] at ob; cases ob) | simp [C08.cmpF, Val.cmpF]
    | bstr _ => cases b <;> first | (rw [objFree_obj] at ob; cases ob) | simp [C08.cmpF, Val.cmpF]

theorem cmp_shared (a b : Val) (oa : objFree a = true) (ob : objFree b = true) (pa : Plain a) (pb : Plain b) :
    C08.cmp a b = Val.cmp a b := cmpF_shared _ a b oa ob pa pb

/-- the domain of C08's order theorems, with every integer converting to a finite float -/
def numDom (m : C08.Mode) (n : Num) : Bool := C08.Num.inMode m n && numPlain n

theorem strictKeys_of_c08 (m : C08.Mode) : ∀ (o : List (Val × Val)), (∀ e ∈ o, objFree e.1 = true) →
    (∀ e ∈ o, C08.allNums (numDom m) e.1 = true) → C08.distinctKeys o = true → strictKeys o = true
  | [], _, _, _ => rfl
  | p :: ps, hf, hd, hk => by
    simp only [C08.distinctKeys, Bool.and_eq_true, List.all_eq_true, bne_iff_ne, ne_eq] at hk
    simp only [strictKeys, Bool.and_eq_true, List.all_eq_true]
    refine ⟨fun q hq => ?_, strictKeys_of_c08 m ps (fun e he => hf e (by simp [he])) (fun e he => hd e (by simp [he])) hk.2⟩
    have dp := hd p (by simp)
    have dq := hd q (by simp [hq])
    have ip : C08.allNums (C08.Num.inMode m) p.1 = true :=
      C08.allNums_imp (fun n hn => by simp only [numDom, Bool.and_eq_true] at hn; exact hn.1) dp
    have iq : C08.allNums (C08.Num.inMode m) q.1 = true :=
      C08.allNums_imp (fun n hn => by simp only [numDom, Bool.and_eq_true] at hn; exact hn.1) dq
    have pp' : Plain p.1 := C08.allNums_imp (fun n hn => by simp only [numDom, Bool.and_eq_true] at hn; exact hn.2) dp
    have pq : Plain q.1 := C08.allNums_imp (fun n hn => by simp only [numDom, Bool.and_eq_true] at hn; exact hn.2) dq
    have hsw := (C08.cmp_tpo (C08.numCmp_tpo m)).swap p.1 q.1 ip iq
    have hne := hk.1 q hq
    rw [cmp_shared _ _ (hf q (by simp [hq])) (hf p (by simp)) pq pp'] at hsw
    rw [cmp_shared _ _ (hf p (by simp)) (hf q (by simp [hq])) pp' pq] at hsw hne
    simp only [strictPair]
    rw [hsw]
    revert hne
    cases Val.cmp p.1 q.1 <;> simp [Ordering.swap]

/-- **the bridge**: a value of C08's domain (`InDom m`, i.e. NaN-free + the big-integer/float
guard, here together with "integers convert to finite floats": `numDom`) whose objects satisfy
C08's `IndexMap` invariant `WfKeys` and have keys without objects is in `SortDom` -/
theorem sortDom_of_c08 (m : C08.Mode) : ∀ (k : Nat) (v : Val), v.size ≤ k →
    C08.allObjs flatKeys v = true → C08.allNums (numDom m) v = true → C08.WfKeys v = true → SortDom v := by
  intro k
  induction k with
  | zero => intro v h; have := Val.size_pos v; omega
  | succ k ih =>
    intro v hsz hf hd hk
    unfold SortDom
    cases v with
    | arr a =>
      simp only [Val.size] at hsz
      apply C08.allObjs_arr.2
      intro x hx
      have := Val.size_lt_of_mem hx
      exact ih x (by omega) (C08.allObjs_arr.1 hf x hx) (C08.allNums_arr.1 hd x hx) (C08.allObjs_arr.1 hk x hx)
    | obj o =>
      simp only [Val.size] at hsz
      have hf' := C08.allObjs_obj.1 hf
      have hk' := C08.allObjs_obj.1 hk
      have hd' := C08.allNums_obj.1 hd
      apply C08.allObjs_obj.2
      refine ⟨?_, fun e he => ?_⟩
      · simp only [Bool.and_eq_true]
        refine ⟨hf'.1, strictKeys_of_c08 m o (by simpa [flatKeys] using hf'.1) (fun e he => (hd' e he).1) hk'.1⟩
      · have := Val.size_entry_of_mem (k := e.1) (v := e.2) he
        exact ⟨ih e.1 (by omega) (hf'.2 e he).1 (hd' e he).1 (hk'.2 e he).1,
               ih e.2 (by omega) (hf'.2 e he).2 (hd' e he).2 (hk'.2 e he).2⟩
    | null => simp [C08.allObjs]
    | bool _ => simp [C08.allObjs]
    | num _ => simp [C08.allObjs]
    | tstr _ => simp [C08.allObjs]
    | bstr _ => simp [C08.allObjs]

end Jaq.C07
