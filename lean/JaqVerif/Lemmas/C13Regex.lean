/- ROUND 2: the regex natives over an explicit contract of the engine (third party). -/
import JaqVerif.Lemmas.C13Pos

namespace Jaq.C13
open Jaq

/-- `x` is a character boundary of `s`: the byte offset of a character position (incl. the end) -/
def IsBoundary (s : Bytes) (x : Nat) : Prop := ∃ j, j ≤ (Utf8.chars s).length ∧ x = boundary s j

theorem isBoundaryB_iff (s : Bytes) (x : Nat) : isBoundaryB s x = true ↔ IsBoundary s x := by
  unfold isBoundaryB IsBoundary
  rw [List.contains_iff_mem, mem_bounds_iff]

/-! ## one match object -/

/-- `Match::new` (repaired lookup) on a range that starts on a boundary: never `none` -/
theorem matchNewFixed_total (s : Bytes) (c : Cap) (h : IsBoundary s c.start) :
    ∃ m, matchNewFixed s c = some m := by
  obtain ⟨i, hi, hs⟩ := h
  have hoff : charOfByte s c.start = some i := by rw [hs]; exact charOfByte_boundary s i hi
  simp [matchNewFixed, hoff]

/-- `.[m.offset : m.offset + m.length] == m.string` for a range on character boundaries -/
theorem matchNewFixed_slice (s : Bytes) (c : Cap) (m : RMatch) (hse : c.start ≤ c.stop)
    (h1 : IsBoundary s c.start) (h2 : IsBoundary s c.stop) (hm : matchNewFixed s c = some m) :
    m.string = (s.drop c.start).take (c.stop - c.start) ∧ m.length = strLength m.string ∧ m.name = c.name ∧
    boundary s m.offset = c.start ∧ boundary s (m.offset + m.length) = c.stop ∧
    sliceChars s (some (Int.ofNat m.offset)) (some (Int.ofNat (m.offset + m.length))) = m.string := by
  obtain ⟨i, hi, hs⟩ := h1
  obtain ⟨j, hj, he⟩ := h2
  have hij : i ≤ j := by
    by_cases h : i ≤ j
    · exact h
    · have hlt : j < i := by omega
      have h1 := boundary_lt s j (by omega)
      have h2 := boundary_mono s (show j + 1 ≤ i by omega)
      omega
  have hoff : charOfByte s c.start = some i := by rw [hs]; exact charOfByte_boundary s i hi
  have hchars : Utf8.chars ((s.drop c.start).take (c.stop - c.start)) = ((Utf8.chars s).drop i).take (j - i) := by
    rw [hs, he]; exact chars_substring s i j hij
  have hlen : strLength ((s.drop c.start).take (c.stop - c.start)) = j - i := by
    rw [strLength_eq_chars, hchars]
    simp only [List.length_take, List.length_drop]
    omega
  simp only [matchNewFixed, hoff, Option.map_some, Option.some.injEq] at hm
  subst hm
  have hji : i + (j - i) = j := by omega
  refine ⟨rfl, rfl, rfl, hs.symm, ?_, ?_⟩
  · show boundary s (i + strLength _) = c.stop
    rw [hlen, hji]; exact he.symm
  · show sliceChars s (some (Int.ofNat i)) (some (Int.ofNat (i + strLength _))) = _
    rw [hlen, hji, sliceChars_eq s i j hij, ← hchars, chars_flatten]

/-! ## the explicit contract of the engine -/

/-- What the model assumes about the result of `re.captures_iter(s)` (third party: regex-bites).
`caps` = the items in order, each the participating groups (group 0 first) as byte ranges.

* `ordered`, `inside`: guaranteed by the API of the regex crates (`captures_iter` returns
  successive NON-OVERLAPPING matches in INCREASING order, each inside the haystack; every group
  lies inside group 0).  Needed for: reassembly (`ordered` only).
* `startOnBoundary`, `stopOnBoundary`: NOT part of the documented API for byte haystacks with
  invalid UTF-8; it holds for regex-bites because its `utf8::decode` consumes the same units as
  bstr (valid scalar value, or maximal invalid prefix) and its empty matches advance by such units.
  The check evaluates this contract on every engine result of every run (`c13.rxc`).
  Needed for: no panic in `Match::new` (`startOnBoundary`), the slice equation (both).

Everything else is COMPUTED by jaq and proved below from the contract: `offset` (character index
of `start`, by `ByteChar`), `length` (characters of the matched bytes), `string`, and the
unmatched pieces `s[last..start]`. -/
structure EngineContract (s : Bytes) (caps : List (List Cap)) : Prop where
  ordered : capsOrdered s.length 0 caps
  inside : ∀ item ∈ caps, ∀ whole, item.head? = some whole →
    ∀ c ∈ item, whole.start ≤ c.start ∧ c.start ≤ c.stop ∧ c.stop ≤ whole.stop
  startOnBoundary : ∀ item ∈ caps, ∀ c ∈ item, IsBoundary s c.start
  stopOnBoundary : ∀ item ∈ caps, ∀ c ∈ item, IsBoundary s c.stop

theorem capsOrderedB_iff (len : Nat) : ∀ (caps : List (List Cap)) (last : Nat),
    capsOrderedB len last caps = true ↔ capsOrdered len last caps := by
  intro caps
  induction caps with
  | nil => intro last; simp [capsOrderedB, capsOrdered]
  | cons c rest ih =>
    intro last
    cases c with
    | nil => simp [capsOrderedB, capsOrdered]
    | cons whole gs =>
      simp only [capsOrderedB, capsOrdered, Bool.and_eq_true, decide_eq_true_eq, ih]
      constructor
      · intro ⟨⟨⟨a, b⟩, c⟩, d⟩; exact ⟨a, b, c, d⟩
      · intro ⟨a, b, c, d⟩; exact ⟨⟨⟨a, b⟩, c⟩, d⟩

/-- the executable contract check of the driver decides the contract -/
theorem contractB_iff (s : Bytes) (caps : List (List Cap)) :
    contractB s caps = true ↔ EngineContract s caps := by
  unfold contractB
  simp only [Bool.and_eq_true, List.all_eq_true, capsOrderedB_iff, isBoundaryB_iff]
  constructor
  · intro ⟨⟨ho, hi⟩, hb⟩
    refine ⟨ho, ?_, fun item hit c hc => (hb item hit c hc).1, fun item hit c hc => (hb item hit c hc).2⟩
    intro item hit whole hw c hc
    have := hi item hit
    cases item with
    | nil => simp at hw
    | cons w gs =>
      simp only [List.head?_cons, Option.some.injEq] at hw
      subst hw
      simp only [itemInsideB, List.all_eq_true, Bool.and_eq_true, decide_eq_true_eq] at this
      have := this c hc
      exact ⟨this.1.1, this.1.2, this.2⟩
  · intro h
    refine ⟨⟨h.ordered, ?_⟩, fun item hit c hc => ⟨h.startOnBoundary item hit c hc, h.stopOnBoundary item hit c hc⟩⟩
    intro item hit
    cases item with
    | nil => simp [itemInsideB]
    | cons w gs =>
      simp only [itemInsideB, List.all_eq_true, Bool.and_eq_true, decide_eq_true_eq]
      intro c hc
      have := h.inside (w :: gs) hit w rfl c hc
      exact ⟨⟨this.1, this.2.1⟩, this.2.2⟩

/-! ## all groups of one item -/

theorem matchesOfRepaired_total (s : Bytes) : ∀ (item : List Cap), (∀ c ∈ item, IsBoundary s c.start) →
    ∃ ms, matchesOfRepaired s item = some ms := by
  intro item
  induction item with
  | nil => intro _; exact ⟨[], rfl⟩
  | cons c cs ih =>
    intro h
    obtain ⟨m, hm⟩ := matchNewFixed_total s c (h c (by simp))
    obtain ⟨ms, hms⟩ := ih (fun x hx => h x (by simp [hx]))
    exact ⟨m :: ms, by simp [matchesOfRepaired, hm, hms]⟩

theorem matchesOfRepaired_mem (s : Bytes) : ∀ (item : List Cap) (ms : List RMatch),
    matchesOfRepaired s item = some ms → ∀ m ∈ ms, ∃ c ∈ item, matchNewFixed s c = some m := by
  intro item
  induction item with
  | nil => intro ms h m hm; simp [matchesOfRepaired] at h; subst h; simp at hm
  | cons c cs ih =>
    intro ms h m hmem
    simp only [matchesOfRepaired] at h
    cases hm : matchNewFixed s c with
    | none => simp [hm] at h
    | some m0 =>
      cases hr : matchesOfRepaired s cs with
      | none => simp [hm, hr] at h
      | some r =>
        simp only [hm, hr, Option.some.injEq] at h
        subst h
        simp only [List.mem_cons] at hmem
        rcases hmem with rfl | hmem
        · exact ⟨c, by simp, hm⟩
        · obtain ⟨c', hc', h'⟩ := ih r hr m hmem
          exact ⟨c', by simp [hc'], h'⟩

/-! ## the loop of `regex()` (repaired) -/

/-- no panic: with every group starting on a character boundary the loop returns parts, for every
flag combination and both switches -/
theorem regexLoopRepaired_total (s : Bytes) (g n mi ma : Bool) : ∀ (caps : List (List Cap)) (last : Nat),
    (∀ item ∈ caps, ∀ c ∈ item, IsBoundary s c.start) →
    ∃ parts, regexLoopRepaired s g n mi ma last caps = some parts := by
  intro caps
  induction caps with
  | nil => intro last _; exact ⟨_, rfl⟩
  | cons item rest ih =>
    intro last h
    have hrest : ∀ item ∈ rest, ∀ c ∈ item, IsBoundary s c.start := fun it hit => h it (by simp [hit])
    cases item with
    | nil => simp only [regexLoopRepaired]; exact ih last hrest
    | cons whole gs =>
      simp only [regexLoopRepaired]
      split
      · exact ih last hrest
      · obtain ⟨ms, hms⟩ := matchesOfRepaired_total s (whole :: gs) (h _ (by simp))
        obtain ⟨t1, ht1⟩ := ih (if mi then whole.stop else last) hrest
        cases ma <;> cases g <;> simp [hms, ht1]

/-- every list of match objects in the output comes from one item of the engine's result -/
theorem regexLoopRepaired_matches (s : Bytes) (g n mi ma : Bool) : ∀ (caps : List (List Cap)) (last : Nat) (parts : List Part),
    regexLoopRepaired s g n mi ma last caps = some parts →
    ∀ ms, Part.matches ms ∈ parts → ∃ item ∈ caps, matchesOfRepaired s item = some ms := by
  intro caps
  induction caps with
  | nil =>
    intro last parts h ms hms
    simp only [regexLoopRepaired, Option.some.injEq] at h
    subst h
    split at hms <;> simp at hms
  | cons item rest ih =>
    intro last parts h ms hms
    cases item with
    | nil =>
      simp only [regexLoopRepaired] at h
      obtain ⟨it, hit, hm⟩ := ih last parts h ms hms
      exact ⟨it, by simp [hit], hm⟩
    | cons whole gs =>
      simp only [regexLoopRepaired] at h
      split at h
      · obtain ⟨it, hit, hm⟩ := ih last parts h ms hms
        exact ⟨it, by simp [hit], hm⟩
      · have tailCase : ∀ t, (if g = true then regexLoopRepaired s g n mi ma (if mi = true then whole.stop else last) rest
              else some (if mi = true then [Part.mismatch (s.drop (if mi = true then whole.stop else last))] else [])) = some t →
            Part.matches ms ∈ t → ∃ item ∈ rest, matchesOfRepaired s item = some ms := by
          intro t ht hmem
          by_cases hg : g = true
          · rw [if_pos hg] at ht
            exact ih _ t ht ms hmem
          · rw [if_neg hg] at ht
            simp only [Option.some.injEq] at ht
            subst ht
            split at hmem <;> simp at hmem
        have preCase : Part.matches ms ∉ (if mi = true then [Part.mismatch ((s.drop last).take (whole.start - last))] else []) := by
          split <;> simp
        by_cases hma : ma = true
        · rw [if_pos hma] at h
          cases hmo : matchesOfRepaired s (whole :: gs) with
          | none => simp [hmo] at h
          | some ms0 =>
            simp only [hmo, Option.map_eq_some_iff] at h
            obtain ⟨t, ht, hp⟩ := h
            subst hp
            simp only [List.mem_append, List.mem_singleton, Part.matches.injEq] at hms
            rcases hms with (hms | hms) | hms
            · exact absurd hms preCase
            · subst hms; exact ⟨whole :: gs, by simp, hmo⟩
            · obtain ⟨it, hit, hm⟩ := tailCase t ht hms
              exact ⟨it, by simp [hit], hm⟩
        · rw [if_neg hma] at h
          simp only [Option.map_eq_some_iff] at h
          obtain ⟨t, ht, hp⟩ := h
          subst hp
          simp only [List.mem_append] at hms
          rcases hms with hms | hms
          · exact absurd hms preCase
          · obtain ⟨it, hit, hm⟩ := tailCase t ht hms
            exact ⟨it, by simp [hit], hm⟩

theorem matchesOfRepaired_head {s : Bytes} {whole : Cap} {gs : List Cap} {ms : List RMatch}
    (h : matchesOfRepaired s (whole :: gs) = some ms) :
    ∃ m rest, ms = m :: rest ∧ m.string = (s.drop whole.start).take (whole.stop - whole.start) := by
  simp only [matchesOfRepaired] at h
  cases hm : matchNewFixed s whole with
  | none => simp [hm] at h
  | some m0 =>
    cases hr : matchesOfRepaired s gs with
    | none => simp [hm, hr] at h
    | some r =>
      simp only [hm, hr, Option.some.injEq] at h
      refine ⟨m0, r, h.symm, ?_⟩
      simp only [matchNewFixed, Option.map_eq_some_iff] at hm
      obtain ⟨_, _, rfl⟩ := hm
      rfl

/-- reassembly for the repaired loop -/
theorem regexLoopRepaired_reassemble (s : Bytes) (g n : Bool) :
    ∀ (caps : List (List Cap)) (last : Nat) (parts : List Part),
      capsOrdered s.length last caps →
      regexLoopRepaired s g n true true last caps = some parts →
      (parts.map Part.text).flatten = s.drop last := by
  intro caps
  induction caps with
  | nil =>
    intro last parts _ h
    simp only [regexLoopRepaired, if_true, Option.some.injEq] at h
    subst h
    simp [Part.text]
  | cons c rest ih =>
    intro last parts hord h
    cases c with
    | nil => exact absurd hord (by simp [capsOrdered])
    | cons whole gs =>
      obtain ⟨h1, h2, h3, h4⟩ := hord
      simp only [regexLoopRepaired] at h
      by_cases hskip : (n = true ∧ whole.start = whole.stop)
      · rw [if_pos hskip] at h
        exact ih last parts (capsOrdered_mono rest (by omega) h4) h
      · rw [if_neg hskip] at h
        simp only [if_true] at h
        cases hmo : matchesOfRepaired s (whole :: gs) with
        | none => simp [hmo] at h
        | some ms =>
          obtain ⟨m, mrest, hms, hstr⟩ := matchesOfRepaired_head hmo
          simp only [hmo] at h
          by_cases hg : g = true
          · simp only [hg, if_true, Option.map_eq_some_iff] at h
            obtain ⟨t, ht, hp⟩ := h
            have iht := ih whole.stop t h4 (by simpa [hg] using ht)
            subst hp
            simp only [List.map_append, List.map_cons, List.map_nil, List.flatten_append, List.flatten_cons, List.flatten_nil,
              List.append_nil, Part.text, hms, hstr, iht]
            rw [List.append_assoc, drop_take_drop s h2, drop_take_drop s h1]
          · have hg' : g = false := by simpa using hg
            simp only [hg', Bool.false_eq_true, if_false, Option.map_some, Option.some.injEq] at h
            subst h
            simp only [List.map_append, List.map_cons, List.map_nil, List.flatten_append, List.flatten_cons, List.flatten_nil,
              List.append_nil, Part.text, hms, hstr]
            rw [List.append_assoc, drop_take_drop s h2, drop_take_drop s h1]

end Jaq.C13
