import JaqVerif.Lemmas.C18Prefix
namespace Jaq.C18

theorem StaticWF.tail {j : Job} {js : List Job} (h : StaticWF (j :: js)) : StaticWF js where
  paths_nodup := by have := h.paths_nodup; simp only [List.map_cons, List.nodup_cons] at this; exact this.2
  tmps_nodup := by have := h.tmps_nodup; simp only [List.map_cons, List.nodup_cons] at this; exact this.2
  tmp_ne_path := fun a ha b hb => h.tmp_ne_path a (List.mem_cons_of_mem _ ha) b (List.mem_cons_of_mem _ hb)
  same_dir := fun a ha => h.same_dir a (List.mem_cons_of_mem _ ha)

theorem StaticWF.head_path_ne {j : Job} {js : List Job} (h : StaticWF (j :: js)) {j' : Job} (hj' : j' ∈ js) :
    j'.path ≠ j.path := by
  have := h.paths_nodup; simp only [List.map_cons, List.nodup_cons] at this
  intro he; exact this.1 (he ▸ List.mem_map_of_mem hj')

theorem StaticWF.head_tmp_ne {j : Job} {js : List Job} (h : StaticWF (j :: js)) {j' : Job} (hj' : j' ∈ js) :
    j'.tmp ≠ j.tmp := by
  have := h.tmps_nodup; simp only [List.map_cons, List.nodup_cons] at this
  intro he; exact this.1 (he ▸ List.mem_map_of_mem hj')

theorem StaticWF.head_ne {j : Job} {js : List Job} (h : StaticWF (j :: js)) : j.tmp ≠ j.path :=
  h.tmp_ne_path j List.mem_cons_self j List.mem_cons_self

theorem WF.tail_ok {fs : FS} {j : Job} {js : List Job} (wf : WF fs (j :: js)) (hf : j.fault = none) :
    WF (exec fs (jobOps j)) js := by
  have hs := wf.toStaticWF
  have ht : fs j.tmp = none := wf.tmp_fresh j List.mem_cons_self
  rw [exec_jobOps_ok fs j ht hs.head_ne hf]
  refine { toStaticWF := hs.tail, tmp_fresh := ?_, path_exists := ?_ }
  · intro a ha
    have : a.tmp ≠ j.path := hs.tmp_ne_path a (List.mem_cons_of_mem _ ha) j List.mem_cons_self
    rw [FS.set_other _ _ this]; exact wf.tmp_fresh a (List.mem_cons_of_mem _ ha)
  · intro a ha
    rw [FS.set_other _ _ (hs.head_path_ne ha)]; exact wf.path_exists a (List.mem_cons_of_mem _ ha)

/-- what is claimed about one file after a part `pre` of the run, started in `fs` -/
def FileFacts (fs : FS) (pre : List Op) (j : Job) : Prop :=
  (Op.rename j.tmp j.path ∉ pre → exec fs pre j.path = fs j.path) ∧
  (Op.rename j.tmp j.path ∈ pre → (j.fault = none ∨ j.fault = some .chmodErr) ∧
    exec fs pre j.path = some (j.output, if Op.chmod j.path j.mode ∈ pre then j.mode else tmpMode))

/-- operations of another file do not mention this file's rename / chmod -/
theorem rename_not_mem_other {j j' : Job} (ht : j'.tmp ≠ j.tmp) : Op.rename j'.tmp j'.path ∉ jobOps j := by
  intro h
  rcases mem_jobOps h with h | h | ⟨b, h⟩ | h | h | h | h <;> simp at h
  exact ht h.1

theorem chmod_not_mem_other {j j' : Job} (hp : j'.path ≠ j.path) (m : Mode) : Op.chmod j'.path m ∉ jobOps j := by
  intro h
  rcases mem_jobOps h with h | h | ⟨b, h⟩ | h | h | h | h <;> simp at h
  exact hp h.1

/-- case A: the run is still inside the first file -/
theorem facts_within_first {fs : FS} {j : Job} {js : List Job} (wf : WF fs (j :: js)) {pre : List Op}
    (hpre : pre <+: jobOps j) :
    (∀ a ∈ j :: js, FileFacts fs pre a) ∧ (∀ q, (∀ a ∈ j :: js, q ≠ a.tmp ∧ q ≠ a.path) → exec fs pre q = fs q) := by
  have hs := wf.toStaticWF
  have ht : fs j.tmp = none := wf.tmp_fresh j List.mem_cons_self
  have frame : ∀ q, q ≠ j.tmp → q ≠ j.path → exec fs pre q = fs q := by
    intro q h1 h2
    apply exec_frame
    intro op hop hq
    rcases jobOps_touches (hpre.subset hop) hq with h | h
    · exact h1 h
    · exact h2 h
  constructor
  · intro a ha
    rcases List.mem_cons.mp ha with rfl | ha
    · exact job_prefix fs a pre ht hs.head_ne hpre
    · have hno : Op.rename a.tmp a.path ∉ pre := fun hm => rename_not_mem_other (hs.head_tmp_ne ha) (hpre.subset hm)
      refine ⟨fun _ => ?_, fun hm => absurd hm hno⟩
      exact frame _ (fun h => hs.tmp_ne_path j List.mem_cons_self a (List.mem_cons_of_mem _ ha) h.symm) (hs.head_path_ne ha)
  · intro q hq
    exact frame q (hq j List.mem_cons_self).1 (hq j List.mem_cons_self).2

/-- **Main invariant**: after any prefix of the run, every file is either untouched (its rename has
    not happened) or holds exactly its complete output; nothing else has changed. -/
theorem protocol_prefix_facts (jobs : List Job) : ∀ (fs : FS) (pre : List Op), WF fs jobs → pre <+: protocol jobs →
    (∀ a ∈ jobs, FileFacts fs pre a) ∧ (∀ q, (∀ a ∈ jobs, q ≠ a.tmp ∧ q ≠ a.path) → exec fs pre q = fs q) := by
  induction jobs with
  | nil =>
    intro fs pre _ hpre
    simp only [protocol] at hpre
    rw [List.prefix_nil.mp hpre]
    simp
  | cons j js ih =>
    intro fs pre wf hpre
    have hs := wf.toStaticWF
    have ht : fs j.tmp = none := wf.tmp_fresh j List.mem_cons_self
    simp only [protocol] at hpre
    rcases List.prefix_or_prefix_of_prefix hpre (List.prefix_append _ _) with hA | hA
    · exact facts_within_first wf hA
    · obtain ⟨B, rfl⟩ := hA
      have hB := (List.prefix_append_right_inj _).mp hpre
      by_cases hf : j.fault = none
      · -- the first file is complete; continue with the rest in the new file system
        simp only [hf, Option.isNone_none, if_true] at hB
        have wf' := wf.tail_ok hf
        obtain ⟨ih1, ih2⟩ := ih (exec fs (jobOps j)) B wf' hB
        have hfs' := exec_jobOps_ok fs j ht hs.head_ne hf
        have hjq : ∀ a ∈ js, j.path ≠ a.tmp ∧ j.path ≠ a.path := fun a ha =>
          ⟨fun h => hs.tmp_ne_path a (List.mem_cons_of_mem _ ha) j List.mem_cons_self h.symm,
           fun h => hs.head_path_ne ha h.symm⟩
        have hren : Op.rename j.tmp j.path ∈ jobOps j := by
          rw [jobOps_eq_head_tail j (by simp [hf]) (by simp [hf])]; simp [Job.tail, hf]
        have hchm : Op.chmod j.path j.mode ∈ jobOps j := by
          rw [jobOps_eq_head_tail j (by simp [hf]) (by simp [hf])]; simp [Job.tail, hf]
        constructor
        · intro a ha
          rcases List.mem_cons.mp ha with rfl | ha
          · refine ⟨fun hno => absurd (List.mem_append_left _ hren) hno, fun _ => ⟨Or.inl hf, ?_⟩⟩
            rw [exec_append, ih2 _ hjq, hfs']
            simp [List.mem_append, hchm]
          · have hpa : a.path ≠ j.path := hs.head_path_ne ha
            have hta : a.tmp ≠ j.tmp := hs.head_tmp_ne ha
            have e1 : Op.rename a.tmp a.path ∈ jobOps j ++ B ↔ Op.rename a.tmp a.path ∈ B := by
              simp [List.mem_append, rename_not_mem_other hta]
            have e2 : Op.chmod a.path a.mode ∈ jobOps j ++ B ↔ Op.chmod a.path a.mode ∈ B := by
              simp [List.mem_append, chmod_not_mem_other hpa]
            have hfa : exec fs (jobOps j) a.path = fs a.path := by rw [hfs', FS.set_other _ _ hpa]
            obtain ⟨f1, f2⟩ := ih1 a ha
            unfold FileFacts
            rw [exec_append, e1, ← hfa]
            simp only [e2]
            exact ⟨f1, f2⟩
        · intro q hq
          rw [exec_append, ih2 q (fun a ha => hq a (List.mem_cons_of_mem _ ha)), hfs',
            FS.set_other _ _ (hq j List.mem_cons_self).2]
      · -- the first file ends the run
        have : B = [] := by
          have : j.fault.isNone = false := by cases hj : j.fault <;> simp_all
          simp only [this] at hB
          exact List.prefix_nil.mp hB
        subst this
        rw [List.append_nil]
        exact facts_within_first wf (List.prefix_refl _)

end Jaq.C18
