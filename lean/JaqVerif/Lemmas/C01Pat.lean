/-
  C01 — destructuring patterns: `bindPat` (Sem, named scope) against `bindPatM` (Machine,
  positional environment) through the compiled pattern `Compiler::pattern`.
  * `toM e k ρ'`: the Machine environment that corresponds to a scope `ρ'` that has `k` pattern
    variables on top of a scope whose environment is `e` — the variables in binding order.
  * `pat_sim`: the streams of matches correspond position by position (prefix refinement).
  * `pat_rel`: every match extends the invariant `Rel` by exactly `Pattern::vars` in order.
  Key filters `(f): $v` are evaluated in the context *outside* the pattern (`σ`/`e`), on the value
  that the enclosing object pattern is matched against.
-/
import JaqVerif.Lemmas.C01Sim

namespace Jaq.Core
open Jaq

variable {α β γ : Type}

/-! ### more about outcomes -/

def mapO (g : α → β) (o : OutG α) : OutG β := ⟨o.vals.map g, o.stop⟩

theorem Pre.trans {a b c : OutG α} (h1 : Pre a b) (h2 : Pre b c) : Pre a c := by
  by_cases hs : a.stop = .fuel
  · obtain ⟨r, hr⟩ := h1.2 hs
    obtain ⟨q, hq⟩ := Pre.vals_prefix h2
    exact Pre.of_fuel hs (r ++ q) (by rw [hq, hr, List.append_assoc])
  · have := h1.1 hs; subst this; exact h2

theorem bind_map_left (g : α → β) (f : β → OutG γ) : ∀ (vs : List α) (s : Stop),
    OutG.bind (vs.map g) s f = OutG.bind vs s (fun a => f (g a))
  | [], s => rfl
  | v :: vs, s => by simp only [List.map_cons, OutG.bind, bind_map_left g f vs s]

theorem mapO_bind (g : β → γ) (f : α → OutG β) : ∀ (vs : List α) (s : Stop),
    mapO g (OutG.bind vs s f) = OutG.bind vs s (fun a => mapO g (f a))
  | [], s => rfl
  | v :: vs, s => by
    simp only [OutG.bind]
    have ih := mapO_bind g f vs s
    cases h : (f v).stop <;> simp only [mapO, h] at ih ⊢
    · simp only [List.map_append, OutG.mk.injEq, List.append_cancel_left_eq]
      exact ⟨congrArg OutG.vals ih, congrArg OutG.stop ih⟩
    all_goals rfl

theorem pre_bind_map {g : α → β} {f : α → OutG γ} {f' : β → OutG γ} {vs : List α} {s : Stop} {o' : OutG β}
    (hp : Pre (⟨vs.map g, s⟩ : OutG β) o') (hf : ∀ w ∈ vs, Pre (f w) (f' (g w))) :
    Pre (OutG.bind vs s f) (OutG.bind o'.vals o'.stop f') := by
  have h1 : Pre (OutG.bind vs s f) (OutG.bind vs s (fun a => f' (g a))) := pre_bind vs s vs s (Pre.rfl' _) hf
  rw [← bind_map_left g f'] at h1
  exact Pre.trans h1 (pre_bind _ _ _ _ hp (fun _ _ => Pre.rfl' _))

theorem mem_bind {f : α → OutG β} {b : β} : ∀ {vs : List α} {s : Stop}, b ∈ (OutG.bind vs s f).vals → ∃ w ∈ vs, b ∈ (f w).vals
  | [], s, h => by simp [OutG.bind] at h
  | v :: vs, s, h => by
    simp only [OutG.bind] at h
    cases hs : (f v).stop <;> simp only [hs] at h
    · rcases List.mem_append.mp h with h | h
      · exact ⟨v, by simp, h⟩
      · obtain ⟨w, hw, hb⟩ := mem_bind h
        exact ⟨w, by simp [hw], hb⟩
    all_goals exact ⟨v, by simp, h⟩

/-- the continuation after an index operation: its error ends the stream -/
def afterIdx (r : Except Err Val) (k : Val → OutG α) : OutG α :=
  match r with
  | .error e => .err e
  | .ok wi => k wi

theorem mapO_afterIdx (g : α → β) (r : Except Err Val) (k : Val → OutG α) :
    mapO g (afterIdx r k) = afterIdx r (fun wi => mapO g (k wi)) := by
  cases r <;> rfl

/-! ### equations of `bindPat` / `bindPatM` -/

theorem bindPat_var (ev0 : Term → Val → Out) (x : String) (w : Val) (acc : Env) :
    bindPat ev0 (.var x) w acc = .done [.var x w :: acc] := by rw [bindPat]
theorem bindPat_arr (ev0 : Term → Val → Out) (ps) (w : Val) (acc : Env) :
    bindPat ev0 (.arr ps) w acc = bindArr ev0 ps 0 w acc := by rw [bindPat]
theorem bindPat_obj (ev0 : Term → Val → Out) (kps) (w : Val) (acc : Env) :
    bindPat ev0 (.obj kps) w acc = bindObj ev0 kps w acc := by rw [bindPat]
theorem bindArr_nil (ev0 : Term → Val → Out) (i) (w : Val) (acc : Env) : bindArr ev0 [] i w acc = .done [acc] := by rw [bindArr]
theorem bindArr_cons (ev0 : Term → Val → Out) (p ps i) (w : Val) (acc : Env) : bindArr ev0 (p :: ps) i w acc =
    afterIdx (indexV w (.num (.int i))) (fun wi =>
      OutG.bind (bindPat ev0 p wi acc).vals (bindPat ev0 p wi acc).stop fun acc' => bindArr ev0 ps (i+1) w acc') := by
  rw [bindArr]; rfl
theorem bindObj_nil (ev0 : Term → Val → Out) (w : Val) (acc : Env) : bindObj ev0 [] w acc = .done [acc] := by rw [bindObj]
theorem bindObj_cons (ev0 : Term → Val → Out) (k p kps) (w : Val) (acc : Env) : bindObj ev0 ((k, p) :: kps) w acc =
    OutG.bind (ev0 k w).vals (ev0 k w).stop fun i => afterIdx (indexV w i) (fun wi =>
      OutG.bind (bindPat ev0 p wi acc).vals (bindPat ev0 p wi acc).stop fun acc' => bindObj ev0 kps w acc') := by
  rw [bindObj]; rfl

theorem bindPatM_var (rn0 : TermId → Val → Out) (w : Val) (acc : MEnv) :
    bindPatM rn0 .var w acc = .done [.val w :: acc] := by rw [bindPatM]
theorem bindPatM_idx (rn0 : TermId → Val → Out) (ps) (w : Val) (acc : MEnv) :
    bindPatM rn0 (.idx ps) w acc = bindPatsM rn0 ps w acc := by rw [bindPatM]
theorem bindPatsM_nil (rn0 : TermId → Val → Out) (w : Val) (acc : MEnv) : bindPatsM rn0 [] w acc = .done [acc] := by rw [bindPatsM]
theorem bindPatsM_cons (rn0 : TermId → Val → Out) (k p kps) (w : Val) (acc : MEnv) : bindPatsM rn0 ((k, p) :: kps) w acc =
    OutG.bind (rn0 k w).vals (rn0 k w).stop fun i => afterIdx (indexV w i) (fun wi =>
      OutG.bind (bindPatM rn0 p wi acc).vals (bindPatM rn0 p wi acc).stop fun acc' => bindPatsM rn0 kps w acc') := by
  rw [bindPatsM]; rfl

/-! ### the environment of a match -/

/-- the Machine environment of a scope that has `k` pattern variables on top of a scope whose
environment is `e` -/
def toM (e : MEnv) : Nat → Env → MEnv
  | 0, _ => e
  | _+1, [] => e
  | k+1, .var _ w :: r => .val w :: toM e k r
  | k+1, _ :: r => .lbl 0 :: toM e k r

theorem toM_zero (e : MEnv) (ρ : Env) : toM e 0 ρ = e := by cases ρ <;> rfl
theorem toM_var (e : MEnv) (k : Nat) (x : String) (w : Val) (r : Env) : toM e (k+1) (.var x w :: r) = .val w :: toM e k r := rfl

theorem pushVars_append (l : Locals) (a b : List String) : l.pushVars (a ++ b) = (l.pushVars a).pushVars b := by
  simp [Locals.pushVars, List.foldl_append]

theorem Pattern.vars_var (x : String) : (Pattern.var x).vars = [x] := by rw [Pattern.vars]
theorem Pattern.vars_arr (ps) : (Pattern.arr ps).vars = Pattern.varsList ps := by rw [Pattern.vars]
theorem Pattern.vars_obj (kps) : (Pattern.obj kps).vars = Pattern.varsObj kps := by rw [Pattern.vars]
theorem Pattern.varsList_nil : Pattern.varsList [] = [] := by rw [Pattern.varsList]
theorem Pattern.varsList_cons (p ps) : Pattern.varsList (p :: ps) = p.vars ++ Pattern.varsList ps := by rw [Pattern.varsList]
theorem Pattern.varsObj_nil : Pattern.varsObj [] = [] := by rw [Pattern.varsObj]
theorem Pattern.varsObj_cons (k p kps) : Pattern.varsObj ((k, p) :: kps) = p.vars ++ Pattern.varsObj kps := by rw [Pattern.varsObj]

/-! ### every match extends the invariant by `Pattern::vars`, in order -/

theorem pat_rel_aux {pe : Bool} {tabf : List CTerm} (ev0 : Term → Val → Out) (e : MEnv) :
    ∀ (M : Nat) (p : Pattern), sizeOf p < M → ∀ (w : Val) (acc : Env) (la : Locals) (j : Nat),
      Rel pe tabf acc la (toM e j acc) → ∀ ρ' ∈ (bindPat ev0 p w acc).vals,
      Rel pe tabf ρ' (la.pushVars p.vars) (toM e (j + p.vars.length) ρ') := by
  intro M
  induction M with
  | zero => intro p h; omega
  | succ M ihM =>
    intro p hM w acc la j hrel ρ' hρ
    cases p with
    | var x =>
      rw [bindPat_var] at hρ
      simp only [OutG.done, List.mem_singleton] at hρ
      subst hρ
      rw [Pattern.vars_var]
      exact Rel.v hrel
    | arr ps =>
      rw [bindPat_arr] at hρ
      rw [Pattern.vars_arr]
      simp at hM
      have : ∀ (ps' : List Pattern), sizeOf ps' ≤ sizeOf ps → ∀ (i : Nat) (acc : Env) (la : Locals) (j : Nat),
          Rel pe tabf acc la (toM e j acc) → ∀ ρ' ∈ (bindArr ev0 ps' i w acc).vals,
          Rel pe tabf ρ' (la.pushVars (Pattern.varsList ps')) (toM e (j + (Pattern.varsList ps').length) ρ') := by
        intro ps'
        induction ps' with
        | nil =>
          intro _ i acc la j hrel ρ' hρ
          rw [bindArr_nil] at hρ
          simp only [OutG.done, List.mem_singleton] at hρ
          subst hρ
          simpa [Pattern.varsList_nil, Locals.pushVars] using hrel
        | cons p' ps' ihp =>
          intro hsz i acc la j hrel ρ' hρ
          simp at hsz
          rw [bindArr_cons] at hρ
          cases hix : indexV w (.num (.int i)) with
          | error er => rw [hix] at hρ; simp [afterIdx, OutG.err] at hρ
          | ok wi =>
            rw [hix] at hρ
            simp only [afterIdx] at hρ
            obtain ⟨acc', hacc', hρ'⟩ := mem_bind hρ
            have h1 := ihM p' (by omega) wi acc la j hrel acc' hacc'
            have h2 := ihp (by omega) (i+1) acc' _ _ h1 ρ' hρ'
            rw [Pattern.varsList_cons, pushVars_append, List.length_append, ← Nat.add_assoc]
            exact h2
      exact this ps (Nat.le_refl _) 0 acc la j hrel ρ' hρ
    | obj kps =>
      rw [bindPat_obj] at hρ
      rw [Pattern.vars_obj]
      simp at hM
      have : ∀ (kps' : List (Term × Pattern)), sizeOf kps' ≤ sizeOf kps → ∀ (acc : Env) (la : Locals) (j : Nat),
          Rel pe tabf acc la (toM e j acc) → ∀ ρ' ∈ (bindObj ev0 kps' w acc).vals,
          Rel pe tabf ρ' (la.pushVars (Pattern.varsObj kps')) (toM e (j + (Pattern.varsObj kps').length) ρ') := by
        intro kps'
        induction kps' with
        | nil =>
          intro _ acc la j hrel ρ' hρ
          rw [bindObj_nil] at hρ
          simp only [OutG.done, List.mem_singleton] at hρ
          subst hρ
          simpa [Pattern.varsObj_nil, Locals.pushVars] using hrel
        | cons kp kps' ihp =>
          obtain ⟨k, p'⟩ := kp
          intro hsz acc la j hrel ρ' hρ
          simp at hsz
          rw [bindObj_cons] at hρ
          obtain ⟨iv, _, hρ⟩ := mem_bind hρ
          cases hix : indexV w iv with
          | error er => rw [hix] at hρ; simp [afterIdx, OutG.err] at hρ
          | ok wi =>
            rw [hix] at hρ
            simp only [afterIdx] at hρ
            obtain ⟨acc', hacc', hρ'⟩ := mem_bind hρ
            have h1 := ihM p' (by omega) wi acc la j hrel acc' hacc'
            have h2 := ihp (by omega) acc' _ _ h1 ρ' hρ'
            rw [Pattern.varsObj_cons, pushVars_append, List.length_append, ← Nat.add_assoc]
            exact h2
      exact this kps (Nat.le_refl _) acc la j hrel ρ' hρ

theorem pat_rel {pe : Bool} {tabf : List CTerm} (ev0 : Term → Val → Out) {σ : Env} {loc : Locals} {e : MEnv}
    (hrel : Rel pe tabf σ loc e) (p : Pattern) (w : Val) :
    ∀ ρ' ∈ (bindPat ev0 p w σ).vals, Rel pe tabf ρ' (loc.pushVars p.vars) (toM e p.vars.length ρ') := by
  intro ρ' hρ
  have := pat_rel_aux (pe := pe) (tabf := tabf) ev0 e (sizeOf p + 1) p (by omega) w σ loc 0
    (by rw [toM_zero]; exact hrel) ρ' hρ
  simpa using this

/-! ### the streams of matches correspond -/

theorem patternArr_extA' (cx loc) : ∀ (ps : List Pattern) (i : Nat) (st : St), Ext st (patternArr cx loc ps i st).2
  | [], i, st => by rw [patternArr_nil]; exact Ext.refl _
  | p :: ps, i, st => by
    rw [patternArr_cons]
    exact Ext.trans (Ext.insert _ _) (Ext.trans (pattern_extA _ _ _ _) (patternArr_extA' cx loc ps (i+1) _))
theorem patternObj_extA' (cx loc) : ∀ (kps : List (Term × Pattern)) (st : St), Ext st (patternObj cx loc kps st).2
  | [], st => by rw [patternObj_nil]; exact Ext.refl _
  | (k, p) :: kps, st => by
    rw [patternObj_cons]
    exact Ext.trans it_extA (Ext.trans (pattern_extA _ _ _ _) (patternObj_extA' cx loc kps _))


/-- key filters (and everything else evaluated in the context outside the pattern) are simulated -/
def KeySim (pe : Bool) (tabf : List CTerm) (n L : Nat) (σ : Env) (loc : Locals) (e : MEnv) : Prop :=
  ∀ (t : Term) (id : TermId), inFragment pe t = true → CompiledI pe tabf loc t id →
    ∀ w, ∃ m, ∀ m' ≥ m, Pre (eval n L σ t w) (run cfgF tabf m' L e id w)

/-- one position of an array / object pattern after the index operation: the sub-pattern, then
the remaining positions -/
theorem pat_step {e : MEnv} (r : Except Err Val) (j lp lr : Nat)
    (headS : Val → OutG Env) (headM : Nat → Val → OutG MEnv) (restS : Env → OutG Env) (restM : Nat → MEnv → OutG MEnv)
    (hhead : ∀ wi, ∃ m, ∀ m' ≥ m, Pre (mapO (toM e (j + lp)) (headS wi)) (headM m' wi))
    (hrest : ∀ acc', ∃ m, ∀ m' ≥ m, Pre (mapO (toM e (j + lp + lr)) (restS acc')) (restM m' (toM e (j + lp) acc'))) :
    ∃ m, ∀ m' ≥ m, Pre
      (mapO (toM e (j + (lp + lr))) (afterIdx r fun wi => OutG.bind (headS wi).vals (headS wi).stop restS))
      (afterIdx r fun wi => OutG.bind (headM m' wi).vals (headM m' wi).stop (restM m')) := by
  cases r with
  | error er => exact ⟨0, fun m' _ => Pre.rfl' _⟩
  | ok wi =>
    obtain ⟨m1, h1⟩ := hhead wi
    obtain ⟨m2, h2⟩ := uniform_fuel (P := fun m' acc' => Pre (mapO (toM e (j + lp + lr)) (restS acc')) (restM m' (toM e (j + lp) acc')))
      (headS wi).vals (fun acc' _ => hrest acc')
    refine ⟨max m1 m2, fun m' hm' => ?_⟩
    simp only [afterIdx]
    rw [mapO_bind, ← Nat.add_assoc]
    exact pre_bind_map (h1 m' (by omega)) (h2 m' (by omega))

theorem run_int {tabf : List CTerm} {id : TermId} {i : Int} (h : tabf[id]? = some (.int i)) (k L : Nat) (e : MEnv) (w : Val) :
    run cfgF tabf (k+1) L e id w = .done [.num (.int i)] := by
  rw [run_succ h]; rfl

theorem pat_sim_aux {pe : Bool} {tabf : List CTerm} {n L : Nat} {σ : Env} {loc : Locals} {e : MEnv}
    (hkey : KeySim pe tabf n L σ loc e) :
    ∀ (M : Nat) (p : Pattern), sizeOf p < M → inFragmentPat pe p = true → ∀ (st0 st3 : St) (k0 : Nat),
      Ext (pattern (cxMain pe) loc p st0).2 st3 → k0 ≤ st0.terms.length → AgreeFrom k0 st3.terms tabf →
      ∀ (w : Val) (acc : Env) (j : Nat), ∃ m, ∀ m' ≥ m,
        Pre (mapO (toM e (j + p.vars.length)) (bindPat (eval n L σ) p w acc))
          (bindPatM (run cfgF tabf m' L e) (pattern (cxMain pe) loc p st0).1 w (toM e j acc)) := by
  intro M
  induction M with
  | zero => intro p h; omega
  | succ M ihM =>
    intro p hM hfr st0 st3 k0 hl hk hag w acc j
    cases p with
    | var x =>
      refine ⟨0, fun m' _ => ?_⟩
      rw [bindPat_var, pattern_var, bindPatM_var, Pattern.vars_var]
      exact Pre.rfl' _
    | arr ps =>
      rw [pattern_arr] at hl
      simp only [pattern_arr, bindPat_arr, bindPatM_idx, Pattern.vars_arr]
      simp at hM
      simp only [inFragmentPat] at hfr
      have : ∀ (ps' : List Pattern), sizeOf ps' ≤ sizeOf ps → inFragmentPats pe ps' = true → ∀ (i : Nat) (st0 : St),
          Ext (patternArr (cxMain pe) loc ps' i st0).2 st3 → k0 ≤ st0.terms.length →
          ∀ (acc : Env) (j : Nat), ∃ m, ∀ m' ≥ m,
            Pre (mapO (toM e (j + (Pattern.varsList ps').length)) (bindArr (eval n L σ) ps' i w acc))
              (bindPatsM (run cfgF tabf m' L e) (patternArr (cxMain pe) loc ps' i st0).1 w (toM e j acc)) := by
        intro ps'
        induction ps' with
        | nil =>
          intro _ _ i st0 _ _ acc j
          refine ⟨0, fun m' _ => ?_⟩
          rw [bindArr_nil, patternArr_nil, bindPatsM_nil, Pattern.varsList_nil]
          exact Pre.rfl' _
        | cons p' ps' ihp =>
          intro hsz hfr i st0 hl hk acc j
          simp at hsz
          simp only [inFragmentPats, Bool.and_eq_true] at hfr
          rw [patternArr_cons] at hl
          simp only at hl
          have e1 : Ext (st0.insert (.int i)).2 (pattern (cxMain pe) loc p' (st0.insert (.int i)).2).2 := pattern_extA _ _ _ _
          have e2 := patternArr_extA' (cxMain pe) loc ps' (i+1) (pattern (cxMain pe) loc p' (st0.insert (.int i)).2).2
          have hlen0 : st0.terms.length < (st0.insert (.int i)).2.terms.length := by simp [St.insert]
          have htab : tabf[st0.terms.length]? = some (.int i) := by
            have hlt : st0.terms.length < st3.terms.length :=
              Nat.lt_of_lt_of_le hlen0 (Nat.le_trans e1.len (Nat.le_trans e2.len hl.len))
            rw [hag _ hk hlt, (Ext.trans e1 (Ext.trans e2 hl)).get hlen0]
            simp [St.insert]
          have hstep := pat_step (e := e) (indexV w (.num (.int i))) j p'.vars.length (Pattern.varsList ps').length
            (fun wi => bindPat (eval n L σ) p' wi acc)
            (fun m' wi => bindPatM (run cfgF tabf m' L e) (pattern (cxMain pe) loc p' (st0.insert (.int i)).2).1 wi (toM e j acc))
            (fun acc' => bindArr (eval n L σ) ps' (i+1) w acc')
            (fun m' ea' => bindPatsM (run cfgF tabf m' L e)
              (patternArr (cxMain pe) loc ps' (i+1) (pattern (cxMain pe) loc p' (st0.insert (.int i)).2).2).1 w ea')
            (fun wi => ihM p' (by omega) hfr.1 _ st3 k0 (Ext.trans e2 hl) (Nat.le_trans hk (Nat.le_of_lt hlen0)) hag wi acc j)
            (fun acc' => ihp (by omega) hfr.2 (i+1) _ hl (Nat.le_trans hk (Nat.le_trans (Nat.le_of_lt hlen0) e1.len)) acc' _)
          obtain ⟨m, hm⟩ := hstep
          refine ⟨m + 1, fun m' hm' => ?_⟩
          obtain ⟨k, rfl⟩ : ∃ k, m' = k + 1 := ⟨m' - 1, by omega⟩
          rw [bindArr_cons, patternArr_cons, bindPatsM_cons, Pattern.varsList_cons, List.length_append]
          rw [run_int htab, OutG.done, bind_singleton]
          exact hm (k+1) (by omega)
      exact this ps (Nat.le_refl _) hfr 0 st0 hl hk acc j
    | obj kps =>
      rw [pattern_obj] at hl
      simp only [pattern_obj, bindPat_obj, bindPatM_idx, Pattern.vars_obj]
      simp at hM
      simp only [inFragmentPat] at hfr
      have : ∀ (kps' : List (Term × Pattern)), sizeOf kps' ≤ sizeOf kps → inFragmentKPats pe kps' = true → ∀ (st0 : St),
          Ext (patternObj (cxMain pe) loc kps' st0).2 st3 → k0 ≤ st0.terms.length →
          ∀ (acc : Env) (j : Nat), ∃ m, ∀ m' ≥ m,
            Pre (mapO (toM e (j + (Pattern.varsObj kps').length)) (bindObj (eval n L σ) kps' w acc))
              (bindPatsM (run cfgF tabf m' L e) (patternObj (cxMain pe) loc kps' st0).1 w (toM e j acc)) := by
        intro kps'
        induction kps' with
        | nil =>
          intro _ _ st0 _ _ acc j
          refine ⟨0, fun m' _ => ?_⟩
          rw [bindObj_nil, patternObj_nil, bindPatsM_nil, Pattern.varsObj_nil]
          exact Pre.rfl' _
        | cons kp kps' ihp =>
          obtain ⟨k, p'⟩ := kp
          intro hsz hfr st0 hl hk acc j
          simp at hsz
          simp only [inFragmentKPats, Bool.and_eq_true] at hfr
          rw [patternObj_cons] at hl
          simp only at hl
          have e0 : Ext st0 (it (cxMain pe) loc [] k st0).2.2 := it_extA
          have e1 : Ext (it (cxMain pe) loc [] k st0).2.2 (pattern (cxMain pe) loc p' (it (cxMain pe) loc [] k st0).2.2).2 :=
            pattern_extA _ _ _ _
          have e2 := patternObj_extA' (cxMain pe) loc kps' (pattern (cxMain pe) loc p' (it (cxMain pe) loc [] k st0).2.2).2
          have hIk := compiledI_it (tabf := tabf) hfr.1.1 (Ext.trans e1 (Ext.trans e2 hl)) hk hag
          obtain ⟨m1, h1⟩ := hkey k _ hfr.1.1 hIk w
          have hstep := fun iv => pat_step (e := e) (indexV w iv) j p'.vars.length (Pattern.varsObj kps').length
            (fun wi => bindPat (eval n L σ) p' wi acc)
            (fun m' wi => bindPatM (run cfgF tabf m' L e) (pattern (cxMain pe) loc p' (it (cxMain pe) loc [] k st0).2.2).1 wi (toM e j acc))
            (fun acc' => bindObj (eval n L σ) kps' w acc')
            (fun m' ea' => bindPatsM (run cfgF tabf m' L e)
              (patternObj (cxMain pe) loc kps' (pattern (cxMain pe) loc p' (it (cxMain pe) loc [] k st0).2.2).2).1 w ea')
            (fun wi => ihM p' (by omega) hfr.1.2 _ st3 k0 (Ext.trans e2 hl) (Nat.le_trans hk e0.len) hag wi acc j)
            (fun acc' => ihp (by omega) hfr.2 _ hl (Nat.le_trans hk (Nat.le_trans e0.len e1.len)) acc' _)
          obtain ⟨m2, h2⟩ := uniform_fuel (P := fun m' iv => Pre
              (mapO (toM e (j + (p'.vars.length + (Pattern.varsObj kps').length))) (afterIdx (indexV w iv) fun wi =>
                OutG.bind (bindPat (eval n L σ) p' wi acc).vals (bindPat (eval n L σ) p' wi acc).stop
                  fun acc' => bindObj (eval n L σ) kps' w acc'))
              (afterIdx (indexV w iv) fun wi =>
                OutG.bind (bindPatM (run cfgF tabf m' L e) (pattern (cxMain pe) loc p' (it (cxMain pe) loc [] k st0).2.2).1 wi (toM e j acc)).vals
                  (bindPatM (run cfgF tabf m' L e) (pattern (cxMain pe) loc p' (it (cxMain pe) loc [] k st0).2.2).1 wi (toM e j acc)).stop
                  fun ea' => bindPatsM (run cfgF tabf m' L e)
                    (patternObj (cxMain pe) loc kps' (pattern (cxMain pe) loc p' (it (cxMain pe) loc [] k st0).2.2).2).1 w ea'))
            (eval n L σ k w).vals (fun iv _ => hstep iv)
          refine ⟨max m1 m2, fun m' hm' => ?_⟩
          rw [bindObj_cons, patternObj_cons, bindPatsM_cons, Pattern.varsObj_cons, List.length_append, mapO_bind]
          exact pre_bind' (h1 m' (by omega)) (h2 m' (by omega))
      exact this kps (Nat.le_refl _) hfr st0 hl hk acc j

/-- a pattern matched against `w` in the context `σ` / `e`: the matches correspond position by
position, each Machine environment being the pattern's variables (binding order) on top of `e` -/
theorem pat_sim {pe : Bool} {tabf : List CTerm} {n L : Nat} {σ : Env} {loc : Locals} {e : MEnv}
    (hkey : KeySim pe tabf n L σ loc e) (p : Pattern) (hfr : inFragmentPat pe p = true) (st0 st3 : St) (k0 : Nat)
    (hl : Ext (pattern (cxMain pe) loc p st0).2 st3) (hk : k0 ≤ st0.terms.length) (hag : AgreeFrom k0 st3.terms tabf) (w : Val) :
    ∃ m, ∀ m' ≥ m, Pre (mapO (toM e p.vars.length) (bindPat (eval n L σ) p w σ))
      (bindPatM (run cfgF tabf m' L e) (pattern (cxMain pe) loc p st0).1 w e) := by
  have := pat_sim_aux hkey (sizeOf p + 1) p (by omega) hfr st0 st3 k0 hl hk hag w σ 0
  simpa [toM_zero] using this

/-- `… as PATTERN | body`: the body runs once per match, in the extended scope / environment -/
theorem pat_bind_sim {pe : Bool} {tabf : List CTerm} {n L : Nat} {σ : Env} {loc : Locals} {e : MEnv}
    (hrel : Rel pe tabf σ loc e) (hkey : KeySim pe tabf n L σ loc e) (p : Pattern) (hfr : inFragmentPat pe p = true)
    (st0 st3 : St) (k0 : Nat)
    (hl : Ext (pattern (cxMain pe) loc p st0).2 st3) (hk : k0 ≤ st0.terms.length) (hag : AgreeFrom k0 st3.terms tabf)
    (k : Env → Out) (k' : Nat → MEnv → Out)
    (hcont : ∀ ρ' e', Rel pe tabf ρ' (loc.pushVars p.vars) e' → ∃ m, ∀ m' ≥ m, Pre (k ρ') (k' m' e')) (w : Val) :
    ∃ m, ∀ m' ≥ m, Pre
      (OutG.bind (bindPat (eval n L σ) p w σ).vals (bindPat (eval n L σ) p w σ).stop k)
      (OutG.bind (bindPatM (run cfgF tabf m' L e) (pattern (cxMain pe) loc p st0).1 w e).vals
        (bindPatM (run cfgF tabf m' L e) (pattern (cxMain pe) loc p st0).1 w e).stop (k' m')) := by
  obtain ⟨m1, h1⟩ := pat_sim hkey p hfr st0 st3 k0 hl hk hag w
  obtain ⟨m2, h2⟩ := uniform_fuel (P := fun m' ρ' => Pre (k ρ') (k' m' (toM e p.vars.length ρ')))
    (bindPat (eval n L σ) p w σ).vals (fun ρ' hρ => hcont ρ' _ (pat_rel _ hrel p w ρ' hρ))
  exact ⟨max m1 m2, fun m' hm' => pre_bind_map (h1 m' (by omega)) (h2 m' (by omega))⟩


end Jaq.Core
