/-
  C08 helper lemmas, part 10 (round 2): `contains` / `inside` on values without byte strings and
  without objects.
-/
import JaqVerif.Lemmas.C08Arr

namespace Jaq.C08
open Jaq

mutual
  /-- no byte string and no object inside the value (guard of `contains_congr_partial`) -/
  def plain : Val → Bool
    | .bstr _ => false
    | .obj _ => false
    | .arr a => plainL a
    | _ => true
  def plainL : List Val → Bool
    | [] => true
    | v :: vs => plain v && plainL vs
end

theorem plainL_iff : ∀ {a : List Val}, plainL a = true ↔ ∀ v ∈ a, plain v = true
  | [] => by simp [plainL]
  | v :: vs => by simp [plainL, plainL_iff (a := vs)]

theorem plain_arr {a : List Val} : plain (.arr a) = true ↔ ∀ v ∈ a, plain v = true := by
  rw [plain]; exact plainL_iff

section
variable {m : Mode}

theorem rank_eq_of_eqv {a a' : Val} (h : Eqv m a a') : a.rank = a'.rank := by
  by_cases hr : a.rank = a'.rank
  · exact hr
  · have := h.e; rw [eq_rank_ne hr] at this; cases this

/-- two `==` values without byte strings and objects: the same text string, two arrays that are
`==` element by element, or two scalars -/
theorem shape_of_eqv {a a' : Val} (h : Eqv m a a') (pa : plain a = true) (pa' : plain a' = true) :
    (∃ x, a = .tstr x ∧ a' = .tstr x) ∨
    (∃ x x', a = .arr x ∧ a' = .arr x' ∧ All2 (Eqv m) x x') ∨
    ((∀ x, a ≠ .tstr x) ∧ (∀ x, a ≠ .arr x) ∧ (∀ x, a' ≠ .tstr x) ∧ (∀ x, a' ≠ .arr x)) := by
  rcases same_rank_cases (rank_eq_of_eqv h) with ⟨rfl, rfl⟩ | ⟨x, y, rfl, rfl⟩ | ⟨x, y, rfl, rfl⟩ | ⟨x, y, hx, hy⟩ |
    ⟨x, y, rfl, rfl⟩ | ⟨x, y, rfl, rfl⟩
  · exact Or.inr (Or.inr ⟨(fun _ h => (nomatch h)), (fun _ h => (nomatch h)), (fun _ h => (nomatch h)), (fun _ h => (nomatch h))⟩)
  · exact Or.inr (Or.inr ⟨(fun _ h => (nomatch h)), (fun _ h => (nomatch h)), (fun _ h => (nomatch h)), (fun _ h => (nomatch h))⟩)
  · exact Or.inr (Or.inr ⟨(fun _ h => (nomatch h)), (fun _ h => (nomatch h)), (fun _ h => (nomatch h)), (fun _ h => (nomatch h))⟩)
  · left
    have he := h.e
    rw [eq_str hx hy, beq_iff_eq] at he
    subst he
    cases a <;> simp [str?, plain] at hx pa
    cases a' <;> simp [str?, plain] at hy pa'
    subst hx; subst hy
    exact ⟨_, rfl, rfl⟩
  · right; left
    obtain ⟨ys', hy', hall⟩ := eqv_arr h
    cases hy'
    exact ⟨x, y, rfl, rfl, hall⟩
  · simp [plain] at pa

theorem containsF_fallback (n : Nat) {a b : Val} (pa : plain a = true) (pb : plain b = true)
    (h : (∀ x, a ≠ .tstr x) ∨ (∀ y, b ≠ .tstr y)) (h' : (∀ x, a ≠ .arr x) ∨ (∀ y, b ≠ .arr y)) :
    containsF (n + 1) a b = eq a b := by
  cases a <;> cases b <;> simp [plain] at pa pb <;> first
    | rfl
    | (exfalso; rcases h with h | h <;> exact h _ rfl)
    | (exfalso; rcases h' with h' | h' <;> exact h' _ rfl)

/-- `contains` does not distinguish `==` values — without byte strings and objects -/
theorem containsF_congr : ∀ (n : Nat) (a a' b b' : Val), Eqv m a a' → Eqv m b b' →
    plain a = true → plain a' = true → plain b = true → plain b' = true →
    containsF n a b = containsF n a' b'
  | 0, _, _, _, _, _, _, _, _, _, _ => rfl
  | n + 1, a, a', b, b', ha, hb, pa, pa', pb, pb' => by
    have ih := containsF_congr n
    rcases shape_of_eqv ha pa pa' with ⟨x, rfl, rfl⟩ | ⟨x, x', rfl, rfl, hx⟩ | ⟨a1, a2, a3, a4⟩
    · rcases shape_of_eqv hb pb pb' with ⟨y, rfl, rfl⟩ | ⟨y, y', rfl, rfl, hy⟩ | ⟨b1, b2, b3, b4⟩
      · rfl
      · rw [containsF_fallback n pa pb (Or.inr (fun _ h => (nomatch h))) (Or.inl (fun _ h => (nomatch h))),
          containsF_fallback n pa' pb' (Or.inr (fun _ h => (nomatch h))) (Or.inl (fun _ h => (nomatch h)))]
        exact Eqv.eq_congr ha hb
      · rw [containsF_fallback n pa pb (Or.inr b1) (Or.inr b2),
          containsF_fallback n pa' pb' (Or.inr b3) (Or.inr b4)]
        exact Eqv.eq_congr ha hb
    · rcases shape_of_eqv hb pb pb' with ⟨y, rfl, rfl⟩ | ⟨y, y', rfl, rfl, hy⟩ | ⟨b1, b2, b3, b4⟩
      · rw [containsF_fallback n pa pb (Or.inl (fun _ h => (nomatch h))) (Or.inr (fun _ h => (nomatch h))),
          containsF_fallback n pa' pb' (Or.inl (fun _ h => (nomatch h))) (Or.inr (fun _ h => (nomatch h)))]
        exact Eqv.eq_congr ha hb
      · show (y.all fun r' => x.any fun l' => containsF n l' r') = (y'.all fun r' => x'.any fun l' => containsF n l' r')
        apply All2.all_eq
        refine All2.imp_of_mem ?_ hy
        intro r hr r' hr' hrr
        apply All2.any_eq
        refine All2.imp_of_mem ?_ hx
        intro l hl l' hl' hll
        exact ih l l' r r' hll hrr (plain_arr.1 pa l hl) (plain_arr.1 pa' l' hl')
          (plain_arr.1 pb r hr) (plain_arr.1 pb' r' hr')
      · rw [containsF_fallback n pa pb (Or.inr b1) (Or.inr b2),
          containsF_fallback n pa' pb' (Or.inr b3) (Or.inr b4)]
        exact Eqv.eq_congr ha hb
    · rw [containsF_fallback n pa pb (Or.inl a1) (Or.inl a2),
        containsF_fallback n pa' pb' (Or.inl a3) (Or.inl a4)]
      exact Eqv.eq_congr ha hb

theorem contains_congr_plain {a a' b b' : Val} (ha : Eqv m a a') (hb : Eqv m b b')
    (pa : plain a = true) (pa' : plain a' = true) (pb : plain b = true) (pb' : plain b' = true) :
    contains a b = contains a' b' := by
  unfold contains
  rw [← ha.size_eq, ← hb.size_eq]
  exact containsF_congr _ a a' b b' ha hb pa pa' pb pb'

end

end Jaq.C08
