/- Facts about the regenerated per-byte tables (`Gen/C13Tables.lean`), each decided by the kernel
   over all 256 entries (`decide +kernel`) — re-decided whenever the real code's tables change.
   (Split over four modules so that they are checked in parallel.) -/
import JaqVerif.C13.Consumers

namespace Jaq.C13

theorem forall_byte_of_fin (P : UInt8 → Bool) (h : ∀ i : Fin 256, P (UInt8.ofNat i.val) = true) (b : UInt8) :
    P b = true := by
  have := h ⟨b.toNat, b.toNat_lt⟩
  simpa using this

end Jaq.C13
