import JaqVerif.Lemmas.C18Done
namespace Jaq.C18

theorem staticWF_sound {jobs : List Job} (h : staticWF jobs = true) : StaticWF jobs := by
  simp only [staticWF, Bool.and_eq_true, decide_eq_true_eq, List.all_eq_true] at h
  obtain ⟨⟨⟨h1, h2⟩, h3⟩, h4⟩ := h
  exact ⟨h1, h2, fun a ha b hb => h3 a ha b hb, fun a ha => h4 a ha⟩

theorem fsWF_sound {fs0 : FS} {jobs : List Job} (h : fsWF fs0 jobs = true) :
    (∀ j ∈ jobs, fs0 j.tmp = none) ∧
    (∀ j ∈ jobs, ∃ c m, fs0 j.path = some (c, m) ∧ (j.reachesStat = true → j.mode = m)) := by
  simp only [fsWF, List.all_eq_true, Bool.and_eq_true] at h
  constructor
  · intro j hj
    have := (h j hj).1
    cases hx : fs0 j.tmp <;> simp_all
  · intro j hj
    have := (h j hj).2
    rcases hx : fs0 j.path with _ | ⟨c, m⟩
    · simp [hx] at this
    · refine ⟨c, m, rfl, fun hr => ?_⟩
      simp [hx, hr] at this
      exact this

theorem wf_of_checks {fs0 : FS} {jobs : List Job} (h1 : staticWF jobs = true) (h2 : fsWF fs0 jobs = true) :
    WF fs0 jobs :=
  { toStaticWF := staticWF_sound h1, tmp_fresh := (fsWF_sound h2).1, path_exists := (fsWF_sound h2).2 }

theorem acceptsPrefix_spec {ops : List Op} (h : acceptsPrefix ops = true) :
    staticWF (decode ops) = true ∧ ops <+: protocol (decode ops) := by
  unfold acceptsPrefix at h
  unfold decode
  cases hr : Mon.init.run ops with
  | none => simp [hr] at h
  | some s => simpa [hr] using h

theorem accepts_spec {ok : Bool} {ops : List Op} (h : accepts ok ops = true) :
    staticWF (decode ops) = true ∧ ops = protocol (decode ops) ∧
    (ok = true → ∀ j ∈ decode ops, j.fault = none) := by
  unfold accepts at h
  unfold decode
  cases hr : Mon.init.run ops with
  | none => simp [hr] at h
  | some s =>
    simp only [hr, Bool.and_eq_true, decide_eq_true_eq, Bool.or_eq_true, Bool.not_eq_true',
      List.all_eq_true] at h
    obtain ⟨⟨⟨_, h2⟩, h3⟩, h4⟩ := h
    refine ⟨h2, h3, fun hok j hj => ?_⟩
    rcases h4 with h4 | h4
    · simp [hok] at h4
    · have := h4 j hj
      cases hf : j.fault <;> simp_all

/-! concrete scenario used by the `example`s of `Props/C18.lean` -/
def exA : Path := ⟨"/d", "a.json"⟩
def exB : Path := ⟨"/d", "b.json"⟩
def exT1 : Path := ⟨"/d", "jaq1"⟩
def exT2 : Path := ⟨"/d", "jaq2"⟩
def exFs : FS := FS.ofList [(exA, [49, 10], 0o644), (exB, [50, 10], 0o444)]
def exJobs : List Job := [
  { path := exA, tmp := exT1, mode := 0o644, vals := [[[[50], [10]]]], fault := none },
  { path := exB, tmp := exT2, mode := 0o444, vals := [[[[51], [10]], [[52], [10]]]], fault := some (.filterErr 0 1) }]

end Jaq.C18
