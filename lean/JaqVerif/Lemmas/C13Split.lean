/- split / join, and the reassembly of a string from the unmatched parts and the matches. -/
import JaqVerif.Lemmas.C13Utf8
import JaqVerif.C13.Regex

namespace Jaq.C13
open Jaq

/-! ## joinWith -/

theorem joinWith_cons_cons (sep x y : Bytes) (r : List Bytes) :
    joinWith sep (x :: y :: r) = x ++ sep ++ joinWith sep (y :: r) := rfl

theorem joinWith_cons_of_ne_nil (sep x : Bytes) {t : List Bytes} (h : t ≠ []) :
    joinWith sep (x :: t) = x ++ sep ++ joinWith sep t := by
  cases t with
  | nil => exact absurd rfl h
  | cons y r => rfl

theorem joinWith_nil_sep (xs : List Bytes) : joinWith [] xs = xs.flatten := by
  induction xs with
  | nil => rfl
  | cons x t ih =>
    cases t with
    | nil => simp [joinWith]
    | cons y r =>
      rw [joinWith_cons_cons, ih]
      simp

/-! ## split_str -/

theorem splitStrF_ne_nil (sep : Bytes) : ∀ (n : Nat) (cur s : Bytes), splitStrF sep n cur s ≠ [] := by
  intro n
  induction n with
  | zero => intro cur s; simp [splitStrF]
  | succ n ih =>
    intro cur s
    cases s with
    | nil => simp [splitStrF]
    | cons b rest =>
      simp only [splitStrF]
      split
      · simp
      · exact ih _ _

theorem eq_append_of_isPrefixOf {p s : Bytes} (h : p.isPrefixOf s = true) : s = p ++ s.drop p.length := by
  have := List.isPrefixOf_iff_prefix.mp h
  obtain ⟨t, ht⟩ := this
  subst ht
  simp

theorem join_splitStrF (sep : Bytes) (hsep : sep ≠ []) : ∀ (n : Nat) (cur s : Bytes), s.length < n →
    joinWith sep (splitStrF sep n cur s) = cur.reverse ++ s := by
  intro n
  induction n with
  | zero => intro cur s h; omega
  | succ n ih =>
    intro cur s h
    cases s with
    | nil => simp [splitStrF, joinWith]
    | cons b rest =>
      simp only [splitStrF]
      split
      · rename_i hp
        have hlen : 1 ≤ sep.length := by
          cases sep with
          | nil => exact absurd rfl hsep
          | cons _ _ => simp
        rw [joinWith_cons_of_ne_nil _ _ (splitStrF_ne_nil sep n [] _)]
        rw [ih [] _ (by simp only [List.length_drop, List.length_cons] at *; omega)]
        have hs := eq_append_of_isPrefixOf (p := sep) (s := b :: rest) hp
        simp only [List.reverse_nil, List.nil_append, List.append_assoc]
        rw [← hs]
      · rw [ih (b :: cur) rest (by simp only [List.length_cons] at h; omega)]
        simp

/-- `split($x) | join($x)` is the identity for EVERY string and EVERY separator (also the empty
one, which splits into characters, and also on the empty string, which splits into `[]`) -/
theorem join_split_all (s sep : Bytes) : joinBytes sep (splitBytes s sep) = s := by
  unfold joinBytes splitBytes
  by_cases hs : s.isEmpty = true
  · rw [if_pos hs]
    have : s = [] := by simpa using hs
    subst this; rfl
  · rw [if_neg hs]
    by_cases hp : sep.isEmpty = true
    · rw [if_pos hp]
      have : sep = [] := by simpa using hp
      subst this
      rw [joinWith_nil_sep]
      exact chars_flatten s
    · rw [if_neg hp]
      have hne : sep ≠ [] := by simpa using hp
      have := join_splitStrF sep hne (s.length + 1) [] s (by omega)
      simpa using this

/-! ## reassembly from the parts of `regex()` -/

/-- the bytes a part stands for: an unmatched piece, or the whole match (first `Match`) -/
def Part.text : Part → Bytes
  | .mismatch s => s
  | .matches (m :: _) => m.string
  | .matches [] => []

/-- the engine's matches are ordered and do not overlap: every whole match starts at or after the
end of the previous one -/
def capsOrdered (len : Nat) : Nat → List (List Cap) → Prop
  | _, [] => True
  | _, [] :: _ => False
  | last, (whole :: _) :: rest => last ≤ whole.start ∧ whole.start ≤ whole.stop ∧ whole.stop ≤ len ∧ capsOrdered len whole.stop rest

theorem capsOrdered_mono {len : Nat} : ∀ (caps : List (List Cap)) {a b : Nat}, a ≤ b → capsOrdered len b caps → capsOrdered len a caps := by
  intro caps a b hab h
  cases caps with
  | nil => trivial
  | cons c rest =>
    cases c with
    | nil => exact h
    | cons whole gs =>
      obtain ⟨h1, h2, h3, h4⟩ := h
      exact ⟨by omega, h2, h3, h4⟩

theorem drop_take_drop (s : Bytes) {a b : Nat} (hab : a ≤ b) :
    (s.drop a).take (b - a) ++ s.drop b = s.drop a := by
  have : s.drop b = (s.drop a).drop (b - a) := by
    rw [List.drop_drop]; congr 1; omega
  rw [this, List.take_append_drop]

theorem matchesOf_head {s : Bytes} {bc bc' : ByteChar} {whole : Cap} {gs : List Cap} {ms : List RMatch}
    (h : matchesOf s bc (whole :: gs) = (some ms, bc')) :
    ∃ m rest, ms = m :: rest ∧ m.string = (s.drop whole.start).take (whole.stop - whole.start) := by
  simp only [matchesOf] at h
  generalize hm : matchNew s bc whole = r at h
  obtain ⟨o, bc1⟩ := r
  cases o with
  | none => simp at h
  | some m =>
    simp only at h
    generalize hr : matchesOf s bc1 gs = r2 at h
    obtain ⟨o2, bc2⟩ := r2
    cases o2 with
    | none => simp at h
    | some ms' =>
      simp only [Prod.mk.injEq, Option.some.injEq] at h
      refine ⟨m, ms', h.1.symm, ?_⟩
      simp only [matchNew] at hm
      generalize hc : charOfByteStateful bc whole.start = cb at hm
      obtain ⟨oo, _⟩ := cb
      cases oo with
      | none => simp at hm
      | some off =>
        simp only [Option.map_some, Prod.mk.injEq, Option.some.injEq] at hm
        rw [← hm.1]

/-- the unmatched parts interleaved with the matches reassemble the rest of the subject
(`split_matches`: `mi = ma = true`), for every flag combination -/
theorem regexLoop_reassemble (s : Bytes) (g n : Bool) :
    ∀ (caps : List (List Cap)) (bc : ByteChar) (last : Nat) (parts : List Part),
      capsOrdered s.length last caps →
      regexLoop s g n true true bc last caps = some parts →
      (parts.map Part.text).flatten = s.drop last := by
  intro caps
  induction caps with
  | nil =>
    intro bc last parts _ h
    simp only [regexLoop, if_true, Option.some.injEq] at h
    subst h
    simp [Part.text]
  | cons c rest ih =>
    intro bc last parts hord h
    cases c with
    | nil => exact absurd hord (by simp [capsOrdered])
    | cons whole gs =>
      obtain ⟨h1, h2, h3, h4⟩ := hord
      simp only [regexLoop] at h
      by_cases hskip : (n = true ∧ whole.start = whole.stop)
      · rw [if_pos hskip] at h
        exact ih bc last parts (capsOrdered_mono rest (by omega) h4) h
      · rw [if_neg hskip] at h
        simp only [if_true] at h
        generalize hmo : matchesOf s bc (whole :: gs) = r at h
        obtain ⟨o, bc'⟩ := r
        cases o with
        | none => simp at h
        | some ms =>
          obtain ⟨m, mrest, hms, hstr⟩ := matchesOf_head hmo
          simp only at h
          by_cases hg : g = true
          · simp only [hg, if_true, Option.map_eq_some_iff] at h
            obtain ⟨t, ht, hp⟩ := h
            have iht := ih bc' whole.stop t h4 (by simpa [hg] using ht)
            subst hp
            simp only [List.map_append, List.map_cons, List.map_nil, List.flatten_append, List.flatten_cons, List.flatten_nil,
              List.append_nil, Part.text, hms, hstr, iht]
            rw [List.append_assoc, drop_take_drop s h2, drop_take_drop s h1]
          · have hg' : g = false := by simpa using hg
            simp only [hg', Bool.false_eq_true, if_false, Option.map_some, Option.some.injEq] at h
            subst h
            simp only [List.map_append, List.map_cons, List.map_nil, List.flatten_append, List.flatten_cons, List.flatten_nil,
              List.append_nil, Part.text, hms, hstr]
            rw [List.append_assoc, drop_take_drop s h2, drop_take_drop s h1]

end Jaq.C13
