/- C04 — round 2: lemmas about nested `Stack`s and the `,` adapters (see Props/C04.lean). -/
import JaqVerif.C04.Nest
import JaqVerif.Lemmas.C04Stack

namespace Jaq.C04

variable {I X : Type}

/-- on iterators satisfying `P`: the residual of an iterator that has just yielded a tail call (an
item the catch function takes) reports `size_hint() == (0, Some(0))`.  Weaker than
`HintExact S ∧ Linear S f` (which imply it with `P = True`): nothing is asked of other items. -/
def TailLastOn (P : I → Prop) (S : Iter I X) (f : X → Flow X I) : Prop :=
  ∀ it x it' c, P it → S.next it = some (x, it') → f x = .cont c → S.hintZero it' = true

theorem tailLast_of_exact_linear (S : Iter I X) (f : X → Flow X I) (hx : HintExact S) (hl : Linear S f) :
    TailLastOn (fun _ => True) S f :=
  fun it x it' c _ hn hf => (hx _).mpr (hl it x it' c hn hf)

theorem turn_tailLast_len (P : I → Prop) (S : Iter I X) (f : X → Flow X I) (ht : TailLastOn P S f)
    (st : List I) (hP : ∀ it ∈ st, P it) (h : st.length ≤ 1) : (Stack.turn S f st).st.length ≤ 1 := by
  cases st with
  | nil => simp [turn_nil, Step.st]
  | cons top rest =>
    have hr : rest = [] := by
      cases rest with
      | nil => rfl
      | cons a b => simp at h
    subst hr
    cases hn : S.next top with
    | none => rw [turn_none S f [] hn]; simp [Step.st]
    | some p =>
      obtain ⟨x, top'⟩ := p
      cases hf : f x with
      | brk y => rw [turn_brk S f [] hn hf]; simp only [Step.st, keep]; split <;> simp
      | cont c =>
        have hz : S.hintZero top' = true := ht _ _ _ _ (hP top (List.mem_cons_self ..)) hn hf
        rw [turn_cont S f [] hn hf]; simp [Step.st, keep, hz]

theorem reach_tailLast (P : I → Prop) (S : Iter I X) (f : X → Flow X I)
    (hres : ∀ it x it', S.next it = some (x, it') → P it → P it') (hcont : ∀ x c, f x = .cont c → P c)
    (ht : TailLastOn P S f) (a b : List I) (hPa : ∀ it ∈ a, P it) (ha : a.length ≤ 1)
    (h : Stack.Reach S f a b) : b.length ≤ 1 ∧ ∀ it ∈ b, P it := by
  induction h with
  | refl => exact ⟨ha, hPa⟩
  | step _ ih => exact ⟨turn_tailLast_len P S f ht _ ih.2 ih.1, turn_closed S f P hres hcont _ ih.2⟩

/-! ### a `Stack` of `Stack`s -/

/-- an item that the inner or the outer catch function takes is followed by `(0, Some(0))` -/
def MutTailLast (S : Iter I X) (fi : X → Flow X I) (fo : X → Flow X (List I)) : Prop :=
  ∀ it x it', S.next it = some (x, it') →
    ((∃ c, fi x = .cont c) ∨ (∃ y c, fi x = .brk y ∧ fo y = .cont c)) → S.hintZero it' = true

/-- the outer stack and every inner stack hold at most one iterator -/
def NestOk (os : List (List I)) : Prop := os.length ≤ 1 ∧ ∀ st ∈ os, st.length ≤ 1

theorem next_inner (S : Iter I X) (fi : X → Flow X I) (fo : X → Flow X (List I)) (hm : MutTailLast S fi fo)
    {st : List I} {r : Option X} {st' : List I} (h : Stack.Next S fi st r st') (hlen : st.length ≤ 1) :
    st'.length ≤ 1 ∧ ∀ y c, r = some y → fo y = .cont c → st' = [] := by
  induction h with
  | @done st r st' ht =>
    cases st with
    | nil =>
      rw [turn_nil] at ht
      simp only [Step.done.injEq] at ht
      obtain ⟨h1, h2⟩ := ht
      subst h1; subst h2
      exact ⟨by simp, by intro y c hy; simp at hy⟩
    | cons top rest =>
      have hr : rest = [] := by
        cases rest with
        | nil => rfl
        | cons a b => simp at hlen
      subst hr
      cases hn : S.next top with
      | none => rw [turn_none S fi [] hn] at ht; simp at ht
      | some p =>
        obtain ⟨x, top'⟩ := p
        cases hf : fi x with
        | cont c => rw [turn_cont S fi [] hn hf] at ht; simp at ht
        | brk y =>
          rw [turn_brk S fi [] hn hf] at ht
          simp only [Step.done.injEq] at ht
          obtain ⟨h1, h2⟩ := ht
          subst h1; subst h2
          refine ⟨by unfold keep; split <;> simp, ?_⟩
          intro y' c hy hfo
          simp only [Option.some.injEq] at hy
          subst hy
          have hz := hm top x top' hn (Or.inr ⟨y, c, hf, hfo⟩)
          simp [keep, hz]
  | @again st st1 r st' ht _ ih =>
    have hP : TailLastOn (fun _ => True) S fi := fun it x it' c _ hn hf => hm it x it' hn (Or.inl ⟨c, hf⟩)
    have := turn_tailLast_len (fun _ => True) S fi hP st (fun _ _ => trivial) hlen
    rw [ht] at this
    exact ih this

theorem nest_turn_ok (S : Iter I X) (fi : X → Flow X I) (fo : X → Flow X (List I)) (hm : MutTailLast S fi fo)
    (hnew : ∀ x c, fo x = .cont c → c.length ≤ 1) {os : List (List I)} {r : Step (Option X) (List (List I))}
    (hok : NestOk os) (ht : Nest.Turn S fi fo Stack.hintZero os r) : NestOk r.st := by
  cases ht with
  | nil => exact ⟨by simp [Step.st], by intro st hst; simp [Step.st] at hst⟩
  | @exhausted top top' rest hnx =>
    have hr : rest = [] := by
      cases rest with
      | nil => rfl
      | cons a b => have := hok.1; simp at this
    subst hr
    exact ⟨by simp [Step.st], by intro st hst; simp [Step.st] at hst⟩
  | @brk top top' rest x y hnx hfo =>
    have hr : rest = [] := by
      cases rest with
      | nil => rfl
      | cons a b => have := hok.1; simp at this
    subst hr
    have hin := next_inner S fi fo hm hnx (hok.2 top (List.mem_cons_self ..))
    simp only [Step.st]
    split
    · exact ⟨by simp, by intro st hst; simp at hst⟩
    · refine ⟨by simp, ?_⟩
      intro st hst
      simp only [List.mem_singleton] at hst
      subst hst; exact hin.1
  | @cont top top' c rest x hnx hfo =>
    have hr : rest = [] := by
      cases rest with
      | nil => rfl
      | cons a b => have := hok.1; simp at this
    subst hr
    have hin := next_inner S fi fo hm hnx (hok.2 top (List.mem_cons_self ..))
    have he : top' = [] := hin.2 x c rfl hfo
    subst he
    simp only [Step.st, Stack.hintZero, List.isEmpty_nil, if_true]
    refine ⟨by simp, ?_⟩
    intro st hst
    simp only [List.mem_singleton] at hst
    subst hst; exact hnew x _ hfo

/-! ### the code before be431db: one dead inner `Stack` per round -/

/-- an iterator that yields one tail call to the parent and is then exhausted (exact hint) -/
def oneShot : Iter Bool Unit where
  next b := if b then some ((), false) else none
  hintZero b := !b

theorem unrepaired_grows (n : Nat) :
    Nest.Reach oneShot (fun _ => Flow.brk ()) (fun _ => Flow.cont [true]) (fun _ => false)
      [[true]] ([true] :: List.replicate n []) := by
  induction n with
  | zero => exact .refl _
  | succ n ih =>
    have hnx : Stack.Next oneShot (fun _ => Flow.brk ()) [true] (some ()) [] := .done rfl
    have ht := Nest.Turn.cont (S := oneShot) (fi := fun _ => Flow.brk ()) (fo := fun _ => Flow.cont [true])
      (hint := fun _ => false) (rest := List.replicate n []) (c := [true]) hnx rfl
    have := Nest.Reach.step ih ht
    simpa [Step.st, List.replicate_succ] using this

/-! ### adapters -/

theorem Ad.noTail_next : ∀ (a : Ad) (x : Script.Item) (a' : Ad), a.NoTail → a.next = some (x, a') →
    x.isTail = false ∧ a'.NoTail
  | .once (some y), x, a', h, hn => by
    simp only [Ad.next, Option.some.injEq, Prod.mk.injEq] at hn
    obtain ⟨h1, h2⟩ := hn
    subst h1; subst h2
    exact ⟨h, trivial⟩
  | .once none, x, a', _, hn => by simp [Ad.next] at hn
  | .chainAB a b, x, a', h, hn => by
    simp only [Ad.next] at hn
    cases ha : a.next with
    | some p =>
      obtain ⟨y, a2⟩ := p
      rw [ha] at hn
      simp only [Option.some.injEq, Prod.mk.injEq] at hn
      obtain ⟨h1, h2⟩ := hn
      subst h1; subst h2
      have := Ad.noTail_next a y a2 h.1 ha
      exact ⟨this.1, this.2, h.2⟩
    | none =>
      rw [ha] at hn
      cases hb : b.next with
      | some p =>
        obtain ⟨y, b2⟩ := p
        rw [hb] at hn
        simp only [Option.some.injEq, Prod.mk.injEq] at hn
        obtain ⟨h1, h2⟩ := hn
        subst h1; subst h2
        exact Ad.noTail_next b y b2 h.2 hb
      | none => rw [hb] at hn; simp at hn
  | .chainB b, x, a', h, hn => by
    simp only [Ad.next] at hn
    cases hb : b.next with
    | some p =>
      obtain ⟨y, b2⟩ := p
      rw [hb] at hn
      simp only [Option.some.injEq, Prod.mk.injEq] at hn
      obtain ⟨h1, h2⟩ := hn
      subst h1; subst h2
      exact Ad.noTail_next b y b2 h hb
    | none => rw [hb] at hn; simp at hn
  | .lazyU s, x, a', h, hn => by
    simp only [Ad.next] at hn
    cases hb : s.next with
    | some p =>
      obtain ⟨y, b2⟩ := p
      rw [hb] at hn
      simp only [Option.some.injEq, Prod.mk.injEq] at hn
      obtain ⟨h1, h2⟩ := hn
      subst h1; subst h2
      exact Ad.noTail_next s y b2 h hb
    | none => rw [hb] at hn; simp at hn
  | .lazyF s, x, a', h, hn => by
    simp only [Ad.next] at hn
    cases hb : s.next with
    | some p =>
      obtain ⟨y, b2⟩ := p
      rw [hb] at hn
      simp only [Option.some.injEq, Prod.mk.injEq] at hn
      obtain ⟨h1, h2⟩ := hn
      subst h1; subst h2
      exact Ad.noTail_next s y b2 h hb
    | none => rw [hb] at hn; simp at hn
  | .lazyDone, x, a', _, hn => by simp [Ad.next] at hn

/-- `size_hint() == (0, Some(0))` is never reported by an adapter that still has an item: the
trampoline drops only exhausted iterators -/
theorem Ad.hint_sound : ∀ (a : Ad), a.hintZero = true → a.next = none
  | .once (some y), h => by simp [Ad.hintZero] at h
  | .once none, _ => rfl
  | .chainAB a b, h => by
    simp only [Ad.hintZero, Bool.and_eq_true] at h
    simp only [Ad.next, Ad.hint_sound a h.1, Ad.hint_sound b h.2]
  | .chainB b, h => by
    simp only [Ad.hintZero] at h
    simp only [Ad.next, Ad.hint_sound b h]
  | .lazyU s, h => by simp [Ad.hintZero] at h
  | .lazyF s, h => by
    simp only [Ad.hintZero] at h
    simp only [Ad.next, Ad.hint_sound s h]
  | .lazyDone, _ => rfl

/-- in a tail-position shape the residual after a tail call reports `(0, Some(0))`, and the shape
is kept by `next` -/
theorem Ad.tailShape_next : ∀ (a : Ad) (x : Script.Item) (a' : Ad), a.TailShape → a.next = some (x, a') →
    a'.TailShape ∧ (x.isTail = true → a'.hintZero = true)
  | .once (some y), x, a', _, hn => by
    simp only [Ad.next, Option.some.injEq, Prod.mk.injEq] at hn
    obtain ⟨h1, h2⟩ := hn
    subst h1; subst h2
    exact ⟨trivial, fun _ => rfl⟩
  | .once none, x, a', _, hn => by simp [Ad.next] at hn
  | .chainAB a b, x, a', h, hn => by
    simp only [Ad.next] at hn
    cases ha : a.next with
    | some p =>
      obtain ⟨y, a2⟩ := p
      rw [ha] at hn
      simp only [Option.some.injEq, Prod.mk.injEq] at hn
      obtain ⟨h1, h2⟩ := hn
      subst h1; subst h2
      have := Ad.noTail_next a y a2 h.1 ha
      exact ⟨⟨this.2, h.2⟩, fun ht => by rw [this.1] at ht; simp at ht⟩
    | none =>
      rw [ha] at hn
      cases hb : b.next with
      | some p =>
        obtain ⟨y, b2⟩ := p
        rw [hb] at hn
        simp only [Option.some.injEq, Prod.mk.injEq] at hn
        obtain ⟨h1, h2⟩ := hn
        subst h1; subst h2
        exact Ad.tailShape_next b y b2 h.2 hb
      | none => rw [hb] at hn; simp at hn
  | .chainB b, x, a', h, hn => by
    simp only [Ad.next] at hn
    cases hb : b.next with
    | some p =>
      obtain ⟨y, b2⟩ := p
      rw [hb] at hn
      simp only [Option.some.injEq, Prod.mk.injEq] at hn
      obtain ⟨h1, h2⟩ := hn
      subst h1; subst h2
      exact Ad.tailShape_next b y b2 h hb
    | none => rw [hb] at hn; simp at hn
  | .lazyU s, x, a', h, hn => by
    simp only [Ad.next] at hn
    cases hb : s.next with
    | some p =>
      obtain ⟨y, b2⟩ := p
      rw [hb] at hn
      simp only [Option.some.injEq, Prod.mk.injEq] at hn
      obtain ⟨h1, h2⟩ := hn
      subst h1; subst h2
      exact Ad.tailShape_next s y b2 h hb
    | none => rw [hb] at hn; simp at hn
  | .lazyF s, x, a', h, hn => by
    simp only [Ad.next] at hn
    cases hb : s.next with
    | some p =>
      obtain ⟨y, b2⟩ := p
      rw [hb] at hn
      simp only [Option.some.injEq, Prod.mk.injEq] at hn
      obtain ⟨h1, h2⟩ := hn
      subst h1; subst h2
      exact Ad.tailShape_next s y b2 h hb
    | none => rw [hb] at hn; simp at hn
  | .lazyDone, x, a', _, hn => by simp [Ad.next] at hn

end Jaq.C04
