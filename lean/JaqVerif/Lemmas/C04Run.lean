/- C04 — `throw_always_caught`: the `Tr` annotations of the finished table bound what every entry
may throw at run time (`MayThrow`), see Props/C04.lean. -/
import JaqVerif.C04.Run
import JaqVerif.Lemmas.C04TailNest

namespace Jaq.C04

/-- the table holds an entry `id` annotated with exactly `tr` -/
def HasTr (out : List Entry) (id : Nat) (tr : Tr) : Prop := ∃ e ∈ out, e.id = id ∧ e.tr = tr

/-- the table holds an entry `id` whose annotation is within `tr` -/
def Sub (out : List Entry) (id : Nat) (tr : Tr) : Prop := ∃ e ∈ out, e.id = id ∧ ∀ x ∈ e.tr, x ∈ tr

theorem HasTr.sub {out id tr tr'} (h : HasTr out id tr) (ht : ∀ x ∈ tr, x ∈ tr') : Sub out id tr' := by
  obtain ⟨e, he, h1, h2⟩ := h
  exact ⟨e, he, h1, by rw [h2]; exact ht⟩

theorem HasTr.mono {out out' id tr} (h : HasTr out id tr) (hs : ∀ e ∈ out, e ∈ out') : HasTr out' id tr := by
  obtain ⟨e, he, h1, h2⟩ := h
  exact ⟨e, hs e he, h1, h2⟩

theorem Sub.mono {out out' id tr} (h : Sub out id tr) (hs : ∀ e ∈ out, e ∈ out') : Sub out' id tr := by
  obtain ⟨e, he, h1, h2⟩ := h
  exact ⟨e, hs e he, h1, h2⟩

/-- what the classification of a call promises about the callee's body -/
def CallOk (out : List Entry) : CT → Tr → Prop
  | .callDef id _ _ .throw, tr => id ∈ tr
  | .callDef id _ _ .inline, tr => Sub out id tr
  | .callDef id _ _ .catchOne, tr => Sub out id (id :: tr)
  | _, _ => True

/-- local consistency of one entry `(ct, tr)` with the annotations of the entries it refers to -/
structure GoodCT (out : List Entry) (c : CT) (tr : Tr) : Prop where
  nt : ∀ k ∈ c.nonTailKids, Sub out k []
  tl : ∀ k ∈ c.tailKids, Sub out k tr
  call : CallOk out c tr

theorem CallOk.mono {out out' c tr} (h : CallOk out c tr) (hs : ∀ e ∈ out, e ∈ out') : CallOk out' c tr := by
  unfold CallOk at h ⊢
  split <;> simp_all
  all_goals (first | exact Sub.mono (by assumption) hs | skip)
  all_goals simp_all [CallOk]

theorem GoodCT.mono {out out' c tr} (h : GoodCT out c tr) (hs : ∀ e ∈ out, e ∈ out') : GoodCT out' c tr :=
  ⟨fun k hk => (h.nt k hk).mono hs, fun k hk => (h.tl k hk).mono hs, h.call.mono hs⟩

/-- invariant of the table under construction -/
structure Inv (s : St) : Prop where
  nodup : (s.out.map (·.id)).Nodup
  lt : ∀ e ∈ s.out, e.id < s.next
  good : ∀ e ∈ s.out, GoodCT s.out e.ct e.tr

/-- the table only grows, by entries with fresh ids (append-only frame property) -/
structure Grow (s s' : St) : Prop where
  ext : ∃ new, s'.out = new ++ s.out ∧ ∀ e ∈ new, s.next ≤ e.id
  le : s.next ≤ s'.next

theorem Grow.refl (s : St) : Grow s s := ⟨⟨[], rfl, by simp⟩, Nat.le_refl _⟩

theorem Grow.trans {a b c : St} (h1 : Grow a b) (h2 : Grow b c) : Grow a c := by
  obtain ⟨n1, e1, f1⟩ := h1.ext
  obtain ⟨n2, e2, f2⟩ := h2.ext
  refine ⟨⟨n2 ++ n1, by rw [e2, e1, List.append_assoc], ?_⟩, Nat.le_trans h1.le h2.le⟩
  intro e he
  rcases List.mem_append.mp he with h | h
  · exact Nat.le_trans h1.le (f2 e h)
  · exact f1 e h

theorem Grow.mem {s s' : St} (h : Grow s s') : ∀ e ∈ s.out, e ∈ s'.out := by
  obtain ⟨n, e1, _⟩ := h.ext
  intro e he; rw [e1]; exact List.mem_append_right _ he

theorem Grow.of_bump {s s' : St} (h : Grow s.bump s') : Grow s s' := by
  obtain ⟨n, e1, f1⟩ := h.ext
  refine ⟨⟨n, e1, fun e he => ?_⟩, ?_⟩
  · have := f1 e he; simp only [bump_next] at this; omega
  · have := h.le; simp only [bump_next] at this; omega

theorem Inv.bump {s : St} (h : Inv s) : Inv s.bump :=
  ⟨h.nodup, fun e he => by have := h.lt e he; simp only [bump_next]; omega, h.good⟩

theorem inv_emit {s : St} {id : Nat} {c : CT} {tr : Tr} (h : Inv s) (hlt : id < s.next)
    (hfresh : ∀ e ∈ s.out, e.id ≠ id) (hg : GoodCT s.out c tr) : Inv (s.emit id c tr) := by
  have hs : ∀ e ∈ s.out, e ∈ (s.emit id c tr).out := fun e he => by
    simp only [emit_out]; exact List.mem_cons_of_mem _ he
  refine ⟨?_, ?_, ?_⟩
  · simp only [emit_out, List.map_cons, List.nodup_cons]
    refine ⟨?_, h.nodup⟩
    intro hm
    obtain ⟨e, he, heq⟩ := List.mem_map.mp hm
    exact hfresh e he heq
  · intro e he
    simp only [emit_out, List.mem_cons] at he
    rcases he with rfl | he
    · exact hlt
    · exact h.lt e he
  · intro e he
    simp only [emit_out, List.mem_cons] at he
    rcases he with rfl | he
    · exact hg.mono hs
    · exact (h.good e he).mono hs

theorem inv_insert {s : St} {c : CT} {tr : Tr} (h : Inv s) (hg : GoodCT s.out c tr) : Inv (s.insert c tr) := by
  have hs : ∀ e ∈ s.out, e ∈ (s.insert c tr).out := fun e he => by
    simp only [insert_out]; exact List.mem_cons_of_mem _ he
  refine ⟨?_, ?_, ?_⟩
  · simp only [insert_out, List.map_cons, List.nodup_cons]
    refine ⟨?_, h.nodup⟩
    intro hm
    obtain ⟨e, he, heq⟩ := List.mem_map.mp hm
    have := h.lt e he
    omega
  · intro e he
    simp only [insert_out, List.mem_cons] at he
    simp only [insert_next]
    rcases he with rfl | he
    · exact Nat.lt_succ_self _
    · exact Nat.lt_succ_of_lt (h.lt e he)
  · intro e he
    simp only [insert_out, List.mem_cons] at he
    rcases he with rfl | he
    · exact hg.mono hs
    · exact (h.good e he).mono hs

/-- result of `term` -/
structure PostR (s : St) (r : R) : Prop where
  step : Grow s r.st
  inv : Inv r.st
  good : GoodCT r.st.out r.ct r.tr

/-- result of `iterm_tr` -/
structure PostI (s : St) (a : RI) : Prop where
  step : Grow s a.st
  inv : Inv a.st
  has : HasTr a.st.out a.id a.tr

theorem wrap_post {s : St} {r : R} (hs : Inv s) (h : PostR s.bump r) : PostI s (wrapI s.next r) := by
  obtain ⟨n, e1, f1⟩ := h.step.ext
  have hle := h.step.le
  simp only [bump_next, bump_out] at e1 f1 hle
  refine ⟨⟨⟨⟨s.next, r.ct, r.tr⟩ :: n, by simp only [wrapI_out, e1, List.cons_append], ?_⟩, ?_⟩, ?_, ?_⟩
  · intro e he
    rcases List.mem_cons.mp he with rfl | he
    · exact Nat.le_refl _
    · have := f1 e he; omega
  · simp only [wrapI_next]; omega
  · refine inv_emit h.inv (by omega) ?_ h.good
    intro e he
    rw [e1] at he
    rcases List.mem_append.mp he with he | he
    · have := f1 e he; omega
    · have := hs.lt e he; omega
  · exact ⟨⟨s.next, r.ct, r.tr⟩, by simp only [wrapI_out]; exact List.mem_cons_self .., rfl, rfl⟩

/-- the scope refers to definitions whose bodies are in the table with the recorded annotation -/
structure CtxOk (M : List ModDef) (fs : List FunEntry) (out : List Entry) : Prop where
  sib : ∀ fe ∈ fs, ∀ ps id trs, fe.f = .sibling ps id trs → HasTr out id trs
  mod : ∀ d ∈ M, HasTr out d.id d.tr ∧ ∀ x ∈ d.tr, x = d.id

theorem CtxOk.mono {M fs out out'} (h : CtxOk M fs out) (hs : ∀ e ∈ out, e ∈ out') : CtxOk M fs out' :=
  ⟨fun fe hfe ps id trs hf => (h.sib fe hfe ps id trs hf).mono hs,
   fun d hd => ⟨(h.mod d hd).1.mono hs, (h.mod d hd).2⟩⟩

theorem CtxOk.cons_nonsib {M fs out} (fe : FunEntry) (h : CtxOk M fs out)
    (hn : ∀ ps id trs, fe.f ≠ .sibling ps id trs) : CtxOk M (fe :: fs) out := by
  refine ⟨fun fe' hfe ps id trs hf => ?_, h.mod⟩
  rcases List.mem_cons.mp hfe with rfl | hfe
  · exact absurd hf (hn ps id trs)
  · exact h.sib fe' hfe ps id trs hf

theorem CtxOk.pushParams {M out} : ∀ (ps : List Param) (L : Locals), CtxOk M L.funs out →
    CtxOk M (L.pushParams ps).funs out
  | [], _, h => h
  | p :: ps, L, h => by
    unfold Locals.pushParams
    by_cases hv : p.isVar = true
    · simp only [hv, if_true]
      exact CtxOk.pushParams ps (L.pushVars [p.name]) h
    · simp only [hv]
      exact CtxOk.pushParams ps (L.pushArg p.name)
        (CtxOk.cons_nonsib _ h (by intro ps id trs hf; simp at hf))

theorem CtxOk.pushParent {M out} (L : Locals) (name : Nat) (ps : List Param) (id : Nat)
    (h : CtxOk M L.funs out) : CtxOk M (L.pushParent name ps id).funs out := by
  unfold Locals.pushParent
  exact CtxOk.cons_nonsib _ (CtxOk.pushParams ps L h) (by intro ps id trs hf; simp at hf)

theorem CtxOk.pushSibling {M out} (L : Locals) (name : Nat) (ps : List Param) (id : Nat) (trs : Tr)
    (h : CtxOk M L.funs out) (hb : HasTr out id trs) : CtxOk M (L.pushSibling name ps id trs).funs out := by
  unfold Locals.pushSibling
  refine ⟨fun fe hfe ps' id' trs' hf => ?_, h.mod⟩
  rcases List.mem_cons.mp hfe with rfl | hfe
  · simp only [Fun.sibling.injEq] at hf
    obtain ⟨_, h2, h3⟩ := hf
    subst h2; subst h3; exact hb
  · exact h.sib fe hfe ps' id' trs' hf

theorem binds_ids : ∀ (ps : List Param) (ids : List Nat), ∀ a ∈ binds ps ids, a.id ∈ ids
  | [], _, a, h => by simp [binds] at h
  | _ :: _, [], a, h => by simp [binds] at h
  | p :: ps, i :: ids, a, h => by
    simp only [binds, List.mem_cons] at h
    rcases h with rfl | h
    · split <;> simp [CArg.id]
    · exact List.mem_cons_of_mem _ (binds_ids ps ids a h)

theorem good_call {out : List Entry} {id : Nat} {ps : List Param} {ids : List Nat} {skip : Nat} {typ : CallType}
    {tr : Tr} (hargs : ∀ i ∈ ids, Sub out i [])
    (hc : CallOk out (.callDef id (binds ps ids) skip typ) tr) :
    GoodCT out (.callDef id (binds ps ids) skip typ) tr := by
  refine ⟨?_, by simp [CT.tailKids], hc⟩
  intro k hk
  simp only [CT.nonTailKids, List.mem_map] at hk
  obtain ⟨a, ha, rfl⟩ := hk
  exact hargs _ (binds_ids ps ids a ha)

/-- the classification of one call is consistent with the annotation of the callee's body -/
theorem resolve_good (M : List ModDef) (L : Locals) (name : Nat) (ids : List Nat) (tr : Tr) (out : List Entry)
    (hctx : CtxOk M L.funs out) (hargs : ∀ i ∈ ids, Sub out i []) :
    GoodCT out (resolve M L name ids tr).1 (resolve M L name ids tr).2 := by
  cases hl : lookupFun L.funs name ids.length with
  | none =>
    rw [resolve_none M L name ids tr hl]
    cases hm : callMod M L.total name ids with
    | none => exact ⟨fun k hk => hargs k hk, by simp [CT.tailKids], trivial⟩
    | some c =>
      unfold callMod at hm
      split at hm
      · simp at hm
      · rename_i d hd
        simp only [Option.some.injEq] at hm
        subst hm
        have hdm : d ∈ M := List.mem_of_find?_eq_some hd
        obtain ⟨hh, hself⟩ := hctx.mod d hdm
        refine good_call hargs ?_
        by_cases hc : d.tr.contains d.id = true
        · simp only [hc, if_true, CallOk]
          exact hh.sub fun x hx => by rw [hself x hx]; exact List.mem_cons_self ..
        · simp only [hc, CallOk]
          refine hh.sub fun x hx => ?_
          have := hself x hx
          subst this
          exact absurd (by simpa using hx) hc
  | some e =>
    have hmem : e ∈ L.funs := List.mem_of_find?_eq_some hl
    cases hf : e.f with
    | arg =>
      rw [resolve_arg M L name ids tr hl hf]
      exact ⟨by simp [CT.nonTailKids], by simp [CT.tailKids], trivial⟩
    | parent ps id =>
      rw [resolve_parent M L name ids tr hl hf]
      by_cases hc : tr.contains id = true
      · rw [if_pos hc]
        exact good_call hargs (by simp [CallOk])
      · rw [if_neg hc]
        exact good_call hargs trivial
    | sibling ps id trs =>
      have hh := hctx.sib e hmem ps id trs hf
      rw [resolve_sibling M L name ids tr hl hf]
      by_cases hs : subB (Tr.remove trs id) tr = true
      · rw [if_pos hs]
        refine good_call hargs ?_
        by_cases hc : trs.contains id = true
        · simp only [hc, if_true, CallOk]
          refine hh.sub fun x hx => ?_
          by_cases hx2 : x = id
          · subst hx2; exact List.mem_cons_self ..
          · exact List.mem_cons_of_mem _ (mem_remove.mpr ⟨hx, hx2⟩)
        · simp only [hc, CallOk]
          refine hh.sub fun x hx => mem_remove.mpr ⟨hx, ?_⟩
          intro hx2; subst hx2
          exact hc (by simpa using hx)
      · rw [if_neg hs]
        exact good_call hargs trivial


theorem all0 {P : Nat → Prop} : ∀ k ∈ ([] : List Nat), P k := by intro k hk; simp at hk
theorem all1 {P : Nat → Prop} {a : Nat} (ha : P a) : ∀ k ∈ [a], P k := by
  intro k hk; simp at hk; subst hk; exact ha
theorem all2 {P : Nat → Prop} {a b : Nat} (ha : P a) (hb : P b) : ∀ k ∈ [a, b], P k := by
  intro k hk; simp at hk; rcases hk with rfl | rfl <;> assumption
theorem all3 {P : Nat → Prop} {a b c : Nat} (ha : P a) (hb : P b) (hc : P c) : ∀ k ∈ [a, b, c], P k := by
  intro k hk; simp at hk; rcases hk with rfl | rfl | rfl <;> assumption

theorem Grow.insert (s : St) (c : CT) (tr : Tr) : Grow s (s.insert c tr) :=
  ⟨⟨[⟨s.next, c, tr⟩], rfl, by intro e he; simp at he; subst he; exact Nat.le_refl _⟩, Nat.le_succ _⟩

theorem sub_nil_of_wrap (M : List ModDef) (t : Tm) (L : Locals) (s0 s' : St) (i : Nat)
    (p : PostI s0 (wrapI i (term M t [] L s'))) : Sub (wrapI i (term M t [] L s')).st.out i [] :=
  p.has.sub (term_tr_subset M t [] L s')

/-- result of `itermArgs` -/
structure PostA (s : St) (p : List Nat × St) : Prop where
  step : Grow s p.2
  inv : Inv p.2
  subs : ∀ i ∈ p.1, Sub p.2.out i []

mutual
/-- compiling a term keeps the table consistent (`Inv`), only appends fresh entries (`Grow`) and
returns a term consistent with the table (`GoodCT`) -/
theorem term_post (M : List ModDef) : ∀ (t : Tm) (tr : Tr) (L : Locals) (s : St),
    Inv s → CtxOk M L.funs s.out → PostR s (term M t tr L s)
  | .leaf, _, _, s, hs, _ => by
    simp only [term]; exact ⟨Grow.refl s, hs, ⟨all0, all0, trivial⟩⟩
  | .var x, _, L, s, hs, _ => by
    simp only [term]
    refine ⟨Grow.refl s, hs, ?_⟩
    split <;> exact ⟨all0, all0, trivial⟩
  | .brk x, _, L, s, hs, _ => by
    simp only [term]
    refine ⟨Grow.refl s, hs, ?_⟩
    split <;> exact ⟨all0, all0, trivial⟩
  | .label x t, _, L, s, hs, hc => by
    have pa := wrap_post hs (term_post M t [] (L.pushLabel x) s.bump hs.bump hc)
    simp only [term]
    exact ⟨pa.step, pa.inv, ⟨all1 (sub_nil_of_wrap M t _ s _ _ pa), all0, trivial⟩⟩
  | .call name args, tr, L, s, hs, hc => by
    have pa := args_post M args L s hs hc
    simp only [term]
    exact ⟨pa.step, pa.inv, resolve_good M L name _ tr _ (hc.mono pa.step.mem) pa.subs⟩
  | .nary args, _, L, s, hs, hc => by
    have pa := args_post M args L s hs hc
    simp only [term]
    exact ⟨pa.step, pa.inv, ⟨pa.subs, all0, trivial⟩⟩
  | .un t, _, L, s, hs, hc => by
    have pa := wrap_post hs (term_post M t [] L s.bump hs.bump hc)
    simp only [term]
    exact ⟨pa.step, pa.inv, ⟨all1 (sub_nil_of_wrap M t _ s _ _ pa), all0, trivial⟩⟩
  | .tryc t c, _, L, s, hs, hc => by
    have pa := wrap_post hs (term_post M t [] L s.bump hs.bump hc)
    have pb := wrap_post pa.inv (term_post M c [] L _ pa.inv.bump (hc.mono pa.step.mem))
    simp only [term]
    exact ⟨pa.step.trans pb.step, pb.inv,
      ⟨all2 ((sub_nil_of_wrap M t _ s _ _ pa).mono pb.step.mem) (sub_nil_of_wrap M c _ _ _ _ pb), all0, trivial⟩⟩
  | .bin l r, _, L, s, hs, hc => by
    have pa := wrap_post hs (term_post M l [] L s.bump hs.bump hc)
    have pb := wrap_post pa.inv (term_post M r [] L _ pa.inv.bump (hc.mono pa.step.mem))
    simp only [term]
    exact ⟨pa.step.trans pb.step, pb.inv,
      ⟨all2 ((sub_nil_of_wrap M l _ s _ _ pa).mono pb.step.mem) (sub_nil_of_wrap M r _ _ _ _ pb), all0, trivial⟩⟩
  | .pipe l pat r, tr, L, s, hs, hc => by
    have pa := wrap_post hs (term_post M l [] L s.bump hs.bump hc)
    have pb := wrap_post pa.inv (term_post M r tr (L.pushVars (pat.getD [])) _ pa.inv.bump (hc.mono pa.step.mem))
    simp only [term]
    exact ⟨pa.step.trans pb.step, pb.inv,
      ⟨all1 ((sub_nil_of_wrap M l _ s _ _ pa).mono pb.step.mem), all1 (pb.has.sub fun _ h => h), trivial⟩⟩
  | .comma l r, tr, L, s, hs, hc => by
    have pa := wrap_post hs (term_post M l tr L s.bump hs.bump hc)
    have pb := wrap_post pa.inv (term_post M r tr L _ pa.inv.bump (hc.mono pa.step.mem))
    simp only [term]
    exact ⟨pa.step.trans pb.step, pb.inv,
      ⟨all0, all2 ((pa.has.sub fun _ h => List.mem_append_left _ h).mono pb.step.mem)
        (pb.has.sub fun _ h => List.mem_append_right _ h), trivial⟩⟩
  | .alt l r, tr, L, s, hs, hc => by
    have pa := wrap_post hs (term_post M l [] L s.bump hs.bump hc)
    have pb := wrap_post pa.inv (term_post M r tr L _ pa.inv.bump (hc.mono pa.step.mem))
    simp only [term]
    exact ⟨pa.step.trans pb.step, pb.inv,
      ⟨all1 ((sub_nil_of_wrap M l _ s _ _ pa).mono pb.step.mem), all1 (pb.has.sub fun _ h => h), trivial⟩⟩
  | .ite c t e, tr, L, s, hs, hc => by
    have pa := wrap_post hs (term_post M c [] L s.bump hs.bump hc)
    have pb := wrap_post pa.inv (term_post M t tr L _ pa.inv.bump (hc.mono pa.step.mem))
    have pe := term_post M e tr L _ pb.inv ((hc.mono pa.step.mem).mono pb.step.mem)
    have hi := Grow.insert (term M e tr L (wrapI (wrapI s.next (term M c [] L s.bump)).st.next
      (term M t tr L (wrapI s.next (term M c [] L s.bump)).st.bump)).st).st
      (term M e tr L (wrapI (wrapI s.next (term M c [] L s.bump)).st.next
      (term M t tr L (wrapI s.next (term M c [] L s.bump)).st.bump)).st).ct
      (term M e tr L (wrapI (wrapI s.next (term M c [] L s.bump)).st.next
      (term M t tr L (wrapI s.next (term M c [] L s.bump)).st.bump)).st).tr
    simp only [term]
    refine ⟨pa.step.trans (pb.step.trans (pe.step.trans hi)), inv_insert pe.inv pe.good, ⟨?_, ?_, trivial⟩⟩
    · exact all1 ((((sub_nil_of_wrap M c _ s _ _ pa).mono pb.step.mem).mono pe.step.mem).mono hi.mem)
    · refine all2 (((pb.has.sub fun _ h => List.mem_append_left _ h).mono pe.step.mem).mono hi.mem) ?_
      exact ⟨_, by simp only [insert_out]; exact List.mem_cons_self .., rfl, fun _ h => List.mem_append_right _ h⟩
  | .reduce xs pat init upd, _, L, s, hs, hc => by
    have pa := wrap_post hs (term_post M xs [] L s.bump hs.bump hc)
    have pb := wrap_post pa.inv (term_post M init [] L _ pa.inv.bump (hc.mono pa.step.mem))
    have pc := wrap_post pb.inv (term_post M upd [] (L.pushVars pat) _ pb.inv.bump ((hc.mono pa.step.mem).mono pb.step.mem))
    simp only [term]
    exact ⟨pa.step.trans (pb.step.trans pc.step), pc.inv,
      ⟨all3 (((sub_nil_of_wrap M xs _ s _ _ pa).mono pb.step.mem).mono pc.step.mem)
        ((sub_nil_of_wrap M init _ _ _ _ pb).mono pc.step.mem) (sub_nil_of_wrap M upd _ _ _ _ pc), all0, trivial⟩⟩
  | .foreach2 xs pat init upd, _, L, s, hs, hc => by
    have pa := wrap_post hs (term_post M xs [] L s.bump hs.bump hc)
    have pb := wrap_post pa.inv (term_post M init [] L _ pa.inv.bump (hc.mono pa.step.mem))
    have pc := wrap_post pb.inv (term_post M upd [] (L.pushVars pat) _ pb.inv.bump ((hc.mono pa.step.mem).mono pb.step.mem))
    simp only [term]
    exact ⟨pa.step.trans (pb.step.trans pc.step), pc.inv,
      ⟨all3 (((sub_nil_of_wrap M xs _ s _ _ pa).mono pb.step.mem).mono pc.step.mem)
        ((sub_nil_of_wrap M init _ _ _ _ pb).mono pc.step.mem) (sub_nil_of_wrap M upd _ _ _ _ pc), all0, trivial⟩⟩
  | .foreach3 xs pat init upd proj, tr, L, s, hs, hc => by
    have pa := wrap_post hs (term_post M xs [] L s.bump hs.bump hc)
    have pb := wrap_post pa.inv (term_post M init [] L _ pa.inv.bump (hc.mono pa.step.mem))
    have pc := wrap_post pb.inv (term_post M upd [] (L.pushVars pat) _ pb.inv.bump ((hc.mono pa.step.mem).mono pb.step.mem))
    have pd := wrap_post pc.inv (term_post M proj tr (L.pushVars pat) _ pc.inv.bump
      (((hc.mono pa.step.mem).mono pb.step.mem).mono pc.step.mem))
    simp only [term]
    exact ⟨pa.step.trans (pb.step.trans (pc.step.trans pd.step)), pd.inv,
      ⟨all3 ((((sub_nil_of_wrap M xs _ s _ _ pa).mono pb.step.mem).mono pc.step.mem).mono pd.step.mem)
        (((sub_nil_of_wrap M init _ _ _ _ pb).mono pc.step.mem).mono pd.step.mem)
        ((sub_nil_of_wrap M upd _ _ _ _ pc).mono pd.step.mem), all1 (pd.has.sub fun _ h => h), trivial⟩⟩
  | .defIn name params body rest, tr, L, s, hs, hc => by
    have pb := wrap_post hs (term_post M body (s.next :: tr) (L.pushParent name params s.next) s.bump hs.bump
      (CtxOk.pushParent L name params s.next hc))
    have pr := term_post M rest tr (L.pushSibling name params s.next
      (term M body (s.next :: tr) (L.pushParent name params s.next) s.bump).tr) _ pb.inv
      (CtxOk.pushSibling L name params s.next _ (hc.mono pb.step.mem) pb.has)
    simp only [term]
    exact ⟨pb.step.trans pr.step, pr.inv, pr.good⟩
theorem args_post (M : List ModDef) : ∀ (as : Args) (L : Locals) (s : St),
    Inv s → CtxOk M L.funs s.out → PostA s (itermArgs M as L s)
  | .nil, _, s, hs, _ => by
    simp only [itermArgs]; exact ⟨Grow.refl s, hs, by simp⟩
  | .cons a as, L, s, hs, hc => by
    have px := wrap_post hs (term_post M a [] L s.bump hs.bump hc)
    have pr := args_post M as L _ px.inv (hc.mono px.step.mem)
    simp only [itermArgs]
    refine ⟨px.step.trans pr.step, pr.inv, ?_⟩
    intro i hi
    rcases List.mem_cons.mp hi with rfl | hi
    · exact (sub_nil_of_wrap M a _ s _ _ px).mono pr.step.mem
    · exact pr.subs i hi
end


/-- `Compiler::module` keeps the table consistent; every compiled definition is recorded with the
annotation of its body, which is within `{its own id}` (modules are compiled with `tr = ∅`) -/
theorem module_post : ∀ (ds : List DefS) (L : Locals) (acc : List ModDef) (s : St),
    Inv s → CtxOk [] L.funs s.out → (∀ d ∈ acc, HasTr s.out d.id d.tr ∧ ∀ x ∈ d.tr, x = d.id) →
    Inv (compileModule ds L acc s).2 ∧
    ∀ d ∈ (compileModule ds L acc s).1,
      HasTr (compileModule ds L acc s).2.out d.id d.tr ∧ ∀ x ∈ d.tr, x = d.id
  | [], _, acc, s, hs, _, ha => by simp only [compileModule]; exact ⟨hs, ha⟩
  | dd :: ds, L, acc, s, hs, hc, ha => by
    have pb := wrap_post hs (term_post [] dd.body [s.next] (L.pushParent dd.name dd.params s.next) s.bump hs.bump
      (CtxOk.pushParent L dd.name dd.params s.next hc))
    have hself : ∀ x ∈ (term [] dd.body [s.next] (L.pushParent dd.name dd.params s.next) s.bump).tr, x = s.next := by
      intro x hx
      have := term_tr_subset [] dd.body [s.next] _ _ x hx
      simpa using this
    have := module_post ds (L.pushSibling dd.name dd.params s.next
        (term [] dd.body [s.next] (L.pushParent dd.name dd.params s.next) s.bump).tr)
      (⟨dd.name, dd.params, s.next, (term [] dd.body [s.next] (L.pushParent dd.name dd.params s.next) s.bump).tr⟩ :: acc)
      _ pb.inv (CtxOk.pushSibling L dd.name dd.params s.next _ (hc.mono pb.step.mem) pb.has)
      (by
        intro d hd
        rcases List.mem_cons.mp hd with rfl | hd
        · exact ⟨pb.has, hself⟩
        · exact ⟨(ha d hd).1.mono pb.step.mem, (ha d hd).2⟩)
    simp only [compileModule, openDef]
    exact this

theorem inv_empty : Inv ({} : St) :=
  ⟨by simp, by intro e he; simp at he, by intro e he; simp at he⟩

/-- the finished table of `compileMain` is consistent and its entry point is annotated `∅` -/
theorem compileMain_inv (prelude : List DefS) (main : Tm) :
    Inv (compileMain prelude main).2 ∧ Sub (compileMain prelude main).2.out (compileMain prelude main).1 [] := by
  have hm := module_post prelude {} [] {} inv_empty
    ⟨by intro fe hfe; simp at hfe, by intro d hd; simp at hd⟩ (by intro d hd; simp at hd)
  have pm := wrap_post hm.1 (term_post (compileModule prelude {} [] {}).1 main [] {} _ hm.1.bump
    ⟨by intro fe hfe; simp at hfe, hm.2⟩)
  simp only [compileMain]
  exact ⟨pm.inv, sub_nil_of_wrap _ main _ _ _ _ pm⟩

theorem entry_unique : ∀ (out : List Entry), (out.map (·.id)).Nodup →
    ∀ e ∈ out, ∀ e' ∈ out, e.id = e'.id → e = e'
  | [], _, e, he, _, _, _ => by simp at he
  | x :: xs, hn, e, he, e', he', hid => by
    simp only [List.map_cons, List.nodup_cons] at hn
    rcases List.mem_cons.mp he with h1 | h1
    · rcases List.mem_cons.mp he' with h2 | h2
      · rw [h1, h2]
      · subst h1
        exact absurd (show e.id ∈ List.map (·.id) xs from List.mem_map.mpr ⟨e', h2, hid.symm⟩) hn.1
    · rcases List.mem_cons.mp he' with h2 | h2
      · subst h2
        exact absurd (show e'.id ∈ List.map (·.id) xs from List.mem_map.mpr ⟨e, h1, hid⟩) hn.1
      · exact entry_unique xs hn.2 e h1 e' h2 hid

/-- **soundness of the annotations**: in a consistent table, whatever an entry may throw at run
time is in its `Tr` annotation -/
theorem mayThrow_sound {out : List Entry} (hn : (out.map (·.id)).Nodup)
    (hg : ∀ e ∈ out, GoodCT out e.ct e.tr) {t j : Nat} (h : MayThrow out t j) :
    ∀ e ∈ out, e.id = t → j ∈ e.tr := by
  induction h with
  | @throw e0 id args skip he0 hct =>
    intro e he hid
    have := entry_unique out hn e he e0 he0 hid
    subst this
    have := (hg e he).call
    rw [hct] at this
    exact this
  | @kid e0 k j he0 hk _ ih =>
    intro e he hid
    have := entry_unique out hn e he e0 he0 hid
    subst this
    rcases List.mem_append.mp hk with hk | hk
    · obtain ⟨ek, hek, h1, h2⟩ := (hg e he).nt k hk
      exact absurd (h2 j (ih ek hek h1)) (by simp)
    · obtain ⟨ek, hek, h1, h2⟩ := (hg e he).tl k hk
      exact h2 j (ih ek hek h1)
  | @inline e0 id args skip j he0 hct _ ih =>
    intro e he hid
    have := entry_unique out hn e he e0 he0 hid
    subst this
    have hc := (hg e he).call
    rw [hct] at hc
    obtain ⟨ek, hek, h1, h2⟩ := hc
    exact h2 j (ih ek hek h1)
  | @catchOne e0 id args skip j he0 hct _ hne ih =>
    intro e he hid
    have := entry_unique out hn e he e0 he0 hid
    subst this
    have hc := (hg e he).call
    rw [hct] at hc
    obtain ⟨ek, hek, h1, h2⟩ := hc
    rcases List.mem_cons.mp (h2 j (ih ek hek h1)) with h | h
    · exact absurd h hne
    · exact h
  | @closure e0 i a j he0 _ hsrc _ ih =>
    intro e he hid
    obtain ⟨e1, he1, hsrc⟩ := hsrc
    have hsub : Sub out a [] := by
      rcases hsrc with ⟨id, args, skip, typ, hct, ha⟩ | ⟨args, hct, ha⟩
      · refine (hg e1 he1).nt a ?_
        rw [hct]
        simp only [CT.nonTailKids, List.mem_map]
        exact ⟨_, ha, rfl⟩
      · refine (hg e1 he1).nt a ?_
        rw [hct]
        exact ha
    obtain ⟨ek, hek, h1, h2⟩ := hsub
    exact absurd (h2 j (ih ek hek h1)) (by simp)

end Jaq.C04
