import JaqVerif.Lemmas.C07Congr
import JaqVerif.Lemmas.C08EqNum
namespace Jaq.C07
open Jaq

/-! ## numbers: `canonNum` does not change how a number compares, whether it is `==`, or what it hashes to -/

/-- the value half of the float printer's contract, on its own -/
def RyuVal (c : Cfg) : Prop :=
  ∀ f, viaRyu f = true → F64.parseDecChars (stringOfBytes (c.ryu f)).toList = some f

theorem RyuOk.ryuVal {c : Cfg} (h : RyuOk c) : RyuVal c := h.value

/-- normal form of a number for comparison, equality and hashing: integers as one representation,
literals as the float they denote, NaNs as the canonical NaN -/
def nkey : Num → Num
  | .int i => .big i
  | .big i => .big i
  | .float f => .float (F64.canonNaN f)
  | .dec s => .float (F64.canonNaN (F64.ofDec s))

theorem isZero_of_isNaN {x : UInt64} (h : F64.isNaN x = true) : F64.isZero x = false := by
  unfold F64.isNaN F64.expField F64.fracField at h
  unfold F64.isZero
  have := x.toNat_lt
  simp only [Bool.and_eq_true, beq_iff_eq, bne_iff_ne, ne_eq] at h
  simp only [beq_eq_false_iff_ne, ne_eq]
  omega

theorem isNaN_nan : F64.isNaN F64.nan = true := by decide
theorem isZero_nan : F64.isZero F64.nan = false := by decide

theorem fcmp_canonNaN_left (x y : UInt64) : F64.cmp (F64.canonNaN x) y = F64.cmp x y := by
  unfold F64.canonNaN
  by_cases h : F64.isNaN x = true
  · simp [F64.cmp, h, isZero_of_isNaN h, isNaN_nan, isZero_nan]
  · simp [h]

theorem fcmp_canonNaN_right (x y : UInt64) : F64.cmp x (F64.canonNaN y) = F64.cmp x y := by
  unfold F64.canonNaN
  by_cases h : F64.isNaN y = true
  · simp [F64.cmp, h, isZero_of_isNaN h, isNaN_nan, isZero_nan]
  · simp [h]

theorem isFinite_canonNaN (x : UInt64) : F64.isFinite (F64.canonNaN x) = F64.isFinite x := by
  unfold F64.canonNaN
  by_cases h : F64.isNaN x = true
  · have h' := h
    unfold F64.isNaN at h'
    simp only [Bool.and_eq_true, beq_iff_eq] at h'
    have e1 : F64.isFinite F64.nan = false := by decide
    have e2 : F64.isFinite x = false := by simp [F64.isFinite, h'.1]
    simp [h, e1, e2]
  · simp [h]

theorem isZero_canonNaN (x : UInt64) : F64.isZero (F64.canonNaN x) = F64.isZero x := by
  unfold F64.canonNaN
  by_cases h : F64.isNaN x = true
  · simp [h, isZero_of_isNaN h, isZero_nan]
  · simp [h]

theorem numCmp_nkey (a b : Num) : Num.cmp (nkey a) (nkey b) = Num.cmp a b := by
  cases a <;> cases b <;>
    simp [nkey, Num.cmp, Num.undec, Num.ofDecStr, fcmp_canonNaN_left, fcmp_canonNaN_right]

theorem numEq_nkey (a b : Num) : Num.eq (nkey a) (nkey b) = Num.eq a b := by
  cases a <;> cases b <;>
    simp [nkey, Num.eq, Num.undec, Num.ofDecStr, fcmp_canonNaN_left, fcmp_canonNaN_right, isFinite_canonNaN]

theorem canonNaN_finite {x : UInt64} (h : F64.isFinite x = true) : F64.canonNaN x = x := by
  unfold F64.canonNaN
  have : F64.isNaN x = false := by
    unfold F64.isFinite at h; unfold F64.isNaN
    simp only [bne_iff_ne, ne_eq] at h
    simp [h]
  simp [this]

theorem floatFeed_canonNaN (x : UInt64) :
    Num.hashFeed (.float (F64.canonNaN x)) = Num.hashFeed (.float x) := by
  by_cases h : F64.isFinite x = true
  · rw [canonNaN_finite h]
  · have h' : F64.isFinite x = false := by simpa using h
    simp [Num.hashFeed, Num.undec, isFinite_canonNaN, h']

theorem hashFeed_nkey (a : Num) (hw : Num.wf a = true) : Num.hashFeed (nkey a) = Num.hashFeed a := by
  cases a with
  | int i =>
    have := C08.ofInt_finite_of_wf i hw
    simp [nkey, Num.hashFeed, Num.undec, this]
  | big i => rfl
  | float f => exact floatFeed_canonNaN f
  | dec s =>
    have := floatFeed_canonNaN (F64.ofDec s)
    simpa [nkey, Num.hashFeed, Num.undec, Num.ofDecStr] using this

theorem canonNaN_of_isNaN {x : UInt64} (h : F64.isNaN x = true) : F64.canonNaN x = F64.nan := by
  simp [F64.canonNaN, h]

theorem nkey_canonNum (c : Cfg) (hv : RyuVal c) (n : Num) : nkey (canonNum c n) = nkey n := by
  cases n with
  | int i => simp only [canonNum, Num.ofInt]; split <;> rfl
  | big i => simp only [canonNum, Num.ofInt]; split <;> rfl
  | dec s => rfl
  | float f =>
    simp only [canonNum]
    by_cases h1 : F64.isNaN f = true
    · simp [h1, nkey, canonNaN_of_isNaN h1, canonNaN_of_isNaN isNaN_nan]
    · by_cases h2 : (f == F64.posInf) = true
      · have e : f = F64.posInf := by simpa using h2
        subst e
        have n2 : F64.isNaN F64.posInf = false := by decide
        simp [n2]
      · by_cases h3 : (f == F64.negInf) = true
        · have e : f = F64.negInf := by simpa using h3
          subst e
          have n3 : F64.isNaN F64.negInf = false := by decide
          have n4 : (F64.negInf == F64.posInf) = false := by decide
          simp [n3, n4]
        · have hvr : viaRyu f = true := by simp [viaRyu, h1, h2, h3]
          have := hv f hvr
          simp [h1, h2, h3, nkey, F64.ofDec, this]

theorem wf_canonNum (c : Cfg) (n : Num) : Num.wf (canonNum c n) = true := by
  cases n with
  | int i => simp only [canonNum, Num.ofInt]; split <;> simp_all [Num.wf]
  | big i => simp only [canonNum, Num.ofInt]; split <;> simp_all [Num.wf]
  | dec s => rfl
  | float f => simp only [canonNum]; split <;> (try split) <;> (try split) <;> rfl

theorem numCmp_canon (c : Cfg) (hv : RyuVal c) (a b : Num) :
    Num.cmp (canonNum c a) (canonNum c b) = Num.cmp a b := by
  rw [← numCmp_nkey, nkey_canonNum c hv, nkey_canonNum c hv, numCmp_nkey]

theorem numEq_canon (c : Cfg) (hv : RyuVal c) (a b : Num) :
    Num.eq (canonNum c a) (canonNum c b) = Num.eq a b := by
  rw [← numEq_nkey, nkey_canonNum c hv, nkey_canonNum c hv, numEq_nkey]

theorem hashFeed_canon (c : Cfg) (hv : RyuVal c) (a : Num) (hw : Num.wf a = true) :
    Num.hashFeed (canonNum c a) = Num.hashFeed a := by
  rw [← hashFeed_nkey _ (wf_canonNum c a), nkey_canonNum c hv, hashFeed_nkey a hw]

end Jaq.C07
