/-
  C12 helper lemmas: the stable insertion sort (`isort`) is a permutation, sorted and stable;
  `decorate`; the grouping loop; the extremum fold.
-/
import JaqVerif.Lemmas.C12Order

namespace Jaq.Coll

/-! ### `insSt`, `isort` -/
section sort
variable {α : Type} {c : α → α → Ordering}

theorem insSt_nil (x : α) : insSt c x [] = [x] := rfl
theorem insSt_cons (x y : α) (ys : List α) :
    insSt c x (y :: ys) = if c x y == .gt then y :: insSt c x ys else x :: y :: ys := rfl

theorem isort_nil : isort c ([] : List α) = [] := rfl
theorem isort_cons (x : α) (xs : List α) : isort c (x :: xs) = insSt c x (isort c xs) := rfl

theorem insSt_perm (x : α) : ∀ l : List α, (insSt c x l).Perm (x :: l)
  | [] => List.Perm.refl _
  | y :: ys => by
    rw [insSt_cons]
    split
    · exact ((insSt_perm x ys).cons y).trans (List.Perm.swap x y ys)
    · exact List.Perm.refl _

theorem isort_perm : ∀ l : List α, (isort c l).Perm l
  | [] => List.Perm.refl _
  | x :: xs => by
    rw [isort_cons]
    exact (insSt_perm x _).trans ((isort_perm xs).cons x)

theorem mem_insSt {x y : α} {l : List α} : y ∈ insSt c x l ↔ y = x ∨ y ∈ l := by
  rw [(insSt_perm (c := c) x l).mem_iff]; simp

theorem mem_isort {y : α} {l : List α} : y ∈ isort c l ↔ y ∈ l := (isort_perm l).mem_iff

theorem isort_length (l : List α) : (isort c l).length = l.length := (isort_perm l).length_eq

/-- `a ≤ b` -/
def Le (c : α → α → Ordering) (a b : α) : Prop := c a b ≠ .gt

theorem insSt_sorted (h : TotalPreorder c) (x : α) :
    ∀ l : List α, l.Pairwise (Le c) → (insSt c x l).Pairwise (Le c)
  | [], _ => by simp [insSt]
  | y :: ys, hs => by
    rw [insSt_cons]
    have hy := List.pairwise_cons.1 hs
    split
    · next hgt =>
      have hgt : c x y = .gt := by simpa using hgt
      refine List.pairwise_cons.2 ⟨?_, insSt_sorted h x ys hy.2⟩
      intro z hz
      rcases mem_insSt.1 hz with rfl | hz
      · show c y z ≠ .gt
        rw [h.swap z y, hgt]; simp [Ordering.swap]
      · exact hy.1 z hz
    · next hle =>
      have hle : c x y ≠ .gt := by simpa using hle
      refine List.pairwise_cons.2 ⟨?_, hs⟩
      intro z hz
      rcases List.mem_cons.1 hz with rfl | hz
      · exact hle
      · exact h.trans_le x y z hle (hy.1 z hz)

theorem isort_sorted (h : TotalPreorder c) : ∀ l : List α, (isort c l).Pairwise (Le c)
  | [] => List.Pairwise.nil
  | x :: xs => by rw [isort_cons]; exact insSt_sorted h x _ (isort_sorted h xs)

/-- stability, as a statement about sub-sequences: for a predicate `p` that only holds for
mutually equivalent elements, the elements satisfying `p` keep their input order -/
theorem insSt_filter (p : α → Bool) (hp : ∀ a b, p a = true → p b = true → c a b = .eq) (x : α) :
    ∀ l : List α, (insSt c x l).filter p = (x :: l).filter p
  | [] => rfl
  | y :: ys => by
    rw [insSt_cons]
    split
    · next hgt =>
      have hgt : c x y = .gt := by simpa using hgt
      -- `x` passes `y`: they are not both in the class
      have ih := insSt_filter p hp x ys
      have hnot : ¬ (p x = true ∧ p y = true) := by
        intro ⟨hx, hy⟩
        have := hp x y hx hy
        simp [this] at hgt
      rw [List.filter_cons, ih, List.filter_cons, List.filter_cons, List.filter_cons]
      by_cases hx : p x = true <;> by_cases hy : p y = true
      · exact absurd ⟨hx, hy⟩ hnot
      · simp [hx, hy]
      · simp [hx, hy]
      · simp [hx, hy]
    · rfl

theorem isort_stable (p : α → Bool) (hp : ∀ a b, p a = true → p b = true → c a b = .eq) :
    ∀ l : List α, (isort c l).filter p = l.filter p
  | [] => rfl
  | x :: xs => by
    rw [isort_cons, insSt_filter p hp x, List.filter_cons, List.filter_cons, isort_stable p hp xs]

/-- a sorted list is its own stable sort -/
theorem isort_of_sorted : ∀ l : List α, l.Pairwise (Le c) → isort c l = l
  | [], _ => rfl
  | x :: xs, hs => by
    have hx := List.pairwise_cons.1 hs
    rw [isort_cons, isort_of_sorted xs hx.2]
    cases xs with
    | nil => rfl
    | cons y ys =>
      rw [insSt_cons]
      have : c x y ≠ .gt := hx.1 y (List.mem_cons_self ..)
      simp [this]

end sort

/-! ### `decorate` -/
section decorate
variable {α κ ε : Type} {kf : α → Except ε (List κ)}

theorem decorate_nil : decorate kf [] = .ok [] := rfl

theorem decorate_cons (x : α) (xs : List α) :
    decorate kf (x :: xs) =
      (match kf x with
       | .error e => .error e
       | .ok y => match decorate kf xs with
         | .error e => .error e
         | .ok r => .ok ((y, x) :: r)) := rfl

/-- all key evaluations succeed: the decorated list pairs every element with its key -/
theorem decorate_ok {key : α → List κ} :
    ∀ {xs : List α}, (∀ x ∈ xs, kf x = .ok (key x)) → decorate kf xs = .ok (xs.map fun x => (key x, x))
  | [], _ => rfl
  | x :: xs, h => by
    rw [decorate_cons, h x (List.mem_cons_self ..), decorate_ok (fun y hy => h y (List.mem_cons_of_mem _ hy))]
    rfl

/-- the first failing key evaluation decides -/
theorem decorate_error {key : α → List κ} {e : ε} :
    ∀ {pre : List α} {x : α} {post : List α}, (∀ p ∈ pre, kf p = .ok (key p)) → kf x = .error e →
      decorate kf (pre ++ x :: post) = .error e
  | [], x, post, _, hx => by rw [List.nil_append, decorate_cons, hx]
  | p :: pre, x, post, h, hx => by
    rw [List.cons_append, decorate_cons, h p (List.mem_cons_self ..),
      decorate_error (fun q hq => h q (List.mem_cons_of_mem _ hq)) hx]

theorem decorate_ok_inv : ∀ {xs : List α} {yx : List (List κ × α)}, decorate kf xs = .ok yx →
    yx.map (·.2) = xs ∧ ∀ p ∈ yx, kf p.2 = .ok p.1
  | [], yx, h => by
    rw [decorate_nil] at h
    cases h
    simp
  | x :: xs, yx, h => by
    rw [decorate_cons] at h
    cases hk : kf x with
    | error e => rw [hk] at h; cases h
    | ok y =>
      rw [hk] at h
      cases hd : decorate kf xs with
      | error e => rw [hd] at h; cases h
      | ok r =>
        rw [hd] at h
        cases h
        have ih := decorate_ok_inv hd
        refine ⟨by simp [ih.1], ?_⟩
        intro p hp
        rcases List.mem_cons.1 hp with rfl | hp
        · exact hk
        · exact ih.2 p hp

/-- an error of `decorate` is the error of the first failing element -/
theorem decorate_error_inv : ∀ {xs : List α} {e : ε}, decorate kf xs = .error e →
    ∃ pre x post, xs = pre ++ x :: post ∧ (∀ p ∈ pre, ∃ y, kf p = .ok y) ∧ kf x = .error e
  | [], e, h => by rw [decorate_nil] at h; cases h
  | x :: xs, e, h => by
    rw [decorate_cons] at h
    cases hk : kf x with
    | error e' =>
      rw [hk] at h
      cases h
      exact ⟨[], x, xs, rfl, by simp, hk⟩
    | ok y =>
      rw [hk] at h
      cases hd : decorate kf xs with
      | error e' =>
        rw [hd] at h
        cases h
        obtain ⟨pre, x', post, rfl, hpre, hx'⟩ := decorate_error_inv hd
        refine ⟨x :: pre, x', post, rfl, ?_, hx'⟩
        intro p hp
        rcases List.mem_cons.1 hp with rfl | hp
        · exact ⟨y, hk⟩
        · exact hpre p hp
      | ok r => rw [hd] at h; cases h

end decorate

/-! ### the grouping loop -/
section group
variable {α κ : Type} {c : κ → κ → Ordering} {e : κ → κ → Bool}

abbrev KV (κ α : Type) := List κ × α

theorem groupLoop_nil (gy : List κ) (grp : List (KV κ α)) (done : List (List (KV κ α))) :
    groupLoop e gy grp done [] = if grp.isEmpty then done else done ++ [grp] := rfl

theorem groupLoop_cons (gy : List κ) (grp : List (KV κ α)) (done : List (List (KV κ α))) (y : List κ) (x : α)
    (rest : List (KV κ α)) :
    groupLoop e gy grp done ((y, x) :: rest) =
      if !(listEq e gy y) then groupLoop e y [(y, x)] (done ++ [grp]) rest
      else groupLoop e gy (grp ++ [(y, x)]) done rest := rfl

/-- the loop never loses or reorders an element -/
theorem groupLoop_flatten : ∀ (rest : List (KV κ α)) (gy : List κ) (grp : List (KV κ α)) (done : List (List (KV κ α))),
    (groupLoop e gy grp done rest).flatten = done.flatten ++ grp ++ rest
  | [], gy, grp, done => by
    rw [groupLoop_nil]
    split
    · next h => simp [List.isEmpty_iff.1 h]
    · simp
  | (y, x) :: rest, gy, grp, done => by
    rw [groupLoop_cons]
    split
    · rw [groupLoop_flatten rest]; simp
    · rw [groupLoop_flatten rest]; simp

/-- invariant of the loop state -/
structure GroupInv (c : κ → κ → Ordering) (gy : List κ) (grp : List (KV κ α)) (done : List (List (KV κ α))) : Prop where
  grp_ne : grp ≠ []
  grp_key : ∀ p ∈ grp, lexCmp c gy p.1 = .eq
  done_ne : ∀ g ∈ done, g ≠ []
  done_eq : ∀ g ∈ done, ∀ p ∈ g, ∀ q ∈ g, lexCmp c p.1 q.1 = .eq
  done_lt : done.Pairwise (fun g h => ∀ p ∈ g, ∀ q ∈ h, lexCmp c p.1 q.1 = .lt)
  done_grp : ∀ g ∈ done, ∀ p ∈ g, ∀ q ∈ grp, lexCmp c p.1 q.1 = .lt

/-- what `group_by` promises about its groups (decorated) -/
structure GroupsOK (c : κ → κ → Ordering) (gs : List (List (KV κ α))) : Prop where
  ne : ∀ g ∈ gs, g ≠ []
  eq : ∀ g ∈ gs, ∀ p ∈ g, ∀ q ∈ g, lexCmp c p.1 q.1 = .eq
  lt : gs.Pairwise (fun g h => ∀ p ∈ g, ∀ q ∈ h, lexCmp c p.1 q.1 = .lt)

theorem groupLoop_ok (h : OrderLaws c e) :
    ∀ (rest : List (KV κ α)) (gy : List κ) (grp : List (KV κ α)) (done : List (List (KV κ α))),
      GroupInv c gy grp done →
      (∀ p ∈ grp, ∀ q ∈ rest, lexCmp c p.1 q.1 ≠ .gt) → rest.Pairwise (fun p q => lexCmp c p.1 q.1 ≠ .gt) →
      GroupsOK c (groupLoop e gy grp done rest)
  | [], gy, grp, done, inv, _, _ => by
    rw [groupLoop_nil]
    have : grp.isEmpty = false := by
      cases grp with
      | nil => exact absurd rfl inv.grp_ne
      | cons _ _ => rfl
    rw [this]
    have hl := lexCmp_preorder h.toTotalPreorder
    refine ⟨?_, ?_, ?_⟩
    · intro g hg
      rcases List.mem_append.1 hg with hg | hg
      · exact inv.done_ne g hg
      · simp at hg; subst hg; exact inv.grp_ne
    · intro g hg p hp q hq
      rcases List.mem_append.1 hg with hg | hg
      · exact inv.done_eq g hg p hp q hq
      · simp at hg; subst hg
        exact hl.eq_trans (hl.eq_symm (inv.grp_key p hp)) (inv.grp_key q hq)
    · refine List.pairwise_append.2 ⟨inv.done_lt, List.pairwise_singleton _ _, ?_⟩
      intro g hg g' hg'
      simp at hg'; subst hg'
      exact inv.done_grp g hg
  | (y, x) :: rest, gy, grp, done, inv, hgr, hrest => by
    have hl := lexCmp_preorder h.toTotalPreorder
    have hr := List.pairwise_cons.1 hrest
    rw [groupLoop_cons]
    by_cases heq : listEq e gy y = true
    · -- same key: the open group grows
      simp only [heq, Bool.not_true, Bool.false_eq_true, if_false]
      have hgy : lexCmp c gy y = .eq := (listEq_iff h gy y).1 heq
      apply groupLoop_ok h rest gy (grp ++ [(y, x)]) done
      · refine ⟨by simp, ?_, inv.done_ne, inv.done_eq, inv.done_lt, ?_⟩
        · intro p hp
          rcases List.mem_append.1 hp with hp | hp
          · exact inv.grp_key p hp
          · simp at hp; subst hp; exact hgy
        · intro g hg p hp q hq
          rcases List.mem_append.1 hq with hq | hq
          · exact inv.done_grp g hg p hp q hq
          · simp at hq; subst hq
            -- p < (some element of grp) ~ gy ~ y
            obtain ⟨q0, hq0⟩ := List.exists_mem_of_ne_nil grp inv.grp_ne
            have h1 := inv.done_grp g hg p hp q0 hq0
            have h2 : lexCmp c q0.1 y = .eq := hl.eq_trans (hl.eq_symm (inv.grp_key q0 hq0)) hgy
            exact hl.lt_of_lt_of_le h1 (TotalPreorder.le_of_eq h2)
      · intro p hp q hq
        rcases List.mem_append.1 hp with hp | hp
        · exact hgr p hp q (List.mem_cons_of_mem _ hq)
        · simp at hp; subst hp; exact hr.1 q hq
      · exact hr.2
    · -- different key: the open group is closed
      have heq' : listEq e gy y = false := by simpa using heq
      simp only [heq', Bool.not_false, if_true]
      have hne : lexCmp c gy y ≠ .eq := fun hh => heq ((listEq_iff h gy y).2 hh)
      have hlt : ∀ p ∈ grp, lexCmp c p.1 y = .lt := by
        intro p hp
        have hle := hgr p hp (y, x) (List.mem_cons_self ..)
        apply hl.lt_of_le_of_ne hle
        intro hpe
        exact hne (hl.eq_trans (inv.grp_key p hp) hpe)
      apply groupLoop_ok h rest y [(y, x)] (done ++ [grp])
      · refine ⟨by simp, ?_, ?_, ?_, ?_, ?_⟩
        · intro p hp; simp at hp; subst hp; exact hl.refl _
        · intro g hg
          rcases List.mem_append.1 hg with hg | hg
          · exact inv.done_ne g hg
          · simp at hg; subst hg; exact inv.grp_ne
        · intro g hg p hp q hq
          rcases List.mem_append.1 hg with hg | hg
          · exact inv.done_eq g hg p hp q hq
          · simp at hg; subst hg
            exact hl.eq_trans (hl.eq_symm (inv.grp_key p hp)) (inv.grp_key q hq)
        · refine List.pairwise_append.2 ⟨inv.done_lt, List.pairwise_singleton _ _, ?_⟩
          intro g hg g' hg'
          simp at hg'; subst hg'
          exact inv.done_grp g hg
        · intro g hg p hp q hq
          simp at hq; subst hq
          rcases List.mem_append.1 hg with hg | hg
          · obtain ⟨q0, hq0⟩ := List.exists_mem_of_ne_nil grp inv.grp_ne
            exact hl.lt_trans (inv.done_grp g hg p hp q0 hq0) (hlt q0 hq0)
          · simp at hg; subst hg; exact hlt p hp
      · intro p hp q hq
        simp at hp; subst hp; exact hr.1 q hq
      · exact hr.2

theorem groupRuns_nil : groupRuns e ([] : List (KV κ α)) = [] := rfl
theorem groupRuns_cons (y : List κ) (x : α) (rest : List (KV κ α)) :
    groupRuns e ((y, x) :: rest) = groupLoop e y [(y, x)] [] rest := rfl

theorem groupRuns_flatten : ∀ l : List (KV κ α), (groupRuns e l).flatten = l
  | [] => rfl
  | (y, x) :: rest => by rw [groupRuns_cons, groupLoop_flatten]; simp

theorem groupRuns_ok (h : OrderLaws c e) : ∀ l : List (KV κ α),
    l.Pairwise (fun p q => lexCmp c p.1 q.1 ≠ .gt) → GroupsOK c (groupRuns e l)
  | [], _ => ⟨by simp [groupRuns], by simp [groupRuns], by simp [groupRuns]⟩
  | (y, x) :: rest, hs => by
    have hl := lexCmp_preorder h.toTotalPreorder
    have hr := List.pairwise_cons.1 hs
    rw [groupRuns_cons]
    apply groupLoop_ok h rest y [(y, x)] []
    · exact ⟨by simp, by intro p hp; simp at hp; subst hp; exact hl.refl _, by simp, by simp, by simp, by simp⟩
    · intro p hp q hq; simp at hp; subst hp; exact hr.1 q hq
    · exact hr.2

end group

/-! ### the extremum fold -/
section extremum
variable {α κ : Type} {c : κ → κ → Ordering}

/-- `min_by`: the result is the first element whose key is minimal -/
theorem foldl_min (h : TotalPreorder c) : ∀ (rest : List (KV κ α)) (m : KV κ α),
    ∃ pre post, m :: rest = pre ++ (rest.foldl (cmpStep (minReplace c)) m) :: post ∧
      (∀ p ∈ pre, lexCmp c (rest.foldl (cmpStep (minReplace c)) m).1 p.1 = .lt) ∧
      (∀ q ∈ post, lexCmp c (rest.foldl (cmpStep (minReplace c)) m).1 q.1 ≠ .gt)
  | [], m => ⟨[], [], rfl, by simp, by simp⟩
  | q :: rest, m => by
    have hl := lexCmp_preorder h
    rw [List.foldl_cons]
    by_cases hlt : lexCmp c q.1 m.1 = .lt
    · -- `q` replaces `m`
      have : cmpStep (minReplace c) m q = q := by simp [cmpStep, minReplace, hlt]
      rw [this]
      obtain ⟨pre, post, heq, hpre, hpost⟩ := foldl_min h rest q
      refine ⟨m :: pre, post, by rw [heq]; rfl, ?_, hpost⟩
      intro p hp
      rcases List.mem_cons.1 hp with rfl | hp
      · -- r ≤ q < m
        cases pre with
        | nil =>
          simp at heq
          rw [← heq.1]; exact hlt
        | cons q' pre' =>
          have hq : q' = q := by simp at heq; exact heq.1.symm
          have := hpre q' (List.mem_cons_self ..)
          rw [hq] at this
          exact hl.lt_trans this hlt
      · exact hpre p hp
    · have : cmpStep (minReplace c) m q = m := by simp [cmpStep, minReplace, hlt]
      rw [this]
      have hmq : lexCmp c m.1 q.1 ≠ .gt := by
        intro hgt; exact hlt ((hl.gt_iff_lt m.1 q.1).1 hgt)
      obtain ⟨pre, post, heq, hpre, hpost⟩ := foldl_min h rest m
      cases pre with
      | nil =>
        simp at heq
        refine ⟨[], q :: rest, by simp [← heq.1], by simp, ?_⟩
        intro p hp
        rcases List.mem_cons.1 hp with rfl | hp
        · rw [← heq.1]; exact hmq
        · rw [heq.2] at hp; exact hpost p hp
      | cons m' pre' =>
        have hm : m' = m := by simp at heq; exact heq.1.symm
        subst hm
        have hrest : rest = pre' ++ (rest.foldl (cmpStep (minReplace c)) m') :: post := by simpa using heq
        refine ⟨m' :: q :: pre', post, by rw [List.cons_append, List.cons_append, ← hrest], ?_, hpost⟩
        intro p hp
        have hrm := hpre m' (List.mem_cons_self ..)
        rcases List.mem_cons.1 hp with rfl | hp
        · exact hrm
        · rcases List.mem_cons.1 hp with rfl | hp
          · exact hl.lt_of_lt_of_le hrm hmq
          · exact hpre p (List.mem_cons_of_mem _ hp)

/-- `max_by`: the result is the last element whose key is maximal -/
theorem foldl_max (h : TotalPreorder c) : ∀ (rest : List (KV κ α)) (m : KV κ α),
    ∃ pre post, m :: rest = pre ++ (rest.foldl (cmpStep (maxReplace c)) m) :: post ∧
      (∀ p ∈ pre, lexCmp c p.1 (rest.foldl (cmpStep (maxReplace c)) m).1 ≠ .gt) ∧
      (∀ q ∈ post, lexCmp c q.1 (rest.foldl (cmpStep (maxReplace c)) m).1 = .lt)
  | [], m => ⟨[], [], rfl, by simp, by simp⟩
  | q :: rest, m => by
    have hl := lexCmp_preorder h
    rw [List.foldl_cons]
    by_cases hlt : lexCmp c q.1 m.1 = .lt
    · -- `q` is smaller: `m` stays
      have : cmpStep (maxReplace c) m q = m := by simp [cmpStep, maxReplace, hlt]
      rw [this]
      obtain ⟨pre, post, heq, hpre, hpost⟩ := foldl_max h rest m
      cases pre with
      | nil =>
        simp at heq
        refine ⟨[], q :: rest, by simp [← heq.1], by simp, ?_⟩
        intro p hp
        rcases List.mem_cons.1 hp with rfl | hp
        · rw [← heq.1]; exact hlt
        · rw [heq.2] at hp; exact hpost p hp
      | cons m' pre' =>
        have hm : m' = m := by simp at heq; exact heq.1.symm
        subst hm
        have hrest : rest = pre' ++ (rest.foldl (cmpStep (maxReplace c)) m') :: post := by simpa using heq
        refine ⟨m' :: q :: pre', post, by rw [List.cons_append, List.cons_append, ← hrest], ?_, hpost⟩
        intro p hp
        have hmr := hpre m' (List.mem_cons_self ..)
        rcases List.mem_cons.1 hp with rfl | hp
        · exact hmr
        · rcases List.mem_cons.1 hp with rfl | hp
          · exact hl.trans_le _ _ _ (TotalPreorder.le_of_lt hlt) hmr
          · exact hpre p (List.mem_cons_of_mem _ hp)
    · -- `q >= m`: `q` replaces `m`
      have : cmpStep (maxReplace c) m q = q := by simp [cmpStep, maxReplace, hlt]
      rw [this]
      have hmq : lexCmp c m.1 q.1 ≠ .gt := by
        intro hgt; exact hlt ((hl.gt_iff_lt m.1 q.1).1 hgt)
      obtain ⟨pre, post, heq, hpre, hpost⟩ := foldl_max h rest q
      refine ⟨m :: pre, post, by rw [heq]; rfl, ?_, hpost⟩
      intro p hp
      rcases List.mem_cons.1 hp with rfl | hp
      · cases pre with
        | nil =>
          simp at heq
          rw [← heq.1]; exact hmq
        | cons q' pre' =>
          have hq : q' = q := by simp at heq; exact heq.1.symm
          have := hpre q' (List.mem_cons_self ..)
          rw [hq] at this
          exact hl.trans_le _ _ _ hmq this
      · exact hpre p hp

end extremum

/-! ### helpers of the `group_by` / `unique_by` theorems -/

theorem dec_mem_key {α κ : Type} {c : κ → κ → Ordering} {key : α → List κ} {xs : List α} {p : List κ × α}
    (hp : p ∈ isort (keyCmp c) (xs.map fun x => (key x, x))) : p.1 = key p.2 := by
  obtain ⟨x, _, rfl⟩ := List.mem_map.1 (mem_isort.1 hp)
  rfl


/-- in a list of groups with strictly increasing keys, the members of one equivalence class
are exactly one group -/
theorem filter_flatten_class {α κ : Type} {c : κ → κ → Ordering} (h : TotalPreorder c) (k : List κ) :
    ∀ (Gs : List (List (List κ × α))), GroupsOK c Gs → ∀ G ∈ Gs, (∀ p ∈ G, lexCmp c p.1 k = .eq) →
      Gs.flatten.filter (fun p => lexCmp c p.1 k == .eq) = G
  | [], _, G, hG, _ => by cases hG
  | G0 :: Gs, ok, G, hG, hk => by
    have hl := lexCmp_preorder h
    have hpw := List.pairwise_cons.1 ok.lt
    have okTail : GroupsOK c Gs :=
      ⟨fun g hg => ok.ne g (List.mem_cons_of_mem _ hg), fun g hg => ok.eq g (List.mem_cons_of_mem _ hg), hpw.2⟩
    rw [List.flatten_cons, List.filter_append]
    rcases List.mem_cons.1 hG with rfl | hG
    · -- the class is the first group; later groups are strictly greater
      have h1 : G.filter (fun p => lexCmp c p.1 k == .eq) = G := by
        apply List.filter_eq_self.2
        intro p hp; simp [hk p hp]
      have h2 : Gs.flatten.filter (fun p => lexCmp c p.1 k == .eq) = [] := by
        apply List.filter_eq_nil_iff.2
        intro q hq
        obtain ⟨G', hG', hq'⟩ := List.mem_flatten.1 hq
        obtain ⟨p0, hp0⟩ := List.exists_mem_of_ne_nil G (ok.ne G (List.mem_cons_self ..))
        have hlt := hpw.1 G' hG' p0 hp0 q hq'
        have : lexCmp c k q.1 = .lt := hl.lt_of_le_of_lt (TotalPreorder.le_of_eq (hl.eq_symm (hk p0 hp0))) hlt
        have : lexCmp c q.1 k = .gt := (hl.lt_iff_gt k q.1).1 this
        simp [this]
      rw [h1, h2, List.append_nil]
    · -- the class is a later group; the first group is strictly smaller
      have h1 : G0.filter (fun p => lexCmp c p.1 k == .eq) = [] := by
        apply List.filter_eq_nil_iff.2
        intro q hq
        obtain ⟨p0, hp0⟩ := List.exists_mem_of_ne_nil G (okTail.ne G hG)
        have hlt := hpw.1 G hG q hq p0 hp0
        have : lexCmp c q.1 k = .lt := hl.lt_of_lt_of_le hlt (TotalPreorder.le_of_eq (hk p0 hp0))
        simp [this]
      rw [h1, List.nil_append]
      exact filter_flatten_class h k Gs okTail G hG hk


end Jaq.Coll
