import JaqVerif.C18.InPlace
namespace Jaq.C18

/-! ### file-system algebra -/

@[simp] theorem FS.set_same (fs : FS) (p : Path) (v) : (fs.set p v) p = v := by simp [FS.set]

theorem FS.set_other (fs : FS) {p q : Path} (v) (h : q ≠ p) : (fs.set p v) q = fs q := by
  simp [FS.set, h]

theorem FS.set_set (fs : FS) (p : Path) (a b) : (fs.set p a).set p b = fs.set p b := by
  funext q; by_cases h : q = p <;> simp [FS.set, h]

theorem FS.set_none_of_none (fs : FS) (p : Path) (h : fs p = none) : fs.set p none = fs := by
  funext q; by_cases hq : q = p
  · subst hq; simp [FS.set, h]
  · simp [FS.set, hq]

theorem FS.set_comm (fs : FS) {p q : Path} (a b) (h : p ≠ q) :
    (fs.set p a).set q b = (fs.set q b).set p a := by
  funext r; by_cases h1 : r = p <;> by_cases h2 : r = q <;> simp_all [FS.set]

@[simp] theorem exec_nil (fs : FS) : exec fs [] = fs := rfl
@[simp] theorem exec_cons (fs : FS) (o : Op) (ops : List Op) : exec fs (o :: ops) = exec (step fs o) ops := rfl
theorem exec_append (fs : FS) (a b : List Op) : exec fs (a ++ b) = exec (exec fs a) b := by
  simp [exec, List.foldl_append]

/-! ### frame: an operation changes only the paths it touches -/

theorem step_frame (fs : FS) (op : Op) (q : Path) (h : q ∉ op.touches) : step fs op q = fs q := by
  cases op with
  | load p => rfl
  | stat p m => rfl
  | mkTemp t =>
    simp only [Op.touches, List.mem_singleton] at h
    rcases hx : fs t with _ | ⟨c, m⟩ <;> simp [step, hx, FS.set, h]
  | write t b =>
    simp only [Op.touches, List.mem_singleton] at h
    rcases hx : fs t with _ | ⟨c, m⟩ <;> simp [step, hx, FS.set, h]
  | unlink t =>
    simp only [Op.touches, List.mem_singleton] at h
    simp [step, FS.set, h]
  | rename t p =>
    simp only [Op.touches, List.mem_cons, List.mem_nil_iff, or_false, not_or] at h
    rcases hx : fs t with _ | ⟨c, m⟩ <;> simp [step, hx, FS.set, h.1, h.2]
  | chmod p m =>
    simp only [Op.touches, List.mem_singleton] at h
    rcases hx : fs p with _ | ⟨c, m'⟩ <;> simp [step, hx, FS.set, h]

theorem exec_frame (ops : List Op) (fs : FS) (q : Path) (h : ∀ op ∈ ops, q ∉ op.touches) :
    exec fs ops q = fs q := by
  induction ops generalizing fs with
  | nil => rfl
  | cons o ops ih =>
    rw [exec_cons, ih _ (fun op hop => h op (List.mem_cons_of_mem _ hop)), step_frame _ _ _ (h o List.mem_cons_self)]

/-! ### the writes -/

theorem exec_writes (ws : List Bytes) (fs : FS) (t : Path) (c : Bytes) (m : Mode) (h : fs t = some (c, m)) :
    exec fs (writes t ws) = fs.set t (some (c ++ ws.flatten, m)) := by
  induction ws generalizing fs c with
  | nil =>
    funext q; by_cases hq : q = t
    · subst hq; simp [writes, h]
    · simp [writes, FS.set, hq]
  | cons w ws ih =>
    simp only [writes, List.map_cons, exec_cons] at *
    have h1 : step fs (Op.write t w) = fs.set t (some (c ++ w, m)) := by simp [step, h]
    rw [h1, ih _ (c ++ w) (by simp), FS.set_set]
    simp [List.append_assoc]

end Jaq.C18
