/-
  C20 — lemmas and theorems about the model of `strftime(F)` / `strptime(F)`
  (`JaqVerif/C20/Strtime.lean`, following jiff 0.2.23 `fmt/strtime`):

  * `strtime_table_ok`: the model renders every row of the regenerated table
    `Gen/C20Strtime.lean` (the REAL single-directive renderings of `c20 dirtable`) the same way
    (`decide +kernel`; a change of jiff's or jaq's rendering breaks this proof build);
  * digit lemmas (`parseNumber (padK n ++ r) = some (n, r)`, unpadded decimals), names, `+0000`;
  * `dir_step` / `lit_step` / `parseItems_strftime`: every item reads back exactly what it printed;
  * `toCivil_complete`: `to_zoned` on fields that agree with the instant and determine it;
  * at the end, under "Theorems (for `Props/C20.lean`)": `CompleteFormat`, `strptimeM_strftimeM`,
    `strptime_strftime_mktime` (general: ALL complete formats over the modelled directives, ALL
    integer epochs of the `Timestamp` range, no year guard), `check_formats_complete`.
-/
import JaqVerif.Lemmas.C20Epoch
import JaqVerif.C20.Strtime
import JaqVerif.Gen.C20Strtime

set_option linter.constructorNameAsVariable false
set_option linter.unusedSimpArgs false
namespace Jaq.Time

/-! ### the regenerated table of real renderings -/

def rowOk (items : List Item) (r : Int × List Nat) : Bool :=
  (strftimeM items ⟨r.1 * 1000000000⟩).map Char.toNat == r.2

def dirOk (e : Nat × List (Int × List Nat)) : Bool :=
  match parseFormat ['%', Char.ofNat e.1] with
  | some items => e.2.all (rowOk items)
  | none => false

/-- for every modelled directive `%X` and every instant of the fixed list, the model prints what
the real `strftime("%X")` printed when the table was regenerated (on every run of the check) -/
theorem strtime_table_ok : Gen.strtimeTable.all dirOk = true := by decide +kernel

/-- the table covers every modelled directive letter -/
theorem strtime_table_covers :
    Gen.strtimeTable.map (·.1) = [89, 109, 100, 101, 72, 77, 83, 106, 97, 98, 104, 122, 90, 115, 37, 70, 84] ∧
    Gen.strtimeTable.all (fun e => decide (e.2.length ≥ 30)) = true := by decide +kernel

theorem digit_tab : ∀ k : Fin 10, digitVal (Char.ofNat (48 + k.val)) = some (Int.ofNat k.val) ∧
    isWs (Char.ofNat (48 + k.val)) = false ∧ isDigitC (Char.ofNat (48 + k.val)) = true ∧
    ¬ Char.ofNat (48 + k.val) = '-' ∧ ¬ Char.ofNat (48 + k.val) = '+' := by decide

/-- the value of the digit that `digitChar n` prints -/
def dg (n : Int) : Int := Int.ofNat (n.toNat % 10)

theorem dg_eq (n : Int) (h : 0 ≤ n) : dg n = n % 10 := by simp only [dg, Int.ofNat_eq_natCast]; omega

theorem digitVal_digitChar_st (n : Int) : digitVal (digitChar n) = some (dg n) :=
  (digit_tab ⟨n.toNat % 10, Nat.mod_lt _ (by decide)⟩).1
theorem isWs_digitChar (n : Int) : isWs (digitChar n) = false :=
  (digit_tab ⟨n.toNat % 10, Nat.mod_lt _ (by decide)⟩).2.1
theorem isDigitC_digitChar_st (n : Int) : isDigitC (digitChar n) = true :=
  (digit_tab ⟨n.toNat % 10, Nat.mod_lt _ (by decide)⟩).2.2.1
theorem digitChar_ne_minus_st (n : Int) : ¬ digitChar n = '-' :=
  (digit_tab ⟨n.toNat % 10, Nat.mod_lt _ (by decide)⟩).2.2.2.1
theorem digitChar_ne_plus (n : Int) : ¬ digitChar n = '+' :=
  (digit_tab ⟨n.toNat % 10, Nat.mod_lt _ (by decide)⟩).2.2.2.2

def nonDigitStart : List Char → Prop
  | [] => True
  | c :: _ => isDigitC c = false

theorem readUpTo_digit (k : Nat) (acc n : Int) (cs : List Char) :
    readUpTo (k + 1) acc (digitChar n :: cs) = readUpTo k (10 * acc + dg n) cs := by
  simp only [readUpTo, digitVal_digitChar_st]

theorem readUpTo_stop (k : Nat) (acc : Int) (cs : List Char) (h : nonDigitStart cs) :
    readUpTo k acc cs = (acc, cs) := by
  cases k with
  | zero => rfl
  | succ k =>
    cases cs with
    | nil => rfl
    | cons c cs =>
      simp only [nonDigitStart, isDigitC] at h
      cases hd : digitVal c with
      | none => simp only [readUpTo, hd]
      | some v => simp [hd] at h

theorem pow_step (f : Nat) (n : Int) (h : n < 10 ^ (f + 1)) : n / 10 < 10 ^ f := by
  rw [Int.pow_succ] at h
  exact Int.ediv_lt_of_lt_mul (by decide) h

theorem readUpTo_natDigits : ∀ (f : Nat) (n : Int) (k : Nat) (r : List Char), 0 ≤ n → n < 10 ^ f → f ≤ k →
    ∃ j, j ≤ f ∧ readUpTo k 0 (natDigits f n ++ r) = readUpTo (k - j) n r
  | 0, n, k, r, h0, h1, _ => by
    have : n = 0 := by simp at h1; omega
    subst this
    exact ⟨0, by omega, rfl⟩
  | f + 1, n, k, r, h0, h1, hk => by
    obtain ⟨k', rfl⟩ : ∃ k', k = k' + 1 := ⟨k - 1, by omega⟩
    unfold natDigits
    by_cases hn : n < 10
    · refine ⟨1, by omega, ?_⟩
      rw [if_pos hn]
      simp only [List.singleton_append, readUpTo_digit, dg_eq n h0]
      congr 1 <;> omega
    · rw [if_neg hn, List.append_assoc]
      obtain ⟨j, hj, e⟩ := readUpTo_natDigits f (n / 10) (k' + 1) ([digitChar n] ++ r) (by omega) (pow_step f n h1) (by omega)
      refine ⟨j + 1, by omega, ?_⟩
      rw [e]
      obtain ⟨k'', hk''⟩ : ∃ k'', k' + 1 - j = k'' + 1 := ⟨k' - j, by omega⟩
      rw [hk'']
      simp only [List.singleton_append, readUpTo_digit, dg_eq n h0]
      congr 1 <;> omega

/-! ### fixed-width numbers -/

theorem dropWs_nonws (c : Char) (cs : List Char) (h : isWs c = false) : dropWs (c :: cs) = c :: cs := by
  simp only [dropWs, h, Bool.false_eq_true, if_false]

theorem parseNumber_digit (w : Nat) (n : Int) (cs : List Char) :
    parseNumber w (digitChar n :: cs) = some (readUpTo w 0 (digitChar n :: cs)) := by
  simp only [parseNumber, dropWs_nonws _ _ (isWs_digitChar n), isDigitC_digitChar_st, if_true]

theorem parseNumber_dropWs (w : Nat) (cs : List Char) : parseNumber w (dropWs cs) = parseNumber w cs := by
  have idem : ∀ cs : List Char, dropWs (dropWs cs) = dropWs cs := by
    intro cs
    induction cs with
    | nil => rfl
    | cons c cs ih =>
      by_cases h : isWs c = true
      · simp only [dropWs, h, if_true, ih]
      · have h' : isWs c = false := by simpa using h
        simp only [dropWs, h', Bool.false_eq_true, if_false]
  simp only [parseNumber, idem]

theorem parseNumber_pad2 (n : Int) (r : List Char) (h0 : 0 ≤ n) (h1 : n ≤ 99) :
    parseNumber 2 (pad2 n ++ r) = some (n, r) := by
  simp only [pad2, List.cons_append, List.nil_append, parseNumber_digit, readUpTo, digitVal_digitChar_st,
    dg_eq n h0, dg_eq (n / 10) (by omega)]
  congr 2; omega

theorem parseNumber_pad3 (n : Int) (r : List Char) (h0 : 0 ≤ n) (h1 : n ≤ 999) :
    parseNumber 3 (pad3 n ++ r) = some (n, r) := by
  simp only [pad3, List.cons_append, List.nil_append, parseNumber_digit, readUpTo, digitVal_digitChar_st,
    dg_eq n h0, dg_eq (n / 10) (by omega), dg_eq (n / 100) (by omega)]
  congr 2; omega

theorem parseNumber_pad4 (n : Int) (r : List Char) (h0 : 0 ≤ n) (h1 : n ≤ 9999) :
    parseNumber 4 (pad4 n ++ r) = some (n, r) := by
  simp only [pad4, List.cons_append, List.nil_append, parseNumber_digit, readUpTo, digitVal_digitChar_st,
    dg_eq n h0, dg_eq (n / 10) (by omega), dg_eq (n / 100) (by omega), dg_eq (n / 1000) (by omega)]
  congr 2; omega

theorem parseNumber_pad3_of4 (n : Int) (r : List Char) (h0 : 0 ≤ n) (h1 : n ≤ 999) (hr : nonDigitStart r) :
    parseNumber 4 (pad3 n ++ r) = some (n, r) := by
  simp only [pad3, List.cons_append, List.nil_append, parseNumber_digit, readUpTo, digitVal_digitChar_st,
    dg_eq n h0, dg_eq (n / 10) (by omega), dg_eq (n / 100) (by omega), readUpTo_stop _ _ _ hr]
  congr 2; omega

theorem parseNumber_one_of2 (n : Int) (r : List Char) (h0 : 0 ≤ n) (h1 : n ≤ 9) (hr : nonDigitStart r) :
    parseNumber 2 (digitChar n :: r) = some (n, r) := by
  simp only [parseNumber_digit, readUpTo, digitVal_digitChar_st, dg_eq n h0, readUpTo_stop _ _ _ hr]
  congr 2; omega

theorem pow20 : (10 : Int) ^ 20 = 100000000000000000000 := by decide

theorem natDigits_head : ∀ (f : Nat) (m : Int), ∃ a rest, natDigits (f + 1) m = digitChar a :: rest := by
  intro f
  induction f with
  | zero => intro m; unfold natDigits; by_cases h : m < 10
            · exact ⟨m, [], by rw [if_pos h]⟩
            · exact ⟨m, [], by rw [if_neg h]; rfl⟩
  | succ f ih =>
    intro m
    unfold natDigits
    by_cases h : m < 10
    · exact ⟨m, [], by rw [if_pos h]⟩
    · obtain ⟨a, rest, e⟩ := ih (m / 10)
      exact ⟨a, rest ++ [digitChar m], by rw [if_neg h, e]; rfl⟩

theorem parseNumber_natDigits (n : Int) (r : List Char) (h0 : 0 ≤ n) (h1 : n < 1000000000000) (hr : nonDigitStart r) :
    parseNumber 19 (natDigits 20 n ++ r) = some (n, r) := by
  -- the first character is a digit
  have hne : ∃ a rest, natDigits 20 n = digitChar a :: rest := by
    have : ∀ (f : Nat) (m : Int), ∃ a rest, natDigits (f + 1) m = digitChar a :: rest := by
      intro f
      induction f with
      | zero => intro m; unfold natDigits; by_cases h : m < 10
                · exact ⟨m, [], by rw [if_pos h]⟩
                · exact ⟨m, [], by rw [if_neg h]; rfl⟩
      | succ f ih =>
        intro m
        unfold natDigits
        by_cases h : m < 10
        · exact ⟨m, [], by rw [if_pos h]⟩
        · obtain ⟨a, rest, e⟩ := ih (m / 10)
          exact ⟨a, rest ++ [digitChar m], by rw [if_neg h, e]; rfl⟩
    exact this 19 n
  obtain ⟨a, rest, e⟩ := hne
  have hp : parseNumber 19 (natDigits 20 n ++ r) = some (readUpTo 19 0 (natDigits 20 n ++ r)) := by
    rw [e, List.cons_append, parseNumber_digit]
  rw [hp]
  -- 12 digits suffice, so the 19-digit limit is not reached
  have h12 : ∀ (f : Nat) (m : Int), 0 ≤ m → m < 10 ^ f → natDigits (f + 8) m = natDigits f m ∨ f = 0 := by
    intro f
    induction f with
    | zero => intro m _ _; right; rfl
    | succ f ih =>
      intro m hm0 hm1
      left
      by_cases h : m < 10
      · have e1 : natDigits (f + 8 + 1) m = [digitChar m] := by rw [natDigits, if_pos h]
        have e2 : natDigits (f + 1) m = [digitChar m] := by rw [natDigits, if_pos h]
        show natDigits (f + 8 + 1) m = natDigits (f + 1) m
        rw [e1, e2]
      · have := ih (m / 10) (by omega) (pow_step f m hm1)
        have e1 : natDigits (f + 8 + 1) m = natDigits (f + 8) (m / 10) ++ [digitChar m] := by rw [natDigits, if_neg h]
        have e2 : natDigits (f + 1) m = natDigits f (m / 10) ++ [digitChar m] := by rw [natDigits, if_neg h]
        rcases this with e' | e'
        · show natDigits (f + 8 + 1) m = natDigits (f + 1) m
          rw [e1, e2, e']
        · subst e'
          have : m < 10 := by simpa using hm1
          exact absurd this h
  have e12 : natDigits 20 n = natDigits 12 n := by
    rcases h12 12 n h0 (by rw [show (10:Int)^12 = 1000000000000 by decide]; exact h1) with e' | e'
    · exact e'
    · omega
  rw [e12]
  obtain ⟨j, hj, ej⟩ := readUpTo_natDigits 12 n 19 r h0 (by rw [show (10:Int)^12 = 1000000000000 by decide]; exact h1) (by omega)
  rw [ej, readUpTo_stop _ _ _ hr]


/-! ### names, offset, blanks -/

theorem parseName3_wday (w : Int) (r : List Char) (h0 : 0 ≤ w) (h1 : w ≤ 6) :
    parseName3 wdayIndex (wdayName w ++ r) = some (w, r) := by
  rcases (show w = 0 ∨ w = 1 ∨ w = 2 ∨ w = 3 ∨ w = 4 ∨ w = 5 ∨ w = 6 by omega) with h|h|h|h|h|h|h <;> subst h <;> rfl

theorem parseName3_mon (m : Int) (r : List Char) (h0 : 1 ≤ m) (h1 : m ≤ 12) :
    parseName3 monIndex (monName m ++ r) = some (m, r) := by
  rcases dbm_cases m h0 h1 with h|h|h|h|h|h|h|h|h|h|h|h <;> subst h <;> rfl

theorem name_head_w (w : Int) : ∃ c rest, wdayName w = c :: rest ∧ isDigitC c = false ∧ isWs c = false := by
  unfold wdayName
  repeat' split
  all_goals exact ⟨_, _, rfl, by decide, by decide⟩

theorem name_head_m (m : Int) (h0 : 1 ≤ m) (h1 : m ≤ 12) :
    ∃ c rest, monName m = c :: rest ∧ isDigitC c = false ∧ isWs c = false := by
  rcases dbm_cases m h0 h1 with h|h|h|h|h|h|h|h|h|h|h|h <;> subst h <;> exact ⟨_, _, rfl, by decide, by decide⟩

theorem startsTwoDigits_false (r : List Char) (h : nonDigitStart r) : startsTwoDigits r = false := by
  cases r with
  | nil => rfl
  | cons a t =>
    cases t with
    | nil => rfl
    | cons b t => simp only [nonDigitStart] at h; simp [startsTwoDigits, h]

theorem parseOffset_utc (r : List Char) (h : nonDigitStart r) :
    parseOffset (['+', '0', '0', '0', '0'] ++ r) = some (0, r) := by
  have d0 : digitVal '0' = some 0 := by decide
  have i0 : isDigitC '0' = true := by decide
  have s1 : startsTwoDigits ('0' :: '0' :: r) = true := by simp [startsTwoDigits, i0]
  have t1 : ∀ rest, twoDigits ('0' :: '0' :: rest) = some (0, rest) := by intro rest; simp [twoDigits, d0]
  have c1 : startsWithC ':' ('0' :: '0' :: r) = false := rfl
  simp only [parseOffset, List.cons_append, List.nil_append, t1, s1, c1, startsTwoDigits_false r h]
  simp

/-- the rest of the text, possibly with leading blanks already consumed by a blank of the format -/
def wsf (w : Bool) (cs : List Char) : List Char := if w then dropWs cs else cs

theorem wsf_nonws (w : Bool) (c : Char) (cs : List Char) (h : isWs c = false) : wsf w (c :: cs) = c :: cs := by
  cases w <;> simp [wsf, dropWs, h]

theorem wsf_false (cs : List Char) : wsf false cs = cs := rfl

theorem wsf_nil (w : Bool) : wsf w [] = [] := by cases w <;> rfl

theorem dropWs_idem (cs : List Char) : dropWs (dropWs cs) = dropWs cs := by
  induction cs with
  | nil => rfl
  | cons c cs ih =>
    by_cases h : isWs c = true
    · simp only [dropWs, h, if_true, ih]
    · have h' : isWs c = false := by simpa using h
      simp only [dropWs, h', Bool.false_eq_true, if_false]


/-! ### what `strptime` learns from the text that `strftime` printed -/

/-- the field that directive `d` sets when it reads what it printed for the instant `t` -/
def setDir (d : Dir) (t : Timestamp) (f : Bdt) : Bdt :=
  match d with
  | .Y | .Yiso => { f with year := some t.toDateTimeUTC.year }
  | .m | .b => { f with month := some t.toDateTimeUTC.month }
  | .d | .e => { f with day := some t.toDateTimeUTC.day }
  | .H => { f with hour := some t.toDateTimeUTC.hour }
  | .M => { f with minute := some t.toDateTimeUTC.minute }
  | .S => { f with second := some t.toDateTimeUTC.second }
  | .j => { f with doy := some (t.toDateTimeUTC.yearday + 1) }
  | .a => { f with wday := some t.toDateTimeUTC.weekday }
  | .z => { f with offset := some 0 }
  | .s => { f with ts := some t.asSecond }
  | .Z | .pct => f

def setItem (it : Item) (t : Timestamp) (f : Bdt) : Bdt :=
  match it with
  | .lit _ => f
  | .dir d => setDir d t f

def setAll : List Item → Timestamp → Bdt → Bdt
  | [], _, f => f
  | it :: r, t, f => setAll r t (setItem it t f)

/-- facts about the UTC civil fields of an instant of the `Timestamp` range without sub-second part -/
structure Ranges (t : Timestamp) : Prop where
  y : -9999 ≤ t.toDateTimeUTC.year ∧ t.toDateTimeUTC.year ≤ 9999
  mo : 1 ≤ t.toDateTimeUTC.month ∧ t.toDateTimeUTC.month ≤ 12
  d : 1 ≤ t.toDateTimeUTC.day ∧ t.toDateTimeUTC.day ≤ 31
  h : 0 ≤ t.toDateTimeUTC.hour ∧ t.toDateTimeUTC.hour ≤ 23
  mi : 0 ≤ t.toDateTimeUTC.minute ∧ t.toDateTimeUTC.minute ≤ 59
  s : 0 ≤ t.toDateTimeUTC.second ∧ t.toDateTimeUTC.second ≤ 59
  yd : 0 ≤ t.toDateTimeUTC.yearday ∧ t.toDateTimeUTC.yearday + 1 ≤ daysInYear t.toDateTimeUTC.year
  wd : 0 ≤ t.toDateTimeUTC.weekday ∧ t.toDateTimeUTC.weekday ≤ 6
  sec : unixSecMin ≤ t.asSecond ∧ t.asSecond ≤ unixSecMax
  vd : validDate t.toDateTimeUTC.year t.toDateTimeUTC.month t.toDateTimeUTC.day
  nz : t.toDateTimeUTC.nanos = 0
  whole : t.ns = t.asSecond * 1000000000

theorem ranges_of_sec (i : Int) (h1 : unixSecMin ≤ i) (h2 : i ≤ unixSecMax) : Ranges ⟨i * 1000000000⟩ := by
  have e1 : i * 1000000000 / 1000000000 = i := by omega
  have e2 : i * 1000000000 % 1000000000 = 0 := by omega
  have ⟨hval, hinv⟩ := daysFromCivil_civilFromDays (i / 86400)
  have ⟨y1, y2⟩ := year_of_sec_range i h1 h2
  unfold utcYear at y1 y2
  have ⟨m1, m2, d1, d2⟩ := hval
  have ⟨_, dl⟩ := daysInMonth_le (civilFromDays (i / 86400)).1 (civilFromDays (i / 86400)).2.1 m1 m2
  have hyd := yearday_eq (i / 86400)
  have hyr := yearday_range (i / 86400)
  have hwd := weekday_range (i / 86400)
  have hs : Timestamp.asSecond ⟨i * 1000000000⟩ = i := by
    simp only [Timestamp.asSecond, Int.mul_tdiv_cancel _ (show (1000000000:Int) ≠ 0 by decide)]
  have hdy : daysInYear (civilFromDays (i / 86400)).1 ≤ 366 := by unfold daysInYear leapDays; split <;> omega
  constructor <;>
    simp only [Timestamp.toDateTimeUTC, DateTime.yearday, DateTime.weekday, e1, e2, hs, hinv] <;>
    first
    | exact ⟨y1, y2⟩
    | exact hval
    | rfl
    | omega

/-- every value that the text has given to a field is the true one -/
structure Agree (t : Timestamp) (f : Bdt) : Prop where
  year : ∀ v, f.year = some v → v = t.toDateTimeUTC.year
  month : ∀ v, f.month = some v → v = t.toDateTimeUTC.month
  day : ∀ v, f.day = some v → v = t.toDateTimeUTC.day
  hour : ∀ v, f.hour = some v → v = t.toDateTimeUTC.hour
  minute : ∀ v, f.minute = some v → v = t.toDateTimeUTC.minute
  second : ∀ v, f.second = some v → v = t.toDateTimeUTC.second
  doy : ∀ v, f.doy = some v → v = t.toDateTimeUTC.yearday + 1
  wday : ∀ v, f.wday = some v → v = t.toDateTimeUTC.weekday
  offset : ∀ v, f.offset = some v → v = 0
  ts : ∀ v, f.ts = some v → v = t.asSecond

theorem agree_empty (t : Timestamp) : Agree t Bdt.empty := by
  constructor <;> intro v h <;> simp [Bdt.empty] at h

theorem agree_setDir (t : Timestamp) (d : Dir) (f : Bdt) (A : Agree t f) : Agree t (setDir d t f) := by
  obtain ⟨a1, a2, a3, a4, a5, a6, a7, a8, a9, a10⟩ := A
  cases d <;> constructor <;> intro v h <;> simp only [setDir, Option.some.injEq] at h <;>
    first
    | exact h.symm
    | exact a1 v h | exact a2 v h | exact a3 v h | exact a4 v h | exact a5 v h
    | exact a6 v h | exact a7 v h | exact a8 v h | exact a9 v h | exact a10 v h

theorem agree_setAll (t : Timestamp) : ∀ (F : List Item) (f : Bdt), Agree t f → Agree t (setAll F t f)
  | [], _, A => A
  | .lit _ :: r, f, A => agree_setAll t r f A
  | .dir d :: r, f, A => agree_setAll t r _ (agree_setDir t d f A)


/-! ### one item -/

/-- directives whose rendering has no fixed number of digits (`%Y` of a negative year, `%e`,
`%s`, `%z` which may be followed by seconds) -/
def varWidth : Dir → Bool
  | .Y | .e | .s | .z => true
  | _ => false

/-- what these items print never starts with a digit -/
def startSafe : List Item → Bool
  | [] => true
  | .lit c :: _ => !isDigitC c
  | .dir d :: _ => d == .a || d == .b || d == .z || d == .Z || d == .pct

/-- no `%Z` (jiff refuses to parse it); a variable-width number is followed by a non-digit -/
def safeItems : List Item → Bool
  | [] => true
  | .lit _ :: rest => safeItems rest
  | .dir d :: rest => d != .Z && (!varWidth d || startSafe rest) && safeItems rest

theorem parseBounded_ok (w : Nat) (lo hi n : Int) (X cs : List Char) (h : parseNumber w cs = some (n, X))
    (h1 : lo ≤ n) (h2 : n ≤ hi) : parseBounded w lo hi cs = some (n, X) := by
  simp only [parseBounded, h, h1, h2, and_self, if_true]

theorem pad2_cons (n : Int) (X : List Char) : pad2 n ++ X = digitChar (n / 10) :: digitChar n :: X := rfl
theorem pad3_cons (n : Int) (X : List Char) : pad3 n ++ X = digitChar (n / 100) :: digitChar (n / 10) :: digitChar n :: X := rfl
theorem pad4_cons (n : Int) (X : List Char) :
    pad4 n ++ X = digitChar (n / 1000) :: digitChar (n / 100) :: digitChar (n / 10) :: digitChar n :: X := rfl

theorem optSign_digit (n : Int) (cs : List Char) : optSign (digitChar n :: cs) = (1, digitChar n :: cs) := by
  simp only [optSign, digitChar_ne_minus_st, digitChar_ne_plus, if_false]

theorem optSign_minus (cs : List Char) : optSign ('-' :: cs) = (-1, cs) := rfl

theorem parseNumber_space (w : Nat) (cs : List Char) : parseNumber w (' ' :: cs) = parseNumber w cs := by
  have : dropWs (' ' :: cs) = dropWs cs := rfl
  rw [← parseNumber_dropWs w (' ' :: cs), this, parseNumber_dropWs]

theorem dir_step (t : Timestamp) (R : Ranges t) (d : Dir) (f : Bdt) (w : Bool) (X : List Char)
    (hZ : d ≠ .Z) (hv : varWidth d = true → nonDigitStart X) :
    ∃ w', parseItem (.dir d) f (wsf w (fmtDir d t ++ X)) = some (setDir d t f, wsf w' X) := by
  obtain ⟨⟨y1, y2⟩, ⟨mo1, mo2⟩, ⟨d1, d2⟩, ⟨h1, h2⟩, ⟨mi1, mi2⟩, ⟨s1, s2⟩, ⟨yd1, yd2⟩, ⟨wd1, wd2⟩, ⟨sec1, sec2⟩, vd, nz, whole⟩ := R
  cases d with
  | Z => exact absurd rfl hZ
  | Y =>
    have hX := hv rfl
    refine ⟨false, ?_⟩
    simp only [fmtDir, fmtYear, setDir, wsf_false]
    by_cases hn : t.toDateTimeUTC.year < 0
    · simp only [if_pos hn, List.cons_append, wsf_nonws w '-' _ (by decide)]
      by_cases h9 : -t.toDateTimeUTC.year ≤ 999
      · simp only [if_pos h9, parseItem, parseDirNE, optSign_minus, parseNumber_pad3_of4 _ X (by omega) h9 hX]
        rw [if_pos (by omega)]; simp
      · simp only [if_neg h9, parseItem, parseDirNE, optSign_minus, parseNumber_pad4 (-t.toDateTimeUTC.year) X (by omega) (by omega)]
        rw [if_pos (by omega)]; simp
    · simp only [if_neg hn, pad4_cons, wsf_nonws w _ _ (isWs_digitChar _), parseItem, parseDirNE, optSign_digit]
      rw [← pad4_cons, parseNumber_pad4 _ X (by omega) (by omega)]
      simp only [Int.one_mul]
      rw [if_pos (by omega)]
  | Yiso =>
    refine ⟨false, ?_⟩
    simp only [fmtDir, fmtYearIso, setDir, wsf_false]
    by_cases hn : t.toDateTimeUTC.year < 0
    · simp only [if_pos hn, List.cons_append, wsf_nonws w '-' _ (by decide), parseItem, parseDirNE, optSign_minus,
        parseNumber_pad4 (-t.toDateTimeUTC.year) X (by omega) (by omega)]
      rw [if_pos (by omega)]; simp
    · simp only [if_neg hn, pad4_cons, wsf_nonws w _ _ (isWs_digitChar _), parseItem, parseDirNE, optSign_digit]
      rw [← pad4_cons, parseNumber_pad4 _ X (by omega) (by omega)]
      simp only [Int.one_mul]
      rw [if_pos (by omega)]
  | m =>
    refine ⟨false, ?_⟩
    simp only [fmtDir, setDir, wsf_false, pad2_cons, wsf_nonws w _ _ (isWs_digitChar _), parseItem, parseDirNE]
    rw [← pad2_cons, parseBounded_ok 2 1 12 _ X _ (parseNumber_pad2 _ X (by omega) (by omega)) mo1 mo2]
  | d =>
    refine ⟨false, ?_⟩
    simp only [fmtDir, setDir, wsf_false, pad2_cons, wsf_nonws w _ _ (isWs_digitChar _), parseItem, parseDirNE]
    rw [← pad2_cons, parseBounded_ok 2 1 31 _ X _ (parseNumber_pad2 _ X (by omega) (by omega)) d1 d2]
  | H =>
    refine ⟨false, ?_⟩
    simp only [fmtDir, setDir, wsf_false, pad2_cons, wsf_nonws w _ _ (isWs_digitChar _), parseItem, parseDirNE]
    rw [← pad2_cons, parseBounded_ok 2 0 23 _ X _ (parseNumber_pad2 _ X (by omega) (by omega)) h1 h2]
  | M =>
    refine ⟨false, ?_⟩
    simp only [fmtDir, setDir, wsf_false, pad2_cons, wsf_nonws w _ _ (isWs_digitChar _), parseItem, parseDirNE]
    rw [← pad2_cons, parseBounded_ok 2 0 59 _ X _ (parseNumber_pad2 _ X (by omega) (by omega)) mi1 mi2]
  | S =>
    refine ⟨false, ?_⟩
    simp only [fmtDir, setDir, wsf_false, pad2_cons, wsf_nonws w _ _ (isWs_digitChar _), parseItem, parseDirNE]
    rw [← pad2_cons, parseBounded_ok 2 0 60 _ X _ (parseNumber_pad2 _ X (by omega) (by omega)) s1 (by omega)]
    simp only
    rw [if_neg (by omega)]
  | j =>
    refine ⟨false, ?_⟩
    have hdy : daysInYear t.toDateTimeUTC.year ≤ 366 := by unfold daysInYear leapDays; split <;> omega
    simp only [fmtDir, setDir, wsf_false, pad3_cons, wsf_nonws w _ _ (isWs_digitChar _), parseItem, parseDirNE]
    rw [← pad3_cons, parseBounded_ok 3 1 366 _ X _ (parseNumber_pad3 _ X (by omega) (by omega)) (by omega) (by omega)]
  | e =>
    have hX := hv rfl
    refine ⟨false, ?_⟩
    simp only [fmtDir, fmtDaySpace, setDir]
    by_cases h10 : t.toDateTimeUTC.day < 10
    · have hp : parseNumber 2 (digitChar t.toDateTimeUTC.day :: X) = some (t.toDateTimeUTC.day, X) :=
        parseNumber_one_of2 _ X (by omega) (by omega) hX
      simp only [if_pos h10, List.cons_append, List.nil_append]
      cases w
      · simp only [wsf_false, parseItem, parseDirNE]
        rw [parseBounded_ok 2 1 31 _ X _ (by rw [parseNumber_space]; exact hp) d1 d2]
      · have : dropWs (' ' :: digitChar t.toDateTimeUTC.day :: X) = digitChar t.toDateTimeUTC.day :: X := by
          show dropWs (digitChar t.toDateTimeUTC.day :: X) = _
          exact dropWs_nonws _ _ (isWs_digitChar _)
        simp only [wsf_false]
        simp only [wsf, if_true, this, parseItem, parseDirNE]
        rw [parseBounded_ok 2 1 31 _ X _ hp d1 d2]
    · simp only [if_neg h10, wsf_false, pad2_cons, wsf_nonws w _ _ (isWs_digitChar _), parseItem, parseDirNE]
      rw [← pad2_cons, parseBounded_ok 2 1 31 _ X _ (parseNumber_pad2 _ X (by omega) (by omega)) d1 d2]
  | a =>
    refine ⟨false, ?_⟩
    obtain ⟨c, rest, e, _, hws⟩ := name_head_w t.toDateTimeUTC.weekday
    have hp := parseName3_wday _ X wd1 wd2
    simp only [fmtDir, setDir, wsf_false] at hp ⊢
    rw [e, List.cons_append, wsf_nonws w _ _ hws]
    rw [e, List.cons_append] at hp
    simp only [parseItem, parseDirNE, hp]
  | b =>
    refine ⟨false, ?_⟩
    obtain ⟨c, rest, e, _, hws⟩ := name_head_m t.toDateTimeUTC.month mo1 mo2
    have hp := parseName3_mon _ X mo1 mo2
    simp only [fmtDir, setDir, wsf_false] at hp ⊢
    rw [e, List.cons_append, wsf_nonws w _ _ hws]
    rw [e, List.cons_append] at hp
    simp only [parseItem, parseDirNE, hp]
  | z =>
    have hX := hv rfl
    refine ⟨false, ?_⟩
    have hp := parseOffset_utc X hX
    simp only [fmtDir, setDir, wsf_false, List.cons_append, List.nil_append] at hp ⊢
    rw [wsf_nonws w '+' _ (by decide)]
    simp only [parseItem, parseDirNE, hp]
  | s =>
    have hX := hv rfl
    refine ⟨false, ?_⟩
    simp only [fmtDir, fmtEpoch, setDir, wsf_false]
    have hmin : unixSecMin = -377705023201 := rfl
    have hmax : unixSecMax = 253402207200 := rfl
    by_cases hn : t.asSecond < 0
    · simp only [if_pos hn, List.cons_append, wsf_nonws w '-' _ (by decide), parseItem, parseDirNE, optSign_minus,
        parseNumber_natDigits (-t.asSecond) X (by omega) (by omega) hX]
      have hi : ¬ (-t.asSecond > i64Max) := by unfold i64Max; omega
      rw [if_neg hi, if_pos ⟨by omega, by omega⟩]; simp
    · obtain ⟨a, rest, e⟩ := natDigits_head 19 t.asSecond
      have hp := parseNumber_natDigits t.asSecond X (by omega) (by omega) hX
      simp only [if_neg hn]
      rw [e, List.cons_append, wsf_nonws w _ _ (isWs_digitChar _)]
      rw [e, List.cons_append] at hp
      simp only [parseItem, parseDirNE, optSign_digit, hp, Int.one_mul]
      have hi : ¬ (t.asSecond > i64Max) := by unfold i64Max; omega
      rw [if_neg hi, if_pos ⟨by omega, by omega⟩]
  | pct =>
    refine ⟨false, ?_⟩
    simp only [fmtDir, setDir, wsf_false, List.cons_append, List.nil_append, wsf_nonws w '%' _ (by decide), parseItem, parseDirNE]
    simp


theorem lit_step (c : Char) (f : Bdt) (w : Bool) (X : List Char) :
    ∃ w', parseItem (.lit c) f (wsf w (c :: X)) = some (f, wsf w' X) := by
  by_cases hc : isWs c = true
  · refine ⟨true, ?_⟩
    cases w
    · show parseItem (.lit c) f (c :: X) = some (f, dropWs X)
      simp only [parseItem, parseLit, hc, if_true, dropWs]
    · show parseItem (.lit c) f (dropWs (c :: X)) = some (f, dropWs X)
      simp only [dropWs, hc, if_true, parseItem, parseLit, dropWs_idem]
  · have hc' : isWs c = false := by simpa using hc
    refine ⟨false, ?_⟩
    simp only [wsf_nonws w c X hc', wsf_false, parseItem, parseLit, hc', Bool.false_eq_true, if_false, if_true]

theorem startSafe_nonDigit (t : Timestamp) (R : Ranges t) (F : List Item) (h : startSafe F = true) :
    nonDigitStart (strftimeM F t) := by
  cases F with
  | nil => trivial
  | cons it rest =>
    cases it with
    | lit c =>
      simp only [startSafe, Bool.not_eq_true'] at h
      exact h
    | dir d =>
      cases d <;> simp [startSafe] at h
      · obtain ⟨c, r, e, hd, _⟩ := name_head_w t.toDateTimeUTC.weekday
        simp only [strftimeM, fmtItem, fmtDir, e]; exact hd
      · obtain ⟨c, r, e, hd, _⟩ := name_head_m t.toDateTimeUTC.month R.mo.1 R.mo.2
        simp only [strftimeM, fmtItem, fmtDir, e]; exact hd
      · show isDigitC '+' = false; decide
      · show isDigitC 'U' = false; decide
      · show isDigitC '%' = false; decide

/-- `Parser::parse` on the text that `strtime::format` printed for the same items: every item reads
back exactly what it printed -/
theorem parseItems_strftime (t : Timestamp) (R : Ranges t) : ∀ (F : List Item) (f : Bdt) (w : Bool),
    safeItems F = true → ∃ w', parseItems F f (wsf w (strftimeM F t)) = some (setAll F t f, wsf w' [])
  | [], f, w, _ => ⟨w, by simp only [strftimeM, parseItems, setAll]⟩
  | .lit c :: rest, f, w, hs => by
    obtain ⟨w1, e1⟩ := lit_step c f w (strftimeM rest t)
    obtain ⟨w2, e2⟩ := parseItems_strftime t R rest f w1 (by simpa [safeItems] using hs)
    refine ⟨w2, ?_⟩
    show parseItems (.lit c :: rest) f (wsf w (c :: strftimeM rest t)) = _
    simp only [parseItems, e1, e2, setAll, setItem]
  | .dir d :: rest, f, w, hs => by
    simp only [safeItems, Bool.and_eq_true, bne_iff_ne, ne_eq, Bool.or_eq_true, Bool.not_eq_true'] at hs
    obtain ⟨⟨hZ, hvw⟩, hrest⟩ := hs
    obtain ⟨w1, e1⟩ := dir_step t R d f w (strftimeM rest t) hZ (by
      intro hv
      rcases hvw with h | h
      · rw [hv] at h; cases h
      · exact startSafe_nonDigit t R rest h)
    obtain ⟨w2, e2⟩ := parseItems_strftime t R rest (setDir d t f) w1 hrest
    refine ⟨w2, ?_⟩
    show parseItems (.dir d :: rest) f (wsf w (fmtDir d t ++ strftimeM rest t)) = _
    simp only [parseItems, e1, e2, setAll, setItem]

/-! ### which fields are known at the end -/

def hasDir (P : Dir → Bool) : List Item → Bool
  | [] => false
  | .lit _ :: r => hasDir P r
  | .dir d :: r => P d || hasDir P r

theorem setAll_field (t : Timestamp) (p : Bdt → Option Int) (P : Dir → Bool)
    (h1 : ∀ d f, P d = true → (p (setDir d t f)).isSome = true)
    (h2 : ∀ d f, (p f).isSome = true → (p (setDir d t f)).isSome = true) :
    ∀ (F : List Item) (f : Bdt), ((p f).isSome = true ∨ hasDir P F = true) → (p (setAll F t f)).isSome = true
  | [], f, h => by
    rcases h with h | h
    · exact h
    · cases h
  | .lit _ :: r, f, h => setAll_field t p P h1 h2 r f (by simpa [hasDir] using h)
  | .dir d :: r, f, h => by
    apply setAll_field t p P h1 h2 r (setDir d t f)
    rcases h with h | h
    · exact Or.inl (h2 d f h)
    · simp only [hasDir, Bool.or_eq_true] at h
      rcases h with h | h
      · exact Or.inl (h1 d f h)
      · exact Or.inr h

def setsYear : Dir → Bool | .Y | .Yiso => true | _ => false
def setsMonth : Dir → Bool | .m | .b => true | _ => false
def setsDay : Dir → Bool | .d | .e => true | _ => false

/-- **complete format**: (1) no `%Z`, and every number of variable width (`%Y`, `%e`, `%s`, `%z`) is
followed by a literal that is not a digit, by `%a %b %z %%`, or by the end; (2) the directives
determine the instant: `%s`, or a year, (month and day, or day of the year), hour, minute and second -/
def CompleteFormat (F : List Item) : Prop :=
  safeItems F = true ∧
  (hasDir (· == .s) F = true ∨
    (hasDir setsYear F = true ∧
     ((hasDir setsMonth F = true ∧ hasDir setsDay F = true) ∨ hasDir (· == .j) F = true) ∧
     hasDir (· == .H) F = true ∧ hasDir (· == .M) F = true ∧ hasDir (· == .S) F = true))

instance (F : List Item) : Decidable (CompleteFormat F) := by unfold CompleteFormat; infer_instance


/-! ### `to_zoned` on fields that agree with the instant -/

theorem toDate_greg (y m d : Int) (hour minute second doy wday offset ts : Option Int) (vd : validDate y m d)
    (hwd : ∀ v, wday = some v → v = civilWeekday y m d) :
    Bdt.toDate ⟨some y, some m, some d, hour, minute, second, doy, wday, offset, ts⟩ = some (y, m, d) := by
  cases wday with
  | none => simp only [Bdt.toDate, if_pos vd]
  | some v =>
    have := hwd v rfl
    subst this
    simp only [Bdt.toDate, if_pos vd, if_true]

theorem toDate_doy (y n cy cm cd : Int) (month day hour minute second wday offset ts : Option Int)
    (hmd : month = none ∨ day = none) (hn : n ≤ daysInYear y)
    (hc : civilFromDays (daysFromCivil y 1 1 + (n - 1)) = (cy, cm, cd))
    (hwd : ∀ v, wday = some v → v = civilWeekday cy cm cd) :
    Bdt.toDate ⟨some y, month, day, hour, minute, second, some n, wday, offset, ts⟩ = some (cy, cm, cd) := by
  cases wday with
  | none =>
    cases month <;> cases day <;> first
      | (simp only [Bdt.toDate, if_pos hn, hc]; done)
      | (rcases hmd with h | h <;> cases h)
  | some v =>
    have := hwd v rfl
    subst this
    cases month <;> cases day <;> first
      | (simp only [Bdt.toDate, if_pos hn, hc, if_true]; done)
      | (rcases hmd with h | h <;> cases h)

theorem toCivil_complete (t : Timestamp) (R : Ranges t) (f : Bdt) (A : Agree t f)
    (hc : f.ts.isSome = true ∨ (f.year.isSome = true ∧
      ((f.month.isSome = true ∧ f.day.isSome = true) ∨ f.doy.isSome = true) ∧
      f.hour.isSome = true ∧ f.minute.isSome = true ∧ f.second.isSome = true)) :
    f.toCivil = some t.toDateTimeUTC := by
  obtain ⟨_, _, _, _, _, _, ⟨yd1, yd2⟩, _, ⟨sec1, sec2⟩, vd, nz, whole⟩ := R
  obtain ⟨a1, a2, a3, a4, a5, a6, a7, a8, a9, a10⟩ := A
  have hns : t.toDateTimeUTC.toNs = t.ns := toNs_toDateTimeUTC t
  have hin : Timestamp.inRange (t.toDateTimeUTC.toNs - 0 * 1000000000) = true := by
    rw [hns, whole]
    unfold Timestamp.inRange unixSecMin unixSecMax at *
    rw [decide_eq_true (by omega), decide_eq_true (by omega)]; rfl
  have hdoy : civilFromDays (daysFromCivil t.toDateTimeUTC.year 1 1 + (t.toDateTimeUTC.yearday + 1 - 1)) =
      (t.toDateTimeUTC.year, t.toDateTimeUTC.month, t.toDateTimeUTC.day) := by
    have : daysFromCivil t.toDateTimeUTC.year 1 1 + (t.toDateTimeUTC.yearday + 1 - 1) =
        daysFromCivil t.toDateTimeUTC.year t.toDateTimeUTC.month t.toDateTimeUTC.day := by
      unfold DateTime.yearday; omega
    rw [this, civilFromDays_daysFromCivil _ _ _ vd]
  have hwd : t.toDateTimeUTC.weekday = civilWeekday t.toDateTimeUTC.year t.toDateTimeUTC.month t.toDateTimeUTC.day := rfl
  have hself : (⟨t.toDateTimeUTC.year, t.toDateTimeUTC.month, t.toDateTimeUTC.day, t.toDateTimeUTC.hour,
      t.toDateTimeUTC.minute, t.toDateTimeUTC.second, 0⟩ : DateTime) = t.toDateTimeUTC := by
    rw [← nz]
  obtain ⟨year, month, day, hour, minute, second, doy, wday, offset, ts⟩ := f
  simp only at a1 a2 a3 a4 a5 a6 a7 a8 a9 a10 hc
  have ho : offset.getD 0 = 0 := by
    cases offset with
    | none => rfl
    | some v => exact a9 v rfl
  cases ts with
  | some v =>
    have hv := a10 v rfl
    subst hv
    simp only [Bdt.toCivil, ho, Int.add_zero, ← whole]
  | none =>
    simp only [Option.isSome_none, Bool.false_eq_true, false_or] at hc
    obtain ⟨hy, hmd, hh, hmi, hs⟩ := hc
    cases year with
    | none => cases hy
    | some y =>
    cases hour with
    | none => cases hh
    | some h =>
    cases minute with
    | none => cases hmi
    | some mi =>
    cases second with
    | none => cases hs
    | some s =>
    have e1 := a1 y rfl
    have e4 := a4 h rfl
    have e5 := a5 mi rfl
    have e6 := a6 s rfl
    subst e1 e4 e5 e6
    have hdate : Bdt.toDate ⟨some t.toDateTimeUTC.year, month, day, some t.toDateTimeUTC.hour, some t.toDateTimeUTC.minute,
        some t.toDateTimeUTC.second, doy, wday, offset, none⟩ =
        some (t.toDateTimeUTC.year, t.toDateTimeUTC.month, t.toDateTimeUTC.day) := by
      have viaDoy : (month = none ∨ day = none) → doy.isSome = true → Bdt.toDate ⟨some t.toDateTimeUTC.year, month, day,
          some t.toDateTimeUTC.hour, some t.toDateTimeUTC.minute, some t.toDateTimeUTC.second, doy, wday, offset, none⟩ =
          some (t.toDateTimeUTC.year, t.toDateTimeUTC.month, t.toDateTimeUTC.day) := by
        intro hmd' hd
        cases doy with
        | none => cases hd
        | some n =>
          have := a7 n rfl
          subst this
          exact toDate_doy _ _ _ _ _ _ _ _ _ _ _ _ _ hmd' yd2 hdoy (fun v hv => by rw [a8 v hv]; rfl)
      cases month with
      | none =>
        apply viaDoy (Or.inl rfl)
        rcases hmd with ⟨h, _⟩ | h
        · cases h
        · exact h
      | some m =>
        cases day with
        | none =>
          apply viaDoy (Or.inr rfl)
          rcases hmd with ⟨_, h⟩ | h
          · cases h
          · exact h
        | some d =>
          have e2 := a2 m rfl
          have e3 := a3 d rfl
          subst e2 e3
          exact toDate_greg _ _ _ _ _ _ _ _ _ _ vd (fun v hv => by rw [a8 v hv]; rfl)
    simp only [Bdt.toCivil, ho, hdate, Bdt.toTime, hin, if_true, hself]


theorem present_after (t : Timestamp) (p : Bdt → Option Int) (P : Dir → Bool)
    (h1 : ∀ d f, P d = true → (p (setDir d t f)).isSome = true)
    (h2 : ∀ d f, (p f).isSome = true → (p (setDir d t f)).isSome = true)
    (F : List Item) (h : hasDir P F = true) : (p (setAll F t Bdt.empty)).isSome = true :=
  setAll_field t p P h1 h2 F Bdt.empty (Or.inr h)

theorem setAll_complete (t : Timestamp) (F : List Item) (hF : CompleteFormat F) :
    (setAll F t Bdt.empty).ts.isSome = true ∨ ((setAll F t Bdt.empty).year.isSome = true ∧
      (((setAll F t Bdt.empty).month.isSome = true ∧ (setAll F t Bdt.empty).day.isSome = true) ∨
        (setAll F t Bdt.empty).doy.isSome = true) ∧
      (setAll F t Bdt.empty).hour.isSome = true ∧ (setAll F t Bdt.empty).minute.isSome = true ∧
      (setAll F t Bdt.empty).second.isSome = true) := by
  have pts := present_after t Bdt.ts (· == .s) (by intro d f h; cases d <;> simp_all [setDir])
    (by intro d f h; cases d <;> simpa [setDir] using h) F
  have pyear := present_after t Bdt.year setsYear (by intro d f h; cases d <;> simp_all [setDir, setsYear])
    (by intro d f h; cases d <;> simpa [setDir] using h) F
  have pmonth := present_after t Bdt.month setsMonth (by intro d f h; cases d <;> simp_all [setDir, setsMonth])
    (by intro d f h; cases d <;> simpa [setDir] using h) F
  have pday := present_after t Bdt.day setsDay (by intro d f h; cases d <;> simp_all [setDir, setsDay])
    (by intro d f h; cases d <;> simpa [setDir] using h) F
  have pdoy := present_after t Bdt.doy (· == .j) (by intro d f h; cases d <;> simp_all [setDir])
    (by intro d f h; cases d <;> simpa [setDir] using h) F
  have phour := present_after t Bdt.hour (· == .H) (by intro d f h; cases d <;> simp_all [setDir])
    (by intro d f h; cases d <;> simpa [setDir] using h) F
  have pminute := present_after t Bdt.minute (· == .M) (by intro d f h; cases d <;> simp_all [setDir])
    (by intro d f h; cases d <;> simpa [setDir] using h) F
  have psecond := present_after t Bdt.second (· == .S) (by intro d f h; cases d <;> simp_all [setDir])
    (by intro d f h; cases d <;> simpa [setDir] using h) F
  rcases hF.2 with h | ⟨hy, hmd, hh, hmi, hs⟩
  · exact Or.inl (pts h)
  · refine Or.inr ⟨pyear hy, ?_, phour hh, pminute hmi, psecond hs⟩
    rcases hmd with ⟨hm, hd⟩ | hj
    · exact Or.inl ⟨pmonth hm, pday hd⟩
    · exact Or.inr (pdoy hj)

/-! ## Theorems (for `Props/C20.lean`) -/

/-- the model of jiff's parser + `to_zoned` reads back the UTC civil time of every whole-second
instant of the `Timestamp` range from the text that the model of jiff's formatter printed with
the same complete format -/
theorem strptimeM_strftimeM (F : List Item) (hF : CompleteFormat F) (i : Int)
    (hr : unixSecMin ≤ i ∧ i ≤ unixSecMax) :
    strptimeM F (strftimeM F ⟨i * 1000000000⟩) = some (Timestamp.toDateTimeUTC ⟨i * 1000000000⟩) := by
  have R := ranges_of_sec i hr.1 hr.2
  obtain ⟨w', e⟩ := parseItems_strftime _ R F Bdt.empty false hF.1
  rw [wsf_false, wsf_nil] at e
  simp only [strptimeM, e]
  exact toCivil_complete _ R _ (agree_setAll _ F _ (agree_empty _)) (setAll_complete _ F hF)

/-- **`strftime(F) | strptime(F) | mktime` returns the original instant** for every complete format
`F` over the modelled directives and every integer epoch of the whole `Timestamp` range
(-9999-01-02T01:59:59Z ..= 9999-12-30T22:00:00Z; no guard on the year: negative years and years
below 1000 round trip), for every build mode and set of repairs -/
theorem strptime_strftime_mktime (fx : Fixes) (b : Build) (F : List Item) (hF : CompleteFormat F) (i : Int)
    (hr : unixSecMin ≤ i ∧ i ≤ unixSecMax) :
    ∃ text a, strftimeJaq fx b F (vint i) = .val text ∧ strptimeJaq F text = .ok a ∧
      mktime fx b a = .val (vint i) := by
  have hf := micros_fit i hr.1 hr.2
  have hts : Timestamp.fromMicrosecond (i * 1000000) = some ⟨i * 1000000000⟩ := by
    unfold Timestamp.fromMicrosecond
    rw [if_pos (by unfold unixSecMin unixSecMax at *; omega)]
    congr 2; omega
  refine ⟨strftimeM F ⟨i * 1000000000⟩, dateTimeToArray (Timestamp.toDateTimeUTC ⟨i * 1000000000⟩), ?_, ?_, ?_⟩
  · simp only [strftimeJaq, vint, epochToTimestamp, valAsIsize, Num.asIsize, mulMicros, hf, if_true, Out.val, hts]
  · simp only [strptimeJaq, strptimeM_strftimeM F hF i hr]
  · obtain ⟨a, ha, hm⟩ := mktime_gmtime_isize fx b (vint i) i rfl hr.1 hr.2
    rw [gmtime_isize fx b (vint i) i rfl hr.1 hr.2] at ha
    have : a = specArray (i * 1000000000) := by
      simp only [Out.val, Except.ok.injEq] at ha
      exact ha.symm
    rw [dateTimeToArray_spec]
    rw [this] at hm
    exact hm

example : CompleteFormat [.dir .a, .lit ',', .lit ' ', .dir .d, .lit ' ', .dir .b, .lit ' ', .dir .Y, .lit ' ',
    .dir .H, .lit ':', .dir .M, .lit ':', .dir .S, .lit ' ', .dir .z] := by decide

/-- the complete formats over modelled directives that `checks/c20.py` round-trips on the real code -/
def checkFormats : List (List Char) := [
  ['%', 'Y', '-', '%', 'm', '-', '%', 'd', 'T', '%', 'H', ':', '%', 'M', ':', '%', 'S', 'Z'],
  ['%', 'F', ' ', '%', 'T'],
  ['%', 's'],
  ['%', 'd', '/', '%', 'm', '/', '%', 'Y', ' ', '%', 'H', '.', '%', 'M', '.', '%', 'S'],
  ['%', 'Y', '-', '%', 'j', ' ', '%', 'T'],
  ['%', 'a', ',', ' ', '%', 'd', ' ', '%', 'b', ' ', '%', 'Y', ' ', '%', 'H', ':', '%', 'M', ':', '%', 'S', ' ', '%', 'z']]

/-- `%Y-%m-%dT%H:%M:%SZ`, `%F %T`, `%s`, `%d/%m/%Y %H.%M.%S`, `%Y-%j %T`, `%a, %d %b %Y %H:%M:%S %z`
are inside the model and complete, so `strptime_strftime_mktime` applies to them -/
theorem check_formats_complete :
    checkFormats.all (fun f => match parseFormat f with
      | some F => decide (CompleteFormat F)
      | none => false) = true := by decide

/-- incomplete or ambiguous formats are not `CompleteFormat` (the hypothesis is not vacuous and not trivial) -/
example : ¬ CompleteFormat [.dir .Y, .dir .m, .dir .d, .dir .H, .dir .M, .dir .S] := by decide
example : ¬ CompleteFormat [.dir .Y, .lit '-', .dir .m, .lit '-', .dir .d] := by decide
example : ¬ CompleteFormat [.dir .s, .lit ' ', .dir .Z] := by decide

end Jaq.Time
