/- `@urid` keeps everything that is not a well-formed escape (no truncation), and the bytes of
   `@uri` output. -/
import JaqVerif.Lemmas.C13Codec

namespace Jaq.C13

/-- no position of `s` starts a well-formed escape `%XX` -/
def noEscape : Bytes → Bool
  | [] => true
  | b :: r =>
    !(b == 37 && (match r with
        | h1 :: h2 :: _ => (hexDigitVal h1).isSome && (hexDigitVal h2).isSome
        | _ => false)) && noEscape r

theorem noEscape_tail {b : UInt8} {r : Bytes} (h : noEscape (b :: r) = true) : noEscape r = true := by
  simp only [noEscape, Bool.and_eq_true] at h
  exact h.2

theorem urid_noEscape : ∀ (n : Nat) (s : Bytes), s.length ≤ n → noEscape s = true → urid s = s := by
  intro n
  induction n with
  | zero =>
    intro s h _
    have : s = [] := List.eq_nil_of_length_eq_zero (by omega)
    subst this; rfl
  | succ n ih =>
    intro s h hne
    cases s with
    | nil => rfl
    | cons b r =>
      unfold urid
      rw [scan_cons]
      have hr := noEscape_tail hne
      by_cases hb : b = 37
      · subst hb
        match r, h, hne, hr with
        | [], _, _, _ => simp [uridStep, scan_nil]
        | [x], h, _, hr =>
          simp only [uridStep, if_true]
          have := ih [x] (by simp at h ⊢; omega) hr
          unfold urid at this
          simp [this]
        | h1 :: h2 :: r', h, hne, hr =>
          simp only [noEscape, beq_self_eq_true, Bool.true_and, Bool.and_eq_true, Bool.not_eq_true'] at hne
          have hnot := hne.1
          cases ha : hexDigitVal h1 with
          | none =>
            simp only [uridStep, if_true, ha]
            have := ih (h1 :: h2 :: r') (by simp at h ⊢; omega) hr
            unfold urid at this
            simp [this]
          | some a =>
            cases hc : hexDigitVal h2 with
            | some c => simp [ha, hc] at hnot
            | none =>
              simp only [uridStep, if_true, ha, hc]
              have hr2 := noEscape_tail hr
              have := ih (h2 :: r') (by simp at h ⊢; omega) hr2
              unfold urid at this
              simp [this]
      · simp only [uridStep, hb, if_false]
        have := ih r (by simp at h ⊢; omega) hr
        unfold urid at this
        simp [this]

theorem hexDigit_unreserved {h : UInt8} {a : Nat} (hh : hexDigitVal h = some a) : isUnreserved h = true := by
  unfold hexDigitVal at hh
  unfold isUnreserved
  split at hh
  · rename_i h1
    have e1 := h1.1; have e2 := h1.2
    simp [e1, e2]
  · split at hh
    · rename_i h1
      have e1 : 65 ≤ h.toNat := h1.1
      have e2 : h.toNat ≤ 90 := by omega
      simp [e1, e2]
    · split at hh
      · rename_i h1
        have e1 : 97 ≤ h.toNat := h1.1
        have e2 : h.toNat ≤ 122 := by omega
        simp [e1, e2]
      · cases hh

theorem uri_bytes (s : Bytes) : ∀ c ∈ uri s, isUnreserved c = true ∨ c = 37 := by
  intro c hc
  unfold uri at hc
  obtain ⟨b, _, hb⟩ := List.mem_flatMap.mp hc
  rcases uriEntry_cases b with ⟨h, hu⟩ | ⟨h1, h2, a, d, h, _, ha, hd, _⟩
  · rw [h] at hb; simp only [List.mem_singleton] at hb; subst hb; left; exact hu
  · rw [h] at hb
    simp only [List.mem_cons, List.not_mem_nil, or_false] at hb
    rcases hb with rfl | rfl | rfl
    · right; rfl
    · left; exact hexDigit_unreserved ha
    · left; exact hexDigit_unreserved hd

end Jaq.C13
