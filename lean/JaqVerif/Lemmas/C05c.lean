/- proofs about the model of compile.rs' `Locals` (JaqVerif/C05/Compile.lean) -/
import JaqVerif.C05.Compile
import JaqVerif.Lemmas.C05

namespace Jaq.C05.L
open Jaq.C05

variable {K : Type} [DecidableEq K]

theorem fset_fpush (f : K × Nat → List (FunE K × Nat)) (k : K × Nat) (e : FunE K × Nat) :
    fset (fpush f k e) k (f k) = f := by
  funext x
  unfold fset fpush
  by_cases h : x = k <;> simp [h]

theorem fpush_self (f : K × Nat → List (FunE K × Nat)) (k : K × Nat) (e : FunE K × Nat) :
    fpush f k e k = e :: f k := by
  simp [fpush]

theorem popVar_pushVar (s : Locals K) (k : VKey K) : (s.pushVar k).popVar k = .ok s := by
  unfold Locals.pushVar Locals.popVar
  simp only [pop_push]

theorem popArg_pushArg (s : Locals K) (f : K) : (s.pushArg f).popArg f = .ok s := by
  unfold Locals.pushArg Locals.popArg
  simp only [fpush_self, if_true, fset_fpush]
  exact popVar_pushVar s (.fn f)

theorem popDArg_pushDArg (s : Locals K) (a : DArg K) : (s.pushDArg a).popDArg a = .ok s := by
  unfold Locals.pushDArg Locals.popDArg
  cases a.1
  · simp only [Bool.false_eq_true, if_false]; exact popArg_pushArg s a.2
  · simp only [if_true]; exact popVar_pushVar s _

theorem popDArgsRev_pushDArgs (s : Locals K) (as : List (DArg K)) : (s.pushDArgs as).popDArgsRev as = .ok s := by
  induction as generalizing s with
  | nil => rfl
  | cons a as ih =>
    simp only [Locals.pushDArgs, Locals.popDArgsRev, ih]
    exact popDArg_pushDArg s a

theorem popVarsRev_pushVars (s : Locals K) (xs : List K) : (s.pushVars xs).popVarsRev xs = .ok s := by
  induction xs generalizing s with
  | nil => rfl
  | cons x xs ih =>
    simp only [Locals.pushVars, Locals.popVarsRev, ih]
    exact popVar_pushVar s _

/-- pushes never lower `total` -/
theorem pushVar_total (s : Locals K) (k : VKey K) : (s.pushVar k).vars.total = s.vars.total + 1 := rfl

theorem pushArg_total (s : Locals K) (f : K) : (s.pushArg f).vars.total = s.vars.total + 1 := rfl

theorem pushDArg_total (s : Locals K) (a : DArg K) : (s.pushDArg a).vars.total = s.vars.total + 1 := by
  unfold Locals.pushDArg
  cases a.1 <;> rfl

theorem pushDArgs_total (s : Locals K) (as : List (DArg K)) : (s.pushDArgs as).vars.total = s.vars.total + as.length := by
  induction as generalizing s with
  | nil => rfl
  | cons a as ih =>
    simp only [Locals.pushDArgs, ih, pushDArg_total, List.length_cons]
    omega

theorem popParent_pushParent (s : Locals K) (name : K) (args : List (DArg K)) :
    (s.pushParent name args).popParent name args.length = .ok s := by
  unfold Locals.pushParent Locals.popParent
  simp only [fpush_self, fset_fpush]
  have : (⟨(s.pushDArgs args).vars, (s.pushDArgs args).funs⟩ : Locals K) = s.pushDArgs args := rfl
  rw [this, popDArgsRev_pushDArgs]
  simp

theorem popSibling_pushSibling (s : Locals K) (name : K) (args : List (DArg K)) :
    (s.pushSibling name args).popSibling name args.length = .ok s := by
  unfold Locals.pushSibling Locals.popSibling
  simp only [fpush_self, if_true, fset_fpush]

/-! the invariant -/

theorem inv_empty : (Locals.empty : Locals K).Inv :=
  ⟨fun _ _ h => by simp [Locals.empty, Scopes.empty] at h, fun _ _ _ h => by simp [Locals.empty] at h,
   fun _ _ _ h => by simp [Locals.empty] at h, fun _ _ _ h => by simp [Locals.empty] at h⟩

theorem inv_pushVar (s : Locals K) (k : VKey K) (h : s.Inv) : (s.pushVar k).Inv := by
  refine ⟨?_, ?_, h.arity_parent, h.arity_sibling⟩
  · intro x v hv
    simp only [Locals.pushVar, Scopes.push] at hv ⊢
    by_cases hx : x = k
    · simp only [hx, if_true, List.mem_cons] at hv
      rcases hv with rfl | hv
      · exact Nat.le_refl _
      · have := h.bound_le k v hv; omega
    · simp only [hx, if_false] at hv
      have := h.bound_le x v hv; omega
  · intro key e v hv
    have := h.funs_le key e v hv
    simp only [Locals.pushVar, Scopes.push]
    omega

theorem mem_fpush {f : K × Nat → List (FunE K × Nat)} {k key : K × Nat} {e x : FunE K × Nat}
    (h : x ∈ fpush f k e key) : (key = k ∧ x = e) ∨ x ∈ f key := by
  unfold fpush at h
  by_cases hk : key = k
  · simp only [hk, if_true, List.mem_cons] at h
    rcases h with h | h
    · exact Or.inl ⟨hk, h⟩
    · exact Or.inr (hk ▸ h)
  · simp only [hk, if_false] at h
    exact Or.inr h

theorem inv_pushArg (s : Locals K) (f : K) (h : s.Inv) : (s.pushArg f).Inv := by
  have h1 := inv_pushVar s (.fn f) h
  refine ⟨h1.bound_le, ?_, ?_, ?_⟩
  · intro key e v hv
    rcases mem_fpush hv with ⟨_, he⟩ | hv
    · injection he with _ hv'; subst hv'; exact Nat.le_refl _
    · exact h1.funs_le key e v hv
  · intro key args v hv
    rcases mem_fpush hv with ⟨_, he⟩ | hv
    · injection he with he _; cases he
    · exact h.arity_parent key args v hv
  · intro key args v hv
    rcases mem_fpush hv with ⟨_, he⟩ | hv
    · injection he with he _; cases he
    · exact h.arity_sibling key args v hv

theorem inv_pushDArg (s : Locals K) (a : DArg K) (h : s.Inv) : (s.pushDArg a).Inv := by
  unfold Locals.pushDArg
  cases a.1
  · simp only [Bool.false_eq_true, if_false]; exact inv_pushArg s a.2 h
  · simp only [if_true]; exact inv_pushVar s _ h

theorem inv_pushDArgs (s : Locals K) (as : List (DArg K)) (h : s.Inv) : (s.pushDArgs as).Inv := by
  induction as generalizing s with
  | nil => exact h
  | cons a as ih => exact ih _ (inv_pushDArg s a h)

theorem inv_pushVars (s : Locals K) (xs : List K) (h : s.Inv) : (s.pushVars xs).Inv := by
  induction xs generalizing s with
  | nil => exact h
  | cons x xs ih => exact ih _ (inv_pushVar s _ h)

theorem inv_pushParent (s : Locals K) (name : K) (args : List (DArg K)) (h : s.Inv) : (s.pushParent name args).Inv := by
  have h1 := inv_pushDArgs s args h
  have ht := pushDArgs_total s args
  refine ⟨h1.bound_le, ?_, ?_, ?_⟩
  · intro key e v hv
    rcases mem_fpush hv with ⟨_, he⟩ | hv
    · injection he with _ hv'; subst hv'
      show s.vars.total ≤ (s.pushDArgs args).vars.total
      omega
    · exact h1.funs_le key e v hv
  · intro key a v hv
    rcases mem_fpush hv with ⟨hk, he⟩ | hv
    · injection he with he _; injection he with he; subst he; rw [hk]
    · exact h1.arity_parent key a v hv
  · intro key a v hv
    rcases mem_fpush hv with ⟨_, he⟩ | hv
    · injection he with he _; cases he
    · exact h1.arity_sibling key a v hv

theorem inv_pushSibling (s : Locals K) (name : K) (args : List (DArg K)) (h : s.Inv) : (s.pushSibling name args).Inv := by
  refine ⟨h.bound_le, ?_, ?_, ?_⟩
  · intro key e v hv
    rcases mem_fpush hv with ⟨_, he⟩ | hv
    · injection he with _ hv'; subst hv'; exact Nat.le_refl _
    · exact h.funs_le key e v hv
  · intro key a v hv
    rcases mem_fpush hv with ⟨_, he⟩ | hv
    · injection he with he _; cases he
    · exact h.arity_parent key a v hv
  · intro key a v hv
    rcases mem_fpush hv with ⟨hk, he⟩ | hv
    · injection he with he _; injection he with he; subst he; rw [hk]
    · exact h.arity_sibling key a v hv

theorem lookupVar_ok (s : Locals K) (k : VKey K) (h : s.Inv) : ∃ r, s.lookupVar k = .ok r := by
  unfold Locals.lookupVar
  cases hb : s.vars.bound k with
  | nil => exact ⟨none, rfl⟩
  | cons v rest =>
    have := h.bound_le k v (by rw [hb]; exact List.mem_cons_self)
    simp only [usub, this, if_true]
    exact ⟨_, rfl⟩

theorem call_ok (s : Locals K) (name : K) (arity : Nat) (h : s.Inv) : ∃ r, s.call name arity = .ok r := by
  unfold Locals.call
  cases hb : s.funs (name, arity) with
  | nil => exact ⟨none, rfl⟩
  | cons ev rest =>
    obtain ⟨e, v⟩ := ev
    have hm : (e, v) ∈ s.funs (name, arity) := by rw [hb]; exact List.mem_cons_self
    have hle := h.funs_le _ e v hm
    cases e with
    | arg => simp only [usub, hle, if_true]; exact ⟨_, rfl⟩
    | parent args =>
      have := h.arity_parent _ args v hm
      simp only at this
      simp only [usub, hle, if_true, bindsAssert, this]
      exact ⟨_, rfl⟩
    | sibling args =>
      have := h.arity_sibling _ args v hm
      simp only at this
      simp only [usub, hle, if_true, bindsAssert, this]
      exact ⟨_, rfl⟩

theorem cwalk_balanced (t : CTm K) (s : Locals K) (h : s.Inv) : cwalk t s = .ok s := by
  induction t generalizing s with
  | leaf => rfl
  | var x =>
    obtain ⟨r, hr⟩ := lookupVar_ok s (.var x) h
    simp only [cwalk, hr]
  | brk x =>
    obtain ⟨r, hr⟩ := lookupVar_ok s (.label x) h
    simp only [cwalk, hr]
  | call name arity args ih =>
    obtain ⟨r, hr⟩ := call_ok s name arity h
    simp only [cwalk, ih s h, hr]
  | node l r ihl ihr => simp only [cwalk, ihl s h, ihr s h]
  | label x t ih =>
    simp only [cwalk, ih _ (inv_pushVar s _ h)]
    exact popVar_pushVar s _
  | bind l vars r keys ihl ihr ihk =>
    simp only [cwalk, ihl s h, ihr _ (inv_pushVars s vars h), popVarsRev_pushVars, ihk s h]
  | defn name args body rest ihb ihr =>
    simp only [cwalk, ihb _ (inv_pushParent s name args h), popParent_pushParent,
      ihr _ (inv_pushSibling s name args h), popSibling_pushSibling]

/-- without the invariant the subtraction does underflow (the model is not vacuous) -/
theorem lookupVar_needs_inv :
    (⟨⟨fun _ => [5], 3⟩, fun _ => []⟩ : Locals Nat).lookupVar (.var 0) = .error .panic := by
  rfl

end Jaq.C05.L
