/- helper lemmas and proofs for the round-2 kernels of Props/C05.lean -/
import JaqVerif.C05.Kernels2
import JaqVerif.Lemmas.C05

namespace Jaq.C05.L
open Jaq.C05

/-! regex: `char_of_byte` -/

/-- the loop finds `off` when it occurs at or after `pos` (and nothing but `off` stops it) -/
theorem loop_finds (bounds : List Nat) (off : Nat) :
    ∀ (d pos fuel : Nat) (b : Nat), bounds[pos + d]? = some b → off = b →
      (∀ j, pos ≤ j → j < pos + d → ∀ c, bounds[j]? = some c → off ≠ c) → d < fuel →
      charOfByteLoop bounds off fuel pos = (some (pos + d), pos + d)
  | 0, pos, fuel, b, hb, he, _, hf => by
    cases fuel with
    | zero => omega
    | succ f =>
      simp only [Nat.add_zero] at hb ⊢
      simp only [charOfByteLoop, hb, he, if_true]
  | d + 1, pos, fuel, b, hb, he, hn, hf => by
    cases fuel with
    | zero => omega
    | succ f =>
      have hlt : pos < bounds.length := by
        have := (List.getElem?_eq_some_iff.mp hb).1
        omega
      have hc : bounds[pos]? = some bounds[pos] := List.getElem?_eq_getElem hlt
      have hne : off ≠ bounds[pos] := hn pos (Nat.le_refl _) (by omega) _ hc
      simp only [charOfByteLoop, hc, hne, if_false]
      have := loop_finds bounds off d (pos + 1) f b (by rw [← hb]; congr 1; omega) he
        (fun j h1 h2 c hc' => hn j (by omega) (by omega) c hc') (by omega)
      rw [this]
      have e : pos + 1 + d = pos + (d + 1) := by omega
      rw [e]

/-- strictly increasing offsets: an index is determined by its value -/
theorem sorted_lt (bounds : List Nat) (h : bounds.Pairwise (· < ·)) (i j : Nat) (a b : Nat)
    (hi : bounds[i]? = some a) (hj : bounds[j]? = some b) (hij : i < j) : a < b := by
  obtain ⟨hi1, hi2⟩ := List.getElem?_eq_some_iff.mp hi
  obtain ⟨hj1, hj2⟩ := List.getElem?_eq_some_iff.mp hj
  rw [← hi2, ← hj2]
  exact List.pairwise_iff_getElem.mp h i j hi1 hj1 hij

/-- `char_of_byte` with the restart logic finds every offset that is a boundary, from ANY state -/
theorem charOfByte_some (bounds : List Nat) (hs : bounds.Pairwise (· < ·)) (pos k : Nat) (off : Nat)
    (hk : bounds[k]? = some off) :
    charOfByte true ⟨bounds, pos⟩ off = (some k, ⟨bounds, k⟩) := by
  have hklt : k < bounds.length := (List.getElem?_eq_some_iff.mp hk).1
  -- before k no entry equals off
  have hbefore : ∀ j, j < k → ∀ c, bounds[j]? = some c → off ≠ c := by
    intro j hj c hc
    have := sorted_lt bounds hs j k c off hc hk hj
    omega
  unfold charOfByte
  simp only [Bool.true_and]
  cases hp : bounds[pos]? with
  | none =>
    simp only [if_true]
    have := loop_finds bounds off k 0 (bounds.length + 1) off (by simpa using hk) rfl
      (fun j _ h2 c hc => hbefore j (by omega) c hc) (by omega)
    simp only [Nat.zero_add] at this
    rw [this]
  | some b =>
    simp only
    by_cases hlt : off < b
    · simp only [hlt, decide_true, if_true]
      have := loop_finds bounds off k 0 (bounds.length + 1) off (by simpa using hk) rfl
        (fun j _ h2 c hc => hbefore j (by omega) c hc) (by omega)
      simp only [Nat.zero_add] at this
      rw [this]
    · simp only [hlt, decide_false, Bool.false_eq_true, if_false]
      -- b ≤ off, so pos ≤ k
      have hpk : pos ≤ k := by
        by_cases h : pos ≤ k
        · exact h
        · have := sorted_lt bounds hs k pos off b hk hp (by omega)
          omega
      obtain ⟨d, rfl⟩ : ∃ d, k = pos + d := ⟨k - pos, by omega⟩
      have := loop_finds bounds off d pos (bounds.length + 1) off hk rfl
        (fun j _ h2 c hc => hbefore j h2 c hc) (by omega)
      rw [this]

theorem matchOffset_ok (bounds : List Nat) (hs : bounds.Pairwise (· < ·)) (pos k off : Nat)
    (hk : bounds[k]? = some off) : matchOffset true ⟨bounds, pos⟩ off = .ok (k, ⟨bounds, k⟩) := by
  unfold matchOffset
  rw [charOfByte_some bounds hs pos k off hk]

theorem mem_getElem? {l : List Nat} {a : Nat} (h : a ∈ l) : ∃ k : Nat, l[k]? = some a := by
  obtain ⟨k, hk, he⟩ := List.getElem_of_mem h
  exact ⟨k, by rw [List.getElem?_eq_getElem hk, he]⟩

theorem matchOffsets_ok (bounds : List Nat) (hs : bounds.Pairwise (· < ·)) :
    ∀ (starts : List Nat) (pos : Nat), (∀ s ∈ starts, s ∈ bounds) →
      ∃ cs, matchOffsets true ⟨bounds, pos⟩ starts = .ok cs ∧ cs.length = starts.length ∧
        ∀ (i c : Nat), cs[i]? = some c → bounds[c]? = starts[i]?
  | [], pos, _ => ⟨[], rfl, rfl, by simp⟩
  | s :: rest, pos, h => by
    obtain ⟨k, hk⟩ := mem_getElem? (h s (List.mem_cons_self))
    obtain ⟨cs, e, hl, hc⟩ := matchOffsets_ok bounds hs rest k (fun x hx => h x (List.mem_cons_of_mem _ hx))
    refine ⟨k :: cs, ?_, by simp [hl], ?_⟩
    · simp only [matchOffsets, matchOffset_ok bounds hs pos k s hk, e]
    · intro i c hi
      cases i with
      | zero =>
        simp at hi
        subst hi
        simpa using hk
      | succ i =>
        simp only [List.getElem?_cons_succ] at hi ⊢
        exact hc i c hi

theorem mismatches_ok (len : Nat) : ∀ (ms : List (Nat × Nat)) (last : Nat), MatchesOrdered len last ms →
    ∃ r, mismatches len last ms = .ok r ∧ r.length = ms.length + 1 ∧ ∀ p ∈ r, p.1 ≤ p.2 ∧ p.2 ≤ len
  | [], last, h => by
    simp only [MatchesOrdered] at h
    have e : slice len last len = .ok () := by unfold slice; rw [if_pos]; omega
    refine ⟨[(last, len)], by simp [mismatches, e, bind, Except.bind, pure, Except.pure], rfl, ?_⟩
    intro p hp
    simp at hp
    subst hp
    exact ⟨h, Nat.le_refl _⟩
  | (s, e) :: ms, last, h => by
    simp only [MatchesOrdered] at h
    obtain ⟨h1, h2, h3⟩ := h
    obtain ⟨r, hr, hl, hb⟩ := mismatches_ok len ms e h3
    -- e ≤ len follows from the chain
    have hel : e ≤ len := by
      have : ∀ (ms : List (Nat × Nat)) (x : Nat), MatchesOrdered len x ms → x ≤ len := by
        intro ms
        induction ms with
        | nil => intro x hx; exact hx
        | cons m ms ih =>
          intro x hx
          obtain ⟨a, b⟩ := m
          simp only [MatchesOrdered] at hx
          have := ih b hx.2.2
          omega
      exact this ms e h3
    have es : slice len last s = .ok () := by unfold slice; rw [if_pos]; omega
    refine ⟨(last, s) :: r, by simp [mismatches, es, hr, bind, Except.bind, pure, Except.pure], by simp [hl], ?_⟩
    intro p hp
    rcases List.mem_cons.mp hp with rfl | hp
    · exact ⟨h1, by omega⟩
    · exact hb p hp

/-! strip_fix -/

theorem isPrefixOf_length {s pre : List UInt8} (h : pre.isPrefixOf s = true) : pre.length ≤ s.length :=
  (List.isPrefixOf_iff_prefix.mp h).length_le

theorem isSuffixOf_length {s suf : List UInt8} (h : suf.isSuffixOf s = true) : suf.length ≤ s.length :=
  (List.isSuffixOf_iff_suffix.mp h).length_le

theorem stripFix_prefix_ok (s pre : List UInt8) :
    ∃ off n, stripFix stripPrefix s pre = .ok (off, n) ∧ off + n ≤ s.length := by
  unfold stripFix stripPrefix
  by_cases h : pre.isPrefixOf s = true
  · have hl := isPrefixOf_length h
    simp only [h, if_true]
    refine ⟨pre.length, s.length - pre.length, ?_, by omega⟩
    unfold sliceRef
    by_cases h0 : s.length - pre.length = 0
    · simp [h0, bind, Except.bind, pure, Except.pure]
    · have : pre.length + (s.length - pre.length) ≤ s.length := by omega
      simp [h0, this, bind, Except.bind, pure, Except.pure]
  · simp only [h]
    exact ⟨0, s.length, rfl, by omega⟩

theorem stripFix_suffix_ok (s suf : List UInt8) :
    ∃ off n, stripFix stripSuffix s suf = .ok (off, n) ∧ off + n ≤ s.length := by
  unfold stripFix stripSuffix
  by_cases h : suf.isSuffixOf s = true
  · have hl := isSuffixOf_length h
    simp only [h, if_true]
    refine ⟨0, s.length - suf.length, ?_, by omega⟩
    unfold sliceRef
    by_cases h0 : s.length - suf.length = 0
    · simp [h0, bind, Except.bind, pure, Except.pure]
    · have : 0 + (s.length - suf.length) ≤ s.length := by omega
      simp [h0, bind, Except.bind, pure, Except.pure]
  · simp only [h]
    exact ⟨0, s.length, rfl, by omega⟩

/-! conversions -/

theorem asIsize_range (n : Num) (i : Int) (hn : ∀ j, n = .int j → IMIN ≤ j ∧ j ≤ IMAX) (h : asIsize n = some i) :
    IMIN ≤ i ∧ i ≤ IMAX := by
  cases n with
  | int j => simp [asIsize] at h; subst h; exact hn j rfl
  | big j =>
    simp only [asIsize] at h
    split at h
    · injection h with h; subst h; assumption
    · cases h
  | float f => simp [asIsize] at h
  | dec s => simp [asIsize] at h

theorem tryAsI32_range (n : Num) (i : Int) (h : tryAsI32 n = some i) : I32MIN ≤ i ∧ i ≤ I32MAX := by
  unfold tryAsI32 at h
  split at h
  · cases h
  · split at h
    · injection h with h; subst h; assumption
    · cases h

theorem toByte_range (n : Num) (b : Nat) (h : toByte n = some b) : b ≤ 255 := by
  unfold toByte at h
  split at h
  · cases h
  · split at h
    · injection h with h; subst h; omega
    · cases h

theorem bsearchIdx_ok (r : Except Nat Nat) (hr : ∀ i, (r = .ok i ∨ r = .error i) → (i : Int) ≤ IMAX) :
    ∃ v, bsearchIdx r = .ok v ∧ IMIN ≤ v ∧ v ≤ IMAX ∧
      (∀ i, r = .ok i → v = i) ∧ (∀ i, r = .error i → v = -1 - (i : Int)) := by
  cases r with
  | ok i =>
    have := hr i (Or.inl rfl)
    refine ⟨i, by simp [bsearchIdx, usizeAsIsize, this], ?_, this, ?_, ?_⟩
    · unfold IMIN; omega
    · intro j hj; injection hj with hj; subst hj; rfl
    · intro j hj; cases hj
  | error i =>
    have := hr i (Or.inr rfl)
    have hb : IMIN ≤ -1 - (i : Int) ∧ -1 - (i : Int) ≤ IMAX := by
      unfold IMIN IMAX at *; omega
    refine ⟨-1 - (i : Int), by simp [bsearchIdx, usizeAsIsize, this, isub, hb], hb.1, hb.2, ?_, ?_⟩
    · intro j hj; cases hj
    · intro j hj; injection hj with hj; subst hj; rfl

theorem addAll_ok (ylen : Nat) : ∀ (starts : List Nat), (∀ i ∈ starts, i + ylen ≤ U64MAX) → addAll ylen starts = .ok ()
  | [], _ => rfl
  | i :: rest, h => by
    have e : uadd i ylen = .ok (i + ylen) := by
      unfold uadd; rw [if_pos (h i (List.mem_cons_self))]
    simp only [addAll, e]
    exact addAll_ok ylen rest (fun j hj => h j (List.mem_cons_of_mem _ hj))

/-- lengths of live buffers are at most `isize::MAX` -/
def shapeFits : IShape → Prop
  | .bstr n => (n : Int) ≤ IMAX
  | .tstr n => (n : Int) ≤ IMAX
  | .arr n => (n : Int) ≤ IMAX
  | .other => True

theorem indicesKernel_noPanic (x y : IShape) (starts : List Nat) (hx : shapeFits x) (hy : shapeFits y)
    (hs : ∀ i ∈ starts, ∀ n, x = .tstr n → i ≤ n) : indicesKernel x y starts ≠ .error .panic := by
  cases x with
  | bstr xl =>
    cases y with
    | bstr yl =>
      cases yl with
      | zero => simp [indicesKernel]
      | succ k => simp [indicesKernel, windows, bind, Except.bind, pure, Except.pure]
    | tstr yl => simp [indicesKernel]
    | arr yl => simp [indicesKernel]
    | other => simp [indicesKernel]
  | tstr xl =>
    cases y with
    | tstr yl =>
      cases yl with
      | zero => simp [indicesKernel]
      | succ k =>
        have : addAll (k + 1) starts = .ok () := by
          apply addAll_ok
          intro i hi
          have h1 := hs i hi xl rfl
          simp only [shapeFits] at hx hy
          unfold IMAX at hx hy
          unfold U64MAX
          omega
        simp [indicesKernel, this, bind, Except.bind, pure, Except.pure]
    | bstr yl => simp [indicesKernel]
    | arr yl => simp [indicesKernel]
    | other => simp [indicesKernel]
  | arr xl =>
    cases y with
    | arr yl =>
      cases yl with
      | zero => simp [indicesKernel]
      | succ k => simp [indicesKernel, windows, bind, Except.bind, pure, Except.pure]
    | bstr yl => simp [indicesKernel]
    | tstr yl => simp [indicesKernel]
    | other => simp [indicesKernel]
  | other => cases y <;> simp [indicesKernel]

/-! native environments -/

theorem popAll_bindVars : ∀ (σ env : List BK), popAll σ.reverse (bindVars σ env) = .ok env
  | [], env => rfl
  | b :: rest, env => by
    have ih := popAll_bindVars rest (b :: env)
    -- popAll (rest.reverse ++ [b]) …
    have happ : ∀ (xs ys e : List BK), popAll (xs ++ ys) e =
        (match popAll xs e with | .error er => .error er | .ok e' => popAll ys e') := by
      intro xs
      induction xs with
      | nil => intro ys e; rfl
      | cons x xs ihx =>
        intro ys e
        simp only [List.cons_append, popAll]
        cases popKind x e with
        | error er => rfl
        | ok e' => exact ihx ys e'
    simp only [List.reverse_cons, bindVars, happ, ih]
    simp [popAll, popKind]

/-! token spans -/

theorem lexSpans_ok (step : List Char → Option (List Char)) (hstep : ∀ s t, step s = some t → t <:+ s)
    (whole : List Char) : ∀ (fuel : Nat) (s : List Char), s <:+ whole →
      ∃ r, lexSpans step whole fuel s = .ok r ∧ (∀ sp ∈ r, sp.1 ≤ sp.2 ∧ sp.2 ≤ whole.length) ∧
        r.Pairwise (fun a b => a.2 ≤ b.1) ∧ (∀ sp ∈ r, whole.length - s.length ≤ sp.1)
  | 0, s, _ => ⟨[], rfl, by simp, by simp, by simp⟩
  | fuel + 1, s, hs => by
    unfold lexSpans
    cases hst : step s with
    | none => exact ⟨[], rfl, by simp, by simp, by simp⟩
    | some t =>
      have hts := hstep s t hst
      have htw : t <:+ whole := hts.trans hs
      have hl1 := hts.length_le
      have hl2 := hs.length_le
      have e1 : consumedLen s (.suffix t) = .ok (s.length - t.length) := by
        have a : usub s.length t.length = .ok (s.length - t.length) := by unfold usub; rw [if_pos hl1]
        have b : slice s.length 0 (s.length - t.length) = .ok () := by unfold slice; rw [if_pos]; omega
        simp [consumedLen, Rem.chars, a, b, bind, Except.bind, pure, Except.pure]
      have e2 : spanOf whole (.suffix s) = .ok (whole.length - s.length, whole.length - s.length + s.length) := by
        have a : usub whole.length s.length = .ok (whole.length - s.length) := by unfold usub; rw [if_pos hl2]
        simp [spanOf, a, bind, Except.bind, pure, Except.pure]
      obtain ⟨r, hr, hb, hp, hlo⟩ := lexSpans_ok step hstep whole fuel t htw
      simp only [e1, e2, hr]
      refine ⟨_, rfl, ?_, ?_, ?_⟩
      · intro sp hsp
        rcases List.mem_cons.mp hsp with rfl | hsp
        · simp only; omega
        · exact hb sp hsp
      · refine List.Pairwise.cons ?_ hp
        intro b hb'
        have := hlo b hb'
        simp only; omega
      · intro sp hsp
        rcases List.mem_cons.mp hsp with rfl | hsp
        · simp only; omega
        · have := hlo sp hsp; omega

theorem parseErrSpan_ok (wholeLen : Nat) (toks : List (Nat × Nat)) (h : ∀ sp ∈ toks, sp.1 ≤ sp.2 ∧ sp.2 ≤ wholeLen)
    (pick : Option Nat) (hp : ∀ i, pick = some i → i < toks.length) :
    ∃ sp, parseErrSpan wholeLen toks pick = .ok sp ∧ sp.1 ≤ sp.2 ∧ sp.2 ≤ wholeLen := by
  cases pick with
  | none =>
    refine ⟨(wholeLen, wholeLen), ?_, Nat.le_refl _, Nat.le_refl _⟩
    simp [parseErrSpan, slice, bind, Except.bind, pure, Except.pure]
  | some i =>
    have hi := hp i rfl
    refine ⟨toks[i], ?_, h _ (List.getElem_mem hi)⟩
    simp [parseErrSpan, List.getElem?_eq_getElem hi]

end Jaq.C05.L
