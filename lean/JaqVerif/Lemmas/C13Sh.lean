/- `@sh` output is read back by the POSIX word lexer; ASCII case mapping; TSV escapes. -/
import JaqVerif.Lemmas.C13Codec
import JaqVerif.C13.Readers

namespace Jaq.C13

/-! ## @sh -/

theorem shLex_true_cons (cur : Option Bytes) (b : UInt8) (r : Bytes) :
    shLex true cur (b :: r) = if b = 39 then shLex false cur r else shLex true (some (cur.getD [] ++ [b])) r := by
  rw [shLex.eq_def]

theorem shLex_false_cons (cur : Option Bytes) (b : UInt8) (r : Bytes) :
    shLex false cur (b :: r) =
      if b = 32 ∨ b = 9 then (shLex false none r).map (pushWord cur)
      else if b = 39 then shLex true (some (cur.getD [])) r
      else if b = 92 then
        match r with
        | c :: r' => if c = 10 then none else shLex false (some (cur.getD [] ++ [c])) r'
        | [] => none
      else if isPlain b then shLex false (some (cur.getD [] ++ [b])) r
      else none := by
  rw [shLex.eq_def]
  rfl

theorem shLex_false_nil (cur : Option Bytes) : shLex false cur [] = some (endWord cur) := by
  rw [shLex.eq_def]

theorem shEntry (b : UInt8) : shEntryOk b = true := forall_byte_of_fin shEntryOk shEntry_ok b

theorem shEsc_cases (b : UInt8) : (b ≠ 39 ∧ shEsc b = [b]) ∨ (b = 39 ∧ shEsc b = [39, 92, 39, 39]) := by
  have h := shEntry b
  unfold shEntryOk at h
  simp only [Bool.and_eq_true, beq_iff_eq] at h
  by_cases hb : b = 39
  · right; refine ⟨hb, ?_⟩
    have h2 := h.2
    rw [if_pos (by simpa using hb)] at h2
    simpa using h2
  · left; refine ⟨hb, ?_⟩
    have h2 := h.2
    rw [if_neg (by simpa using hb)] at h2
    simpa using h2

/-- inside quotes: the escaped text followed by the closing quote adds exactly `s` to the word -/
theorem shLex_quoted (s : Bytes) : ∀ (cur rest : Bytes),
    shLex true (some cur) (shEscape s ++ 39 :: rest) = shLex false (some (cur ++ s)) rest := by
  induction s with
  | nil => intro cur rest; simp [shEscape, shLex_true_cons]
  | cons b s ih =>
    intro cur rest
    have hcons : shEscape (b :: s) = shEsc b ++ shEscape s := by simp [shEscape]
    rw [hcons]
    rcases shEsc_cases b with ⟨hb, he⟩ | ⟨hb, he⟩
    · rw [he]
      simp only [List.cons_append, List.nil_append]
      rw [shLex_true_cons]
      simp only [hb, if_false, Option.getD_some]
      rw [ih]
      simp
    · rw [he, hb]
      simp only [List.cons_append, List.nil_append]
      rw [shLex_true_cons]
      simp only [if_true]
      rw [shLex_false_cons]
      simp only [show ¬ ((92 : UInt8) = 32 ∨ (92 : UInt8) = 9) by decide, show ¬ ((92 : UInt8) = 39) by decide, if_false, if_true,
        show ¬ ((39 : UInt8) = 10) by decide, Option.getD_some]
      rw [shLex_false_cons]
      simp only [show ¬ ((39 : UInt8) = 32 ∨ (39 : UInt8) = 9) by decide, if_false, if_true, Option.getD_some]
      rw [ih]
      simp

/-- SAFE INSIDE FORMAT STRINGS: wherever the shell is outside quotes (any word `cur` in progress,
anything `rest` following), `'…'` as printed by `@sh` adds exactly the original bytes `s` to the
current word and leaves the shell outside quotes -/
theorem shLex_shQuote (s : Bytes) (cur : Option Bytes) (rest : Bytes) :
    shLex false cur (shQuote s ++ rest) = shLex false (some (cur.getD [] ++ s)) rest := by
  unfold shQuote
  simp only [List.cons_append, List.append_assoc, List.nil_append]
  rw [shLex_false_cons]
  simp only [show ¬ ((39 : UInt8) = 32 ∨ (39 : UInt8) = 9) by decide, if_false, if_true]
  have := shLex_quoted s (cur.getD []) rest
  simpa using this

theorem plain_facts {b : UInt8} (h : isPlain b = true) : ¬ (b = 32 ∨ b = 9) ∧ b ≠ 39 ∧ b ≠ 92 := by
  refine ⟨?_, ?_, ?_⟩
  · rintro (e | e) <;> (subst e; revert h; decide)
  · intro e; subst e; revert h; decide
  · intro e; subst e; revert h; decide

/-- an unquoted token of plain bytes is added to the current word -/
theorem shLex_plain (t : Bytes) (ht : t.all isPlain = true) : ∀ (cur : Option Bytes) (rest : Bytes), t ≠ [] →
    shLex false cur (t ++ rest) = shLex false (some (cur.getD [] ++ t)) rest := by
  induction t with
  | nil => intro _ _ h; exact absurd rfl h
  | cons b t ih =>
    intro cur rest _
    simp only [List.all_cons, Bool.and_eq_true] at ht
    obtain ⟨hb1, hb2, hb3⟩ := plain_facts ht.1
    simp only [List.cons_append]
    rw [shLex_false_cons]
    simp only [hb1, hb2, hb3, if_false, ht.1, if_true]
    cases t with
    | nil => simp
    | cons c t' =>
      rw [ih ht.2 _ _ (by simp)]
      simp

/-- the text a consumer should get for an argument -/
def ShArg.text : ShArg → Bytes
  | .str s => s
  | .raw t => t

/-- raw arguments (null, booleans, numbers as printed) must be non-empty plain tokens -/
def ShArg.ok : ShArg → Bool
  | .str _ => true
  | .raw t => !t.isEmpty && t.all isPlain

theorem shLex_arg (x : ShArg) (hx : x.ok = true) (cur : Option Bytes) (rest : Bytes) :
    shLex false cur (shArg x ++ rest) = shLex false (some (cur.getD [] ++ x.text)) rest := by
  cases x with
  | str s => exact shLex_shQuote s cur rest
  | raw t =>
    simp only [ShArg.ok, Bool.and_eq_true, Bool.not_eq_true', List.isEmpty_eq_false_iff] at hx
    exact shLex_plain t hx.2 cur rest hx.1

theorem shLex_sh : ∀ (xs : List ShArg), (∀ x ∈ xs, x.ok = true) →
    shLex false none (sh xs) = some (xs.map ShArg.text) := by
  intro xs
  induction xs with
  | nil => intro _; simp [sh, joinWith, shLex_false_nil, endWord]
  | cons x xs ih =>
    intro h
    have hx := h x (by simp)
    cases xs with
    | nil =>
      have := shLex_arg x hx none []
      simp only [List.append_nil] at this
      simp only [sh, List.map_cons, List.map_nil, joinWith]
      rw [this]
      simp [shLex_false_nil, endWord]
    | cons y ys =>
      have ih' := ih (fun z hz => h z (by simp [List.mem_cons] at hz ⊢; right; exact hz))
      simp only [sh, List.map_cons, joinWith] at ih' ⊢
      rw [List.append_assoc, shLex_arg x hx none]
      simp only [List.cons_append, List.nil_append]
      rw [shLex_false_cons]
      simp only [show ((32 : UInt8) = 32 ∨ (32 : UInt8) = 9) by decide, if_true]
      rw [ih']
      simp [pushWord, endWord]

/-! ## ASCII case mapping -/

def downByte (b : UInt8) : UInt8 := if 65 ≤ b.toNat && b.toNat ≤ 90 then b + 32 else b
def upByte (b : UInt8) : UInt8 := if 97 ≤ b.toNat && b.toNat ≤ 122 then b - 32 else b

theorem downEsc_eq (b : UInt8) : downEsc b = [downByte b] := by
  have h := forall_byte_of_fin downEntryOk downEntry_ok b
  unfold downEntryOk at h
  simpa [downByte] using h

theorem upEsc_eq (b : UInt8) : upEsc b = [upByte b] := by
  have h := forall_byte_of_fin upEntryOk upEntry_ok b
  unfold upEntryOk at h
  simpa [upByte] using h

theorem flatMap_singleton_fn (f : UInt8 → UInt8) (g : UInt8 → Bytes) (h : ∀ b, g b = [f b]) (s : Bytes) :
    s.flatMap g = s.map f := by
  induction s with
  | nil => rfl
  | cons b s ih => simp [List.flatMap_cons, h, ih]

theorem asciiDown_eq_map (s : Bytes) : asciiDown s = s.map downByte :=
  flatMap_singleton_fn downByte downEsc downEsc_eq s

theorem asciiUp_eq_map (s : Bytes) : asciiUp s = s.map upByte :=
  flatMap_singleton_fn upByte upEsc upEsc_eq s

/-! ## TSV escapes -/

theorem tsvEsc_cases (b : UInt8) :
    (b = 9 ∧ tsvEsc b = [92, 116]) ∨ (b = 10 ∧ tsvEsc b = [92, 110]) ∨ (b = 13 ∧ tsvEsc b = [92, 114]) ∨
    (b = 92 ∧ tsvEsc b = [92, 92]) ∨ (b = 0 ∧ tsvEsc b = [92, 48]) ∨
    (b ≠ 9 ∧ b ≠ 10 ∧ b ≠ 13 ∧ b ≠ 92 ∧ b ≠ 0 ∧ tsvEsc b = [b]) := by
  have h := forall_byte_of_fin tsvEntryOk tsvEntry_ok b
  unfold tsvEntryOk at h
  by_cases h9 : b = 9
  · left; subst h9; simpa using h
  · by_cases h10 : b = 10
    · right; left; subst h10; simpa using h
    · by_cases h13 : b = 13
      · right; right; left; subst h13; simpa using h
      · by_cases h92 : b = 92
        · right; right; right; left; subst h92; simpa using h
        · by_cases h0 : b = 0
          · right; right; right; right; left; subst h0; simpa using h
          · right; right; right; right; right
            refine ⟨h9, h10, h13, h92, h0, ?_⟩
            simpa [h9, h10, h13, h92, h0] using h

theorem tsvEsc_ne_nil (b : UInt8) : tsvEsc b ≠ [] := by
  rcases tsvEsc_cases b with ⟨_, h⟩ | ⟨_, h⟩ | ⟨_, h⟩ | ⟨_, h⟩ | ⟨_, h⟩ | ⟨_, _, _, _, _, h⟩ <;> rw [h] <;> simp

theorem tsvUnescStep_tsvEsc (b : UInt8) (rest : Bytes) :
    tsvUnescStep (tsvEsc b ++ rest) = ([b], (tsvEsc b).length) := by
  rcases tsvEsc_cases b with ⟨hb, h⟩ | ⟨hb, h⟩ | ⟨hb, h⟩ | ⟨hb, h⟩ | ⟨hb, h⟩ | ⟨_, _, _, h92, _, h⟩
  · rw [h, hb]; simp [tsvUnescStep]
  · rw [h, hb]; simp [tsvUnescStep]
  · rw [h, hb]; simp [tsvUnescStep]
  · rw [h, hb]; simp [tsvUnescStep]
  · rw [h, hb]; simp [tsvUnescStep]
  · rw [h]; simp [tsvUnescStep, h92]

/-- no escaped byte is a tab or a line feed -/
theorem tsvEsc_no_sep (b c : UInt8) (hc : c ∈ tsvEsc b) : c ≠ 9 ∧ c ≠ 10 := by
  rcases tsvEsc_cases b with ⟨hb, h⟩ | ⟨hb, h⟩ | ⟨hb, h⟩ | ⟨hb, h⟩ | ⟨hb, h⟩ | ⟨h9, h10, _, _, _, h⟩
  all_goals rw [h] at hc
  all_goals simp only [List.mem_cons, List.not_mem_nil, or_false] at hc
  · rcases hc with rfl | rfl <;> decide
  · rcases hc with rfl | rfl <;> decide
  · rcases hc with rfl | rfl <;> decide
  · rcases hc with rfl | rfl <;> decide
  · rcases hc with rfl | rfl <;> decide
  · subst hc; exact ⟨h9, h10⟩

end Jaq.C13
