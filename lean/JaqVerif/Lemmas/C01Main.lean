/-
  C01 — the main simulation theorem `sim` (all constructors of the fragment).
-/
import JaqVerif.Lemmas.C01Sim

namespace Jaq.Core
open Jaq

theorem cartM_cfgF (ol : Out) (r : Unit → Out) (f : Val → Val → Except Err Val) :
    cartM cfgF ol r f = cartSem ol r f := cartM_fixed ol r f

theorem bindPat_var (ev0 : Term → Val → Out) (x : String) (w : Val) (acc : Env) :
    bindPat ev0 (.var x) w acc = .done [.var x w :: acc] := by rw [bindPat]
theorem bindPatM_var (rn0 : TermId → Val → Out) (w : Val) (acc : MEnv) :
    bindPatM rn0 .var w acc = .done [.val w :: acc] := by rw [bindPatM]

/-- the I-form of the induction hypothesis -/
def SimI (tabf : List CTerm) (n : Nat) : Prop :=
  ∀ (L : Nat) (σ : Env) (loc : Locals) (e : MEnv) (t : Term) (v : Val) (id : TermId),
    inFragment t = true → Rel tabf σ loc e → CompiledI tabf loc t id →
    ∃ m, ∀ m' ≥ m, Pre (eval n L σ t v) (run cfgF tabf m' L e id v)

def SimT (tabf : List CTerm) (n : Nat) : Prop :=
  ∀ (L : Nat) (σ : Env) (loc : Locals) (e : MEnv) (t : Term) (v : Val) (c : CTerm),
    inFragment t = true → Rel tabf σ loc e → CompiledT tabf loc t c →
    ∃ m, ∀ m' ≥ m, Pre (eval n L σ t v) (step cfgF (run cfgF tabf m') L e c v)

theorem simI_of_simT {tabf : List CTerm} {n : Nat} (h : SimT tabf n) : SimI tabf n := by
  intro L σ loc e t v id hfr hrel ⟨c, hget, hc⟩
  obtain ⟨m, hm⟩ := h L σ loc e t v c hfr hrel hc
  exact fuel_step _ m (fun k hk => by rw [run_succ hget]; exact hm k hk)

/-- the shared part of `reduce` / `foreach` -/
theorem fold_core {tabf : List CTerm} {n : Nat} (ihI : SimI tabf n) (L : Nat) (σ : Env) (loc : Locals) (e : MEnv) (v : Val)
    (hrel : Rel tabf σ loc e) (x : String) (xs init update : Term) (ixs iinit iupd : TermId)
    (hfx : inFragment xs = true) (hfi : inFragment init = true) (hfu : inFragment update = true)
    (hIx : CompiledI tabf loc xs ixs) (hIi : CompiledI tabf loc init iinit)
    (hIu : CompiledI tabf (loc.pushBind (.var x)) update iupd)
    (projS : Env → Val → Out) (projM : Nat → MEnv → Val → Out) (isR : Bool)
    (hproj : ∀ w acc, ∃ m, ∀ m' ≥ m, Pre (projS (.var x w :: σ) acc) (projM m' (.val w :: e) acc)) :
    ∃ m, ∀ m' ≥ m, Pre
      (let ox := eval n L σ xs v
       let bs := OutG.bind ox.vals ox.stop fun w => bindPat (eval n L σ) (.var x) w σ
       let oi := eval n L σ init v
       OutG.bind oi.vals oi.stop fun i =>
         foldSem (fun ρx acc => eval n L ρx update acc) projS isR bs.vals bs.stop i)
      (let ox := run cfgF tabf m' L e ixs v
       let bs := OutG.bind ox.vals ox.stop fun w => bindPatM (run cfgF tabf m' L e) .var w e
       let oi := run cfgF tabf m' L e iinit v
       OutG.bind oi.vals oi.stop fun i =>
         foldM (fun ex acc => run cfgF tabf m' L ex iupd acc) (projM m') isR bs.vals bs.stop i) := by
  obtain ⟨m1, h1⟩ := ihI L σ loc e xs v ixs hfx hrel hIx
  obtain ⟨m2, h2⟩ := ihI L σ loc e init v iinit hfi hrel hIi
  have hfold := fold_sim (fun ρx acc => eval n L ρx update acc) projS
    (fun m' ex acc => run cfgF tabf m' L ex iupd acc) projM isR (fun w => .var x w :: σ) (fun w => .val w :: e)
    (eval n L σ xs v).vals (eval n L σ xs v).stop
    (fun w _ acc => ihI L (.var x w :: σ) (loc.pushBind (.var x)) (.val w :: e) update acc iupd hfu (Rel.v hrel) hIu)
    (fun w _ acc => hproj w acc)
  obtain ⟨m3, h3⟩ := uniform_fuel (P := fun m' i => ∀ (ws' : List Val) (s' : Stop),
      Pre (⟨(eval n L σ xs v).vals, (eval n L σ xs v).stop⟩ : Out) ⟨ws', s'⟩ →
      Pre (foldSem (fun ρx acc => eval n L ρx update acc) projS isR ((eval n L σ xs v).vals.map fun w => .var x w :: σ)
            (eval n L σ xs v).stop i)
          (foldM (fun ex acc => run cfgF tabf m' L ex iupd acc) (projM m') isR (ws'.map fun w => .val w :: e) s' i))
    (eval n L σ init v).vals (fun i _ => hfold i)
  refine ⟨max m1 (max m2 m3), fun m' hm' => ?_⟩
  simp only [bindPat_var, bindPatM_var, bind_map]
  refine pre_bind' (h2 m' (by omega)) (fun i hi => ?_)
  exact h3 m' (by omega) i hi _ _ (Pre.eta _ _ (h1 m' (by omega)))

/-- resolution of a call to a definition: whatever the call type, the compiled call names the
definition's body, binds the arguments in order and skips to the definition's environment -/
theorem call_defn {loc : Locals} {name : String} {ids : List TermId} {tr : Tr} {fe : FunE} {vars id : Nat}
    {sig : List (ArgK String)} (hget : loc.funs.getLast (name, ids.length) = some (fe, vars))
    (hfe : fe = .parent sig id ∨ ∃ tr0, fe = .sibling sig id tr0) :
    ∃ ct tr'', loc.call name ids tr = some (.callDef id (Locals.binds sig ids) (loc.total - vars) ct, tr'') := by
  rcases hfe with rfl | ⟨tr0, rfl⟩
  · simp only [Locals.call, hget]; split <;> exact ⟨_, _, rfl⟩
  · simp only [Locals.call, hget]; split <;> exact ⟨_, _, rfl⟩

theorem all2_length {α β : Type} {R : α → β → Prop} {as : List α} {bs : List β} (h : All2 R as bs) : bs.length = as.length := by
  induction h with
  | nil => rfl
  | cons _ _ ih => simp [ih]

/-- a name that the locals do not know: the (empty) prelude does not know it either; it is the
native `error_empty`, or undefined -/
theorem callC_none {loc : Locals} {name : String} {ids : List TermId} {tr : Tr} (st : St)
    (hcall : loc.call name ids tr = none) :
    callC cxMain loc name ids tr st =
      if name = "error_empty" ∧ ids.length = 0 then (.native 0 [], [], st) else (.id, [], st.fail name) := by
  unfold callC
  rw [hcall]
  by_cases h : name = "error_empty" ∧ ids.length = 0
  · obtain ⟨rfl, h0⟩ := h
    simp [cxMain, callModId, findNative, c01Natives, Locals.binds, h0]
  · rw [if_neg h]
    have : ¬ ("error_empty" = name ∧ 0 = ids.length) := fun ⟨a, b⟩ => h ⟨a.symm, b.symm⟩
    simp [cxMain, callModId, findNative, c01Natives, this]

theorem sim (tabf : List CTerm) : ∀ n, SimT tabf n := by
  intro n
  induction n with
  | zero =>
    intro L σ loc e t v c _ _ _
    exact ⟨0, fun m' _ => by rw [eval]; exact Pre.of_fuel_nil _⟩
  | succ n ih =>
    have ihI : SimI tabf n := simI_of_simT ih
    intro L σ loc e t v c hfr hrel hc
    obtain ⟨tr, st0, tr', st1, hcomp, hag⟩ := hc
    cases t with
    | recurse => simp [inFragment] at hfr
    | obj kvs => simp [inFragment] at hfr
    | path f parts => simp [inFragment] at hfr
    | id =>
      rw [term_id] at hcomp
      simp only [Prod.mk.injEq] at hcomp
      obtain ⟨rfl, -, -⟩ := hcomp
      exact ⟨0, fun m' _ => by rw [eval]; simp only [step]; exact Pre.rfl' _⟩
    | num s =>
      rw [term_num] at hcomp
      simp only [Prod.mk.injEq] at hcomp
      obtain ⟨rfl, -, -⟩ := hcomp
      refine ⟨0, fun m' _ => ?_⟩
      rw [eval]
      unfold numC numLit
      cases h : Num.ofLiteral s <;> simp only [step, numLit, h] <;> exact Pre.rfl' _
    | str fmt parts =>
      cases fmt with
      | some f => simp [inFragment] at hfr
      | none =>
        cases parts with
        | nil => simp [inFragment] at hfr
        | cons p ps =>
          cases p with
          | interp t => simp [inFragment] at hfr
          | lit s =>
            cases ps with
            | cons _ _ => simp [inFragment] at hfr
            | nil =>
              rw [term_str1] at hcomp
              simp only [Prod.mk.injEq] at hcomp
              obtain ⟨rfl, -, -⟩ := hcomp
              refine ⟨0, fun m' _ => ?_⟩
              rw [eval]
              simp only [List.map_cons, List.map_nil, sumSem, step]
              exact Pre.rfl' _
    | arr t =>
      cases t with
      | none => simp [inFragment] at hfr
      | some f =>
        simp only [inFragment] at hfr
        rw [term_arr] at hcomp
        simp only [Prod.mk.injEq] at hcomp
        obtain ⟨rfl, -, rfl⟩ := hcomp
        have hI := compiledI_it (tabf := tabf) hfr (Ext.refl _) (Nat.le_refl _) hag
        obtain ⟨m, hm⟩ := ihI L σ loc e f v _ hfr hrel hI
        refine ⟨m, fun m' hm' => ?_⟩
        rw [eval]; simp only [step]
        exact pre_collect (hm m' hm')
    | neg f =>
      simp only [inFragment] at hfr
      rw [term_neg] at hcomp
      simp only [Prod.mk.injEq] at hcomp
      obtain ⟨rfl, -, rfl⟩ := hcomp
      have hI := compiledI_it (tabf := tabf) hfr (Ext.refl _) (Nat.le_refl _) hag
      obtain ⟨m, hm⟩ := ihI L σ loc e f v _ hfr hrel hI
      refine ⟨m, fun m' hm' => ?_⟩
      rw [eval]; simp only [step]
      exact pre_mapM _ (hm m' hm')
    | label x f =>
      simp only [inFragment] at hfr
      rw [term_label] at hcomp
      simp only [Prod.mk.injEq] at hcomp
      obtain ⟨rfl, -, rfl⟩ := hcomp
      have hI := compiledI_it (tabf := tabf) hfr (Ext.refl _) (Nat.le_refl _) hag
      have hrel' : Rel tabf (.label x (L+1) :: σ) (loc.pushLabel x) (.lbl (L+1) :: e) := Rel.l hrel
      obtain ⟨m, hm⟩ := ihI (L+1) _ _ _ f v _ hfr hrel' hI
      refine ⟨m, fun m' hm' => ?_⟩
      rw [eval]; simp only [step]
      exact pre_label (L+1) (hm m' hm')
    | brk x =>
      rw [term_brk] at hcomp
      simp only [Prod.mk.injEq] at hcomp
      obtain ⟨rfl, -, -⟩ := hcomp
      have hl := findLabel_rel hrel x
      refine ⟨0, fun m' _ => ?_⟩
      rw [eval]
      cases hf : findLabel σ x with
      | none =>
        rw [hf] at hl; simp only at hl ⊢
        simp only [breakC, hl, step]; exact Pre.rfl' _
      | some i =>
        rw [hf] at hl; simp only at hl ⊢
        obtain ⟨pos, h1, h2, h3, h4⟩ := hl
        simp only [breakC, h1, step, h4]; exact Pre.rfl' _
    | var x =>
      rw [term_var] at hcomp
      simp only [Prod.mk.injEq] at hcomp
      obtain ⟨rfl, -, -⟩ := hcomp
      have hl := findVar_rel hrel x
      refine ⟨0, fun m' _ => ?_⟩
      rw [eval]
      cases hf : findVar σ x with
      | none =>
        rw [hf] at hl; simp only at hl ⊢
        simp only [varC, hl, step]; exact Pre.rfl' _
      | some i =>
        rw [hf] at hl; simp only at hl ⊢
        obtain ⟨pos, h1, h2, h3, h4⟩ := hl
        simp only [varC, h1, step, h4]; exact Pre.rfl' _
    | pipe l pat r =>
      cases pat with
      | none =>
        simp only [inFragment, Bool.and_eq_true] at hfr
        rw [term_pipe_none] at hcomp
        simp only [Prod.mk.injEq] at hcomp
        obtain ⟨rfl, -, rfl⟩ := hcomp
        have hIl := compiledI_it (tabf := tabf) hfr.1 (it_ext' hfr.2) (Nat.le_refl _) hag
        have hIr := compiledI_it (tabf := tabf) hfr.2 (Ext.refl _) (it_ext' (tr := []) (st := st0) hfr.1).len hag
        obtain ⟨m1, h1⟩ := ihI L σ loc e l v _ hfr.1 hrel hIl
        obtain ⟨m2, h2⟩ := uniform_fuel (P := fun m' w => Pre (eval n L σ r w)
            (run cfgF tabf m' L e (it cxMain loc tr r (it cxMain loc [] l st0).2.2).1 w))
          (eval n L σ l v).vals (fun w _ => ihI L σ loc e r w _ hfr.2 hrel hIr)
        refine ⟨max m1 m2, fun m' hm' => ?_⟩
        rw [eval]; simp only [step]
        exact pre_bind' (h1 m' (by omega)) (h2 m' (by omega))
      | some p =>
        cases p with
        | arr _ => simp [inFragment] at hfr
        | obj _ => simp [inFragment] at hfr
        | var x =>
          simp only [inFragment, Bool.and_eq_true] at hfr
          rw [term_pipe_var] at hcomp
          simp only [Prod.mk.injEq] at hcomp
          obtain ⟨rfl, -, rfl⟩ := hcomp
          have hIl := compiledI_it (tabf := tabf) hfr.1 (it_ext' hfr.2) (Nat.le_refl _) hag
          have hIr := compiledI_it (tabf := tabf) hfr.2 (Ext.refl _) (it_ext' (tr := []) (st := st0) hfr.1).len hag
          obtain ⟨m1, h1⟩ := ihI L σ loc e l v _ hfr.1 hrel hIl
          obtain ⟨m2, h2⟩ := uniform_fuel (P := fun m' w => Pre (eval n L (.var x w :: σ) r v)
              (run cfgF tabf m' L (.val w :: e) (it cxMain (loc.pushBind (.var x)) tr r (it cxMain loc [] l st0).2.2).1 v))
            (eval n L σ l v).vals (fun w _ => ihI L _ _ _ r v _ hfr.2 (Rel.v hrel) hIr)
          refine ⟨max m1 m2, fun m' hm' => ?_⟩
          rw [eval]; simp only [step, bindPat_var, bindPatM_var, OutG.done, bind_singleton]
          exact pre_bind' (h1 m' (by omega)) (h2 m' (by omega))
    | tryCatch f c' =>
      cases c' with
      | none => simp [inFragment] at hfr
      | some c' =>
        simp only [inFragment, Bool.and_eq_true] at hfr
        rw [term_try] at hcomp
        simp only [Prod.mk.injEq] at hcomp
        obtain ⟨rfl, -, rfl⟩ := hcomp
        have hIl := compiledI_it (tabf := tabf) hfr.1 (it_ext' hfr.2) (Nat.le_refl _) hag
        have hIr := compiledI_it (tabf := tabf) hfr.2 (Ext.refl _) (it_ext' (tr := []) (st := st0) hfr.1).len hag
        obtain ⟨m1, h1⟩ := ihI L σ loc e f v _ hfr.1 hrel hIl
        have hh : ∃ m2, ∀ m' ≥ m2, ∀ x, (eval n L σ f v).stop = .err x →
            Pre (eval n L σ c' (errToVal x)) (run cfgF tabf m' L e (it cxMain loc [] c' (it cxMain loc [] f st0).2.2).1 (errToVal x)) := by
          cases hst : (eval n L σ f v).stop with
          | err x =>
            obtain ⟨m2, h2⟩ := ihI L σ loc e c' (errToVal x) _ hfr.2 hrel hIr
            exact ⟨m2, fun m' hm' y hy => by cases hy; exact h2 m' hm'⟩
          | done => exact ⟨0, fun _ _ _ h => by cases h⟩
          | brk i => exact ⟨0, fun _ _ _ h => by cases h⟩
          | halt i => exact ⟨0, fun _ _ _ h => by cases h⟩
          | fuel => exact ⟨0, fun _ _ _ h => by cases h⟩
        obtain ⟨m2, h2⟩ := hh
        refine ⟨max m1 m2, fun m' hm' => ?_⟩
        rw [eval]; simp only [step]
        exact pre_try (h := fun x => eval n L σ c' x) (h1 m' (by omega)) (h2 m' (by omega))
    | ite its els =>
      cases its with
      | nil => simp [inFragment] at hfr
      | cons ct rest =>
        obtain ⟨cnd, thn⟩ := ct
        cases rest with
        | cons _ _ => cases els <;> simp [inFragment] at hfr
        | nil =>
          cases els with
          | none =>
            simp only [inFragment, Bool.and_eq_true] at hfr
            rw [term_ite1_none] at hcomp
            simp only [Prod.mk.injEq] at hcomp
            obtain ⟨rfl, -, rfl⟩ := hcomp
            have hIc := compiledI_it (tabf := tabf) hfr.1
              (Ext.trans (it_ext' (tr := tr) hfr.2) (Ext.insert _ _)) (Nat.le_refl _) hag
            have hIt := compiledI_it (tabf := tabf) (tr := tr) hfr.2 (Ext.insert _ .id)
              (it_ext' (tr := []) (st := st0) hfr.1).len hag
            -- the inserted `else` term is `.`
            have hge : tabf[(it cxMain loc tr thn (it cxMain loc [] cnd st0).2.2).2.2.terms.length]? = some CTerm.id := by
              rw [hag _ (Nat.le_trans (it_ext' (tr := []) (st := st0) hfr.1).len (it_ext' (tr := tr) hfr.2).len)
                (by simp [St.insert])]
              simp [St.insert]
            obtain ⟨m1, h1⟩ := ihI L σ loc e cnd v _ hfr.1 hrel hIc
            obtain ⟨m2, h2⟩ := ihI L σ loc e thn v _ hfr.2 hrel hIt
            refine ⟨max m1 m2 + 1, fun m' hm' => ?_⟩
            obtain ⟨k, rfl⟩ : ∃ k, m' = k + 1 := ⟨m' - 1, by omega⟩
            rw [eval]; simp only [step, iteSem, St.insert]
            refine pre_bind' (h1 _ (by omega)) (fun b _ => ?_)
            by_cases hb : truthy b = true
            · simp only [hb, if_true]; exact h2 _ (by omega)
            · simp only [hb]
              rw [run_succ hge]; simp only [step]; exact Pre.rfl' _
          | some els =>
            simp only [inFragment, Bool.and_eq_true] at hfr
            rw [term_ite1_some] at hcomp
            simp only [Prod.mk.injEq] at hcomp
            obtain ⟨rfl, -, rfl⟩ := hcomp
            have hext3 := term_ext hfr.2 cxMain loc tr (it cxMain loc tr thn (it cxMain loc [] cnd st0).2.2).2.2
            have hIc := compiledI_it (tabf := tabf) hfr.1.1
              (Ext.trans (it_ext' (tr := tr) hfr.1.2) (Ext.trans hext3 (Ext.insert _ _))) (Nat.le_refl _) hag
            have hIt := compiledI_it (tabf := tabf) (tr := tr) hfr.1.2 (Ext.trans hext3 (Ext.insert _ _))
              (it_ext' (tr := []) (st := st0) hfr.1.1).len hag
            have hle2 : st0.terms.length ≤ (it cxMain loc tr thn (it cxMain loc [] cnd st0).2.2).2.2.terms.length :=
              Nat.le_trans (it_ext' (tr := []) (st := st0) hfr.1.1).len (it_ext' (tr := tr) hfr.1.2).len
            have hIe : CompiledI tabf loc els
                (term cxMain loc tr els (it cxMain loc tr thn (it cxMain loc [] cnd st0).2.2).2.2).2.2.terms.length := by
              refine ⟨(term cxMain loc tr els (it cxMain loc tr thn (it cxMain loc [] cnd st0).2.2).2.2).1, ?_,
                tr, _, _, _, rfl, ?_⟩
              · rw [hag _ (Nat.le_trans hle2 hext3.len) (by simp [St.insert])]
                simp [St.insert]
              · exact AgreeFrom.of_ext (AgreeFrom.mono hag hle2) (Ext.insert _ _)
            obtain ⟨m1, h1⟩ := ihI L σ loc e cnd v _ hfr.1.1 hrel hIc
            obtain ⟨m2, h2⟩ := ihI L σ loc e thn v _ hfr.1.2 hrel hIt
            obtain ⟨m3, h3⟩ := ihI L σ loc e els v _ hfr.2 hrel hIe
            refine ⟨max m1 (max m2 m3), fun m' hm' => ?_⟩
            rw [eval]; simp only [step, iteSem, St.insert]
            refine pre_bind' (h1 _ (by omega)) (fun b _ => ?_)
            by_cases hb : truthy b = true
            · simp only [hb, if_true]; exact h2 _ (by omega)
            · simp only [hb]; exact h3 _ (by omega)
    | defs ds f =>
      simp only [inFragment, Bool.and_eq_true] at hfr
      rw [term_defs] at hcomp
      have hst1 : st1 = (term cxMain (compileDefs cxMain loc tr ds st0).1 tr f (compileDefs cxMain loc tr ds st0).2).2.2 := by
        rw [hcomp]
      have hrel' := defs_rel (tabf := tabf) (tr := tr) ds σ loc e st0 st1 st0.terms.length hfr.1 hrel
        (by rw [hst1]; exact term_ext hfr.2 _ _ _ _) (Nat.le_refl _) hag
      obtain ⟨m, hm⟩ := ih L _ _ e f v c hfr.2 hrel'
        ⟨tr, _, tr', st1, hcomp, AgreeFrom.mono hag (compileDefs_ext ds hfr.1 _ _).len⟩
      refine ⟨m, fun m' hm' => ?_⟩
      rw [eval]
      exact hm m' hm'
    | binop l op r =>
      simp only [inFragment, Bool.and_eq_true] at hfr
      by_cases hc1 : op = .comma
      · subst hc1
        rw [term_comma] at hcomp
        simp only [Prod.mk.injEq] at hcomp
        obtain ⟨rfl, -, rfl⟩ := hcomp
        have hIl := compiledI_it (tabf := tabf) hfr.1.2 (it_ext' hfr.2) (Nat.le_refl _) hag
        have hIr := compiledI_it (tabf := tabf) hfr.2 (Ext.refl _) (it_ext' (tr := tr) (st := st0) hfr.1.2).len hag
        obtain ⟨m1, h1⟩ := ihI L σ loc e l v _ hfr.1.2 hrel hIl
        obtain ⟨m2, h2⟩ := ihI L σ loc e r v _ hfr.2 hrel hIr
        refine ⟨max m1 m2, fun m' hm' => ?_⟩
        rw [eval]; simp only [step]
        exact pre_append (h1 m' (by omega)) (h2 m' (by omega))
      · by_cases hc2 : op = .alt
        · subst hc2
          rw [term_alt] at hcomp
          simp only [Prod.mk.injEq] at hcomp
          obtain ⟨rfl, -, rfl⟩ := hcomp
          have hIl := compiledI_it (tabf := tabf) hfr.1.2 (it_ext' hfr.2) (Nat.le_refl _) hag
          have hIr := compiledI_it (tabf := tabf) hfr.2 (Ext.refl _) (it_ext' (tr := []) (st := st0) hfr.1.2).len hag
          obtain ⟨m1, h1⟩ := ihI L σ loc e l v _ hfr.1.2 hrel hIl
          obtain ⟨m2, h2⟩ := ihI L σ loc e r v _ hfr.2 hrel hIr
          refine ⟨max m1 m2, fun m' hm' => ?_⟩
          rw [eval]; simp only [step]
          exact pre_alt (h1 m' (by omega)) (h2 m' (by omega))
        · rw [term_bop _ _ _ _ _ _ _ hc1 hc2] at hcomp
          simp only [Prod.mk.injEq] at hcomp
          obtain ⟨rfl, -, rfl⟩ := hcomp
          have hIl := compiledI_it (tabf := tabf) hfr.1.2 (it_ext' hfr.2) (Nat.le_refl _) hag
          have hIr := compiledI_it (tabf := tabf) hfr.2 (Ext.refl _) (it_ext' (tr := []) (st := st0) hfr.1.2).len hag
          obtain ⟨m1, h1⟩ := ihI L σ loc e l v _ hfr.1.2 hrel hIl
          obtain ⟨m2, h2⟩ := ihI L σ loc e r v _ hfr.2 hrel hIr
          refine ⟨max m1 m2, fun m' hm' => ?_⟩
          cases op with
          | comma => exact absurd rfl hc1
          | alt => exact absurd rfl hc2
          | or => rw [eval]; simp only [step, bopC]; exact pre_logic true (h1 m' (by omega)) (h2 m' (by omega))
          | and => rw [eval]; simp only [step, bopC]; exact pre_logic false (h1 m' (by omega)) (h2 m' (by omega))
          | math o =>
            rw [eval]; simp only [step, bopC, cartM_cfgF]
            exact pre_cart _ (h1 m' (by omega)) (h2 m' (by omega))
          | cmp o =>
            rw [eval]; simp only [step, bopC, cartM_cfgF]
            exact pre_cart _ (h1 m' (by omega)) (h2 m' (by omega))
          | assign => simp [Bop.inFragment] at hfr
          | update => simp [Bop.inFragment] at hfr
          | updateMath _ => simp [Bop.inFragment] at hfr
          | updateAlt => simp [Bop.inFragment] at hfr
    | fold name xs pat args =>
      cases pat with
      | arr _ => simp [inFragment] at hfr
      | obj _ => simp [inFragment] at hfr
      | var x =>
        simp only [inFragment, Bool.and_eq_true] at hfr
        cases args with
        | nil =>
          rw [term_fold_short0] at hcomp
          simp only [Prod.mk.injEq] at hcomp
          obtain ⟨rfl, -, -⟩ := hcomp
          refine ⟨0, fun m' _ => ?_⟩
          rw [eval]
          · simp only [step]; exact Pre.rfl' _
          all_goals (intros; rename_i h; cases h)
        | cons init args =>
          cases args with
          | nil =>
            rw [term_fold_short1] at hcomp
            simp only [Prod.mk.injEq] at hcomp
            obtain ⟨rfl, -, -⟩ := hcomp
            refine ⟨0, fun m' _ => ?_⟩
            rw [eval]
            · simp only [step]; exact Pre.rfl' _
            all_goals (intros; rename_i h; cases h)
          | cons update rest =>
            simp only [inFragmentList, Bool.and_eq_true] at hfr
            rw [term_fold_var] at hcomp
            have e1 := it_ext' (loc := loc) (tr := []) (st := st0) hfr.1
            have e2 := it_ext' (loc := loc) (tr := []) (st := (it cxMain loc [] xs st0).2.2) hfr.2.1
            have e3 := it_ext' (loc := loc.pushBind (.var x)) (tr := [])
              (st := (it cxMain loc [] init (it cxMain loc [] xs st0).2.2).2.2) hfr.2.2.1
            cases rest with
            | nil =>
              simp only at hcomp
              by_cases hr : name = "reduce"
              · simp only [hr, if_true, Prod.mk.injEq] at hcomp
                obtain ⟨rfl, -, rfl⟩ := hcomp
                have hIx := compiledI_it (tabf := tabf) hfr.1 (Ext.trans e2 e3) (Nat.le_refl _) hag
                have hIi := compiledI_it (tabf := tabf) hfr.2.1 e3 e1.len hag
                have hIu := compiledI_it (tabf := tabf) hfr.2.2.1 (Ext.refl _) (Nat.le_trans e1.len e2.len) hag
                obtain ⟨m, hm⟩ := fold_core ihI L σ loc e v hrel x xs init update _ _ _ hfr.1 hfr.2.1 hfr.2.2.1 hIx hIi hIu
                  (fun _ y => .done [y]) (fun _ _ y => .done [y]) true (fun w acc => ⟨0, fun _ _ => Pre.rfl' _⟩)
                refine ⟨m, fun m' hm' => ?_⟩
                rw [eval]; simp only [hr, if_true, step]
                exact hm m' hm'
              · by_cases hfe : name = "foreach"
                · simp only [hr, hfe, if_false, if_true, Prod.mk.injEq] at hcomp
                  obtain ⟨rfl, -, rfl⟩ := hcomp
                  have hIx := compiledI_it (tabf := tabf) hfr.1 (Ext.trans e2 e3) (Nat.le_refl _) hag
                  have hIi := compiledI_it (tabf := tabf) hfr.2.1 e3 e1.len hag
                  have hIu := compiledI_it (tabf := tabf) hfr.2.2.1 (Ext.refl _) (Nat.le_trans e1.len e2.len) hag
                  obtain ⟨m, hm⟩ := fold_core ihI L σ loc e v hrel x xs init update _ _ _ hfr.1 hfr.2.1 hfr.2.2.1 hIx hIi hIu
                    (fun _ y => .done [y]) (fun _ _ y => .done [y]) false (fun w acc => ⟨0, fun _ _ => Pre.rfl' _⟩)
                  refine ⟨m, fun m' hm' => ?_⟩
                  rw [eval]; simp only [hr, hfe, if_false, if_true, step]
                  exact hm m' hm'
                · simp only [hr, hfe, if_false, Prod.mk.injEq] at hcomp
                  obtain ⟨rfl, -, -⟩ := hcomp
                  exact ⟨0, fun m' _ => by rw [eval]; simp only [hr, hfe, if_false, step]; exact Pre.rfl' _⟩
            | cons proj rest =>
              cases rest with
              | cons _ _ =>
                simp only [Prod.mk.injEq] at hcomp
                obtain ⟨rfl, -, -⟩ := hcomp
                refine ⟨0, fun m' _ => ?_⟩
                rw [eval]
                · simp only [step]; exact Pre.rfl' _
                all_goals (intros; rename_i h; cases h)
              | nil =>
                simp only [inFragmentList, Bool.and_eq_true] at hfr
                simp only at hcomp
                by_cases hfe : name = "foreach"
                · simp only [hfe, if_true, Prod.mk.injEq] at hcomp
                  obtain ⟨rfl, -, rfl⟩ := hcomp
                  have e4 := it_ext' (loc := loc.pushBind (.var x)) (tr := tr)
                    (st := (it cxMain (loc.pushBind (.var x)) [] update (it cxMain loc [] init (it cxMain loc [] xs st0).2.2).2.2).2.2) hfr.2.2.2.1
                  have hIx := compiledI_it (tabf := tabf) hfr.1 (Ext.trans e2 (Ext.trans e3 e4)) (Nat.le_refl _) hag
                  have hIi := compiledI_it (tabf := tabf) hfr.2.1 (Ext.trans e3 e4) e1.len hag
                  have hIu := compiledI_it (tabf := tabf) hfr.2.2.1 e4 (Nat.le_trans e1.len e2.len) hag
                  have hIp := compiledI_it (tabf := tabf) (tr := tr) hfr.2.2.2.1 (Ext.refl _)
                    (Nat.le_trans e1.len (Nat.le_trans e2.len e3.len)) hag
                  obtain ⟨m, hm⟩ := fold_core ihI L σ loc e v hrel x xs init update _ _ _ hfr.1 hfr.2.1 hfr.2.2.1 hIx hIi hIu
                    (fun ρx y => eval n L ρx proj y)
                    (fun m' ex y => run cfgF tabf m' L ex (it cxMain (loc.pushBind (.var x)) tr proj
                      (it cxMain (loc.pushBind (.var x)) [] update (it cxMain loc [] init (it cxMain loc [] xs st0).2.2).2.2).2.2).1 y)
                    false
                    (fun w acc => ihI L _ _ _ proj acc _ hfr.2.2.2.1 (Rel.v hrel) hIp)
                  refine ⟨m, fun m' hm' => ?_⟩
                  rw [eval]; simp only [hfe, if_true, step]
                  exact hm m' hm'
                · simp only [hfe, if_false, Prod.mk.injEq] at hcomp
                  obtain ⟨rfl, -, -⟩ := hcomp
                  exact ⟨0, fun m' _ => by rw [eval]; simp only [hfe, if_false, step]; exact Pre.rfl' _⟩
    | call name args =>
      simp only [inFragment, Bool.and_eq_true] at hfr
      rw [term_call] at hcomp
      have hnot : ¬ (isQualified name = true) := by simpa using hfr.1
      rw [if_neg hnot] at hcomp
      have hst1 : st1 = (callC cxMain loc name (itermList cxMain loc args st0).1 tr (itermList cxMain loc args st0).2).2.2 := by
        rw [hcomp]
      have hall := itermList_spec (tabf := tabf) (loc := loc) args st0 st1 st0.terms.length hfr.2
        (by rw [hst1]; exact callC_ext _ _ _ _ _ _) (Nat.le_refl _) hag
      have hlen := all2_length hall
      have hlk := findCall_rel hrel name args.length
      unfold LookupOK at hlk
      rw [eval]
      cases hf : findCall σ name args.length with
      | none =>
        rw [hf] at hlk; simp only at hlk ⊢
        have hcall : loc.call name (itermList cxMain loc args st0).1 tr = none := by
          simp only [Locals.call, hlen, hlk]
        rw [callC_none _ hcall, hlen] at hcomp
        by_cases hn : name = "error_empty" ∧ args.length = 0
        · rw [if_pos hn] at hcomp
          simp only [Prod.mk.injEq] at hcomp
          obtain ⟨rfl, -, -⟩ := hcomp
          refine ⟨0, fun m' _ => ?_⟩
          simp only [nativeSem, hn, and_self, if_true, step, bindVars, nativeM]
          exact Pre.rfl' _
        · rw [if_neg hn] at hcomp
          simp only [Prod.mk.injEq] at hcomp
          obtain ⟨rfl, -, -⟩ := hcomp
          refine ⟨0, fun m' _ => ?_⟩
          simp only [nativeSem, hn, if_false, step]
          exact Pre.rfl' _
      | some cl =>
        rw [hf] at hlk; simp only at hlk ⊢
        cases cl with
        | arg t σ' =>
          obtain ⟨pos, id, loc', e', h1, h2, h3, h4, h5, h6⟩ := hlk
          have hcall : loc.call name (itermList cxMain loc args st0).1 tr = some (.var (loc.total - pos), []) := by
            simp only [Locals.call, hlen, h1]
          simp only [callC, hcall, Prod.mk.injEq] at hcomp
          obtain ⟨rfl, -, -⟩ := hcomp
          obtain ⟨m, hm⟩ := ihI L σ' loc' e' t v id h6.2 h5 h6.1
          refine ⟨m, fun m' hm' => ?_⟩
          simp only [step, h4]
          exact hm m' hm'
        | defn d σ' =>
          obtain ⟨fe, vars, id, loc', h1, h2, h3, h4, h5, h6, h7⟩ := hlk
          obtain ⟨ct, tr'', hcall⟩ := call_defn (tr := tr) (ids := (itermList cxMain loc args st0).1) (by rw [hlen]; exact h1) h2
          simp only [callC, hcall, Prod.mk.injEq] at hcomp
          obtain ⟨rfl, -, -⟩ := hcomp
          obtain ⟨m, hm⟩ := args_sim (tabf := tabf) n L σ loc e v hrel loc' (e.drop (loc.total - vars))
            (fun ρb => eval n L (.defn d σ' :: ρb) d.body v) (fun m' eb => run cfgF tabf m' L eb id v)
            (fun t id hfr hI => ihI L σ loc e t v id hfr hrel hI)
            d.params args (itermList cxMain loc args st0).1 σ' loc' (e.drop (loc.total - vars))
            hall (by rw [h7]; rfl) h5 (Nat.le_refl _) (by simp)
            (fun ρb eb hr1 hr2 hr3 => by
              have hpar : Rel tabf (.defn d σ' :: ρb) (loc'.pushParent d.name (sigOf d.params) id) eb :=
                Rel.par hr1 (by show Rel tabf σ' loc' (List.drop ((pushParams loc' (sigOf d.params)).total - loc'.total) eb); rw [hr3]; exact h5) hr2 h6
              exact ihI L _ _ eb d.body v id h6.2 hpar h6.1)
          refine ⟨m, fun m' hm' => ?_⟩
          simp only [step]
          exact hm m' hm'

end Jaq.Core
