/-
  C01 — the main simulation theorem `sim` (all constructors of the fragment).
-/
import JaqVerif.Lemmas.C01Ctor

namespace Jaq.Core
open Jaq

variable {pe : Bool}

/-- the I-form of the induction hypothesis -/
def SimI (pe : Bool) (tabf : List CTerm) (n : Nat) : Prop :=
  ∀ (L : Nat) (σ : Env) (loc : Locals) (e : MEnv) (t : Term) (v : Val) (id : TermId),
    inFragment pe t = true → Rel pe tabf σ loc e → CompiledI pe tabf loc t id →
    ∃ m, ∀ m' ≥ m, Pre (eval n L σ t v) (run cfgF tabf m' L e id v)

def SimT (pe : Bool) (tabf : List CTerm) (n : Nat) : Prop :=
  ∀ (L : Nat) (σ : Env) (loc : Locals) (e : MEnv) (t : Term) (v : Val) (c : CTerm),
    inFragment pe t = true → Rel pe tabf σ loc e → CompiledT pe tabf loc t c →
    ∃ m, ∀ m' ≥ m, Pre (eval n L σ t v) (step cfgF (run cfgF tabf m') L e c v)

theorem simI_of_simT {tabf : List CTerm} {n : Nat} (h : SimT pe tabf n) : SimI pe tabf n := by
  intro L σ loc e t v id hfr hrel ⟨c, hget, hc⟩
  obtain ⟨m, hm⟩ := h L σ loc e t v c hfr hrel hc
  exact fuel_step _ m (fun k hk => by rw [run_succ hget]; exact hm k hk)

theorem SimI.tsim {tabf : List CTerm} {n : Nat} (ihI : SimI pe tabf n) {L : Nat} {σ : Env} {loc : Locals} {e : MEnv}
    (hrel : Rel pe tabf σ loc e) : TSim pe tabf n L σ loc e :=
  fun t id v hfr hI => ihI L σ loc e t v id hfr hrel hI

/-- the shared part of `reduce` / `foreach` (any pattern) -/
theorem fold_core {tabf : List CTerm} {n : Nat} (ihI : SimI pe tabf n) (L : Nat) (σ : Env) (loc : Locals) (e : MEnv) (v : Val)
    (hrel : Rel pe tabf σ loc e) (pat : Pattern) (xs init update : Term) (ixs iinit iupd : TermId)
    (hfx : inFragment pe xs = true) (hfp : inFragmentPat pe pat = true) (hfi : inFragment pe init = true)
    (hfu : inFragment pe update = true)
    (hIx : CompiledI pe tabf loc xs ixs) (hIi : CompiledI pe tabf loc init iinit)
    (hIu : CompiledI pe tabf (loc.pushVars pat.vars) update iupd)
    (st0 st3 : St) (k0 : Nat) (hl : Ext (pattern (cxMain pe) loc pat st0).2 st3) (hk : k0 ≤ st0.terms.length)
    (hag : AgreeFrom k0 st3.terms tabf)
    (projS : Env → Val → Out) (projM : Nat → MEnv → Val → Out) (isR : Bool)
    (hproj : ∀ ρx ex, Rel pe tabf ρx (loc.pushVars pat.vars) ex → ∀ acc, ∃ m, ∀ m' ≥ m, Pre (projS ρx acc) (projM m' ex acc)) :
    ∃ m, ∀ m' ≥ m, Pre
      (let ox := eval n L σ xs v
       let bs := OutG.bind ox.vals ox.stop fun w => bindPat (eval n L σ) pat w σ
       let oi := eval n L σ init v
       OutG.bind oi.vals oi.stop fun i =>
         foldSem (fun ρx acc => eval n L ρx update acc) projS isR bs.vals bs.stop i)
      (let ox := run cfgF tabf m' L e ixs v
       let bs := OutG.bind ox.vals ox.stop fun w => bindPatM (run cfgF tabf m' L e) (pattern (cxMain pe) loc pat st0).1 w e
       let oi := run cfgF tabf m' L e iinit v
       OutG.bind oi.vals oi.stop fun i =>
         foldM (fun ex acc => run cfgF tabf m' L ex iupd acc) (projM m') isR bs.vals bs.stop i) := by
  have hT := ihI.tsim (L := L) hrel
  obtain ⟨m1, h1⟩ := ihI L σ loc e xs v ixs hfx hrel hIx
  obtain ⟨m2, h2⟩ := ihI L σ loc e init v iinit hfi hrel hIi
  -- the stream of matches
  obtain ⟨mp, hp⟩ := uniform_fuel (P := fun m' w => Pre (mapO (toM e pat.vars.length) (bindPat (eval n L σ) pat w σ))
      (bindPatM (run cfgF tabf m' L e) (pattern (cxMain pe) loc pat st0).1 w e))
    (eval n L σ xs v).vals (fun w _ => pat_sim hT.key pat hfp st0 st3 k0 hl hk hag w)
  have hbs : ∀ m' ≥ max m1 mp, Pre
      (mapO (toM e pat.vars.length) (OutG.bind (eval n L σ xs v).vals (eval n L σ xs v).stop fun w => bindPat (eval n L σ) pat w σ))
      (OutG.bind (run cfgF tabf m' L e ixs v).vals (run cfgF tabf m' L e ixs v).stop
        fun w => bindPatM (run cfgF tabf m' L e) (pattern (cxMain pe) loc pat st0).1 w e) := by
    intro m' hm'
    rw [mapO_bind]
    exact pre_bind' (h1 m' (by omega)) (hp m' (by omega))
  have hrelx : ∀ ρx ∈ (OutG.bind (eval n L σ xs v).vals (eval n L σ xs v).stop fun w => bindPat (eval n L σ) pat w σ).vals,
      Rel pe tabf ρx (loc.pushVars pat.vars) (toM e pat.vars.length ρx) := by
    intro ρx hρ
    obtain ⟨w, _, hw⟩ := mem_bind hρ
    exact pat_rel _ hrel pat w ρx hw
  have hfold := fold_sim (fun ρx acc => eval n L ρx update acc) projS
    (fun m' ex acc => run cfgF tabf m' L ex iupd acc) projM isR (toM e pat.vars.length)
    (OutG.bind (eval n L σ xs v).vals (eval n L σ xs v).stop fun w => bindPat (eval n L σ) pat w σ).vals
    (OutG.bind (eval n L σ xs v).vals (eval n L σ xs v).stop fun w => bindPat (eval n L σ) pat w σ).stop
    (fun ρx hρ acc => ihI L ρx _ _ update acc iupd hfu (hrelx ρx hρ) hIu)
    (fun ρx hρ acc => hproj ρx _ (hrelx ρx hρ) acc)
  obtain ⟨m3, h3⟩ := uniform_fuel (eval n L σ init v).vals (fun i _ => hfold i)
  refine ⟨max (max m1 mp) (max m2 m3), fun m' hm' => ?_⟩
  refine pre_bind' (h2 m' (by omega)) (fun i hi => ?_)
  exact h3 m' (by omega) i hi _ _ (Pre.eta _ _ (hbs m' (by omega)))

/-- resolution of a call to a definition: whatever the call type, the compiled call names the
definition's body, binds the arguments in order and skips to the definition's environment -/
theorem call_defn {loc : Locals} {name : String} {ids : List TermId} {tr : Tr} {fe : FunE} {vars id : Nat}
    {sig : List (ArgK String)} (hget : loc.funs.getLast (name, ids.length) = some (fe, vars))
    (hfe : fe = .parent sig id ∨ ∃ tr0, fe = .sibling sig id tr0) :
    ∃ ct tr'', loc.call name ids tr = some (.callDef id (Locals.binds sig ids) (loc.total - vars) ct, tr'') := by
  rcases hfe with rfl | ⟨tr0, rfl⟩
  · simp only [Locals.call, hget]; split <;> exact ⟨_, _, rfl⟩
  · simp only [Locals.call, hget]; split <;> exact ⟨_, _, rfl⟩

theorem all2_length {α β : Type} {R : α → β → Prop} {as : List α} {bs : List β} (h : All2 R as bs) : bs.length = as.length := by
  induction h with
  | nil => rfl
  | cons _ _ ih => simp [ih]

/-- a name (other than `!empty`) that the locals do not know: the prelude does not know it either;
it is the native `error_empty`, or undefined -/
theorem callC_none {loc : Locals} {name : String} {ids : List TermId} {tr : Tr} (st : St)
    (hcall : loc.call name ids tr = none) (hne : name ≠ emptyName) :
    callC (cxMain pe) loc name ids tr st =
      if name = "error_empty" ∧ ids.length = 0 then (.native 0 [], [], st) else (.id, [], st.fail name) := by
  unfold callC
  rw [hcall]
  have hne' : ¬ (emptyName = name) := fun h => hne h.symm
  by_cases h : name = "error_empty" ∧ ids.length = 0
  · obtain ⟨rfl, h0⟩ := h
    cases pe <;> simp [cxMain, callModId, findNative, c01Natives, Locals.binds, h0, emptyMDef, emptyName]
  · rw [if_neg h]
    have : ¬ ("error_empty" = name ∧ 0 = ids.length) := fun ⟨a, b⟩ => h ⟨a.symm, b.symm⟩
    cases pe <;> simp [cxMain, callModId, findNative, c01Natives, this, emptyMDef, hne']

theorem findCall_defn_name {σ : Env} {f : String} {n : Nat} {d : Def} {σ' : Env}
    (h : findCall σ f n = some (.defn d σ')) : d.name = f := by
  induction σ with
  | nil => simp [findCall] at h
  | cons s σ ih =>
    cases s with
    | var _ _ => exact ih (by simpa [findCall] using h)
    | label _ _ => exact ih (by simpa [findCall] using h)
    | arg p t ρ =>
      simp only [findCall] at h
      split at h
      · cases h
      · exact ih h
    | defn d0 ρ =>
      simp only [findCall] at h
      split at h
      · rename_i hc
        simp only [Option.some.injEq, Callee.defn.injEq] at h
        obtain ⟨rfl, -⟩ := h
        exact hc.1
      · exact ih h

theorem sim (tabf : List CTerm) (hpre : PreOK pe tabf) : ∀ n, SimT pe tabf n := by
  intro n
  induction n with
  | zero =>
    intro L σ loc e t v c _ _ _
    exact ⟨0, fun m' _ => by rw [eval]; exact Pre.of_fuel_nil _⟩
  | succ n ih =>
    have ihI : SimI pe tabf n := simI_of_simT ih
    intro L σ loc e t v c hfr hrel hc
    obtain ⟨tr, st0, tr', st1, hcomp, hag⟩ := hc
    cases t with
    | recurse =>
      rw [term_recurse] at hcomp
      simp only [Prod.mk.injEq] at hcomp
      obtain ⟨rfl, -, -⟩ := hcomp
      exact ⟨0, fun m' _ => by rw [eval]; simp only [step]; exact Pre.rfl' _⟩
    | obj kvs =>
      simp only [inFragment] at hfr
      rw [term_obj] at hcomp
      simp only [Prod.mk.injEq] at hcomp
      obtain ⟨rfl, -, rfl⟩ := hcomp
      have hT := ihI.tsim (L := L) hrel
      have hall := entries_sim (v := v) hrel hT hag kvs hfr st0 (sumOr_ext _ _ _) (Nat.le_refl _)
      obtain ⟨m, hm⟩ := sum_sim (.obj []) .objEmpty (fun _ => rfl) hag _ _ hall _ (Ext.refl _)
        (compileEntries_extA _ _ _ _).len
      refine ⟨m, fun m' hm' => ?_⟩
      rw [eval]
      exact hm m' hm'
    | path f parts =>
      simp only [inFragment, Bool.and_eq_true] at hfr
      rw [term_path] at hcomp
      simp only [Prod.mk.injEq] at hcomp
      obtain ⟨rfl, -, rfl⟩ := hcomp
      have hT := ihI.tsim (L := L) hrel
      have e1 : Ext st0 (it (cxMain pe) loc [] f st0).2.2 := it_extA
      have hIf := compiledI_it (tabf := tabf) hfr.1 (compileParts_extA _ _ _ _) (Nat.le_refl _) hag
      obtain ⟨m1, h1⟩ := ihI L σ loc e f v _ hfr.1 hrel hIf
      obtain ⟨m2, h2⟩ := explode_sim (v := v) hT hag parts hfr.2 _ (Ext.refl _) e1.len []
      refine ⟨max m1 m2, fun m' hm' => ?_⟩
      rw [eval]; simp only [step]
      refine pre_bind' (h1 m' (by omega)) (fun y _ => ?_)
      exact pre_bind' (h2 m' (by omega)) (fun _ _ => Pre.rfl' _)
    | id =>
      rw [term_id] at hcomp
      simp only [Prod.mk.injEq] at hcomp
      obtain ⟨rfl, -, -⟩ := hcomp
      exact ⟨0, fun m' _ => by rw [eval]; simp only [step]; exact Pre.rfl' _⟩
    | num s =>
      rw [term_num] at hcomp
      simp only [Prod.mk.injEq] at hcomp
      obtain ⟨rfl, -, -⟩ := hcomp
      refine ⟨0, fun m' _ => ?_⟩
      rw [eval]
      unfold numC numLit
      cases h : Num.ofLiteral s <;> simp only [step, numLit, h] <;> exact Pre.rfl' _
    | str fmt parts =>
      cases fmt with
      | some f => simp [inFragment] at hfr
      | none =>
        simp only [inFragment] at hfr
        rw [term_str] at hcomp
        simp only [Prod.mk.injEq] at hcomp
        obtain ⟨rfl, -, rfl⟩ := hcomp
        have hT := ihI.tsim (L := L) hrel
        have e1 : Ext st0 (st0.insert .toString).2 := Ext.insert _ _
        have e2 := compileStrParts_extA (cxMain pe) loc (st0.insert .toString).1 parts (st0.insert .toString).2
        have e3 := sumOr_ext (.str "") (compileStrParts (cxMain pe) loc (st0.insert .toString).1 parts (st0.insert .toString).2).1
          (compileStrParts (cxMain pe) loc (st0.insert .toString).1 parts (st0.insert .toString).2).2
        have hfmt : tabf[(st0.insert .toString).1]? = some .toString := by
          have hlt : st0.terms.length < (st0.insert .toString).2.terms.length := by simp [St.insert]
          show tabf[st0.terms.length]? = _
          rw [hag _ (Nat.le_refl _) (Nat.lt_of_lt_of_le hlt (Nat.le_trans e2.len e3.len)), (Ext.trans e2 e3).get hlt]
          simp [St.insert]
        have hall := strparts_sim (v := v) hT
          (fun (x : StrPart) => match x with
            | .lit s => fun (_ : Unit) => (OutG.done [strVal s] : Out)
            | .interp f => fun _ =>
              match (none : Option String) with
              | none => let o := eval n L σ f v; OutG.bind o.vals o.stop fun w => .done [intoString w]
              | some g => eval n L σ (.pipe f none (.call g [])) v)
          (fun _ => rfl) (fun _ => rfl) hfmt hag parts hfr _ e3 e1.len
        obtain ⟨m, hm⟩ := sum_sim (strVal "") (.str "") (fun _ => rfl) hag _ _ hall _ (Ext.refl _) (Nat.le_trans e1.len e2.len)
        refine ⟨m, fun m' hm' => ?_⟩
        rw [eval]
        exact hm m' hm'
    | arr t =>
      cases t with
      | none =>
        simp only [inFragment] at hfr
        subst hfr
        rw [term_arr_none] at hcomp
        simp only [Prod.mk.injEq] at hcomp
        obtain ⟨rfl, -, rfl⟩ := hcomp
        refine ⟨3, fun m' hm' => ?_⟩
        obtain ⟨k, rfl⟩ : ∃ k, m' = k + 3 := ⟨m' - 3, by omega⟩
        rw [eval]; simp only [step]
        rw [itermEmpty_run hpre hrel (Ext.refl _) (Nat.le_refl _) hag]
        exact Pre.rfl' _
      | some f =>
        simp only [inFragment] at hfr
        rw [term_arr] at hcomp
        simp only [Prod.mk.injEq] at hcomp
        obtain ⟨rfl, -, rfl⟩ := hcomp
        have hI := compiledI_it (tabf := tabf) hfr (Ext.refl _) (Nat.le_refl _) hag
        obtain ⟨m, hm⟩ := ihI L σ loc e f v _ hfr hrel hI
        refine ⟨m, fun m' hm' => ?_⟩
        rw [eval]; simp only [step]
        exact pre_collect (hm m' hm')
    | neg f =>
      simp only [inFragment] at hfr
      rw [term_neg] at hcomp
      simp only [Prod.mk.injEq] at hcomp
      obtain ⟨rfl, -, rfl⟩ := hcomp
      have hI := compiledI_it (tabf := tabf) hfr (Ext.refl _) (Nat.le_refl _) hag
      obtain ⟨m, hm⟩ := ihI L σ loc e f v _ hfr hrel hI
      refine ⟨m, fun m' hm' => ?_⟩
      rw [eval]; simp only [step]
      exact pre_mapM _ (hm m' hm')
    | label x f =>
      simp only [inFragment] at hfr
      rw [term_label] at hcomp
      simp only [Prod.mk.injEq] at hcomp
      obtain ⟨rfl, -, rfl⟩ := hcomp
      have hI := compiledI_it (tabf := tabf) hfr (Ext.refl _) (Nat.le_refl _) hag
      have hrel' : Rel pe tabf (.label x (L+1) :: σ) (loc.pushLabel x) (.lbl (L+1) :: e) := Rel.l hrel
      obtain ⟨m, hm⟩ := ihI (L+1) _ _ _ f v _ hfr hrel' hI
      refine ⟨m, fun m' hm' => ?_⟩
      rw [eval]; simp only [step]
      exact pre_label (L+1) (hm m' hm')
    | brk x =>
      rw [term_brk] at hcomp
      simp only [Prod.mk.injEq] at hcomp
      obtain ⟨rfl, -, -⟩ := hcomp
      have hl := findLabel_rel hrel x
      refine ⟨0, fun m' _ => ?_⟩
      rw [eval]
      cases hf : findLabel σ x with
      | none =>
        rw [hf] at hl; simp only at hl ⊢
        simp only [breakC, hl, step]; exact Pre.rfl' _
      | some i =>
        rw [hf] at hl; simp only at hl ⊢
        obtain ⟨pos, h1, h2, h3, h4⟩ := hl
        simp only [breakC, h1, step, h4]; exact Pre.rfl' _
    | var x =>
      rw [term_var] at hcomp
      simp only [Prod.mk.injEq] at hcomp
      obtain ⟨rfl, -, -⟩ := hcomp
      have hl := findVar_rel hrel x
      refine ⟨0, fun m' _ => ?_⟩
      rw [eval]
      cases hf : findVar σ x with
      | none =>
        rw [hf] at hl; simp only at hl ⊢
        simp only [varC, hl, step]; exact Pre.rfl' _
      | some i =>
        rw [hf] at hl; simp only at hl ⊢
        obtain ⟨pos, h1, h2, h3, h4⟩ := hl
        simp only [varC, h1, step, h4]; exact Pre.rfl' _
    | pipe l pat r =>
      cases pat with
      | none =>
        simp only [inFragment, Bool.and_eq_true] at hfr
        rw [term_pipe_none] at hcomp
        simp only [Prod.mk.injEq] at hcomp
        obtain ⟨rfl, -, rfl⟩ := hcomp
        have hIl := compiledI_it (tabf := tabf) hfr.1 (it_ext' hfr.2) (Nat.le_refl _) hag
        have hIr := compiledI_it (tabf := tabf) hfr.2 (Ext.refl _) (it_ext' (tr := []) (st := st0) hfr.1).len hag
        obtain ⟨m1, h1⟩ := ihI L σ loc e l v _ hfr.1 hrel hIl
        obtain ⟨m2, h2⟩ := uniform_fuel (P := fun m' w => Pre (eval n L σ r w)
            (run cfgF tabf m' L e (it (cxMain pe) loc tr r (it (cxMain pe) loc [] l st0).2.2).1 w))
          (eval n L σ l v).vals (fun w _ => ihI L σ loc e r w _ hfr.2 hrel hIr)
        refine ⟨max m1 m2, fun m' hm' => ?_⟩
        rw [eval]; simp only [step]
        exact pre_bind' (h1 m' (by omega)) (h2 m' (by omega))
      | some p =>
        simp only [inFragment, Bool.and_eq_true] at hfr
        rw [term_pipe_some] at hcomp
        simp only [Prod.mk.injEq] at hcomp
        obtain ⟨rfl, -, rfl⟩ := hcomp
        have hT := ihI.tsim (L := L) hrel
        have e1 : Ext st0 (it (cxMain pe) loc [] l st0).2.2 := it_extA
        have e2 : Ext (it (cxMain pe) loc [] l st0).2.2
            (it (cxMain pe) (loc.pushVars p.vars) tr r (it (cxMain pe) loc [] l st0).2.2).2.2 := it_extA
        have e3 := pattern_extA (cxMain pe) loc p (it (cxMain pe) (loc.pushVars p.vars) tr r (it (cxMain pe) loc [] l st0).2.2).2.2
        have hIl := compiledI_it (tabf := tabf) hfr.1.1 (Ext.trans e2 e3) (Nat.le_refl _) hag
        have hIr := compiledI_it (tabf := tabf) (tr := tr) hfr.2 e3 e1.len hag
        obtain ⟨m1, h1⟩ := ihI L σ loc e l v _ hfr.1.1 hrel hIl
        have hpat := fun w => pat_bind_sim hrel hT.key p hfr.1.2
          (it (cxMain pe) (loc.pushVars p.vars) tr r (it (cxMain pe) loc [] l st0).2.2).2.2 _ st0.terms.length
          (Ext.refl _) (Nat.le_trans e1.len e2.len) hag
          (fun ρ' => eval n L ρ' r v)
          (fun m' e' => run cfgF tabf m' L e' (it (cxMain pe) (loc.pushVars p.vars) tr r (it (cxMain pe) loc [] l st0).2.2).1 v)
          (fun ρ' e' hr => ihI L ρ' _ e' r v _ hfr.2 hr hIr) w
        obtain ⟨m2, h2⟩ := uniform_fuel (eval n L σ l v).vals (fun w _ => hpat w)
        refine ⟨max m1 m2, fun m' hm' => ?_⟩
        rw [eval]; simp only [step]
        exact pre_bind' (h1 m' (by omega)) (h2 m' (by omega))
    | tryCatch f c' =>
      cases c' with
      | none =>
        simp only [inFragment, Bool.and_eq_true] at hfr
        obtain ⟨hpe, hfr⟩ := hfr
        subst hpe
        rw [term_try_none] at hcomp
        simp only [Prod.mk.injEq] at hcomp
        obtain ⟨rfl, -, rfl⟩ := hcomp
        have e1 : Ext st0 (it (cxMain true) loc [] f st0).2.2 := it_extA
        have hIl := compiledI_it (tabf := tabf) hfr (itermEmpty_ext _ _ _) (Nat.le_refl _) hag
        obtain ⟨m1, h1⟩ := ihI L σ loc e f v _ hfr hrel hIl
        refine ⟨max m1 3, fun m' hm' => ?_⟩
        obtain ⟨k, rfl⟩ : ∃ k, m' = k + 3 := ⟨m' - 3, by omega⟩
        rw [eval]; simp only [step]
        refine pre_try (h := fun _ => (OutG.done [] : Out)) (h1 _ (by omega)) (fun x _ => ?_)
        rw [itermEmpty_run hpre hrel (Ext.refl _) e1.len hag]
        exact Pre.rfl' _
      | some c' =>
        simp only [inFragment, Bool.and_eq_true] at hfr
        rw [term_try] at hcomp
        simp only [Prod.mk.injEq] at hcomp
        obtain ⟨rfl, -, rfl⟩ := hcomp
        have hIl := compiledI_it (tabf := tabf) hfr.1 (it_ext' hfr.2) (Nat.le_refl _) hag
        have hIr := compiledI_it (tabf := tabf) hfr.2 (Ext.refl _) (it_ext' (tr := []) (st := st0) hfr.1).len hag
        obtain ⟨m1, h1⟩ := ihI L σ loc e f v _ hfr.1 hrel hIl
        have hh : ∃ m2, ∀ m' ≥ m2, ∀ x, (eval n L σ f v).stop = .err x →
            Pre (eval n L σ c' (errToVal x)) (run cfgF tabf m' L e (it (cxMain pe) loc [] c' (it (cxMain pe) loc [] f st0).2.2).1 (errToVal x)) := by
          cases hst : (eval n L σ f v).stop with
          | err x =>
            obtain ⟨m2, h2⟩ := ihI L σ loc e c' (errToVal x) _ hfr.2 hrel hIr
            exact ⟨m2, fun m' hm' y hy => by cases hy; exact h2 m' hm'⟩
          | done => exact ⟨0, fun _ _ _ h => by cases h⟩
          | brk i => exact ⟨0, fun _ _ _ h => by cases h⟩
          | halt i => exact ⟨0, fun _ _ _ h => by cases h⟩
          | fuel => exact ⟨0, fun _ _ _ h => by cases h⟩
        obtain ⟨m2, h2⟩ := hh
        refine ⟨max m1 m2, fun m' hm' => ?_⟩
        rw [eval]; simp only [step]
        exact pre_try (h := fun x => eval n L σ c' x) (h1 m' (by omega)) (h2 m' (by omega))
    | ite its els =>
      have hT := ihI.tsim (L := L) hrel
      cases els with
      | none =>
        simp only [inFragment] at hfr
        rw [term_ite_none] at hcomp
        have hst1 : st1 = (iteBuild (compileIts (cxMain pe) loc tr its st0).1 (.id, [], (compileIts (cxMain pe) loc tr its st0).2)).2.2 := by
          rw [hcomp]
        have hc1 : c = (iteBuild (compileIts (cxMain pe) loc tr its st0).1 (.id, [], (compileIts (cxMain pe) loc tr its st0).2)).1 := by
          rw [hcomp]
        subst hst1 hc1
        obtain ⟨m, hm⟩ := ite_sim (v := v) (tr := tr) hT hag none (.id, [], (compileIts (cxMain pe) loc tr its st0).2)
          ⟨0, fun m' _ => by simp only [iteSem, step]; exact Pre.rfl' _⟩ its hfr st0 (Ext.refl _) (Ext.refl _) (Nat.le_refl _)
        refine ⟨m, fun m' hm' => ?_⟩
        rw [eval]
        exact hm m' hm'
      | some els =>
        simp only [inFragment, Bool.and_eq_true] at hfr
        rw [term_ite_some] at hcomp
        have hst1 : st1 = (iteBuild (compileIts (cxMain pe) loc tr its st0).1
            (term (cxMain pe) loc tr els (compileIts (cxMain pe) loc tr its st0).2)).2.2 := by rw [hcomp]
        have hc1 : c = (iteBuild (compileIts (cxMain pe) loc tr its st0).1
            (term (cxMain pe) loc tr els (compileIts (cxMain pe) loc tr its st0).2)).1 := by rw [hcomp]
        subst hst1 hc1
        have e1 := compileIts_extA (cxMain pe) loc tr its st0
        have e2 := term_ext els (cxMain pe) loc tr (compileIts (cxMain pe) loc tr its st0).2
        have e3 := iteBuild_ext (compileIts (cxMain pe) loc tr its st0).1
          (term (cxMain pe) loc tr els (compileIts (cxMain pe) loc tr its st0).2)
        -- the `else` branch is compiled by `term` (not inserted yet): the T-form hypothesis applies
        obtain ⟨mb, hb⟩ := ih L σ loc e els v (term (cxMain pe) loc tr els (compileIts (cxMain pe) loc tr its st0).2).1 hfr.2 hrel
          ⟨tr, _, _, _, rfl, AgreeFrom.of_ext (AgreeFrom.mono hag e1.len) e3⟩
        obtain ⟨m, hm⟩ := ite_sim (v := v) (tr := tr) hT hag (some els)
          (term (cxMain pe) loc tr els (compileIts (cxMain pe) loc tr its st0).2)
          ⟨mb, fun m' hm' => by simp only [iteSem]; exact hb m' hm'⟩ its hfr.1 st0 e2 (Ext.refl _) (Nat.le_refl _)
        refine ⟨max m 1, fun m' hm' => ?_⟩
        rw [eval]
        exact hm m' (by omega)
    | defs ds f =>
      simp only [inFragment, Bool.and_eq_true] at hfr
      rw [term_defs] at hcomp
      have hst1 : st1 = (term (cxMain pe) (compileDefs (cxMain pe) loc tr ds st0).1 tr f (compileDefs (cxMain pe) loc tr ds st0).2).2.2 := by
        rw [hcomp]
      have hrel' := defs_rel (tabf := tabf) (tr := tr) ds σ loc e st0 st1 st0.terms.length hfr.1 hrel
        (by rw [hst1]; exact term_ext _ _ _ _ _) (Nat.le_refl _) hag
      obtain ⟨m, hm⟩ := ih L _ _ e f v c hfr.2 hrel'
        ⟨tr, _, tr', st1, hcomp, AgreeFrom.mono hag (compileDefs_ext ds hfr.1 _ _).len⟩
      refine ⟨m, fun m' hm' => ?_⟩
      rw [eval]
      exact hm m' hm'
    | binop l op r =>
      simp only [inFragment, Bool.and_eq_true] at hfr
      by_cases hc1 : op = .comma
      · subst hc1
        rw [term_comma] at hcomp
        simp only [Prod.mk.injEq] at hcomp
        obtain ⟨rfl, -, rfl⟩ := hcomp
        have hIl := compiledI_it (tabf := tabf) hfr.1.2 (it_ext' hfr.2) (Nat.le_refl _) hag
        have hIr := compiledI_it (tabf := tabf) hfr.2 (Ext.refl _) (it_ext' (tr := tr) (st := st0) hfr.1.2).len hag
        obtain ⟨m1, h1⟩ := ihI L σ loc e l v _ hfr.1.2 hrel hIl
        obtain ⟨m2, h2⟩ := ihI L σ loc e r v _ hfr.2 hrel hIr
        refine ⟨max m1 m2, fun m' hm' => ?_⟩
        rw [eval]; simp only [step]
        exact pre_append (h1 m' (by omega)) (h2 m' (by omega))
      · by_cases hc2 : op = .alt
        · subst hc2
          rw [term_alt] at hcomp
          simp only [Prod.mk.injEq] at hcomp
          obtain ⟨rfl, -, rfl⟩ := hcomp
          have hIl := compiledI_it (tabf := tabf) hfr.1.2 (it_ext' hfr.2) (Nat.le_refl _) hag
          have hIr := compiledI_it (tabf := tabf) hfr.2 (Ext.refl _) (it_ext' (tr := []) (st := st0) hfr.1.2).len hag
          obtain ⟨m1, h1⟩ := ihI L σ loc e l v _ hfr.1.2 hrel hIl
          obtain ⟨m2, h2⟩ := ihI L σ loc e r v _ hfr.2 hrel hIr
          refine ⟨max m1 m2, fun m' hm' => ?_⟩
          rw [eval]; simp only [step]
          exact pre_alt (h1 m' (by omega)) (h2 m' (by omega))
        · rw [term_bop _ _ _ _ _ _ _ hc1 hc2] at hcomp
          simp only [Prod.mk.injEq] at hcomp
          obtain ⟨rfl, -, rfl⟩ := hcomp
          have hIl := compiledI_it (tabf := tabf) hfr.1.2 (it_ext' hfr.2) (Nat.le_refl _) hag
          have hIr := compiledI_it (tabf := tabf) hfr.2 (Ext.refl _) (it_ext' (tr := []) (st := st0) hfr.1.2).len hag
          obtain ⟨m1, h1⟩ := ihI L σ loc e l v _ hfr.1.2 hrel hIl
          obtain ⟨m2, h2⟩ := ihI L σ loc e r v _ hfr.2 hrel hIr
          refine ⟨max m1 m2, fun m' hm' => ?_⟩
          cases op with
          | comma => exact absurd rfl hc1
          | alt => exact absurd rfl hc2
          | or => rw [eval]; simp only [step, bopC]; exact pre_logic true (h1 m' (by omega)) (h2 m' (by omega))
          | and => rw [eval]; simp only [step, bopC]; exact pre_logic false (h1 m' (by omega)) (h2 m' (by omega))
          | math o =>
            rw [eval]; simp only [step, bopC, cartM_cfgF]
            exact pre_cart _ (h1 m' (by omega)) (h2 m' (by omega))
          | cmp o =>
            rw [eval]; simp only [step, bopC, cartM_cfgF]
            exact pre_cart _ (h1 m' (by omega)) (h2 m' (by omega))
          | assign => simp [Bop.inFragment] at hfr
          | update => simp [Bop.inFragment] at hfr
          | updateMath _ => simp [Bop.inFragment] at hfr
          | updateAlt => simp [Bop.inFragment] at hfr
    | fold name xs pat args =>
      simp only [inFragment, Bool.and_eq_true] at hfr
      cases args with
      | nil =>
        rw [term_fold_short0] at hcomp
        simp only [Prod.mk.injEq] at hcomp
        obtain ⟨rfl, -, -⟩ := hcomp
        refine ⟨0, fun m' _ => ?_⟩
        rw [eval]
        · simp only [step]; exact Pre.rfl' _
        all_goals (intros; rename_i h; cases h)
      | cons init args =>
        cases args with
        | nil =>
          rw [term_fold_short1] at hcomp
          simp only [Prod.mk.injEq] at hcomp
          obtain ⟨rfl, -, -⟩ := hcomp
          refine ⟨0, fun m' _ => ?_⟩
          rw [eval]
          · simp only [step]; exact Pre.rfl' _
          all_goals (intros; rename_i h; cases h)
        | cons update rest =>
          simp only [inFragmentList, Bool.and_eq_true] at hfr
          rw [term_fold] at hcomp
          have e1 : Ext st0 (it (cxMain pe) loc [] xs st0).2.2 := it_extA
          have e2 := pattern_extA (cxMain pe) loc pat (it (cxMain pe) loc [] xs st0).2.2
          have e3 : Ext (pattern (cxMain pe) loc pat (it (cxMain pe) loc [] xs st0).2.2).2
              (it (cxMain pe) loc [] init (pattern (cxMain pe) loc pat (it (cxMain pe) loc [] xs st0).2.2).2).2.2 := it_extA
          have e4 : Ext (it (cxMain pe) loc [] init (pattern (cxMain pe) loc pat (it (cxMain pe) loc [] xs st0).2.2).2).2.2
              (it (cxMain pe) (loc.pushVars pat.vars) [] update
                (it (cxMain pe) loc [] init (pattern (cxMain pe) loc pat (it (cxMain pe) loc [] xs st0).2.2).2).2.2).2.2 := it_extA
          cases rest with
          | nil =>
            simp only at hcomp
            by_cases hr : name = "reduce"
            · simp only [hr, if_true, Prod.mk.injEq] at hcomp
              obtain ⟨rfl, -, rfl⟩ := hcomp
              have hIx := compiledI_it (tabf := tabf) hfr.1.1 (Ext.trans e2 (Ext.trans e3 e4)) (Nat.le_refl _) hag
              have hIi := compiledI_it (tabf := tabf) hfr.2.1 e4 (Nat.le_trans e1.len e2.len) hag
              have hIu := compiledI_it (tabf := tabf) hfr.2.2.1 (Ext.refl _) (Nat.le_trans e1.len (Nat.le_trans e2.len e3.len)) hag
              obtain ⟨m, hm⟩ := fold_core ihI L σ loc e v hrel pat xs init update _ _ _ hfr.1.1 hfr.1.2 hfr.2.1 hfr.2.2.1 hIx hIi hIu
                _ _ st0.terms.length (Ext.trans e3 e4) e1.len hag
                (fun _ y => .done [y]) (fun _ _ y => .done [y]) true (fun _ _ _ acc => ⟨0, fun _ _ => Pre.rfl' _⟩)
              refine ⟨m, fun m' hm' => ?_⟩
              rw [eval]; simp only [hr, if_true, step]
              exact hm m' hm'
            · by_cases hfe : name = "foreach"
              · simp only [hr, hfe, if_false, if_true, Prod.mk.injEq] at hcomp
                obtain ⟨rfl, -, rfl⟩ := hcomp
                have hIx := compiledI_it (tabf := tabf) hfr.1.1 (Ext.trans e2 (Ext.trans e3 e4)) (Nat.le_refl _) hag
                have hIi := compiledI_it (tabf := tabf) hfr.2.1 e4 (Nat.le_trans e1.len e2.len) hag
                have hIu := compiledI_it (tabf := tabf) hfr.2.2.1 (Ext.refl _) (Nat.le_trans e1.len (Nat.le_trans e2.len e3.len)) hag
                obtain ⟨m, hm⟩ := fold_core ihI L σ loc e v hrel pat xs init update _ _ _ hfr.1.1 hfr.1.2 hfr.2.1 hfr.2.2.1 hIx hIi hIu
                  _ _ st0.terms.length (Ext.trans e3 e4) e1.len hag
                  (fun _ y => .done [y]) (fun _ _ y => .done [y]) false (fun _ _ _ acc => ⟨0, fun _ _ => Pre.rfl' _⟩)
                refine ⟨m, fun m' hm' => ?_⟩
                rw [eval]; simp only [hr, hfe, if_false, if_true, step]
                exact hm m' hm'
              · simp only [hr, hfe, if_false, Prod.mk.injEq] at hcomp
                obtain ⟨rfl, -, -⟩ := hcomp
                exact ⟨0, fun m' _ => by rw [eval]; simp only [hr, hfe, if_false, step]; exact Pre.rfl' _⟩
          | cons proj rest =>
            cases rest with
            | cons _ _ =>
              simp only [Prod.mk.injEq] at hcomp
              obtain ⟨rfl, -, -⟩ := hcomp
              refine ⟨0, fun m' _ => ?_⟩
              rw [eval]
              · simp only [step]; exact Pre.rfl' _
              all_goals (intros; rename_i h; cases h)
            | nil =>
              simp only [inFragmentList, Bool.and_eq_true] at hfr
              simp only at hcomp
              by_cases hfe : name = "foreach"
              · simp only [hfe, if_true, Prod.mk.injEq] at hcomp
                obtain ⟨rfl, -, rfl⟩ := hcomp
                have e5 : Ext (it (cxMain pe) (loc.pushVars pat.vars) [] update
                    (it (cxMain pe) loc [] init (pattern (cxMain pe) loc pat (it (cxMain pe) loc [] xs st0).2.2).2).2.2).2.2
                    (it (cxMain pe) (loc.pushVars pat.vars) tr proj (it (cxMain pe) (loc.pushVars pat.vars) [] update
                      (it (cxMain pe) loc [] init (pattern (cxMain pe) loc pat (it (cxMain pe) loc [] xs st0).2.2).2).2.2).2.2).2.2 := it_extA
                have hIx := compiledI_it (tabf := tabf) hfr.1.1 (Ext.trans e2 (Ext.trans e3 (Ext.trans e4 e5))) (Nat.le_refl _) hag
                have hIi := compiledI_it (tabf := tabf) hfr.2.1 (Ext.trans e4 e5) (Nat.le_trans e1.len e2.len) hag
                have hIu := compiledI_it (tabf := tabf) hfr.2.2.1 e5 (Nat.le_trans e1.len (Nat.le_trans e2.len e3.len)) hag
                have hIp := compiledI_it (tabf := tabf) (tr := tr) hfr.2.2.2.1 (Ext.refl _)
                  (Nat.le_trans e1.len (Nat.le_trans e2.len (Nat.le_trans e3.len e4.len))) hag
                obtain ⟨m, hm⟩ := fold_core ihI L σ loc e v hrel pat xs init update _ _ _ hfr.1.1 hfr.1.2 hfr.2.1 hfr.2.2.1 hIx hIi hIu
                  _ _ st0.terms.length (Ext.trans e3 (Ext.trans e4 e5)) e1.len hag
                  (fun ρx y => eval n L ρx proj y)
                  (fun m' ex y => run cfgF tabf m' L ex (it (cxMain pe) (loc.pushVars pat.vars) tr proj
                    (it (cxMain pe) (loc.pushVars pat.vars) [] update
                      (it (cxMain pe) loc [] init (pattern (cxMain pe) loc pat (it (cxMain pe) loc [] xs st0).2.2).2).2.2).2.2).1 y)
                  false
                  (fun ρx ex hrx acc => ihI L ρx _ ex proj acc _ hfr.2.2.2.1 hrx hIp)
                refine ⟨m, fun m' hm' => ?_⟩
                rw [eval]; simp only [hfe, if_true, step]
                exact hm m' hm'
              · simp only [hfe, if_false, Prod.mk.injEq] at hcomp
                obtain ⟨rfl, -, -⟩ := hcomp
                exact ⟨0, fun m' _ => by rw [eval]; simp only [hfe, if_false, step]; exact Pre.rfl' _⟩
    | call name args =>
      simp only [inFragment, Bool.and_eq_true] at hfr
      rw [term_call] at hcomp
      have hnot : ¬ (isQualified name = true) := by simpa using hfr.1.1
      have hne : name ≠ emptyName := by simpa using hfr.1.2
      rw [if_neg hnot] at hcomp
      have hst1 : st1 = (callC (cxMain pe) loc name (itermList (cxMain pe) loc args st0).1 tr (itermList (cxMain pe) loc args st0).2).2.2 := by
        rw [hcomp]
      have hall := itermList_spec (tabf := tabf) (loc := loc) args st0 st1 st0.terms.length hfr.2
        (by rw [hst1]; exact callC_ext _ _ _ _ _ _) (Nat.le_refl _) hag
      have hlen := all2_length hall
      have hlk := findCall_rel hrel name args.length
      unfold LookupOK at hlk
      rw [eval]
      cases hf : findCall σ name args.length with
      | none =>
        rw [hf] at hlk; simp only at hlk ⊢
        have hcall : loc.call name (itermList (cxMain pe) loc args st0).1 tr = none := by
          simp only [Locals.call, hlen, hlk]
        rw [callC_none _ hcall hne, hlen] at hcomp
        by_cases hn : name = "error_empty" ∧ args.length = 0
        · rw [if_pos hn] at hcomp
          simp only [Prod.mk.injEq] at hcomp
          obtain ⟨rfl, -, -⟩ := hcomp
          refine ⟨0, fun m' _ => ?_⟩
          simp only [nativeSem, hn, and_self, if_true, step, bindVars, nativeM]
          exact Pre.rfl' _
        · rw [if_neg hn] at hcomp
          simp only [Prod.mk.injEq] at hcomp
          obtain ⟨rfl, -, -⟩ := hcomp
          refine ⟨0, fun m' _ => ?_⟩
          simp only [nativeSem, hn, if_false, step]
          exact Pre.rfl' _
      | some cl =>
        rw [hf] at hlk; simp only at hlk ⊢
        cases cl with
        | arg t σ' =>
          obtain ⟨pos, id, loc', e', h1, h2, h3, h4, h5, h6⟩ := hlk
          have hcall : loc.call name (itermList (cxMain pe) loc args st0).1 tr = some (.var (loc.total - pos), []) := by
            simp only [Locals.call, hlen, h1]
          simp only [callC, hcall, Prod.mk.injEq] at hcomp
          obtain ⟨rfl, -, -⟩ := hcomp
          obtain ⟨m, hm⟩ := ihI L σ' loc' e' t v id h6.2 h5 h6.1
          refine ⟨m, fun m' hm' => ?_⟩
          simp only [step, h4]
          exact hm m' hm'
        | defn d σ' =>
          obtain ⟨fe, vars, id, loc', h1, h2, h3, h4, h5, h6, h7⟩ := hlk
          obtain ⟨ct, tr'', hcall⟩ := call_defn (tr := tr) (ids := (itermList (cxMain pe) loc args st0).1) (by rw [hlen]; exact h1) h2
          simp only [callC, hcall, Prod.mk.injEq] at hcomp
          obtain ⟨rfl, -, -⟩ := hcomp
          obtain ⟨m, hm⟩ := args_sim (tabf := tabf) n L σ loc e v hrel loc' (e.drop (loc.total - vars))
            (fun ρb => eval n L (.defn d σ' :: ρb) d.body v) (fun m' eb => run cfgF tabf m' L eb id v)
            (fun t id hfr hI => ihI L σ loc e t v id hfr hrel hI)
            d.params args (itermList (cxMain pe) loc args st0).1 σ' loc' (e.drop (loc.total - vars))
            h6.2.2 hall (by rw [h7]; rfl) h5 (Nat.le_refl _) (by simp)
            (fun ρb eb hr1 hr2 hr3 => by
              have hpar : Rel pe tabf (.defn d σ' :: ρb) (loc'.pushParent d.name (sigOf d.params) id) eb :=
                Rel.par hr1 (by show Rel pe tabf σ' loc' (List.drop ((pushParams loc' (sigOf d.params)).total - loc'.total) eb); rw [hr3]; exact h5) hr2 h6
                  (by rw [findCall_defn_name hf]; exact hne)
              exact ihI L _ _ eb d.body v id h6.2.1 hpar h6.1)
          refine ⟨m, fun m' hm' => ?_⟩
          simp only [step]
          exact hm m' hm'

end Jaq.Core
