/- C13 table facts, part D (see C13Tables0.lean). -/
import JaqVerif.Lemmas.C13Tables0

namespace Jaq.C13

/-- `ascii_downcase`: `A`–`Z` + 32, everything else (in particular every byte ≥ 0x80) unchanged -/
def downEntryOk (b : UInt8) : Bool :=
  downEsc b == [if 65 ≤ b.toNat && b.toNat ≤ 90 then b + 32 else b]

theorem downEntry_ok : ∀ i : Fin 256, downEntryOk (UInt8.ofNat i.val) = true := by decide +kernel

/-- `ascii_upcase`: `a`–`z` − 32, everything else unchanged -/
def upEntryOk (b : UInt8) : Bool :=
  upEsc b == [if 97 ≤ b.toNat && b.toNat ≤ 122 then b - 32 else b]

theorem upEntry_ok : ∀ i : Fin 256, upEntryOk (UInt8.ofNat i.val) = true := by decide +kernel

/-- base64 alphabet: `b64Val` inverts `b64Sym` on 0..63, and the padding symbol is no symbol -/
theorem b64_val_sym : ∀ i : Fin 64, b64Val (b64Sym i.val) = some i.val := by decide +kernel

theorem b64_pad_not_sym : b64Val b64Pad = none := by decide +kernel

theorem b64_sym_not_pad : ∀ i : Fin 64, (b64Sym i.val == b64Pad) = false := by decide +kernel

end Jaq.C13
