/- helper lemmas for Props/C14.lean (YAML part) -/
import JaqVerif.C14.Yaml
namespace Jaq.C14.YamlLemmas
open Jaq Jaq.C14.Yaml

theorem dropTrailingWhite_id (s : Bytes) (h : endsWhite s = false) : dropTrailingWhite s = s := by
  unfold dropTrailingWhite endsWhite at *
  rcases List.eq_nil_or_concat s with rfl | ⟨l, c, rfl⟩
  · rfl
  · simp [optAny] at h
    simp [h]

theorem parseSign_snd (s : Bytes) : (parseSign s).2 = stripSign s := by
  cases s with
  | nil => rfl
  | cons c r => simp only [parseSign, stripSign]; split <;> rfl

theorem parseRadix_some_isPosNum (r : Bytes) (x) (h : parseRadix r = some x) : isPosNum r = true := by
  cases r with
  | nil => simp [parseRadix] at h
  | cons c r' =>
    simp only [parseRadix] at h
    simp only [isPosNum, isDigit]
    split at h
    · rename_i hc; simp at hc; subst hc; decide
    · split at h
      · rename_i hc
        simp at hc ⊢
        exact ⟨UInt8.le_trans (by decide) hc.1, hc.2⟩
      · simp at h

theorem isPosNum_isNumBody (r : Bytes) (h : isPosNum r = true) : isNumBody r = true := by
  cases r with
  | nil => simp [isPosNum] at h
  | cons c r' => simp [isPosNum] at h; simp [isNumBody, h]

theorem parseInt_some_numBody (s : Bytes) (n) (h : parseInt s = some n) :
    isNumBody (stripSign s) = true := by
  unfold parseInt at h
  rw [← parseSign_snd]
  generalize parseSign s = p at h
  obtain ⟨sign, r⟩ := p
  simp only at h ⊢
  cases hr : parseRadix r with
  | none => simp [hr] at h
  | some x => exact isPosNum_isNumBody _ (parseRadix_some_isPosNum _ _ hr)

theorem digits_of_not_posNum (r : Bytes) (h : isPosNum r = false) : digits r = ([], r) := by
  cases r with
  | nil => rfl
  | cons c r' => simp [isPosNum] at h; simp [digits, h]

theorem normaliseFloat_some_numBody (sign) (r : Bytes) (t) (h : normaliseFloat sign r = some t) :
    isNumBody r = true := by
  cases hp : isPosNum r with
  | true => exact isPosNum_isNumBody _ hp
  | false =>
    have hd := digits_of_not_posNum r hp
    cases r with
    | nil => simp [normaliseFloat, hd] at h
    | cons c r' =>
      by_cases hc : c = 46
      · subst hc
        cases hp' : isPosNum r' with
        | true => simp [isNumBody, hp']
        | false =>
          have hd' := digits_of_not_posNum r' hp'
          simp [normaliseFloat, hd, hd'] at h
      · simp [normaliseFloat, hd, hc] at h

theorem parseFloat_some_numFixed (s : Bytes) (n) (h : parseFloat s = some n) :
    isNumFixed s = true := by
  unfold parseFloat at h
  unfold isNumFixed
  rw [← parseSign_snd]
  generalize parseSign s = p at h
  obtain ⟨sign, r⟩ := p
  simp only at h ⊢
  by_cases hk : kwInf.contains r = true
  · simp at hk; simp [hk]
  · simp only [hk] at h
    cases hn : normaliseFloat sign r with
    | none => simp [hn] at h
    | some t => simp [normaliseFloat_some_numBody _ _ _ hn]

theorem isNum_isNumFixed (s : Bytes) (h : isNum s = true) : isNumFixed s = true := by
  cases s with
  | nil => simp [isNum] at h
  | cons c r =>
    simp only [isNum] at h
    unfold isNumFixed stripSign
    split at h
    · rename_i hc; simp at hc; subst hc
      simp [isPosNum_isNumBody _ h]
    · rename_i hc
      have : ¬ (c = 43) := by intro h43; subst h43; simp [isDigit] at h
      simp at hc
      simp [hc, this, isNumBody, h]

theorem not_kw (s : Bytes) (h : keywords.contains s = false) :
    s ∉ kwNull ∧ s ∉ kwTrue ∧ s ∉ kwFalse ∧ s ∉ kwNan := by
  simp only [keywords, List.contains_eq_mem, List.mem_append, decide_eq_false_iff_not, not_or] at h
  simp_all

/-- the plain scalar text `s` (as delivered by the scanner) resolves to the string `s` when it is
neither a keyword, `~`, nor number-like -/
theorem parsePlain_string (d) (s : Bytes) (hk : keywords.contains s = false) (ht : (s == tilde) = false)
    (hn : isNumFixed s = false) : parsePlainScalar d s none = .ok (.tstr s) := by
  obtain ⟨h1, h2, h3, h4⟩ := not_kw s hk
  have hi : parseInt s = none := by
    cases hp : parseInt s with
    | none => rfl
    | some n =>
      have := parseInt_some_numBody s n hp
      simp [isNumFixed, this] at hn
  have hf : parseFloat s = none := by
    cases hp : parseFloat s with
    | none => rfl
    | some n => simp [parseFloat_some_numFixed s n hp] at hn
  simp [parsePlainScalar, isNullWord, isTrueWord, isFalseWord, h1, h2, h3, h4, ht, hi, hf]

theorem readPlain_of_guards (s : Bytes) (hq : mustQuote s = false) (hw : endsWhite s = false)
    (hn : isNumFixed s = false) : readPlain s = .ok (.tstr s) := by
  unfold mustQuote at hq
  simp only [Bool.or_eq_false_iff] at hq
  obtain ⟨⟨⟨⟨ht, _⟩, _⟩, hk⟩, _⟩ := hq
  unfold readPlain saphyrPlain
  rw [dropTrailingWhite_id s hw]
  exact parsePlain_string _ s hk ht hn

theorem mustQuoteFixed_false (s : Bytes) (h : mustQuoteFixed s = false) :
    mustQuote s = false ∧ endsWhite s = false ∧ isNumFixed s = false ∧ plainContract s = true := by
  unfold mustQuoteFixed at h
  simp only [Bool.or_eq_false_iff] at h
  obtain ⟨⟨⟨⟨⟨⟨ht, hd⟩, hl⟩, hn⟩, hk⟩, hp⟩, hw⟩ := h
  have hnum : isNum s = false := by
    cases hx : isNum s with
    | false => rfl
    | true => simp [isNum_isNumFixed s hx] at hn
  refine ⟨?_, hw, hn, ?_⟩
  · simp at hk; simp [mustQuote, ht, hd, hnum, hk, hp]
  · simp at hp; simp [plainContract, hp, hd, hl]

/-- decimal digits -/
theorem digitVal_dec (k : Nat) (hk : k < 10) : digitVal (UInt8.ofNat (48 + k)) = some k := by
  have : ∀ k : Fin 10, digitVal (UInt8.ofNat (48 + k.val)) = some k.val := by decide
  exact this ⟨k, hk⟩

theorem digitsVal_append (radix acc : Nat) (xs : Bytes) (d : UInt8) (dv : Nat) (hd : digitVal d = some dv)
    (hlt : dv < radix) :
    digitsVal radix acc (xs ++ [d]) = (digitsVal radix acc xs).map (fun a => a * radix + dv) := by
  induction xs generalizing acc with
  | nil => simp [digitsVal, hd, hlt]
  | cons c r ih =>
    simp only [List.cons_append, digitsVal]
    cases digitVal c with
    | none => rfl
    | some x =>
      simp only
      split
      · exact ih _
      · rfl

theorem digitsVal_decDigits (n : Nat) : digitsVal 10 0 (decDigits n) = some n := by
  induction n using Nat.strongRecOn with
  | _ n ih =>
    rw [decDigits]
    split
    · rename_i h; simp only [digitsVal, digitVal_dec n h]; simp [h]
    · rename_i h
      rw [digitsVal_append 10 0 _ _ (n % 10) (digitVal_dec _ (Nat.mod_lt _ (by omega))) (Nat.mod_lt _ (by omega))]
      rw [ih (n / 10) (by omega)]
      simp; omega

theorem forall_u8 (P : UInt8 → Prop) (h : ∀ n : Fin 256, P (UInt8.ofNat n.val)) : ∀ c, P c := by
  intro c
  have := h ⟨c.toNat, c.toNat_lt⟩
  simpa using this

theorem intVal_ofInt (i : Int) : (Num.ofInt i).intVal? = some i := by
  unfold Num.ofInt; split <;> rfl

theorem intVal_neg_ofInt (i : Int) : (Num.neg (Num.ofInt i)).intVal? = some (-i) := by
  unfold Num.ofInt; split
  · simp only [Num.neg]; exact intVal_ofInt _
  · rfl

/-- shape of `decDigits`: a digit first, no leading zero unless the number is 0 -/
theorem decDigits_shape (n : Nat) :
    ∃ c r, decDigits n = c :: r ∧ isDigit c = true ∧ (0 < n → (c == 48) = false) ∧ (n = 0 → r = [] ∧ c = 48) := by
  induction n using Nat.strongRecOn with
  | _ n ih =>
    rw [decDigits]
    split
    · rename_i h
      refine ⟨_, [], rfl, ?_, ?_, ?_⟩
      · have : ∀ k : Fin 10, isDigit (UInt8.ofNat (48 + k.val)) = true := by decide
        exact this ⟨n, h⟩
      · intro hpos
        have : ∀ k : Fin 10, 0 < k.val → (UInt8.ofNat (48 + k.val) == 48) = false := by decide
        exact this ⟨n, h⟩ hpos
      · intro h0; subst h0; exact ⟨rfl, rfl⟩
    · rename_i h
      obtain ⟨c, r, hc, hd, hnz, _⟩ := ih (n / 10) (by omega)
      refine ⟨c, r ++ [UInt8.ofNat (48 + n % 10)], by simp [hc], hd, ?_, ?_⟩
      · intro _; exact hnz (by omega)
      · intro h0; omega

theorem kw_heads : ∀ k ∈ keywords ++ [tilde], ∃ c, k.head? = some c ∧ (isDigit c || c == 45) = false := by
  decide

theorem not_kw_of_head (c : UInt8) (r : Bytes) (hc : (isDigit c || c == 45) = true) :
    keywords.contains (c :: r) = false ∧ ((c :: r) == tilde) = false := by
  have key : ∀ k ∈ keywords ++ [tilde], k ≠ c :: r := by
    intro k hk heq
    obtain ⟨c', h1, h2⟩ := kw_heads k hk
    subst heq
    simp at h1; subst h1
    rw [hc] at h2; cases h2
  constructor
  · simp only [List.contains_eq_mem, decide_eq_false_iff_not]
    intro hm
    exact key _ (List.mem_append_left _ hm) rfl
  · simp only [beq_eq_false_iff_ne, ne_eq]
    intro hm
    exact key tilde (by simp) hm.symm

theorem parseInt_decDigits (n : Nat) : parseInt (decDigits n) = some (Num.ofInt n) := by
  obtain ⟨c, r, hc, hd, hnz, hz⟩ := decDigits_shape n
  have hns : (c == 43 || c == 45) = false := by
    simp only [isDigit] at hd
    exact forall_u8 (fun c => (48 ≤ c && c ≤ 57) = true → (c == 43 || c == 45) = false) (by decide +kernel) c hd
  have hv := digitsVal_decDigits n
  rw [hc] at hv
  by_cases h0 : n = 0
  · obtain ⟨hr, hc0⟩ := hz h0
    subst h0; rw [hc, hr, hc0]; rfl
  · have hc48 := hnz (by omega)
    have h49 : (49 ≤ c && c ≤ 57) = true := by
      exact forall_u8 (fun c => isDigit c = true → (c == 48) = false → (49 ≤ c && c ≤ 57) = true) (by decide +kernel) c hd hc48
    simp only [Bool.or_eq_false_iff] at hns
    rw [hc]
    simp [parseInt, parseSign, hns.1, hns.2, parseRadix, hc48, h49, fromStrRadix, hv]

theorem parseSign_nosign (c : UInt8) (r : Bytes) (hns : (c == 43 || c == 45) = false) :
    parseSign (c :: r) = (none, c :: r) := by simp [parseSign, hns]

theorem parseSign_minus (r : Bytes) : parseSign (45 :: r) = (some 45, r) := rfl

theorem parseInt_neg (c : UInt8) (r : Bytes) (m : Num) (hns : (c == 43 || c == 45) = false)
    (h : parseInt (c :: r) = some m) : parseInt (45 :: c :: r) = some (Num.neg m) := by
  unfold parseInt at h ⊢
  rw [parseSign_nosign c r hns] at h
  rw [parseSign_minus]
  simp only at h ⊢
  cases hr : parseRadix (c :: r) with
  | none => rw [hr] at h; simp at h
  | some x =>
    obtain ⟨radix, rest⟩ := x
    rw [hr] at h
    simp only at h ⊢
    cases hf : fromStrRadix rest radix with
    | none => rw [hf] at h; simp at h
    | some k => rw [hf] at h; simp at h ⊢; rw [h]

theorem parseInt_showInt (i : Int) :
    ∃ n', parseInt (showInt i) = some n' ∧ n'.intVal? = some i := by
  unfold showInt
  split
  · rename_i hneg
    obtain ⟨c, r, hc, hd, _, _⟩ := decDigits_shape i.natAbs
    have hp := parseInt_decDigits i.natAbs
    have hns : (c == 43 || c == 45) = false :=
      forall_u8 (fun c => isDigit c = true → (c == 43 || c == 45) = false) (by decide +kernel) c hd
    rw [hc] at hp ⊢
    refine ⟨_, parseInt_neg c r _ hns hp, ?_⟩
    rw [intVal_neg_ofInt]; congr 1; omega
  · rename_i hpos
    refine ⟨Num.ofInt i.natAbs, parseInt_decDigits _, ?_⟩
    rw [intVal_ofInt]; congr 1; omega

end Jaq.C14.YamlLemmas
