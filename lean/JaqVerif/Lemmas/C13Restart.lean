/- ROUND 2: the repaired `char_of_byte` as written (stateful, restarts) refines to the stateless lookup. -/
import JaqVerif.Lemmas.C13Regex

namespace Jaq.C13
open Jaq

theorem offsets_pairwise : ∀ (cs : List Bytes) (off : Nat), (∀ c ∈ cs, c ≠ []) → (offsets off cs).Pairwise (· < ·) := by
  intro cs
  induction cs with
  | nil => intro off _; simp [offsets, startsFrom]
  | cons c cs ih =>
    intro off hne
    rw [offsets_cons, List.pairwise_cons]
    have hc : 0 < c.length := List.length_pos_iff.mpr (hne c (by simp))
    refine ⟨?_, ih _ (fun x hx => hne x (by simp [hx]))⟩
    intro x hx
    have := offsets_ge cs _ x hx
    omega

theorem byteCharNew_pairwise (s : Bytes) : (byteCharNew s).Pairwise (fun a b => a.2 < b.2) := by
  rw [byteCharNew_eq]
  rw [List.pairwise_map]
  have h := offsets_pairwise (Utf8.chars s) 0 (chars_ne_nil s)
  generalize offsets 0 (Utf8.chars s) = l at h
  suffices ∀ (l : List Nat) (k : Nat), l.Pairwise (· < ·) → (l.zipIdx k).Pairwise (fun a b => a.1 < b.1) from this l 0 h
  intro l
  induction l with
  | nil => intro k _; simp
  | cons x t ih =>
    intro k hp
    rw [List.pairwise_cons] at hp
    rw [List.zipIdx_cons, List.pairwise_cons]
    refine ⟨?_, ih (k + 1) hp.2⟩
    intro a ha
    have := List.fst_mem_of_mem_zipIdx ha
    exact hp.1 _ this

theorem charOfByteStateful_skip (off : Nat) : ∀ (pre bc : ByteChar), (∀ p ∈ pre, p.2 ≠ off) →
    charOfByteStateful (pre ++ bc) off = charOfByteStateful bc off := by
  intro pre
  induction pre with
  | nil => intro bc _; rfl
  | cons p pre ih =>
    intro bc h
    obtain ⟨ci, bi⟩ := p
    have hb : ¬ off = bi := fun e => h (ci, bi) (by simp) e.symm
    simp only [List.cons_append, charOfByteStateful, hb, if_false]
    exact ih bc (fun q hq => h q (by simp [hq]))

theorem charOfByteStateful_suffix (off : Nat) : ∀ bc : ByteChar, (charOfByteStateful bc off).2 <:+ bc := by
  intro bc
  induction bc with
  | nil => simp [charOfByteStateful]
  | cons p r ih =>
    obtain ⟨ci, bi⟩ := p
    simp only [charOfByteStateful]
    split
    · exact List.suffix_refl _
    · exact List.IsSuffix.trans ih (List.suffix_cons _ _)

/-- the repaired, still stateful lookup (restart when the offset lies before the iterator) returns
what the stateless lookup returns, and leaves the iterator a suffix of the fresh one -/
theorem charOfByteRestart_eq (s : Bytes) (bc : ByteChar) (off : Nat) (h : bc <:+ byteCharNew s) :
    (charOfByteRestart s bc off).1 = charOfByte s off ∧ (charOfByteRestart s bc off).2 <:+ byteCharNew s := by
  unfold charOfByteRestart charOfByte
  cases bc with
  | nil => exact ⟨rfl, charOfByteStateful_suffix off _⟩
  | cons p r =>
    obtain ⟨ci, bi⟩ := p
    simp only
    by_cases hlt : off < bi
    · rw [if_pos hlt]; exact ⟨rfl, charOfByteStateful_suffix off _⟩
    · rw [if_neg hlt]
      obtain ⟨pre, hpre⟩ := h
      have hp := byteCharNew_pairwise s
      rw [← hpre, List.pairwise_append] at hp
      have hskip : ∀ q ∈ pre, q.2 ≠ off := by
        intro q hq
        have := hp.2.2 q hq (ci, bi) (by simp)
        simp only at this
        omega
      constructor
      · rw [← hpre, charOfByteStateful_skip off pre _ hskip]
      · exact List.IsSuffix.trans (charOfByteStateful_suffix off _) ⟨pre, hpre⟩

theorem matchesOfRestart_eq (s : Bytes) : ∀ (item : List Cap) (bc : ByteChar), bc <:+ byteCharNew s →
    (matchesOfRestart s bc item).1 = matchesOfRepaired s item ∧ (matchesOfRestart s bc item).2 <:+ byteCharNew s := by
  intro item
  induction item with
  | nil => intro bc h; exact ⟨rfl, h⟩
  | cons c cs ih =>
    intro bc h
    obtain ⟨h1, h2⟩ := charOfByteRestart_eq s bc c.start h
    simp only [matchesOfRestart, matchNewRestart, matchesOfRepaired, matchNewFixed]
    generalize hr : charOfByteRestart s bc c.start = r at h1 h2
    obtain ⟨o, bc'⟩ := r
    simp only at h1 h2
    subst h1
    cases hco : charOfByte s c.start with
    | none => simp only [Option.map_none]; exact ⟨trivial, h2⟩
    | some off =>
      simp only [Option.map_some]
      obtain ⟨i1, i2⟩ := ih bc' h2
      generalize hm : matchesOfRestart s bc' cs = m at i1 i2
      obtain ⟨o2, bc''⟩ := m
      simp only at i1 i2
      subst i1
      cases hmo : matchesOfRepaired s cs with
      | none => exact ⟨rfl, i2⟩
      | some ms => exact ⟨rfl, i2⟩

/-- **the loop of `regex()` as it is in the repaired code** (one `ByteChar` shared by all lookups,
restarted when a group starts before the iterator's position) computes exactly what the
stateless model `regexLoopRepaired` computes — for ANY engine result, also outside the contract -/
theorem regexLoopRestart_eq (s : Bytes) (g n mi ma : Bool) : ∀ (caps : List (List Cap)) (bc : ByteChar) (last : Nat),
    bc <:+ byteCharNew s → regexLoopRestart s g n mi ma bc last caps = regexLoopRepaired s g n mi ma last caps := by
  intro caps
  induction caps with
  | nil => intro bc last _; rfl
  | cons item rest ih =>
    intro bc last h
    cases item with
    | nil => simp only [regexLoopRestart, regexLoopRepaired]; exact ih bc last h
    | cons whole gs =>
      simp only [regexLoopRestart, regexLoopRepaired]
      split
      · exact ih bc last h
      · obtain ⟨h1, h2⟩ := matchesOfRestart_eq s (whole :: gs) bc h
        generalize hm : matchesOfRestart s bc (whole :: gs) = m at h1 h2
        obtain ⟨o, bc'⟩ := m
        simp only at h1 h2
        rw [← h1]
        cases ma
        · cases g
          · simp
          · simp [ih bc _ h]
        · cases o with
          | none => simp
          | some ms =>
            cases g
            · simp
            · simp [ih bc' _ h2]

end Jaq.C13
