/-
  C10 helper lemmas, part 2: text strings as lists of character chunks.
  `Utf8.chars b` concatenates to `b`; `char_indices` start offsets are prefix sums;
  `skip_take_chars` computes the byte window of a character slice.
-/
import JaqVerif.Lemmas.C10Pos

namespace Jaq
namespace C10
open Spec

/-! ### chunks concatenate to the bytes -/

theorem chunksF_flatten : ∀ (n : Nat) (bs : List UInt8), bs.length ≤ n →
    ((Utf8.chunksF n bs).map (·.2)).flatten = bs := by
  intro n
  induction n with
  | zero =>
    intro bs h
    have : bs = [] := List.eq_nil_of_length_eq_zero (by omega)
    subst this; simp [Utf8.chunksF]
  | succ n ih =>
    intro bs h
    cases bs with
    | nil => simp [Utf8.chunksF]
    | cons b rest =>
      simp only [Utf8.chunksF]
      generalize hk : (if ((Utf8.decode1 (b :: rest)).2 == 0) = true then 1 else (Utf8.decode1 (b :: rest)).2) = k
      have hk1 : 1 ≤ k := by
        rw [← hk]; split
        · omega
        · rename_i h0; simp at h0; omega
      simp only [List.map_cons, List.flatten_cons]
      rw [ih]
      · exact List.take_append_drop k (b :: rest)
      · simp only [List.length_drop, List.length_cons] at h ⊢; omega

theorem chars_flatten (b : List UInt8) : (Utf8.chars b).flatten = b := by
  unfold Utf8.chars Utf8.chunks
  exact chunksF_flatten b.length b (Nat.le_refl _)

theorem charCount_eq (b : List UInt8) : Utf8.charCount b = (Utf8.chars b).length := by
  simp [Utf8.charCount, Utf8.chars]

/-! ### offsets -/

/-- byte length of the first `k` chunks -/
def off (cs : List (List UInt8)) (k : Nat) : Nat := (cs.take k).flatten.length

theorem off_zero (cs : List (List UInt8)) : off cs 0 = 0 := by simp [off]

theorem off_cons_succ (c : List UInt8) (cs : List (List UInt8)) (k : Nat) :
    off (c :: cs) (k + 1) = c.length + off cs k := by
  simp [off]

theorem off_all (cs : List (List UInt8)) (k : Nat) (h : cs.length ≤ k) :
    off cs k = cs.flatten.length := by
  simp [off, List.take_of_length_le h]

theorem off_mono (cs : List (List UInt8)) {s e : Nat} (h : s ≤ e) : off cs s ≤ off cs e := by
  induction cs generalizing s e with
  | nil => simp [off]
  | cons c cs ih =>
    cases s with
    | zero => simp [off_zero]
    | succ s =>
      cases e with
      | zero => omega
      | succ e =>
        rw [off_cons_succ, off_cons_succ]
        have := ih (s := s) (e := e) (by omega)
        omega

theorem offsets_getElem? (cs : List (List UInt8)) (n i : Nat) :
    (offsets n cs)[i]? = if i < cs.length then some (n + off cs i) else none := by
  induction cs generalizing n i with
  | nil => simp [offsets]
  | cons c cs ih =>
    cases i with
    | zero => simp [offsets, off_zero]
    | succ i =>
      simp only [offsets, List.getElem?_cons_succ, ih, List.length_cons, off_cons_succ]
      by_cases h : i < cs.length
      · simp [h]; omega
      · simp [h]

theorem offsets_length (cs : List (List UInt8)) (n : Nat) : (offsets n cs).length = cs.length := by
  induction cs generalizing n with
  | nil => rfl
  | cons c cs ih => simp [offsets, ih]

/-- `byte_index` on an integer bound = byte offset of the normalised character position -/
theorem byteIndex_puOfInt (b : List UInt8) (i : Int) :
    byteIndex b (puOfInt i) = off (Utf8.chars b) (norm i (Utf8.chars b).length) := by
  have hfl := chars_flatten b
  generalize hcs : Utf8.chars b = cs at hfl
  unfold byteIndex charStarts norm puOfInt
  rw [hcs]
  by_cases h : 0 ≤ i
  · have h' : ¬ i < 0 := by omega
    simp only [h, h', decide_true, if_true, if_false, offsets_getElem?]
    by_cases h2 : i.natAbs < cs.length
    · have : min i.toNat cs.length = i.natAbs := by omega
      simp [h2, this]
    · have : min i.toNat cs.length = cs.length := by omega
      simp only [h2, if_false, Option.getD_none, this]
      rw [off_all cs cs.length (Nat.le_refl _), hfl]
  · have h' : i < 0 := by omega
    have hne : ¬ i.natAbs = 0 := by omega
    simp only [h, h', decide_false, Bool.false_eq_true, if_true, if_false, hne]
    by_cases h2 : i.natAbs - 1 < cs.length
    · rw [List.getElem?_reverse (by rw [offsets_length]; exact h2)]
      rw [offsets_length, offsets_getElem?]
      have : cs.length - 1 - (i.natAbs - 1) < cs.length := by omega
      simp only [this, if_true, Option.getD_some, Nat.zero_add]
      congr 1; omega
    · rw [List.getElem?_eq_none (by rw [List.length_reverse, offsets_length]; omega)]
      simp only [Option.getD_none]
      have : ((cs.length : Int) + i).toNat = 0 := by omega
      rw [this, off_zero]

theorem skipTakeChars_puRange (b : List UInt8) (i j : Option Int) :
    skipTakeChars (puRange i j) b =
      (off (Utf8.chars b) (lo i (Utf8.chars b).length),
       off (Utf8.chars b) (hi j (Utf8.chars b).length) - off (Utf8.chars b) (lo i (Utf8.chars b).length)) := by
  have hfl := chars_flatten b
  unfold skipTakeChars puRange lo hi
  cases i <;> cases j <;> simp only [Option.map_none, Option.map_some, byteIndex_puOfInt, off_zero]
  · rw [off_all _ _ (Nat.le_refl _), hfl]
  · rw [off_all _ _ (Nat.le_refl _), hfl]

/-! ### byte windows of chunk windows -/

theorem flatten_window (cs : List (List UInt8)) (s e : Nat) :
    (cs.flatten.drop (off cs s)).take (off cs e - off cs s) = ((cs.drop s).take (e - s)).flatten := by
  have h1 : cs.flatten = (cs.take s).flatten ++ (cs.drop s).flatten := by
    rw [← List.flatten_append, List.take_append_drop]
  have hd : cs.flatten.drop (off cs s) = (cs.drop s).flatten := by
    rw [h1]; unfold off; simp
  rw [hd]
  by_cases hse : s ≤ e
  · have h2 : cs.take e = cs.take s ++ (cs.drop s).take (e - s) := by
      have : e = s + (e - s) := by omega
      rw [this, List.take_add]; simp
    have h3 : off cs e - off cs s = ((cs.drop s).take (e - s)).flatten.length := by
      unfold off; rw [h2]; simp
    rw [h3]
    have h4 : (cs.drop s).flatten = ((cs.drop s).take (e - s)).flatten ++ ((cs.drop s).drop (e - s)).flatten := by
      rw [← List.flatten_append, List.take_append_drop]
    rw [h4]; simp
  · have : off cs e ≤ off cs s := off_mono cs (by omega)
    have h0 : off cs e - off cs s = 0 := by omega
    have h0' : e - s = 0 := by omega
    rw [h0, h0']; simp

theorem flatten_take_off (cs : List (List UInt8)) (s : Nat) :
    cs.flatten.take (off cs s) = (cs.take s).flatten := by
  have h1 : cs.flatten = (cs.take s).flatten ++ (cs.drop s).flatten := by
    rw [← List.flatten_append, List.take_append_drop]
  rw [h1]; unfold off; simp

theorem flatten_drop_off (cs : List (List UInt8)) (s : Nat) :
    cs.flatten.drop (off cs s) = (cs.drop s).flatten := by
  have h1 : cs.flatten = (cs.take s).flatten ++ (cs.drop s).flatten := by
    rw [← List.flatten_append, List.take_append_drop]
  rw [h1]; unfold off; simp

end C10
end Jaq
