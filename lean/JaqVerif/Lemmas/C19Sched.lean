/- C19 helper lemmas: the scheduler model is a product of isolated runs. -/
import JaqVerif.C19.Sched
namespace Jaq.C19
variable {Tab σ Out : Type}

theorem sysStep_tab (m : Machine Tab σ Out) (s : Sys Tab σ Out) (i : Nat) : (m.sysStep s i).tab = s.tab := rfl

theorem run_tab (m : Machine Tab σ Out) : ∀ (sched : List Nat) (s : Sys Tab σ Out), (m.run sched s).tab = s.tab
  | [], _ => rfl
  | i :: rest, s => by simp only [Machine.run]; rw [run_tab m rest, sysStep_tab]

theorem isolated_succ (m : Machine Tab σ Out) (tab : Tab) (n : Nat) (t : Thread σ Out) :
    m.isolated tab (n + 1) t = m.isolated tab n (m.stepThread tab t) := rfl

theorem run_thr (m : Machine Tab σ Out) : ∀ (sched : List Nat) (s : Sys Tab σ Out) (t : Nat),
    (m.run sched s).thr t = m.isolated s.tab (sched.count t) (s.thr t)
  | [], _, _ => rfl
  | i :: rest, s, t => by
    simp only [Machine.run]
    rw [run_thr m rest (m.sysStep s i) t, sysStep_tab]
    by_cases hit : i = t
    · subst hit
      simp only [List.count_cons_self, isolated_succ]
      simp [Machine.sysStep, setThr]
    · have hti : t ≠ i := fun h => hit h.symm
      have : (i == t) = false := by simp [hit]
      simp only [List.count_cons, this]
      simp [Machine.sysStep, setThr, hti]

end Jaq.C19
