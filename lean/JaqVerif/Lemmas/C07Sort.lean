import JaqVerif.Lemmas.C07Keys
import JaqVerif.Lemmas.C08Eq
namespace Jaq.C07
open Jaq

/-! ## `sort_keys`: sorting what is already sorted -/

section sorting
variable {α : Type} (c : α → α → Ordering)

/-- the two elements are strictly ordered, and both directions of the comparison say so -/
def Str (x y : α) : Prop := (c x y = .lt ∧ c y x = .gt) ∨ (c x y = .gt ∧ c y x = .lt)

/-- adjacent elements ascend strictly -/
def Asc : List α → Prop
  | [] => True
  | [_] => True
  | x :: y :: r => c x y = .lt ∧ Asc (y :: r)

theorem asc_tail {x : α} {l : List α} (h : Asc c (x :: l)) : Asc c l := by
  cases l with
  | nil => trivial
  | cons y r => exact h.2

theorem insertBy_asc (x : α) : ∀ ys : List α, Asc c ys → (∀ y ∈ ys, Str c x y) → Asc c (insertBy c x ys)
  | [], _, _ => trivial
  | y :: ys, ha, hs => by
    simp only [insertBy]
    split
    · rename_i h
      exact ⟨by simpa using h, ha⟩
    · rename_i h
      have hyx : c y x = .lt := by
        rcases hs y (by simp) with ⟨h1, _⟩ | ⟨_, h2⟩
        · simp [h1] at h
        · exact h2
      have ih := insertBy_asc x ys (asc_tail c ha) (fun z hz => hs z (by simp [hz]))
      cases ys with
      | nil => exact ⟨hyx, trivial⟩
      | cons y' r =>
        simp only [insertBy] at ih ⊢
        split
        · rename_i h'
          simp only [h', if_true] at ih
          exact ⟨hyx, ih⟩
        · rename_i h'
          simp only [h'] at ih
          exact ⟨ha.1, ih⟩

theorem sortBy_cons (x : α) (xs : List α) : sortBy c (x :: xs) = insertBy c x (sortBy c xs) := rfl

theorem sortBy_asc : ∀ l : List α, l.Pairwise (Str c) → Asc c (sortBy c l)
  | [], _ => trivial
  | x :: xs, h => by
    rw [sortBy_cons]
    have h' := List.pairwise_cons.1 h
    exact insertBy_asc c x _ (sortBy_asc xs h'.2) (fun y hy => h'.1 y (mem_sortBy c y xs hy))

theorem sortBy_of_asc : ∀ l : List α, Asc c l → sortBy c l = l
  | [], _ => rfl
  | [x], _ => rfl
  | x :: y :: r, h => by
    rw [sortBy_cons, sortBy_of_asc (y :: r) h.2]
    simp [insertBy, h.1]

/-- sorting is idempotent on lists whose elements are pairwise strictly ordered -/
theorem sortBy_idem (l : List α) (h : l.Pairwise (Str c)) : sortBy c (sortBy c l) = sortBy c l :=
  sortBy_of_asc c _ (sortBy_asc c l h)

theorem insertBy_map_mem {β : Type} (f : α → β) (cb : β → β → Ordering) (x : α) :
    ∀ l : List α, (∀ y ∈ l, cb (f x) (f y) = c x y) → insertBy cb (f x) (l.map f) = (insertBy c x l).map f
  | [], _ => rfl
  | y :: ys, h => by
    simp only [List.map_cons, insertBy, h y (by simp)]
    split
    · rfl
    · simp [insertBy_map_mem f cb x ys (fun z hz => h z (by simp [hz]))]

theorem sortBy_map_mem {β : Type} (f : α → β) (cb : β → β → Ordering) :
    ∀ l : List α, (∀ x ∈ l, ∀ y ∈ l, cb (f x) (f y) = c x y) → sortBy cb (l.map f) = (sortBy c l).map f
  | [], _ => rfl
  | x :: xs, h => by
    rw [List.map_cons, sortBy_cons, sortBy_cons,
      sortBy_map_mem f cb xs (fun a ha b hb => h a (by simp [ha]) b (by simp [hb]))]
    exact insertBy_map_mem c f cb x _ (fun y hy => h x (by simp) y (by simp [mem_sortBy c y xs hy]))

end sorting

/-! ## `sort_keys = true`, keys without objects inside -/

/-- no object inside the value -/
def objFree (v : Val) : Bool := C08.allObjs (fun _ => false) v

def strictPair (a b : Val) : Bool :=
  (Val.cmp a b == .lt && Val.cmp b a == .gt) || (Val.cmp a b == .gt && Val.cmp b a == .lt)

/-- the keys are pairwise strictly ordered by `Ord`, consistently in both directions -/
def strictKeys : List (Val × Val) → Bool
  | [] => true
  | p :: ps => ps.all (fun q => strictPair p.1 q.1) && strictKeys ps

def flatKeys (o : List (Val × Val)) : Bool := o.all fun e => objFree e.1

/-- every object inside the value has keys that contain no objects and are pairwise strictly
ordered -/
def SortDom (v : Val) : Prop := C08.allObjs (fun o => flatKeys o && strictKeys o) v = true

theorem strictKeys_pairwise : ∀ o : List (Val × Val), strictKeys o = true →
    o.Pairwise (Str fun p q : Val × Val => Val.cmp p.1 q.1)
  | [], _ => List.Pairwise.nil
  | p :: ps, h => by
    simp only [strictKeys, Bool.and_eq_true, List.all_eq_true] at h
    refine List.pairwise_cons.2 ⟨fun q hq => ?_, strictKeys_pairwise ps h.2⟩
    have := h.1 q hq
    simp only [strictPair, Bool.or_eq_true, Bool.and_eq_true, beq_iff_eq] at this
    exact this

theorem objFree_arr {a : List Val} (h : objFree (.arr a) = true) : ∀ v ∈ a, objFree v = true :=
  C08.allObjs_arr.1 h

theorem objFree_obj (o : List (Val × Val)) : objFree (.obj o) = false := by
  simp [objFree, C08.allObjs]

/-- on values without objects `canon` does not depend on `pp` -/
theorem canon_objFree (c : Cfg) (pp pp' : Pp) : ∀ (k : Nat) (v : Val), v.size ≤ k → objFree v = true →
    canon c pp v = canon c pp' v := by
  intro k
  induction k with
  | zero => intro v h; have := Val.size_pos v; omega
  | succ k ih =>
    intro v hsz ho
    cases v with
    | arr a =>
      simp only [Val.size] at hsz
      rw [canon_arr, canon_arr]
      congr 1
      apply List.map_congr_left
      intro x hx
      have := Val.size_lt_of_mem hx
      exact ih x (by omega) (objFree_arr ho x hx)
    | obj o => rw [objFree_obj] at ho; cases ho
    | null => rfl
    | bool _ => rfl
    | num _ => rfl
    | tstr _ => rfl
    | bstr _ => rfl

def Pp.unsorted (pp : Pp) : Pp := { pp with sortKeys := false }

/-- keys without objects compare after the round trip as before, for every `pp` -/
theorem cmp_canon_flat (c : Cfg) (hv : RyuVal c) (pp : Pp) (a b : Val) (ha : objFree a = true) (hb : objFree b = true) :
    Val.cmp (canon c pp a) (canon c pp b) = Val.cmp a b := by
  rw [canon_objFree c pp pp.unsorted _ a (Nat.le_refl _) ha, canon_objFree c pp pp.unsorted _ b (Nat.le_refl _) hb]
  exact cmp_canon c hv pp.unsorted rfl a b

def kcmp (p q : Val × Val) : Ordering := Val.cmp p.1 q.1

theorem sortDom_arr {a : List Val} (h : SortDom (.arr a)) : ∀ v ∈ a, SortDom v := C08.allObjs_arr.1 h
theorem sortDom_obj {o : List (Val × Val)} (h : SortDom (.obj o)) :
    (flatKeys o = true ∧ strictKeys o = true) ∧ ∀ e ∈ o, SortDom e.1 ∧ SortDom e.2 := by
  have := C08.allObjs_obj.1 h
  exact ⟨by simpa [Bool.and_eq_true] using this.1, this.2⟩

/-- the value read back prints exactly like the original, also with `sort_keys` -/
theorem writeVal_canon_sorted (c : Cfg) (hv : RyuVal c) (pp : Pp) (hs : pp.sortKeys = true) : ∀ (k : Nat) (v : Val),
    v.size ≤ k → SortDom v → ∀ lvl, writeVal c pp lvl (canon c pp v) = writeVal c pp lvl v := by
  intro k
  induction k with
  | zero => intro v h; have := Val.size_pos v; omega
  | succ k ih =>
    intro v hsz hd lvl
    cases v with
    | null => rfl
    | bool b => rfl
    | num n => simp only [canon, writeVal, writeNum_canon]
    | tstr s => rfl
    | bstr s => rfl
    | arr a =>
      simp only [Val.size] at hsz
      have hl : writeList c pp (lvl + 1) (canonList c pp a) = writeList c pp (lvl + 1) a := by
        rw [canonList_map, writeList_map, writeList_map, List.map_map]
        apply List.map_congr_left
        intro v hv'
        have := Val.size_lt_of_mem hv'
        exact ih v (by omega) (sortDom_arr hd v hv') (lvl + 1)
      have he : (canonList c pp a).isEmpty = a.isEmpty := by cases a <;> simp [canonList]
      simp only [canon, writeVal, hl, he]
    | obj o =>
      simp only [Val.size] at hsz
      obtain ⟨⟨hflat, hstrict⟩, hmem⟩ := sortDom_obj hd
      have hfl : ∀ e ∈ o, objFree e.1 = true := by simpa [flatKeys] using hflat
      -- the entries of the value read back: the sorted entries, relabelled
      let S := sortBy kcmp o
      have hSmem : ∀ e ∈ S, e ∈ o := fun e he => mem_sortBy _ _ _ he
      have hc : (sortTagged pp (canonEntries c pp o)).map (·.2) = S.map (canonPair c pp) := by
        rw [canonEntries_map]
        simp only [sortTagged, hs, if_true]
        rw [sortBy_map (fun e : Val × Val => (e.1, (canon c pp e.1, canon c pp e.2))) kcmp tagCmp (fun _ _ => rfl)]
        simp [S, canonPair, Function.comp_def]
      let text : Val × Val → Bytes := fun e => writeVal c pp (lvl + 1) e.1 ++ pp.colon ++ writeVal c pp (lvl + 1) e.2
      have hw : writeEntries c pp (lvl + 1) (S.map (canonPair c pp)) = S.map (fun e => (canon c pp e.1, text e)) := by
        rw [writeEntries_map, List.map_map]
        apply List.map_congr_left
        intro e he
        have hm := hSmem e he
        have hsz' := Val.size_entry_of_mem (k := e.1) (v := e.2) hm
        simp only [Function.comp, canonPair, text]
        rw [ih e.1 (by omega) (hmem e hm).1 (lvl + 1), ih e.2 (by omega) (hmem e hm).2 (lvl + 1)]
      have hsort1 : sortBy keyCmp (S.map (fun e => (canon c pp e.1, text e))) = (sortBy kcmp S).map (fun e => (canon c pp e.1, text e)) := by
        apply sortBy_map_mem
        intro x hx y hy
        exact cmp_canon_flat c hv pp x.1 y.1 (hfl x (hSmem x hx)) (hfl y (hSmem y hy))
      have hidem : sortBy kcmp S = S := sortBy_idem kcmp o (strictKeys_pairwise o hstrict)
      have hsort2 : sortBy keyCmp (o.map (fun e => (e.1, text e))) = S.map (fun e => (e.1, text e)) :=
        sortBy_map (fun e : Val × Val => (e.1, text e)) kcmp keyCmp (fun _ _ => rfl) o
      have he : (S.map (canonPair c pp)).isEmpty = o.isEmpty := by
        have : S.length = o.length := length_sortBy _ _
        cases o with
        | nil => simp [S, sortBy]
        | cons e es =>
          cases hS : S with
          | nil => rw [hS] at this; simp at this
          | cons _ _ => simp
      have hwo : writeEntries c pp (lvl + 1) o = o.map (fun e => (e.1, text e)) := writeEntries_map c pp (lvl + 1) o
      simp only [canon, writeVal, hc, hw, he, hwo, sortItems, hs, if_true, hsort1, hidem, hsort2, List.map_map,
        Function.comp_def]


/-! ## `sort_keys = true`: the keys of the value read back are pairwise different -/

theorem lexCmp_refl_bytes : ∀ x : List UInt8, cmpBytes x x = .eq
  | [] => rfl
  | a :: x => by
    have ih := lexCmp_refl_bytes x
    unfold cmpBytes at ih ⊢
    simp only [lexCmp, Nat.compare_eq_eq.2 rfl]
    exact ih

theorem numEq_imp_cmp (a b : Num) (h : Num.eq a b = true) : Num.cmp a b = .eq := by
  unfold Num.eq at h
  unfold Num.cmp
  generalize Num.undec a = x at h ⊢
  generalize Num.undec b = y at h ⊢
  cases x <;> cases y <;> simp only [Bool.and_eq_true, beq_iff_eq, Bool.false_eq_true] at h ⊢ <;>
    first
      | (subst h; exact Int.compare_eq_eq.2 rfl)
      | exact h.2
      | exact C08.F64.cmp_eq_symm h.2
      | exact h
      | skip

/-- on values without objects: `==` implies that `Ord` says `Equal` -/
theorem eqF_imp_cmpF : ∀ (n m : Nat) (a b : Val), objFree a = true → objFree b = true →
    Val.eqF n a b = true → Val.cmpF m a b = .eq := by
  intro n
  induction n with
  | zero => intro m a b _ _ h; simp [Val.eqF] at h
  | succ n ih =>
    intro m a b ha hb h
    cases m with
    | zero => rfl
    | succ m =>
      cases a with
      | obj o => rw [objFree_obj] at ha; cases ha
      | null => cases b <;> simp [Val.eqF] at h <;> simp [Val.cmpF]
      | bool x =>
        cases b <;> simp [Val.eqF] at h
        subst h
        simp [Val.cmpF]
      | num x =>
        cases b <;> simp [Val.eqF] at h
        simp only [Val.cmpF]
        exact numEq_imp_cmp _ _ h
      | tstr x =>
        cases b <;> simp [Val.eqF] at h <;> (subst h; simp only [Val.cmpF]; exact lexCmp_refl_bytes _)
      | bstr x =>
        cases b <;> simp [Val.eqF] at h <;> (subst h; simp only [Val.cmpF]; exact lexCmp_refl_bytes _)
      | arr x =>
        cases b with
        | arr y =>
          simp only [Val.eqF, Bool.and_eq_true, beq_iff_eq] at h
          simp only [Val.cmpF]
          have key : ∀ (x y : List Val), (∀ v ∈ x, objFree v = true) → (∀ v ∈ y, objFree v = true) →
              x.length = y.length → (List.zipWith (Val.eqF n) x y).all id = true → lexCmp (Val.cmpF m) x y = .eq := by
            intro x
            induction x with
            | nil => intro y _ _ hl _; cases y with
              | nil => rfl
              | cons _ _ => simp at hl
            | cons a x ihx =>
              intro y hx hy hl hz
              cases y with
              | nil => simp at hl
              | cons b y =>
                simp only [List.zipWith_cons_cons, List.all_cons, id, Bool.and_eq_true] at hz
                simp only [lexCmp, ih m a b (hx a (by simp)) (hy b (by simp)) hz.1]
                exact ihx y (fun v hv => hx v (by simp [hv])) (fun v hv => hy v (by simp [hv])) (by simpa using hl) hz.2
          exact key x y (objFree_arr ha) (objFree_arr hb) h.1 h.2
        | _ => simp [Val.eqF] at h

theorem sameKey_imp_cmp (a b : Val) (ha : objFree a = true) (hb : objFree b = true)
    (h : Obj.sameKey a b = true) : Val.cmp a b = .eq := by
  simp only [Obj.sameKey, Bool.and_eq_true] at h
  exact eqF_imp_cmpF _ _ a b ha hb h.2

theorem objFree_canon (c : Cfg) (pp : Pp) : ∀ (k : Nat) (v : Val), v.size ≤ k → objFree v = true →
    objFree (canon c pp v) = true := by
  intro k
  induction k with
  | zero => intro v h; have := Val.size_pos v; omega
  | succ k ih =>
    intro v hsz ho
    cases v with
    | arr a =>
      simp only [Val.size] at hsz
      rw [canon_arr]
      apply C08.allObjs_arr.2
      intro x hx
      simp only [List.mem_map] at hx
      obtain ⟨x0, hx0, rfl⟩ := hx
      have := Val.size_lt_of_mem hx0
      exact ih x0 (by omega) (objFree_arr ho x0 hx0)
    | obj o => rw [objFree_obj] at ho; cases ho
    | null => exact ho
    | bool _ => exact ho
    | num _ => simp [canon, objFree, C08.allObjs]
    | tstr _ => exact ho
    | bstr _ => exact ho

/-- keys that `Ord` separates are not found in place of each other, before and after the round trip -/
theorem sameKey_canon_of_str (c : Cfg) (hv : RyuVal c) (pp : Pp) (a b : Val) (ha : objFree a = true) (hb : objFree b = true)
    (h : Str Val.cmp a b) : Obj.sameKey (canon c pp a) (canon c pp b) = false := by
  cases hk : Obj.sameKey (canon c pp a) (canon c pp b) with
  | false => rfl
  | true =>
    have := sameKey_imp_cmp _ _ (objFree_canon c pp _ a (Nat.le_refl _) ha) (objFree_canon c pp _ b (Nat.le_refl _) hb) hk
    rw [cmp_canon_flat c hv pp a b ha hb] at this
    rcases h with ⟨h1, _⟩ | ⟨h1, _⟩ <;> rw [h1] at this <;> cases this

theorem insertBy_perm {α : Type} (c : α → α → Ordering) (x : α) : ∀ l : List α, (insertBy c x l).Perm (x :: l)
  | [] => List.Perm.refl _
  | y :: ys => by
    simp only [insertBy]
    split
    · exact List.Perm.refl _
    · exact ((insertBy_perm c x ys).cons y).trans (List.Perm.swap x y ys)

theorem sortBy_perm {α : Type} (c : α → α → Ordering) : ∀ l : List α, (sortBy c l).Perm l
  | [] => List.Perm.refl _
  | x :: xs => by
    rw [sortBy_cons]
    exact (insertBy_perm c x _).trans ((sortBy_perm c xs).cons x)

theorem str_symm {α : Type} (c : α → α → Ordering) {x y : α} (h : Str c x y) : Str c y x := by
  rcases h with ⟨a, b⟩ | ⟨a, b⟩
  · exact Or.inr ⟨b, a⟩
  · exact Or.inl ⟨b, a⟩

theorem freshFrom_of_pairwise (R : Val × Val → Val × Val → Prop) (hR : ∀ x y, R x y → Obj.sameKey y.1 x.1 = false) :
    ∀ (es acc : List (Val × Val)), (∀ a ∈ acc, ∀ e ∈ es, R a e) → es.Pairwise R → FreshFrom acc es
  | [], _, _, _ => trivial
  | (k, v) :: es, acc, h1, h2 => by
    have h2' := List.pairwise_cons.1 h2
    simp only [FreshFrom]
    refine ⟨fun e he => hR e (k, v) (h1 e he (k, v) (by simp)), ?_⟩
    apply freshFrom_of_pairwise R hR es (acc ++ [(k, v)]) _ h2'.2
    intro a ha e he
    simp only [List.mem_append, List.mem_singleton] at ha
    rcases ha with ha | rfl
    · exact h1 a ha e (by simp [he])
    · exact h2'.1 e he

/-- with key sorting: under `SortDom v` the keys of every object of the value read back are pairwise
different -/
theorem keysOk_canon_sorted (c : Cfg) (hv : RyuVal c) (pp : Pp) (hs : pp.sortKeys = true) : ∀ (k : Nat) (v : Val),
    v.size ≤ k → SortDom v → KeysOk (canon c pp v) := by
  intro k
  induction k with
  | zero => intro v h; have := Val.size_pos v; omega
  | succ k ih =>
    intro v hsz hd
    cases v with
    | arr a =>
      simp only [Val.size] at hsz
      rw [canon_arr]
      simp only [KeysOk]
      exact keysOkList_map _ a (fun x hx => ih x (by have := Val.size_lt_of_mem hx; omega) (sortDom_arr hd x hx))
    | obj o =>
      simp only [Val.size] at hsz
      obtain ⟨⟨hflat, hstrict⟩, hmem⟩ := sortDom_obj hd
      have hfl : ∀ e ∈ o, objFree e.1 = true := by simpa [flatKeys] using hflat
      have hc : (sortTagged pp (canonEntries c pp o)).map (·.2) = (sortBy kcmp o).map (canonPair c pp) := by
        rw [canonEntries_map]
        simp only [sortTagged, hs, if_true]
        rw [sortBy_map (fun e : Val × Val => (e.1, (canon c pp e.1, canon c pp e.2))) kcmp tagCmp (fun _ _ => rfl)]
        simp [canonPair, Function.comp_def]
      simp only [canon, hc, KeysOk]
      have hSmem : ∀ e ∈ sortBy kcmp o, e ∈ o := fun e he => mem_sortBy _ _ _ he
      refine ⟨?_, ?_⟩
      · -- pairwise strictness is symmetric, hence survives the permutation
        have hp : (sortBy kcmp o).Pairwise (Str kcmp) :=
          ((sortBy_perm kcmp o).pairwise_iff (fun h => str_symm kcmp h)).2 (strictKeys_pairwise o hstrict)
        let R : Val × Val → Val × Val → Prop := fun x y => Obj.sameKey y.1 x.1 = false
        have hp' : ((sortBy kcmp o).map (canonPair c pp)).Pairwise R := by
          rw [List.pairwise_map]
          refine List.Pairwise.imp_of_mem (fun {x y} hx hy hxy => ?_) hp
          exact sameKey_canon_of_str c hv pp y.1 x.1 (hfl y (hSmem y hy)) (hfl x (hSmem x hx)) (str_symm kcmp hxy)
        exact freshFrom_of_pairwise R (fun _ _ h => h) _ [] (by intro a ha; cases ha) hp'
      · apply keysOkEntries_of_mem
        intro e he
        simp only [List.mem_map] at he
        obtain ⟨e0, he0, rfl⟩ := he
        have hm := hSmem e0 he0
        have hsz' := Val.size_entry_of_mem (k := e0.1) (v := e0.2) hm
        exact ⟨ih e0.1 (by omega) (hmem e0 hm).1, ih e0.2 (by omega) (hmem e0 hm).2⟩
    | null => simp [canon, KeysOk]
    | bool _ => simp [canon, KeysOk]
    | num _ => simp [canon, KeysOk]
    | tstr _ => simp [canon, KeysOk]
    | bstr _ => simp [canon, KeysOk]


end Jaq.C07
