/- helper lemmas and proofs for Props/C05.lean -/
import JaqVerif.C05.Kernels

namespace Jaq.C05.L
open Jaq.C05

theorem wrap_le_of_neg (p : PosUsize) (len i : Nat) (hp : p.1 = false) (h : wrap p len = some i) : i ≤ len := by
  unfold wrap at h
  simp [hp] at h
  omega

theorem absIndex_lt (p : PosUsize) (len i : Nat) (h : absIndex p len = some i) : i < len := by
  unfold absIndex at h
  split at h
  · split at h
    · simp at h; omega
    · simp at h
  · simp at h

theorem indexAfterAbs_noPanic (p : PosUsize) (len : Nat) : indexAfterAbs p len ≠ .error .panic := by
  unfold indexAfterAbs
  split
  · simp
  · rename_i i hi
    have := absIndex_lt p len i hi
    simp [this]

theorem absBound_le (p : Option PosUsize) (len d : Nat) (hd : d ≤ len) : absBound p len d ≤ len := by
  unfold absBound
  split
  · exact hd
  · exact Nat.min_le_right _ _

theorem skipTake_in_bounds (lo hi : Option PosUsize) (len : Nat) :
    (skipTake lo hi len).1 ≤ len ∧ (skipTake lo hi len).1 + (skipTake lo hi len).2 ≤ len := by
  have h1 := absBound_le lo len 0 (Nat.zero_le _)
  have h2 := absBound_le hi len len (Nat.le_refl _)
  simp only [skipTake]
  omega

theorem rangeOfSkipTake_noPanic (lo hi : Option PosUsize) (len : Nat) (hlen : len ≤ U64MAX) :
    rangeOfSkipTake len (skipTake lo hi len) ≠ .error .panic := by
  obtain ⟨h1, h2⟩ := skipTake_in_bounds lo hi len
  generalize skipTake lo hi len = st at h1 h2
  obtain ⟨a, b⟩ := st
  simp only at h1 h2
  have e1 : uadd a b = .ok (a + b) := by
    unfold uadd; rw [if_pos]; omega
  have e2 : slice len a (a + b) = .ok () := by
    unfold slice; rw [if_pos]; omega
  simp [rangeOfSkipTake, e1, e2, bind, Except.bind, pure, Except.pure]

theorem asPosUsize_negative_ge_one (n : Num) (m : Nat) (h : asPosUsize n = some (false, m)) : 1 ≤ m := by
  cases n with
  | int i =>
    simp [asPosUsize] at h
    omega
  | big i =>
    simp [asPosUsize, U64MAX] at h
    omega
  | float f => simp [asPosUsize] at h
  | dec s => simp [asPosUsize] at h

theorem asPosUsize_big_fits (i : Int) (p : PosUsize) (h : asPosUsize (.big i) = some p) : p.2 ≤ U64MAX := by
  simp [asPosUsize] at h
  subst h
  exact Nat.min_le_right _ _

theorem byteIndex_ok (starts : List Nat) (len : Nat) (p : PosUsize) (h : p.1 = false → 1 ≤ p.2) :
    ∃ r, byteIndex starts len p = .ok r ∧ ((∀ x ∈ starts, x ≤ len) → r ≤ len) := by
  cases hp : p.1 with
  | true =>
    refine ⟨(starts[p.2]?).getD len, by simp [byteIndex, hp], ?_⟩
    intro hs
    cases hg : starts[p.2]? with
    | none => simp
    | some v =>
      simp
      exact hs v (List.mem_of_getElem? hg)
  | false =>
    have h1 := h hp
    have e : usub p.2 1 = .ok (p.2 - 1) := by
      unfold usub; rw [if_pos h1]
    refine ⟨(starts.reverse[p.2 - 1]?).getD 0, by simp [byteIndex, hp, e], ?_⟩
    intro hs
    cases hg : starts.reverse[p.2 - 1]? with
    | none => simp
    | some v =>
      simp
      have hm := List.mem_of_getElem? hg
      exact hs v (List.mem_reverse.mp hm)

theorem byteIndex_noPanic (starts : List Nat) (len : Nat) (p : PosUsize) (h : p.1 = false → 1 ≤ p.2) :
    byteIndex starts len p ≠ .error .panic := by
  obtain ⟨r, hr, _⟩ := byteIndex_ok starts len p h
  rw [hr]; simp

theorem boundIndex_ok (starts : List Nat) (len d : Nat) (o : Option PosUsize) (hd : d ≤ len)
    (hs : ∀ x ∈ starts, x ≤ len) (ho : ∀ p, o = some p → p.1 = false → 1 ≤ p.2) :
    ∃ r, boundIndex starts len d o = .ok r ∧ r ≤ len := by
  cases o with
  | none => exact ⟨d, rfl, hd⟩
  | some p =>
    obtain ⟨r, hr, hb⟩ := byteIndex_ok starts len p (ho p rfl)
    exact ⟨r, by simp [boundIndex, hr], hb hs⟩

theorem skipTakeChars_in_bounds (starts : List Nat) (len : Nat) (lo hi : Option PosUsize)
    (hs : ∀ x ∈ starts, x ≤ len)
    (hlo : ∀ p, lo = some p → p.1 = false → 1 ≤ p.2) (hhi : ∀ p, hi = some p → p.1 = false → 1 ≤ p.2) :
    ∃ s t, skipTakeChars starts len lo hi = .ok (s, t) ∧ s ≤ len ∧ s + t ≤ len := by
  obtain ⟨f, ef, hfl⟩ := boundIndex_ok starts len 0 lo (Nat.zero_le _) hs hlo
  obtain ⟨u, eu, hul⟩ := boundIndex_ok starts len len hi (Nat.le_refl _) hs hhi
  refine ⟨f, u - f, ?_, hfl, by omega⟩
  simp [skipTakeChars, ef, eu]

theorem bytesSplice_ok (len skip take rlen : Nat) (h : skip + take ≤ len) (hm : len + rlen ≤ U64MAX) :
    bytesSplice len skip take rlen = .ok (len - take + rlen) := by
  have e1 : usub len take = .ok (len - take) := by unfold usub; rw [if_pos]; omega
  have e2 : uadd (len - take) rlen = .ok (len - take + rlen) := by unfold uadd; rw [if_pos]; omega
  have e3 : uadd skip take = .ok (skip + take) := by unfold uadd; rw [if_pos]; omega
  have e4 : uadd skip rlen = .ok (skip + rlen) := by unfold uadd; rw [if_pos]; omega
  unfold bytesSplice
  simp only [e1, e2, e3, e4, bind, Except.bind, pure, Except.pure]
  by_cases hg : rlen > take
  · have s1 : slice (len - take + rlen) (skip + take) len = .ok () := by unfold slice; rw [if_pos]; omega
    have s2 : slice (len - take + rlen) skip (skip + rlen) = .ok () := by unfold slice; rw [if_pos]; omega
    simp only [hg, if_true, s1, s2]
    rw [if_neg (by omega)]
  · have s1 : slice len (skip + take) len = .ok () := by unfold slice; rw [if_pos]; omega
    have s2 : slice len skip (skip + rlen) = .ok () := by unfold slice; rw [if_pos]; omega
    simp only [hg, if_false, s1, s2]
    rw [if_neg (by omega)]

theorem spliceSpec_length (b r : List UInt8) (skip take : Nat) (h : skip + take ≤ b.length) :
    (spliceSpec b skip take r).length = b.length - take + r.length := by
  simp [spliceSpec, List.length_append, List.length_take, List.length_drop]
  omega

theorem implodeStepAsFound_noPanic_partial (i : Int) (h : i ≠ IMIN) : implodeStepAsFound i ≠ .error .panic := by
  unfold implodeStepAsFound ineg
  rw [if_neg h]
  simp only [bind, Except.bind, pure, Except.pure]
  split
  · simp
  · split <;> simp

theorem implodeStep_noPanic (i : Int) : implodeStep i ≠ .error .panic := by
  unfold implodeStep
  simp only [pure, Except.pure]
  split
  · simp
  · split <;> simp

theorem implodeStep_agrees (i : Int) (h : i ≠ IMIN) : implodeStep i = implodeStepAsFound i := by
  unfold implodeStep implodeStepAsFound ineg
  rw [if_neg h]
  simp only [bind, Except.bind, pure, Except.pure, ne_eq, h, not_false_eq_true, true_and]

theorem explodeItem_noPanic (x : Piece) (hb : ∀ b, x = .byte b → b ≤ 255) (hc : ∀ c, x = .char c → c ≤ 0x10FFFF) :
    explodeItem x ≠ .error .panic := by
  cases x with
  | byte b =>
    have := hb b rfl
    have e : ineg ((b : Int)) = .ok (-((b : Int))) := by
      unfold ineg IMIN; rw [if_neg (by omega)]
    simp [explodeItem, e]
  | char c =>
    have := hc c rfl
    have e : (c : Int) ≤ IMAX := by unfold IMAX; omega
    simp [explodeItem, e]
  | err => simp [explodeItem]

theorem implode_explode_asFound (x : Piece) (i : Int)
    (hx : (∃ b, x = .byte b ∧ 1 ≤ b ∧ b ≤ 255) ∨ (∃ c, x = .char c ∧ 1 ≤ c ∧ isScalar ((c : Int)) = true))
    (h : explodeItem x = .ok i) : implodeStepAsFound i = .ok x := by
  rcases hx with ⟨b, rfl, hb1, hb2⟩ | ⟨c, rfl, hc1, hc⟩
  · have e : ineg ((b : Int)) = .ok (-((b : Int))) := by
      unfold ineg IMIN; rw [if_neg (by omega)]
    simp only [explodeItem, e] at h
    injection h with h
    subst h
    have e2 : ineg (-((b : Int))) = .ok ((b : Int)) := by
      unfold ineg IMIN; rw [if_neg (by omega)]; simp
    unfold implodeStepAsFound
    simp only [e2, bind, Except.bind, pure, Except.pure]
    rw [if_pos (by omega)]
    simp
  · have hsc := hc
    unfold isScalar at hc
    simp only [Bool.or_eq_true, Bool.and_eq_true, decide_eq_true_eq] at hc
    have e : (c : Int) ≤ IMAX := by unfold IMAX; omega
    simp only [explodeItem, e, if_true] at h
    injection h with h
    subst h
    have e2 : ineg ((c : Int)) = .ok (-((c : Int))) := by
      unfold ineg IMIN; rw [if_neg (by omega)]
    unfold implodeStepAsFound
    simp only [e2, bind, Except.bind, pure, Except.pure]
    rw [if_neg (by omega)]
    rw [if_pos hsc]
    simp

theorem implode_explode (x : Piece) (i : Int)
    (hx : (∃ b, x = .byte b ∧ 1 ≤ b ∧ b ≤ 255) ∨ (∃ c, x = .char c ∧ 1 ≤ c ∧ isScalar ((c : Int)) = true))
    (h : explodeItem x = .ok i) : implodeStep i = .ok x := by
  have hne : i ≠ IMIN := by
    rcases hx with ⟨b, rfl, hb1, hb2⟩ | ⟨c, rfl, hc1, hc⟩
    · have e : ineg ((b : Int)) = .ok (-((b : Int))) := by
        unfold ineg IMIN; rw [if_neg (by omega)]
      simp only [explodeItem, e] at h
      injection h with h
      subst h
      unfold IMIN; omega
    · simp only [explodeItem] at h
      split at h
      · injection h with h
        subst h
        unfold IMIN; omega
      · cases h
  rw [implodeStep_agrees i hne]
  exact implode_explode_asFound x i hx h

theorem sat_range (i : Int) : IMIN ≤ bigintToIntSaturated i ∧ bigintToIntSaturated i ≤ IMAX := by
  unfold bigintToIntSaturated IMIN IMAX
  split
  · omega
  · split <;> omega

theorem cborNegative_ok (neg : Nat) (h : neg ≤ U64MAX) : cborNegative neg = .ok (-((neg : Int)) - 1) := by
  unfold cborNegative U64MAX at *
  simp only
  rw [if_pos]
  omega

/-! lexer -/

theorem splitLine_suffix : ∀ (s b a : List Char), splitLine s = some (b, a) → a <:+ s
  | [], b, a, h => by simp [splitLine] at h
  | c :: cs, b, a, h => by
    unfold splitLine at h
    split at h
    · injection h with h
      injection h with _ h2
      subst h2
      exact List.suffix_cons c _
    · split at h
      · rename_i b' a' hs
        injection h with h
        injection h with _ h2
        subst h2
        exact List.IsSuffix.trans (splitLine_suffix cs b' a' hs) (List.suffix_cons c cs)
      · simp at h

theorem commentLines_suffix (fixed : Bool) : ∀ (fuel : Nat) (s t : List Char),
    commentLines fixed fuel s = .suffix t → t <:+ s
  | 0, s, t, h => by
    simp [commentLines] at h; subst h; exact List.suffix_refl _
  | fuel + 1, s, t, h => by
    unfold commentLines at h
    split at h
    · rename_i before after hs
      have hsuf := splitLine_suffix s before after hs
      split at h
      · exact List.IsSuffix.trans (commentLines_suffix fixed fuel after t h) hsuf
      · injection h with h; subst h; exact hsuf
    · split at h
      · injection h with h; subst h; exact List.nil_suffix
      · cases h

theorem space_suffix (fixed : Bool) : ∀ (fuel : Nat) (s t : List Char), space fixed fuel s = .suffix t → t <:+ s
  | 0, s, t, h => by
    simp [space] at h; subst h; exact List.suffix_refl _
  | fuel + 1, s, t, h => by
    unfold space at h
    have hdw : s.dropWhile rustWs <:+ s := List.dropWhile_suffix _
    split at h
    · rename_i rest heq
      split at h
      · rename_i r hr
        have h1 := commentLines_suffix fixed _ rest r hr
        have h2 := space_suffix fixed fuel r t h
        have h3 : rest <:+ s.dropWhile rustWs := by rw [heq]; exact List.suffix_cons _ _
        exact (h2.trans h1).trans (h3.trans hdw)
      · cases h
    · injection h with h; subst h; exact hdw

theorem spaceAll_suffix (fixed : Bool) (s t : List Char) (h : spaceAll fixed s = .suffix t) : t <:+ s :=
  space_suffix fixed _ s t h

theorem commentLines_fixed (fuel : Nat) (s : List Char) : ∃ t, commentLines true fuel s = .suffix t := by
  induction fuel generalizing s with
  | zero => exact ⟨s, rfl⟩
  | succ n ih =>
    unfold commentLines
    split
    · split
      · exact ih _
      · exact ⟨_, rfl⟩
    · exact ⟨[], rfl⟩

theorem space_fixed (fuel : Nat) (s : List Char) : ∃ t, space true fuel s = .suffix t := by
  induction fuel generalizing s with
  | zero => exact ⟨s, rfl⟩
  | succ n ih =>
    unfold space
    split
    · rename_i rest _
      obtain ⟨r, hr⟩ := commentLines_fixed (rest.length + 1) rest
      rw [hr]
      exact ih r
    · exact ⟨_, rfl⟩

theorem consumedLen_noPanic (s t : List Char) (h : t <:+ s) : consumedLen s (.suffix t) ≠ .error .panic := by
  have hl := h.length_le
  have e : usub s.length t.length = .ok (s.length - t.length) := by unfold usub; rw [if_pos hl]
  have e2 : slice s.length 0 (s.length - t.length) = .ok () := by unfold slice; rw [if_pos]; omega
  simp [consumedLen, Rem.chars, e, e2, bind, Except.bind, pure, Except.pure]

theorem span_in_bounds (pre s t : List Char) (h : t <:+ s) :
    ∃ a b, spanOf (pre ++ s) (.suffix t) = .ok (a, b) ∧ a ≤ b ∧ b ≤ (pre ++ s).length := by
  have hl := h.length_le
  generalize hw : pre ++ s = w
  have hl2 : t.length ≤ w.length := by rw [← hw]; simp; omega
  have e : usub w.length t.length = .ok (w.length - t.length) := by unfold usub; rw [if_pos hl2]
  refine ⟨w.length - t.length, w.length - t.length + t.length, ?_, by omega, by omega⟩
  simp only [spanOf, e, bind, Except.bind, pure, Except.pure]

theorem span_in_bounds_fixed (pre s : List Char) :
    ∃ a b, spanOf (pre ++ s) (spaceAll true s) = .ok (a, b) ∧ a ≤ b ∧ b ≤ (pre ++ s).length := by
  obtain ⟨t, ht⟩ := space_fixed (s.length + 1) s
  have hs := spaceAll_suffix true s t ht
  unfold spaceAll
  rw [ht]
  exact span_in_bounds pre s t hs

/-! compiler scopes -/

variable {K : Type} [DecidableEq K]

theorem pop_push (s : Scopes K) (k : K) : (s.push k).pop k = .ok s := by
  obtain ⟨bound, total⟩ := s
  unfold Scopes.push Scopes.pop
  simp only [if_true]
  rw [if_pos (by simp)]
  have hb : (fun x => if x = k then bound k else if x = k then (total + 1) :: bound x else bound x) = bound := by
    funext x
    by_cases hx : x = k <;> simp [hx]
  simp only [hb, Nat.add_sub_cancel]

theorem popAllRev_pushAll (s : Scopes K) (ks : List K) : (s.pushAll ks).popAllRev ks = .ok s := by
  induction ks generalizing s with
  | nil => rfl
  | cons k ks ih =>
    simp only [Scopes.pushAll, Scopes.popAllRev]
    rw [ih (s.push k)]
    simp only [bind, Except.bind]
    exact pop_push s k

theorem walk_balanced (t : Tm K) (s : Scopes K) : walk t s = .ok s := by
  induction t generalizing s with
  | leaf => rfl
  | bind l vars r ihl ihr =>
    simp only [walk, ihl, ihr, bind, Except.bind]
    exact popAllRev_pushAll s vars
  | label x t ih =>
    simp only [walk, ih, bind, Except.bind]
    exact pop_push s x
  | defn args body rest ihb ihr =>
    simp only [walk, ihb, bind, Except.bind, popAllRev_pushAll, ihr]
  | node l r ihl ihr =>
    simp only [walk, ihl, ihr, bind, Except.bind]

end Jaq.C05.L
