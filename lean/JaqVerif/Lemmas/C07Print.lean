import JaqVerif.C07.Canon
import JaqVerif.Lemmas.C07Parse
namespace Jaq.C07

/-! ## objects without duplicate keys are what `insert` builds from their entries -/

theorem extend_fresh : ∀ (es acc : List (Val × Val)), FreshFrom acc es → Obj.extend acc es = acc ++ es := by
  intro es
  induction es with
  | nil => intro acc _; simp [Obj.extend]
  | cons e es ih =>
    intro acc h
    obtain ⟨k, v⟩ := e
    simp only [FreshFrom] at h
    obtain ⟨h1, h2⟩ := h
    have hhas : Obj.has acc k = false := by
      simp only [Obj.has, Obj.get]
      have : acc.find? (fun x => Obj.sameKey k x.1) = none := by
        rw [List.find?_eq_none]
        intro x hx
        simp [h1 x hx]
      simp [this]
    have : Obj.insert acc k v = acc ++ [(k, v)] := by simp [Obj.insert, hhas]
    simp only [Obj.extend, List.foldl_cons] at ih ⊢
    rw [this, ih _ h2]
    simp

theorem ofList_distinct (es : List (Val × Val)) (h : DistinctKeysR es) : Obj.ofList es = es := by
  simpa [Obj.ofList] using extend_fresh es [] h

theorem resolve_keysOk : ∀ k, (∀ v : Val, v.size ≤ k → KeysOk v → resolve v = v) ∧
    (∀ vs : List Val, Val.sizeList vs ≤ k → KeysOkList vs → resolveList vs = vs) ∧
    (∀ es : List (Val × Val), Val.sizeEntries es ≤ k → KeysOkEntries es → resolveEntries es = es) := by
  intro k
  induction k with
  | zero =>
    refine ⟨?_, ?_, ?_⟩
    · intro v h; have := Val.size_pos v; omega
    · intro vs h _
      cases vs with
      | nil => rfl
      | cons v vs => simp only [Val.sizeList] at h; have := Val.size_pos v; omega
    · intro es h _
      cases es with
      | nil => rfl
      | cons e es => obtain ⟨a, b⟩ := e; simp only [Val.sizeEntries] at h; have := Val.size_pos a; omega
  | succ k ih =>
    obtain ⟨ihv, ihl, ihe⟩ := ih
    have hv : ∀ v : Val, v.size ≤ k + 1 → KeysOk v → resolve v = v := by
      intro v h hk
      cases v with
      | arr a =>
        simp only [Val.size] at h
        simp only [KeysOk] at hk
        simp only [resolve, ihl a (by omega) hk]
      | obj o =>
        simp only [Val.size] at h
        simp only [KeysOk] at hk
        simp only [resolve, ihe o (by omega) hk.2, ofList_distinct o hk.1]
      | _ => rfl
    refine ⟨hv, ?_, ?_⟩
    · intro vs h hk
      cases vs with
      | nil => rfl
      | cons v vs =>
        simp only [Val.sizeList] at h
        simp only [KeysOkList] at hk
        have := Val.size_pos v
        simp only [resolveList, hv v (by omega) hk.1, ihl vs (by omega) hk.2]
    · intro es h hk
      cases es with
      | nil => rfl
      | cons e es =>
        obtain ⟨a, b⟩ := e
        simp only [Val.sizeEntries] at h
        simp only [KeysOkEntries] at hk
        have := Val.size_pos a
        simp only [resolveEntries, hv a (by omega) hk.1, hv b (by omega) hk.2.1, ihe es (by omega) hk.2.2]

theorem resolve_of_keysOk (v : Val) (h : KeysOk v) : resolve v = v :=
  (resolve_keysOk v.size).1 v (Nat.le_refl _) h

/-! ## sorting commutes with relabelling that keeps the key -/

theorem insertBy_map {α β : Type} (f : α → β) (ca : α → α → Ordering) (cb : β → β → Ordering)
    (h : ∀ x y, cb (f x) (f y) = ca x y) (x : α) (l : List α) :
    insertBy cb (f x) (l.map f) = (insertBy ca x l).map f := by
  induction l with
  | nil => rfl
  | cons y ys ih =>
    simp only [List.map_cons, insertBy, h]
    split
    · rfl
    · simp [ih]

theorem sortBy_map {α β : Type} (f : α → β) (ca : α → α → Ordering) (cb : β → β → Ordering)
    (h : ∀ x y, cb (f x) (f y) = ca x y) (l : List α) :
    sortBy cb (l.map f) = (sortBy ca l).map f := by
  induction l with
  | nil => rfl
  | cons x xs ih =>
    simp only [sortBy, List.map_cons, List.foldr_cons] at ih ⊢
    rw [ih, insertBy_map f ca cb h]

theorem mem_insertBy {α : Type} (c : α → α → Ordering) (x y : α) (l : List α) (h : y ∈ insertBy c x l) : y = x ∨ y ∈ l := by
  induction l with
  | nil => simp [insertBy] at h; exact Or.inl h
  | cons z zs ih =>
    simp only [insertBy] at h
    split at h
    · simp at h; rcases h with h | h | h
      · exact Or.inl h
      · exact Or.inr (by simp [h])
      · exact Or.inr (by simp [h])
    · simp at h; rcases h with h | h
      · exact Or.inr (by simp [h])
      · rcases ih h with h | h
        · exact Or.inl h
        · exact Or.inr (by simp [h])

theorem mem_sortBy {α : Type} (c : α → α → Ordering) (y : α) (l : List α) (h : y ∈ sortBy c l) : y ∈ l := by
  induction l with
  | nil => simp [sortBy] at h
  | cons x xs ih =>
    simp only [sortBy, List.foldr_cons] at h ih
    rcases mem_insertBy c x y _ h with h | h
    · simp [h]
    · simp [ih h]

theorem length_insertBy {α : Type} (c : α → α → Ordering) (x : α) (l : List α) : (insertBy c x l).length = l.length + 1 := by
  induction l with
  | nil => rfl
  | cons z zs ih => simp only [insertBy]; split <;> simp [ih]

theorem length_sortBy {α : Type} (c : α → α → Ordering) (l : List α) : (sortBy c l).length = l.length := by
  induction l with
  | nil => rfl
  | cons x xs ih => simp only [sortBy, List.foldr_cons] at ih ⊢; rw [length_insertBy, ih]; rfl

/-! ## the pieces of `write_seq!` are gaps -/

theorem isGap_repeat (s : Bytes) (h : ∀ b ∈ s, isWs b = true) (k : Nat) : IsGap (repeatBytes s k) := by
  induction k with
  | zero => exact isGap_nil
  | succ k ih => exact isGap_append (isGap_ws s h) ih

theorem isGap_ind (pp : Pp) (h : pp.WsIndent) (k : Nat) : IsGap (pp.ind k) := by
  unfold Pp.ind
  cases hi : pp.indent with
  | none => exact isGap_nil
  | some s => exact isGap_repeat s (h s hi) k

theorem isGap_nl (pp : Pp) : IsGap pp.nl := by
  unfold Pp.nl
  split
  · exact isGap_ws _ (by decide)
  · exact isGap_nil

theorem isGap_blank (b : Bool) : IsGap (if b then [0x20] else []) := by
  cases b
  · exact isGap_nil
  · exact isGap_ws _ (by decide)

theorem spellsList_cons (v : Val) (vs : List Val) (s : Bytes) :
    SpellsList (v :: vs) s = ∃ t w2, Spells v t ∧ IsGap w2 ∧
        ((vs = [] ∧ s = t ++ (w2 ++ [0x5d])) ∨
         (vs ≠ [] ∧ ∃ w1 body, IsGap w1 ∧ SpellsList vs body ∧ s = t ++ (w2 ++ 0x2c :: (w1 ++ body)))) := by
  rw [SpellsList]

theorem spellsEntries_cons (k v : Val) (es : List (Val × Val)) (s : Bytes) :
    SpellsEntries ((k, v) :: es) s = ∃ tk w1 w2 tv w3, Spells k tk ∧ IsGap w1 ∧ IsGap w2 ∧ Spells v tv ∧ IsGap w3 ∧
        ((es = [] ∧ s = tk ++ (w1 ++ 0x3a :: (w2 ++ (tv ++ (w3 ++ [0x7d]))))) ∨
         (es ≠ [] ∧ ∃ w4 body, IsGap w4 ∧ SpellsEntries es body ∧
            s = tk ++ (w1 ++ 0x3a :: (w2 ++ (tv ++ (w3 ++ 0x2c :: (w4 ++ body))))))) := by
  rw [SpellsEntries]

/-- array items: the text of `write_seq!` from the first item on is an accepted element list -/
theorem seq_list (pp : Pp) (hpp : pp.WsIndent) (lvl : Nat) : ∀ xs : List (Val × Bytes), xs ≠ [] →
    (∀ p ∈ xs, Spells p.1 p.2) →
    ∃ body, SpellsList (xs.map (·.1)) body ∧
      seqItems pp lvl (xs.map (·.2)) ++ (pp.ind lvl ++ [0x5d]) = pp.ind (lvl + 1) ++ body := by
  intro xs
  induction xs with
  | nil => intro h; exact absurd rfl h
  | cons x xs ih =>
    intro _ hall
    cases xs with
    | nil =>
      refine ⟨x.2 ++ ((pp.nl ++ pp.ind lvl) ++ [0x5d]), ?_, ?_⟩
      · show SpellsList (x.1 :: []) _
        rw [spellsList_cons]
        exact ⟨x.2, pp.nl ++ pp.ind lvl, hall x (by simp), isGap_append (isGap_nl pp) (isGap_ind pp hpp lvl), Or.inl ⟨rfl, rfl⟩⟩
      · simp [seqItems]
    | cons y ys =>
      obtain ⟨body, hb, he⟩ := ih (by simp) (fun p hp => hall p (by simp [hp]))
      let w1 : Bytes := (if pp.sepSpace && pp.indent.isNone then [0x20] else []) ++ (pp.nl ++ pp.ind (lvl + 1))
      refine ⟨x.2 ++ ([] ++ 0x2c :: (w1 ++ body)), ?_, ?_⟩
      · show SpellsList (x.1 :: (y :: ys).map (·.1)) _
        rw [spellsList_cons]
        refine ⟨x.2, [], hall x (by simp), isGap_nil, Or.inr ⟨by simp, w1, body, ?_, hb, rfl⟩⟩
        exact isGap_append (isGap_blank _) (isGap_append (isGap_nl pp) (isGap_ind pp hpp _))
      · simp only [List.map_cons, seqItems, List.append_assoc] at he ⊢
        rw [he]
        simp [w1, Pp.comma]

/-- object items likewise; an item is key text, `:`, optional blank, value text -/
theorem seq_entries (pp : Pp) (hpp : pp.WsIndent) (lvl : Nat) : ∀ ys : List ((Val × Val) × (Bytes × Bytes)), ys ≠ [] →
    (∀ p ∈ ys, Spells p.1.1 p.2.1 ∧ Spells p.1.2 p.2.2) →
    ∃ body, SpellsEntries (ys.map (·.1)) body ∧
      seqItems pp lvl (ys.map fun p => p.2.1 ++ pp.colon ++ p.2.2) ++ (pp.ind lvl ++ [0x7d]) = pp.ind (lvl + 1) ++ body := by
  intro ys
  induction ys with
  | nil => intro h; exact absurd rfl h
  | cons y ys ih =>
    intro _ hall
    obtain ⟨⟨k, v⟩, ⟨tk, tv⟩⟩ := y
    have hy := hall ((k, v), (tk, tv)) (by simp)
    let w2 : Bytes := if pp.sepSpace then [0x20] else []
    cases ys with
    | nil =>
      refine ⟨tk ++ ([] ++ 0x3a :: (w2 ++ (tv ++ ((pp.nl ++ pp.ind lvl) ++ [0x7d])))), ?_, ?_⟩
      · show SpellsEntries ((k, v) :: []) _
        rw [spellsEntries_cons]
        exact ⟨tk, [], w2, tv, pp.nl ++ pp.ind lvl, hy.1, isGap_nil, isGap_blank _, hy.2,
          isGap_append (isGap_nl pp) (isGap_ind pp hpp lvl), Or.inl ⟨rfl, rfl⟩⟩
      · simp [seqItems, Pp.colon, w2]
    | cons z zs =>
      obtain ⟨body, hb, he⟩ := ih (by simp) (fun p hp => hall p (by simp [hp]))
      let w4 : Bytes := (if pp.sepSpace && pp.indent.isNone then [0x20] else []) ++ (pp.nl ++ pp.ind (lvl + 1))
      refine ⟨tk ++ ([] ++ 0x3a :: (w2 ++ (tv ++ ([] ++ 0x2c :: (w4 ++ body))))), ?_, ?_⟩
      · show SpellsEntries ((k, v) :: (z :: zs).map (·.1)) _
        rw [spellsEntries_cons]
        refine ⟨tk, [], w2, tv, [], hy.1, isGap_nil, isGap_blank _, hy.2, isGap_nil, Or.inr ⟨by simp, w4, body, ?_, hb, rfl⟩⟩
        exact isGap_append (isGap_blank _) (isGap_append (isGap_nl pp) (isGap_ind pp hpp _))
      · simp only [List.map_cons, seqItems, List.append_assoc] at he ⊢
        rw [he]
        simp [w4, w2, Pp.comma, Pp.colon]

/-! ## what the writer prints is an accepted text of the canonical value -/

theorem writeList_map (c : Cfg) (pp : Pp) (l : Nat) (a : List Val) : writeList c pp l a = a.map (writeVal c pp l) := by
  induction a with
  | nil => rfl
  | cons v vs ih => simp [writeList, ih]

theorem canonList_map (c : Cfg) (pp : Pp) (a : List Val) : canonList c pp a = a.map (canon c pp) := by
  induction a with
  | nil => rfl
  | cons v vs ih => simp [canonList, ih]

theorem writeEntries_map (c : Cfg) (pp : Pp) (l : Nat) (o : List (Val × Val)) :
    writeEntries c pp l o = o.map (fun e => (e.1, writeVal c pp l e.1 ++ pp.colon ++ writeVal c pp l e.2)) := by
  induction o with
  | nil => rfl
  | cons e es ih => obtain ⟨k, v⟩ := e; simp [writeEntries, ih]

theorem canonEntries_map (c : Cfg) (pp : Pp) (o : List (Val × Val)) :
    canonEntries c pp o = o.map (fun e => (e.1, (canon c pp e.1, canon c pp e.2))) := by
  induction o with
  | nil => rfl
  | cons e es ih => obtain ⟨k, v⟩ := e; simp [canonEntries, ih]

theorem spells_num (c : Cfg) (hc : RyuLit c) (n : Num) (hg : GoodVal (.num n)) :
    Spells (.num (canonNum c n)) (writeNum c n) := by
  cases n with
  | int i => simp only [Spells, canonNum, writeNum]; exact Or.inl (numText_int i)
  | big i => simp only [Spells, canonNum, writeNum]; exact Or.inl (numText_int i)
  | float f =>
    simp only [canonNum, writeNum]
    by_cases h1 : F64.isNaN f = true
    · simp only [h1, if_true]; rw [Spells]; exact Or.inr (Or.inl ⟨rfl, rfl⟩)
    · by_cases h2 : (f == F64.posInf) = true
      · simp only [h1, h2, if_true]; rw [Spells]; exact Or.inr (Or.inr ⟨rfl, rfl⟩)
      · by_cases h3 : (f == F64.negInf) = true
        · simp only [h1, h2, h3, if_true, Spells]; exact Or.inl numText_negInf
        · simp only [h1, h2, h3, Spells]
          have hv : viaRyu f = true := by simp [viaRyu, h1, h2, h3]
          obtain ⟨sf, a, b, d⟩ := hc f hv
          exact Or.inl (numText_dec _ ⟨sf, ⟨a, b⟩, d⟩)
  | dec s =>
    simp only [GoodVal] at hg
    obtain ⟨t, sf, rfl, a, b, d⟩ := hg
    simp only [canonNum, writeNum, decBytes_stringOfBytes, Spells]
    exact Or.inl (numText_dec _ ⟨sf, ⟨a, b⟩, d⟩)

theorem goodList_mem (a : List Val) (h : GoodList a) (v : Val) (hv : v ∈ a) : GoodVal v := by
  induction a with
  | nil => cases hv
  | cons x xs ih =>
    simp only [GoodList] at h
    cases hv with
    | head => exact h.1
    | tail _ hv => exact ih h.2 hv

theorem goodEntries_mem (o : List (Val × Val)) (h : GoodEntries o) (k v : Val) (hv : (k, v) ∈ o) : GoodVal k ∧ GoodVal v := by
  induction o with
  | nil => cases hv
  | cons x xs ih =>
    obtain ⟨a, b⟩ := x
    simp only [GoodEntries] at h
    cases hv with
    | head => exact ⟨h.1, h.2.1⟩
    | tail _ hv => exact ih h.2.2 hv

/-- rendered entry: original key, canonical entry, key text and value text -/
abbrev Rendered := Val × ((Val × Val) × (Bytes × Bytes))

def rcmp (p q : Rendered) : Ordering := Val.cmp p.1 q.1

theorem spells_write (c : Cfg) (hc : RyuLit c) (pp : Pp) (hpp : pp.WsIndent) : ∀ (k : Nat) (v : Val), v.size ≤ k → GoodVal v →
    ∀ lvl, Spells (canon c pp v) (writeVal c pp lvl v) := by
  intro k
  induction k with
  | zero => intro v h; have := Val.size_pos v; omega
  | succ k ih =>
    intro v hsz hg lvl
    cases v with
    | null => simp [canon, writeVal, Spells]
    | bool b => cases b <;> simp [canon, writeVal, Spells]
    | num n => simp only [canon, writeVal]; exact spells_num c hc n hg
    | tstr s =>
      simp only [canon, writeVal, Spells, writeTStr]
      exact ⟨s.flatMap escT1, fun rest => readStr_escT s rest, rfl⟩
    | bstr s =>
      simp only [canon, writeVal, Spells, writeBStr]
      exact ⟨s.flatMap escB1, fun rest => readStr_escB s rest, rfl⟩
    | arr a =>
      cases a with
      | nil => simp only [canon, canonList, writeVal, Spells]; exact ⟨[], isGap_nil, by simp⟩
      | cons x xs =>
        simp only [Val.size] at hsz
        simp only [GoodVal] at hg
        let ps : List (Val × Bytes) := (x :: xs).map fun v => (canon c pp v, writeVal c pp (lvl + 1) v)
        have hall : ∀ p ∈ ps, Spells p.1 p.2 := by
          intro p hp
          simp only [ps, List.mem_map] at hp
          obtain ⟨v, hv, rfl⟩ := hp
          have := Val.size_lt_of_mem hv
          exact ih v (by omega) (goodList_mem _ hg v hv) (lvl + 1)
        obtain ⟨body, hb, he⟩ := seq_list pp hpp lvl ps (by simp [ps]) hall
        have e1 : ps.map (·.1) = canon c pp x :: canonList c pp xs := by
          simp [ps, canonList_map, Function.comp_def]
        have e2 : ps.map (·.2) = writeList c pp (lvl + 1) (x :: xs) := by
          simp [ps, writeList_map, Function.comp_def]
        rw [e1] at hb
        rw [e2] at he
        simp only [canon, canonList, Spells]
        refine ⟨pp.nl ++ pp.ind (lvl + 1), body, isGap_append (isGap_nl pp) (isGap_ind pp hpp _), hb, ?_⟩
        simp only [writeVal, List.isEmpty_cons, Bool.false_eq_true, if_false, seqText, List.append_assoc]
        rw [he]
    | obj o =>
      cases o with
      | nil =>
        have h0 : (sortTagged pp (canonEntries c pp [])).map (·.2) = [] := by simp [canonEntries, sortTagged, sortBy]
        simp only [canon, h0, writeVal, Spells]
        exact ⟨[], isGap_nil, by simp⟩
      | cons e es =>
        simp only [Val.size] at hsz
        simp only [GoodVal] at hg
        let Z : List Rendered := (e :: es).map fun e =>
          (e.1, ((canon c pp e.1, canon c pp e.2), (writeVal c pp (lvl + 1) e.1, writeVal c pp (lvl + 1) e.2)))
        let Zs : List Rendered := if pp.sortKeys then sortBy rcmp Z else Z
        have hmem : ∀ z ∈ Zs, z ∈ Z := by
          intro z hz
          simp only [Zs] at hz
          split at hz
          · exact mem_sortBy _ _ _ hz
          · exact hz
        have hlen : Zs.length = (e :: es).length := by
          simp only [Zs]
          split
          · rw [length_sortBy]; simp [Z]
          · simp [Z]
        have hall : ∀ p ∈ Zs.map (·.2), Spells p.1.1 p.2.1 ∧ Spells p.1.2 p.2.2 := by
          intro p hp
          simp only [List.mem_map] at hp
          obtain ⟨z, hz, rfl⟩ := hp
          have hz' := hmem z hz
          simp only [Z, List.mem_map] at hz'
          obtain ⟨en, hen, rfl⟩ := hz'
          obtain ⟨a, b⟩ := en
          have := Val.size_entry_of_mem hen
          have hgd := goodEntries_mem _ hg a b hen
          exact ⟨ih a (by omega) hgd.1 (lvl + 1), ih b (by omega) hgd.2 (lvl + 1)⟩
        have hne : Zs.map (·.2) ≠ [] := by
          intro h
          have : (Zs.map (·.2)).length = 0 := by rw [h]; rfl
          simp [hlen] at this
        obtain ⟨body, hb, he⟩ := seq_entries pp hpp lvl (Zs.map (·.2)) hne hall
        -- the two sorted lists are relabellings of `Zs`
        have e1 : (sortTagged pp (canonEntries c pp (e :: es))).map (·.2) = (Zs.map (·.2)).map (·.1) := by
          rw [canonEntries_map]
          have hZ : (e :: es).map (fun e => (e.1, (canon c pp e.1, canon c pp e.2))) = Z.map (fun z => (z.1, z.2.1)) := by
            simp [Z, Function.comp_def]
          rw [hZ]
          simp only [sortTagged, Zs]
          split
          · rw [sortBy_map (fun z : Rendered => (z.1, z.2.1)) rcmp tagCmp (fun _ _ => rfl)]
            simp [Function.comp_def]
          · simp [Function.comp_def]
        have e2 : (sortItems pp (writeEntries c pp (lvl + 1) (e :: es))).map (·.2) =
            (Zs.map (·.2)).map (fun p => p.2.1 ++ pp.colon ++ p.2.2) := by
          rw [writeEntries_map]
          have hZ : (e :: es).map (fun e => (e.1, writeVal c pp (lvl + 1) e.1 ++ pp.colon ++ writeVal c pp (lvl + 1) e.2))
              = Z.map (fun z => (z.1, z.2.2.1 ++ pp.colon ++ z.2.2.2)) := by
            simp [Z, Function.comp_def]
          rw [hZ]
          simp only [sortItems, Zs]
          split
          · rw [sortBy_map (fun z : Rendered => (z.1, z.2.2.1 ++ pp.colon ++ z.2.2.2)) rcmp keyCmp (fun _ _ => rfl)]
            simp [Function.comp_def]
          · simp [Function.comp_def]
        simp only [canon, writeVal, List.isEmpty_cons, Bool.false_eq_true, if_false]
        rw [e1, e2]
        cases hL : (Zs.map (·.2)).map (·.1) with
        | nil =>
          have : ((Zs.map (·.2)).map (·.1)).length = 0 := by rw [hL]; rfl
          simp [hlen] at this
        | cons e' es' =>
          rw [hL] at hb
          simp only [Spells]
          refine ⟨pp.nl ++ pp.ind (lvl + 1), body, isGap_append (isGap_nl pp) (isGap_ind pp hpp _), hb, ?_⟩
          simp only [seqText, List.append_assoc] at he ⊢
          rw [he]

end Jaq.C07
