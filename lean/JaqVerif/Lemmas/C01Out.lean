/-
  C01 — prefix refinement of outcomes and its congruence lemmas (ported from the prototype
  `design/proto/C01b_Sim.lean.txt`, generalised to `OutG α` and the five ways a stream ends).
-/
import JaqVerif.Core.Machine

namespace Jaq.Core
open Jaq

/-- `Pre o o'`: `o'` equals `o` if `o` did not run out of fuel; otherwise the values of `o` are
a prefix of those of `o'` -/
def Pre {α : Type} (o o' : OutG α) : Prop :=
  (o.stop ≠ .fuel → o' = o) ∧ (o.stop = .fuel → ∃ r, o'.vals = o.vals ++ r)

variable {α β : Type}

theorem Pre.rfl' (o : OutG α) : Pre o o := ⟨fun _ => rfl, fun _ => ⟨[], by simp⟩⟩

theorem Pre.of_fuel_nil (o' : OutG α) : Pre (OutG.fuel : OutG α) o' := by
  refine ⟨fun h => ?_, fun _ => ⟨o'.vals, by simp [OutG.fuel]⟩⟩
  simp [OutG.fuel] at h

theorem Pre.vals_prefix {o o' : OutG α} (h : Pre o o') : ∃ r, o'.vals = o.vals ++ r := by
  by_cases hs : o.stop = .fuel
  · exact h.2 hs
  · rw [h.1 hs]; exact ⟨[], by simp⟩

theorem Pre.eta (o o' : OutG α) (h : Pre o o') : Pre ⟨o.vals, o.stop⟩ ⟨o'.vals, o'.stop⟩ := h

/-- the stop is one of the non-fuel ones: then the refined outcome is the same -/
theorem Pre.eq_of_ne {o o' : OutG α} (h : Pre o o') (hs : o.stop ≠ .fuel) : o' = o := h.1 hs

theorem Pre.of_fuel {o o' : OutG α} (hs : o.stop = .fuel) (r : List α) (h : o'.vals = o.vals ++ r) : Pre o o' :=
  ⟨fun hn => absurd hs hn, fun _ => ⟨r, h⟩⟩

/-- values of a `bind` whose first operand ended abnormally / whatever: prefix property -/
theorem bind_vals_prefix (f : α → OutG β) (v : α) (vs : List α) (s : Stop) (r' : List β)
    (h : (f v).vals = r') : ∃ q, (OutG.bind (v :: vs) s f).vals = r' ++ q := by
  simp only [OutG.bind]
  cases hst : (f v).stop <;> simp only [] <;> first | exact ⟨_, by rw [h]⟩ | exact ⟨[], by simp [h]⟩

/-- monotonicity of `OutG.bind` w.r.t. prefix refinement (pointwise on the values visited) -/
theorem pre_bind {f g : α → OutG β} : ∀ (vs : List α) (s : Stop) (vs' : List α) (s' : Stop),
    Pre (⟨vs, s⟩ : OutG α) ⟨vs', s'⟩ → (∀ w ∈ vs, Pre (f w) (g w)) →
    Pre (OutG.bind vs s f) (OutG.bind vs' s' g) := by
  intro vs
  induction vs with
  | nil =>
    intro s vs' s' hp _
    by_cases hs : s = .fuel
    · subst hs
      exact Pre.of_fuel rfl (OutG.bind vs' s' g).vals (by simp [OutG.bind])
    · have := hp.1 hs
      simp only [OutG.mk.injEq] at this
      obtain ⟨rfl, rfl⟩ := this
      exact Pre.rfl' _
  | cons v vs ih =>
    intro s vs' s' hp hf
    obtain ⟨r, hr⟩ := Pre.vals_prefix hp
    simp only at hr
    cases vs' with
    | nil => simp at hr
    | cons v' vt' =>
      simp only [List.cons_append, List.cons.injEq] at hr
      obtain ⟨rfl, hvt⟩ := hr
      have hp' : Pre (⟨vs, s⟩ : OutG α) ⟨vt', s'⟩ := by
        refine ⟨fun h => ?_, fun _ => ⟨r, hvt⟩⟩
        have := hp.1 h
        simp only [OutG.mk.injEq, List.cons.injEq, true_and] at this
        simp [this]
      have hv := hf v' (by simp)
      have iht := ih s vt' s' hp' (fun w hw => hf w (by simp [hw]))
      by_cases hfu : (f v').stop = .fuel
      · -- the spec ran out of fuel inside `f v'`
        obtain ⟨r', hr'⟩ := hv.2 hfu
        obtain ⟨q, hq⟩ := bind_vals_prefix g v' vt' s' _ hr'
        have hF : OutG.bind (v' :: vs) s f = f v' := by simp only [OutG.bind, hfu]
        rw [hF]
        exact Pre.of_fuel hfu (r' ++ q) (by rw [hq]; simp)
      · have e : g v' = f v' := hv.1 hfu
        simp only [OutG.bind]
        rw [e]
        cases hst : (f v').stop with
        | done =>
          simp only
          refine ⟨fun h => ?_, fun h => ?_⟩
          · have := iht.1 h; rw [this]
          · obtain ⟨r', hr'⟩ := iht.2 h
            exact ⟨r', by simp [hr']⟩
        | fuel => exact absurd hst hfu
        | err x => exact Pre.rfl' _
        | brk x => exact Pre.rfl' _
        | halt x => exact Pre.rfl' _

theorem pre_bind' {f g : α → OutG β} {o o' : OutG α} (h : Pre o o') (hf : ∀ w ∈ o.vals, Pre (f w) (g w)) :
    Pre (OutG.bind o.vals o.stop f) (OutG.bind o'.vals o'.stop g) :=
  pre_bind _ _ _ _ (Pre.eta _ _ h) hf

theorem pre_append {a a' : OutG α} {b b' : Unit → OutG α} (ha : Pre a a') (hb : Pre (b ()) (b' ())) :
    Pre (a.append b) (a'.append b') := by
  by_cases hfu : a.stop = .fuel
  · obtain ⟨r, hr⟩ := ha.2 hfu
    refine Pre.of_fuel (by simp only [OutG.append, hfu]) (r ++ (if a'.stop.isDone then (b' ()).vals else [])) ?_
    simp only [OutG.append, hfu]
    cases a'.stop <;> simp [hr, Stop.isDone]
  · have e : a' = a := ha.1 hfu
    rw [e]
    unfold OutG.append
    cases hst : a.stop with
    | done =>
      simp only
      refine ⟨fun h => ?_, fun h => ?_⟩
      · rw [hb.1 h]
      · obtain ⟨r, hr⟩ := hb.2 h; exact ⟨r, by simp [hr]⟩
    | fuel => exact absurd hst hfu
    | err x => exact Pre.rfl' _
    | brk x => exact Pre.rfl' _
    | halt x => exact Pre.rfl' _

theorem pre_try {o o' : Out} {h h' : Val → Out} (ho : Pre o o')
    (hh : ∀ x, o.stop = .err x → Pre (h (errToVal x)) (h' (errToVal x))) : Pre (tryOut o h) (tryOut o' h') := by
  by_cases hfu : o.stop = .fuel
  · obtain ⟨r, hr⟩ := ho.2 hfu
    refine Pre.of_fuel (by simp only [tryOut, hfu]) (r ++ (match o'.stop with | .err e => (h' (errToVal e)).vals | _ => [])) ?_
    simp only [tryOut, hfu]
    cases o'.stop <;> simp [hr]
  · have e : o' = o := ho.1 hfu
    rw [e]
    unfold tryOut
    cases hst : o.stop with
    | err x =>
      simp only
      have := hh x hst
      refine ⟨fun hne => ?_, fun hf => ?_⟩
      · rw [this.1 hne]
      · obtain ⟨r, hr⟩ := this.2 hf; exact ⟨r, by simp [hr]⟩
    | fuel => exact absurd hst hfu
    | done => exact Pre.rfl' _
    | brk x => exact Pre.rfl' _
    | halt x => exact Pre.rfl' _

theorem pre_label {o o' : Out} (L : Nat) (ho : Pre o o') : Pre (labelOut L o) (labelOut L o') := by
  by_cases hfu : o.stop = .fuel
  · obtain ⟨r, hr⟩ := ho.2 hfu
    refine Pre.of_fuel (by simp only [labelOut, hfu]) r ?_
    simp only [labelOut, hfu]
    cases o'.stop with
    | brk i => simp only; split <;> exact hr
    | _ => exact hr
  · rw [ho.1 hfu]; exact Pre.rfl' _

theorem pre_collect {o o' : Out} (ho : Pre o o') : Pre (collect o) (collect o') := by
  by_cases hfu : o.stop = .fuel
  · exact Pre.of_fuel (by simp only [collect, hfu]) (collect o').vals (by simp [collect, hfu])
  · rw [ho.1 hfu]; exact Pre.rfl' _

theorem pre_alt {o o' : Out} {g g' : Unit → Out} (ho : Pre o o') (hg : Pre (g ()) (g' ())) :
    Pre (altOut o g) (altOut o' g') := by
  by_cases hfu : o.stop = .fuel
  · obtain ⟨r, hr⟩ := ho.2 hfu
    have h1 : altOut o g = ⟨o.vals.filter truthy, .fuel⟩ := by
      unfold altOut; rw [hfu]; cases o.vals.filter truthy <;> rfl
    rw [h1]
    refine ⟨fun h => absurd rfl h, fun _ => ?_⟩
    show ∃ q, (altOut o' g').vals = List.filter truthy o.vals ++ q
    unfold altOut
    rw [hr, List.filter_append]
    cases hl : (List.filter truthy o.vals ++ List.filter truthy r) with
    | nil =>
      have h2 := List.append_eq_nil_iff.mp hl
      rw [h2.1]
      exact ⟨_, (List.nil_append _).symm⟩
    | cons a as =>
      refine ⟨List.filter truthy r, ?_⟩
      cases o'.stop <;> simp [hl]
  · rw [ho.1 hfu]
    unfold altOut
    cases hl : o.vals.filter truthy with
    | nil =>
      cases hst : o.stop with
      | done => simpa using hg
      | fuel => exact absurd hst hfu
      | err x => exact Pre.rfl' _
      | brk x => exact Pre.rfl' _
      | halt x => exact Pre.rfl' _
    | cons a as => cases o.stop <;> exact Pre.rfl' _

theorem pre_logic {o o' : Out} {g g' : Unit → Out} (stop : Bool) (ho : Pre o o') (hg : Pre (g ()) (g' ())) :
    Pre (logicSem o stop g) (logicSem o' stop g') := by
  unfold logicSem
  refine pre_bind' ho (fun a _ => ?_)
  split
  · exact Pre.rfl' _
  · exact pre_bind' hg (fun b _ => Pre.rfl' _)

theorem pre_cart {o o' : Out} {g g' : Unit → Out} (f : Val → Val → Except Err Val) (ho : Pre o o')
    (hg : Pre (g ()) (g' ())) : Pre (cartSem o g f) (cartSem o' g' f) := by
  unfold cartSem
  refine pre_bind' ho (fun a _ => ?_)
  exact pre_bind' hg (fun b _ => Pre.rfl' _)

theorem pre_mapM {o o' : Out} (f : Val → Except Err Val) (ho : Pre o o') : Pre (o.mapM f) (o'.mapM f) := by
  unfold OutG.mapM
  exact pre_bind' ho (fun a _ => Pre.rfl' _)

/-- `bind` onto `done` followed by the stop = `bind` with the stop -/
theorem bind_done_append (vs : List α) (s : Stop) (f : α → OutG β) :
    (OutG.bind vs .done f).append (fun _ => ⟨[], s⟩) = OutG.bind vs s f := by
  induction vs with
  | nil => simp [OutG.bind, OutG.append]
  | cons v vs ih =>
    simp only [OutG.bind]
    cases hst : (f v).stop with
    | done =>
      simp only
      rw [← ih]
      unfold OutG.append
      simp only
      cases h2 : (OutG.bind vs Stop.done f).stop <;> simp [h2]
    | _ => simp [OutG.append, hst]

/-- with the repaired `cartesian`, the Machine's cartesian product is the manual's nested binding -/
theorem cartM_fixed (ol : Out) (r : Unit → Out) (f : Val → Val → Except Err Val) :
    cartM { cartDropsErr := false } ol r f = cartSem ol r f := by
  unfold cartM cartSem
  have : (fun (_ : Unit) => cartTail { cartDropsErr := false } ol.stop r) = (fun _ => ⟨[], ol.stop⟩) := by
    funext _
    unfold cartTail
    cases ol.stop <;> simp
  rw [this]
  exact bind_done_append _ _ _

theorem uniform_fuel {P : Nat → α → Prop} (vs : List α)
    (h : ∀ w ∈ vs, ∃ m, ∀ m' ≥ m, P m' w) : ∃ m, ∀ m' ≥ m, ∀ w ∈ vs, P m' w := by
  induction vs with
  | nil => exact ⟨0, fun _ _ w hw => by simp at hw⟩
  | cons v vs ih =>
    obtain ⟨m1, h1⟩ := h v (by simp)
    obtain ⟨m2, h2⟩ := ih (fun w hw => h w (by simp [hw]))
    refine ⟨max m1 m2, fun m' hm' w hw => ?_⟩
    simp only [List.mem_cons] at hw
    rcases hw with rfl | hw
    · exact h1 m' (by omega)
    · exact h2 m' (by omega) w hw

/-- results at fuel ≥ 1 -/
theorem fuel_step (P : Nat → Prop) (m : Nat) (h : ∀ k ≥ m, P (k+1)) : ∃ m0, ∀ m' ≥ m0, P m' := by
  refine ⟨m+1, fun m' hm' => ?_⟩
  obtain ⟨k, rfl⟩ : ∃ k, m' = k + 1 := ⟨m' - 1, by omega⟩
  exact h k (by omega)

end Jaq.Core
