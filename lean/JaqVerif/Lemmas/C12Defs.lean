/-
  C12 helper lemmas for the filters that are jq definitions (`C12/Defs.lean`): streams,
  `map`, `map_values`, `walk` (fuel), `all`/`any`, `combinations`, `join`.
-/
import JaqVerif.Lemmas.C12More
import JaqVerif.C12.Defs

namespace Jaq.Coll

/-! ### streams -/

theorem collect_nil : collect [] = .ok [] := rfl
theorem collect_ok_cons (v : Val) (rest : List ValR) :
    collect (.ok v :: rest) = (match collect rest with | .error e => .error e | .ok vs => .ok (v :: vs)) := rfl
theorem collect_error_cons (e : Err) (rest : List ValR) : collect (.error e :: rest) = .error e := rfl

theorem collect_oks : ∀ l : List Val, collect (l.map .ok) = .ok l
  | [] => rfl
  | x :: l => by rw [List.map_cons, collect_ok_cons, collect_oks l]

theorem collect_append_oks (l : List Val) (rest : List ValR) :
    collect (l.map .ok ++ rest) = (match collect rest with | .error e => .error e | .ok vs => .ok (l ++ vs)) := by
  induction l with
  | nil => cases h : collect rest <;> simp [h]
  | cons x l ih =>
    rw [List.map_cons, List.cons_append, collect_ok_cons, ih]
    cases h : collect rest <;> simp

/-- all outputs are values: the array of all of them -/
theorem collect_flatMap_oks (f : Flt) (outs : Val → List Val) :
    ∀ els : List Val, (∀ x ∈ els, f x = (outs x).map .ok) → collect (els.flatMap f) = .ok (els.flatMap outs)
  | [], _ => rfl
  | x :: els, h => by
    rw [List.flatMap_cons, List.flatMap_cons, h x (List.mem_cons_self ..), collect_append_oks,
      collect_flatMap_oks f outs els (fun y hy => h y (List.mem_cons_of_mem _ hy))]

/-- the first error (in array order, then output order) is the result -/
theorem collect_flatMap_error (f : Flt) (outs : Val → List Val) (pre : List Val) (x : Val) (post : List Val)
    (good : List Val) (e : Err) (rest : List ValR)
    (hpre : ∀ y ∈ pre, f y = (outs y).map .ok) (hx : f x = good.map .ok ++ .error e :: rest) :
    collect ((pre ++ x :: post).flatMap f) = .error e := by
  induction pre with
  | nil =>
    rw [List.nil_append, List.flatMap_cons, hx, List.append_assoc, collect_append_oks]
    rfl
  | cons y pre ih =>
    rw [List.cons_append, List.flatMap_cons, hpre y (List.mem_cons_self ..), collect_append_oks,
      ih (fun z hz => hpre z (List.mem_cons_of_mem _ hz))]

/-! ### `map_values` on objects -/

theorem updEntries_nil (g : Flt) : updEntries g [] = .ok [] := rfl

theorem updEntries_cons (g : Flt) (k x : Val) (rest : Obj.Entries) :
    updEntries g ((k, x) :: rest) =
      (match g x with
       | [] => updEntries g rest
       | .error e :: _ => .error e
       | .ok y :: _ =>
         match updEntries g rest with
         | .error e => .error e
         | .ok r => .ok ((k, y) :: r)) := rfl

/-- where the first output of `f` on every value is known (`sel x = some y`) or `f` has no
output (`sel x = none`): keys and order are kept, values replaced, entries without output removed -/
theorem updEntries_sel (g : Flt) (sel : Val → Option Val) :
    ∀ o : Obj.Entries, (∀ p ∈ o, (g p.2).head? = (sel p.2).map .ok) →
      updEntries g o = .ok (o.filterMap fun p => (sel p.2).map fun y => (p.1, y))
  | [], _ => rfl
  | (k, x) :: rest, h => by
    have hx := h (k, x) (List.mem_cons_self ..)
    have ih := updEntries_sel g sel rest (fun p hp => h p (List.mem_cons_of_mem _ hp))
    rw [updEntries_cons, List.filterMap_cons]
    simp only at hx
    cases hs : sel x with
    | none =>
      rw [hs] at hx
      cases hg : g x with
      | nil => simp only [Option.map_none]; exact ih
      | cons r rs => rw [hg] at hx; simp at hx
    | some y =>
      rw [hs] at hx
      cases hg : g x with
      | nil => rw [hg] at hx; simp at hx
      | cons r rs =>
        rw [hg] at hx
        simp only [List.head?_cons, Option.map_some, Option.some.injEq] at hx
        subst hx
        simp only [Option.map_some]
        rw [ih]

theorem updEntries_congr {g g' : Flt} : ∀ {o : Obj.Entries}, (∀ p ∈ o, g p.2 = g' p.2) → updEntries g o = updEntries g' o
  | [], _ => rfl
  | (k, x) :: rest, h => by
    rw [updEntries_cons, updEntries_cons, h (k, x) (List.mem_cons_self ..),
      updEntries_congr (o := rest) (fun p hp => h p (List.mem_cons_of_mem _ hp))]

theorem flatMap_congr_mem {α β : Type} {f g : α → List β} : ∀ {l : List α}, (∀ a ∈ l, f a = g a) → l.flatMap f = l.flatMap g
  | [], _ => rfl
  | a :: l, h => by
    rw [List.flatMap_cons, List.flatMap_cons, h a (List.mem_cons_self ..),
      flatMap_congr_mem (l := l) (fun b hb => h b (List.mem_cons_of_mem _ hb))]

theorem flatMap_pure {α : Type} : ∀ l : List α, l.flatMap (fun x => [x]) = l
  | [] => rfl
  | x :: l => by rw [List.flatMap_cons, flatMap_pure l]; rfl

/-! ### `walk`: fuel -/

theorem walkF_succ (n : Nat) (f : Flt) (v : Val) :
    walkF (n + 1) f v = (match mapValuesOpt true (walkF n f) v with
      | .error e => [.error e]
      | .ok v' => f v') := rfl

theorem mapValuesOpt_arr (opt : Bool) (g : Flt) (a : List Val) :
    mapValuesOpt opt g (.arr a) = (collect (a.flatMap g)).map .arr := rfl
theorem mapValuesOpt_obj (opt : Bool) (g : Flt) (o : Obj.Entries) :
    mapValuesOpt opt g (.obj o) = (updEntries g o).map .obj := rfl

theorem mapValuesOpt_scalar (g : Flt) {v : Val} (ha : ∀ a, v ≠ .arr a) (ho : ∀ o, v ≠ .obj o) :
    mapValuesOpt true g v = .ok v := by
  cases v with
  | arr a => exact absurd rfl (ha a)
  | obj o => exact absurd rfl (ho o)
  | _ => rfl

theorem walkF_mono (f : Flt) : ∀ (n m : Nat) (v : Val), v.size ≤ n → v.size ≤ m → walkF n f v = walkF m f v
  | 0, _, v, h, _ => by have := Val.size_pos v; omega
  | _, 0, v, _, h => by have := Val.size_pos v; omega
  | n + 1, m + 1, v, hn, hm => by
    rw [walkF_succ, walkF_succ]
    cases v with
    | arr xs =>
      have hsz : ∀ x ∈ xs, walkF n f x = walkF m f x := by
        intro x hx
        have := Val.size_lt_of_mem hx
        simp only [Val.size] at hn hm
        exact walkF_mono f n m x (by omega) (by omega)
      rw [mapValuesOpt_arr, mapValuesOpt_arr, flatMap_congr_mem hsz]
    | obj o =>
      have hsz : ∀ p ∈ o, walkF n f p.2 = walkF m f p.2 := by
        intro p hp
        have := Val.size_entry_of_mem (k := p.1) (v := p.2) hp
        simp only [Val.size] at hn hm
        exact walkF_mono f n m p.2 (by omega) (by omega)
      rw [mapValuesOpt_obj, mapValuesOpt_obj, updEntries_congr hsz]
    | _ => rfl

/-! ### `all`, `any` -/

theorem firstFalsy_pure (pb : Val → Bool) : ∀ a : List Val,
    firstFalsy (pipeS (a.map .ok) (pureF fun x => .bool (pb x))) = .ok (.bool (a.all pb))
  | [] => rfl
  | x :: a => by
    show firstFalsy (.ok (.bool (pb x)) :: pipeS (a.map .ok) _) = _
    cases h : pb x
    · simp [firstFalsy, asBool, h]
    · simp only [firstFalsy, asBool, List.all_cons, h, Bool.true_and, if_true]
      exact firstFalsy_pure pb a

theorem firstTruthy_pure (pb : Val → Bool) : ∀ a : List Val,
    firstTruthy (pipeS (a.map .ok) (pureF fun x => .bool (pb x))) = .ok (.bool (a.any pb))
  | [] => rfl
  | x :: a => by
    show firstTruthy (.ok (.bool (pb x)) :: pipeS (a.map .ok) _) = _
    cases h : pb x
    · simp only [firstTruthy, asBool, List.any_cons, h, Bool.false_or, Bool.false_eq_true, if_false]
      exact firstTruthy_pure pb a
    · simp [firstTruthy, asBool, h]

/-! ### `combinations` -/

/-- the cartesian product of the rows, first row slowest -/
def cart : List (List Val) → List (List Val)
  | [] => [[]]
  | row :: rows => row.flatMap fun x => (cart rows).map fun c => x :: c

theorem combos_nil (accs : List (List Val)) : combos accs [] = accs := rfl
theorem combos_cons (accs : List (List Val)) (row : List Val) (rows : List (List Val)) :
    combos accs (row :: rows) = combos (accs.flatMap fun acc => row.map fun x => acc ++ [x]) rows := rfl

theorem flatMap_flatMap' {α β γ : Type} (f : α → List β) (g : β → List γ) :
    ∀ l : List α, (l.flatMap f).flatMap g = l.flatMap fun a => (f a).flatMap g
  | [] => rfl
  | a :: l => by rw [List.flatMap_cons, List.flatMap_append, flatMap_flatMap' f g l, List.flatMap_cons]

theorem combos_step (rows : List (List Val)) (acc : List Val) : ∀ row : List Val,
    (row.map fun x => acc ++ [x]).flatMap (fun a => (cart rows).map fun c => a ++ c) =
      (row.flatMap fun x => (cart rows).map fun c => x :: c).map fun c => acc ++ c
  | [] => rfl
  | x :: row => by
    rw [List.map_cons, List.flatMap_cons, List.flatMap_cons, List.map_append, combos_step rows acc row, List.map_map]
    congr 1
    apply List.map_congr_left
    intro c _
    simp

theorem combos_eq_cart : ∀ (rows : List (List Val)) (accs : List (List Val)),
    combos accs rows = accs.flatMap fun acc => (cart rows).map fun c => acc ++ c
  | [], accs => by
    rw [combos_nil]
    induction accs with
    | nil => rfl
    | cons a accs ih => rw [List.flatMap_cons, ← ih]; simp [cart]
  | row :: rows, accs => by
    rw [combos_cons, combos_eq_cart rows, flatMap_flatMap']
    apply flatMap_congr_mem
    intro acc _
    exact combos_step rows acc row

theorem length_cart : ∀ rows : List (List Val), (cart rows).length = (rows.map List.length).foldr (· * ·) 1
  | [] => rfl
  | row :: rows => by
    simp only [cart, List.length_flatMap, List.length_map, List.map_cons, List.foldr_cons, length_cart rows]
    induction row with
    | nil => simp
    | cons x row ih => simp only [List.map_cons, List.sum_cons, List.length_cons, ih]; rw [Nat.add_mul, Nat.one_mul, Nat.add_comm]

/-- `c` takes one element of every row, in row order -/
inductive Chooses : List Val → List (List Val) → Prop
  | nil : Chooses [] []
  | cons {x : Val} {row : List Val} {c : List Val} {rows : List (List Val)} :
      x ∈ row → Chooses c rows → Chooses (x :: c) (row :: rows)

/-- a combination takes one element of every row, in row order; all such choices occur -/
theorem mem_cart : ∀ (rows : List (List Val)) (c : List Val), c ∈ cart rows ↔ Chooses c rows
  | [], c => by
    simp only [cart, List.mem_singleton]
    constructor
    · rintro rfl; exact .nil
    · intro h; cases h; rfl
  | row :: rows, c => by
    simp only [cart, List.mem_flatMap, List.mem_map]
    constructor
    · rintro ⟨x, hx, c', hc', rfl⟩
      exact .cons hx ((mem_cart rows c').1 hc')
    · intro h
      cases h with
      | cons hx hrest => exact ⟨_, hx, _, (mem_cart rows _).2 hrest, rfl⟩

/-! ### `join` -/

theorem addAll_tstrs : ∀ (parts : List (List UInt8)) (acc : List UInt8),
    addAll (.tstr acc) (parts.map .tstr) = .ok (.tstr (acc ++ parts.flatten))
  | [], acc => by simp [addAll_nil]
  | p :: parts, acc => by
    rw [List.map_cons, addAll_cons]
    show addAll (.tstr (acc ++ p)) _ = _
    rw [addAll_tstrs parts]
    simp

theorem mapM'_oks {α β ε : Type} (f : α → Except ε β) (g : α → β) :
    ∀ l : List α, (∀ x ∈ l, f x = .ok (g x)) → mapM' f l = .ok (l.map g)
  | [], _ => rfl
  | x :: l, h => by
    rw [mapM'_cons, h x (List.mem_cons_self ..), mapM'_oks f g l (fun y hy => h y (List.mem_cons_of_mem _ hy))]
    rfl

end Jaq.Coll
