/- GENERATED on every run by checks/c15.py from `jaqverif c15 matrix` (the REAL parser
   `jaq_core::load::parse(text, |p| p.term())` on `a op1 b op2 c` for every ordered operator pair).
   Do not edit. -/
namespace Jaq.C15.Gen

/-- operator texts, in the order of the rows and columns of `groupT` -/
def opNames : List (List Char) := [['|'], [','], ['a', 's', ' ', '$', 'x', ' ', '|'], ['='], ['|', '='], ['+', '='], ['-', '='], ['*', '='], ['/', '='], ['%', '='], ['/', '/', '='], ['/', '/'], ['o', 'r'], ['a', 'n', 'd'], ['=', '='], ['!', '='], ['<'], ['<', '='], ['>'], ['>', '='], ['+'], ['-'], ['*'], ['/'], ['%']]

/-- `groupT[i][j] = true` iff the real parser reads `a opᵢ b opⱼ c` as `a opᵢ (b opⱼ c)`,
    `false` iff as `(a opᵢ b) opⱼ c` -/
def groupT : List (List Bool) := [
  [true, true, true, true, true, true, true, true, true, true, true, true, true, true, true, true, true, true, true, true, true, true, true, true, true],
  [false, false, true, true, true, true, true, true, true, true, true, true, true, true, true, true, true, true, true, true, true, true, true, true, true],
  [true, true, true, true, true, true, true, true, true, true, true, true, true, true, true, true, true, true, true, true, true, true, true, true, true],
  [false, false, false, true, true, true, true, true, true, true, true, true, true, true, true, true, true, true, true, true, true, true, true, true, true],
  [false, false, false, true, true, true, true, true, true, true, true, true, true, true, true, true, true, true, true, true, true, true, true, true, true],
  [false, false, false, true, true, true, true, true, true, true, true, true, true, true, true, true, true, true, true, true, true, true, true, true, true],
  [false, false, false, true, true, true, true, true, true, true, true, true, true, true, true, true, true, true, true, true, true, true, true, true, true],
  [false, false, false, true, true, true, true, true, true, true, true, true, true, true, true, true, true, true, true, true, true, true, true, true, true],
  [false, false, false, true, true, true, true, true, true, true, true, true, true, true, true, true, true, true, true, true, true, true, true, true, true],
  [false, false, false, true, true, true, true, true, true, true, true, true, true, true, true, true, true, true, true, true, true, true, true, true, true],
  [false, false, false, true, true, true, true, true, true, true, true, true, true, true, true, true, true, true, true, true, true, true, true, true, true],
  [false, false, false, false, false, false, false, false, false, false, false, false, true, true, true, true, true, true, true, true, true, true, true, true, true],
  [false, false, false, false, false, false, false, false, false, false, false, false, false, true, true, true, true, true, true, true, true, true, true, true, true],
  [false, false, false, false, false, false, false, false, false, false, false, false, false, false, true, true, true, true, true, true, true, true, true, true, true],
  [false, false, false, false, false, false, false, false, false, false, false, false, false, false, false, false, true, true, true, true, true, true, true, true, true],
  [false, false, false, false, false, false, false, false, false, false, false, false, false, false, false, false, true, true, true, true, true, true, true, true, true],
  [false, false, false, false, false, false, false, false, false, false, false, false, false, false, false, false, false, false, false, false, true, true, true, true, true],
  [false, false, false, false, false, false, false, false, false, false, false, false, false, false, false, false, false, false, false, false, true, true, true, true, true],
  [false, false, false, false, false, false, false, false, false, false, false, false, false, false, false, false, false, false, false, false, true, true, true, true, true],
  [false, false, false, false, false, false, false, false, false, false, false, false, false, false, false, false, false, false, false, false, true, true, true, true, true],
  [false, false, false, false, false, false, false, false, false, false, false, false, false, false, false, false, false, false, false, false, false, false, true, true, true],
  [false, false, false, false, false, false, false, false, false, false, false, false, false, false, false, false, false, false, false, false, false, false, true, true, true],
  [false, false, false, false, false, false, false, false, false, false, false, false, false, false, false, false, false, false, false, false, false, false, false, false, true],
  [false, false, false, false, false, false, false, false, false, false, false, false, false, false, false, false, false, false, false, false, false, false, false, false, true],
  [false, false, false, false, false, false, false, false, false, false, false, false, false, false, false, false, false, false, false, false, false, false, false, false, false]]

end Jaq.C15.Gen
