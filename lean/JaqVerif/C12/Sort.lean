/-
  C12 — impl-model of the native sorting / grouping / extremum filters of
  `/repo/jaq-std/src/lib.rs` (`sort_by`, `group_by`, `cmp_by`), generic in the element type
  `α`, the key type `κ`, the error type `ε`, the comparison `c` (`Ord::cmp` of the value type)
  and the equality `e` (`PartialEq::eq` of the value type).

  The key filter `f` of `sort_by(f)` … is an arbitrary jq filter.  The natives only use
  `f(x).collect::<Result<Vec<_>, _>>()`: all outputs of `f` on the element, or the first
  error.  That is the model's key function `kf : α → Except ε (List κ)`.

  No Mathlib; linked into the driver.
-/
import JaqVerif.Val.Order

namespace Jaq.Coll

/-! ## The order laws the theorems assume (proved for `Val.cmp` by C08) -/

/-- `c` is a total preorder presented as a three-way comparison. -/
structure TotalPreorder {α : Type} (c : α → α → Ordering) : Prop where
  refl : ∀ a, c a a = .eq
  swap : ∀ a b, c b a = (c a b).swap
  trans_le : ∀ a b d, c a b ≠ .gt → c b d ≠ .gt → c a d ≠ .gt

/-- … and `e` (the `==` of the value type) is the equivalence of that preorder. -/
structure OrderLaws {α : Type} (c : α → α → Ordering) (e : α → α → Bool) : Prop
    extends TotalPreorder c where
  eq_iff : ∀ a b, e a b = true ↔ c a b = .eq

/-! ## stable sort (`slice::sort_by`, `sort_by_cached_key`, `sort`) -/

/-- insert `x` before the first element that is not smaller (`c x y ≠ gt`) — the insertion
step of a *stable* sort when elements are inserted from the right end of the input.
(The shared `Jaq.sortBy` inserts *after* equal elements and therefore reverses ties; it is
only used on object keys, which are pairwise different.) -/
def insSt {α : Type} (c : α → α → Ordering) (x : α) : List α → List α
  | [] => [x]
  | y :: ys => if c x y == .gt then y :: insSt c x ys else x :: y :: ys

/-- stable sort by a three-way comparison -/
def isort {α : Type} (c : α → α → Ordering) (l : List α) : List α :=
  l.foldr (insSt c) []

/-- comparison of key-decorated elements: `Vec<V>::cmp` on the keys (lexicographic) -/
def keyCmp {α κ : Type} (c : κ → κ → Ordering) (p q : List κ × α) : Ordering :=
  lexCmp c p.1 q.1

/-- `f(x).collect()` for every element in array order; the first error wins -/
def decorate {α κ ε : Type} (kf : α → Except ε (List κ)) : List α → Except ε (List (List κ × α))
  | [] => .ok []
  | x :: xs =>
    match kf x with
    | .error e => .error e
    | .ok y =>
      match decorate kf xs with
      | .error e => .error e
      | .ok r => .ok ((y, x) :: r)

/-- `sort_by` of lib.rs: `xs.sort_by_cached_key(f)`.  `sort_by_cached_key` returns at once
when `len < 2` (the key filter is then *not* run, so its errors do not surface); otherwise
it computes all keys in slice order (after the first error the closure returns `Vec::new()`
and the error is returned at the end) and sorts `(key, index)` pairs — a stable sort by key. -/
def sortByKey {α κ ε : Type} (c : κ → κ → Ordering) (kf : α → Except ε (List κ)) (xs : List α) :
    Except ε (List α) :=
  if xs.length < 2 then .ok xs
  else
    match decorate kf xs with
    | .error e => .error e
    | .ok yx => .ok ((isort (keyCmp c) yx).map (·.2))

/-- `Vec<V> == Vec<V>`: same length and element-wise `==` -/
def listEq {κ : Type} (e : κ → κ → Bool) : List κ → List κ → Bool
  | [], [] => true
  | x :: xs, y :: ys => e x y && listEq e xs ys
  | _, _ => false

/-- the grouping loop of `group_by` (state: key of the open group, the open group, the
closed groups; elements stay decorated with their keys in the model) -/
def groupLoop {α κ : Type} (e : κ → κ → Bool) :
    List κ → List (List κ × α) → List (List (List κ × α)) → List (List κ × α) →
    List (List (List κ × α))
  | _, grp, done, [] => if grp.isEmpty then done else done ++ [grp]
  | gy, grp, done, (y, x) :: rest =>
    if !(listEq e gy y) then groupLoop e y [(y, x)] (done ++ [grp]) rest      -- `group_y != y`
    else groupLoop e gy (grp ++ [(y, x)]) done rest

/-- groups of a key-sorted decorated list -/
def groupRuns {α κ : Type} (e : κ → κ → Bool) : List (List κ × α) → List (List (List κ × α))
  | [] => []
  | (y, x) :: rest => groupLoop e y [(y, x)] [] rest

/-- the decorated groups `group_by` forms: keys of all elements (errors first), stable sort
by key, grouping loop -/
def groupsDec {α κ ε : Type} (c : κ → κ → Ordering) (e : κ → κ → Bool)
    (kf : α → Except ε (List κ)) (xs : List α) : Except ε (List (List (List κ × α))) :=
  match decorate kf xs with
  | .error er => .error er
  | .ok yx => .ok (groupRuns e (isort (keyCmp c) yx))

/-- `group_by` of lib.rs -/
def groupByKey {α κ ε : Type} (c : κ → κ → Ordering) (e : κ → κ → Bool)
    (kf : α → Except ε (List κ)) (xs : List α) : Except ε (List (List α)) :=
  match groupsDec c e kf xs with
  | .error er => .error er
  | .ok gs => .ok (gs.map fun g => g.map (·.2))

/-- `def unique_by(f): [group_by(f)[] | .[0]];` (`.[0]` of an empty array would be `dflt` =
`null`; groups are never empty, see `uniqueBy_first_of_run`) -/
def uniqueByKey {α κ ε : Type} (dflt : α) (c : κ → κ → Ordering) (e : κ → κ → Bool)
    (kf : α → Except ε (List κ)) (xs : List α) : Except ε (List α) :=
  match groupByKey c e kf xs with
  | .error er => .error er
  | .ok gs => .ok (gs.map fun g => g.headD dflt)

/-- replace predicate of `min_by_or_empty`: `|my, y| y < my` -/
def minReplace {κ : Type} (c : κ → κ → Ordering) (my y : List κ) : Bool := lexCmp c y my == .lt

/-- replace predicate of `max_by_or_empty`: `|my, y| y >= my` -/
def maxReplace {κ : Type} (c : κ → κ → Ordering) (my y : List κ) : Bool := lexCmp c y my != .lt

def cmpStep {α κ : Type} (replace : List κ → List κ → Bool) (m p : List κ × α) : List κ × α :=
  if replace m.1 p.1 then p else m

/-- `cmp_by` of lib.rs: `None` on the empty array, else a left fold keeping `(mx, my)` -/
def cmpBy {α κ ε : Type} (replace : List κ → List κ → Bool) (kf : α → Except ε (List κ))
    (xs : List α) : Except ε (Option α) :=
  match decorate kf xs with
  | .error e => .error e
  | .ok [] => .ok none
  | .ok (p :: rest) => .ok (some (rest.foldl (cmpStep replace) p).2)

/-- `def min_by(f): reduce min_by_or_empty(f) as $x (null; $x);` -/
def minByKey {α κ ε : Type} (dflt : α) (c : κ → κ → Ordering) (kf : α → Except ε (List κ))
    (xs : List α) : Except ε α :=
  match cmpBy (minReplace c) kf xs with
  | .error e => .error e
  | .ok none => .ok dflt
  | .ok (some x) => .ok x

/-- `def max_by(f): reduce max_by_or_empty(f) as $x (null; $x);` -/
def maxByKey {α κ ε : Type} (dflt : α) (c : κ → κ → Ordering) (kf : α → Except ε (List κ))
    (xs : List α) : Except ε α :=
  match cmpBy (maxReplace c) kf xs with
  | .error e => .error e
  | .ok none => .ok dflt
  | .ok (some x) => .ok x

/-! ## `bsearch`: specified by the contract of `slice::binary_search` -/

/-- the documented contract of `[T]::binary_search` turned into jaq's integer result `r`
(`Ok(i) ↦ i`, `Err(i) ↦ -1 - i`): a non-negative result points at an element equal to `x`;
a negative one encodes an insertion point with everything before it smaller and everything
from it on greater. -/
def BsearchPost {α : Type} (c : α → α → Ordering) (xs : List α) (x : α) (r : Int) : Prop :=
  (0 ≤ r → ∃ y, xs[r.toNat]? = some y ∧ c y x = .eq) ∧
  (r < 0 → (-1 - r).toNat ≤ xs.length ∧
    (∀ y ∈ xs.take (-1 - r).toNat, c y x = .lt) ∧ (∀ y ∈ xs.drop (-1 - r).toNat, c y x = .gt))

/-- executable form of `BsearchPost` (used by the driver to judge the real answer) -/
def bsearchOk {α : Type} (c : α → α → Ordering) (xs : List α) (x : α) (r : Int) : Bool :=
  if 0 ≤ r then
    match xs[r.toNat]? with
    | some y => c y x == .eq
    | none => false
  else
    decide ((-1 - r).toNat ≤ xs.length) &&
    (xs.take (-1 - r).toNat).all (fun y => c y x == .lt) &&
    (xs.drop (-1 - r).toNat).all (fun y => c y x == .gt)

/-- reference search (leftmost): number of leading elements smaller than `x`, then look at
the element there -/
def bsearchRef {α : Type} (c : α → α → Ordering) (xs : List α) (x : α) : Int :=
  let i := (xs.takeWhile fun y => c y x == .lt).length
  match xs[i]? with
  | some y => if c y x == .eq then Int.ofNat i else -1 - Int.ofNat i
  | none => -1 - Int.ofNat i

end Jaq.Coll
