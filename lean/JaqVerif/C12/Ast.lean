/-
  C12 — syntax trees of the definitions of the three `defs.jq` files that the C12 models
  transcribe.  On every run the harness prints these definitions from the *real* parser's
  output for the real `jaq-core/src/defs.jq`, `jaq-json/src/defs.jq`, `jaq-std/src/defs.jq`
  into `Gen/C12Defs.lean` (`Jaq.Coll.Gen.defs`); `Props/C12.lean` re-proves
  `Gen.defs = expectedDefs` (`C12/Defs.lean`, the transcription the Lean models were written
  from).  A changed definition therefore breaks the build of the theorems until the model, its
  theorems and the transcription are brought in line.
-/
namespace Jaq.Coll

/-- the fragment of `jaq_core::load::parse::Term` the pinned definitions use; lists are
`nil`/`cons` chains so that equality stays derivable -/
inductive Tm where
  | id                                   -- `.`
  | dotdot                               -- `..`
  | nil | cons (a rest : Tm)             -- lists (arguments, path parts, object entries, string parts); `nil` also = "absent"
  | num (s : String)
  | lit (s : String)                     -- literal part of a string
  | str (parts : Tm)                     -- `"…"`: list of `lit` / interpolated terms
  | var (x : String)                     -- `$x` (with the `$`); also a variable pattern
  | arr (t : Tm)                         -- `[t]`, `[]` = `arr nil`; as a pattern: list of patterns
  | kv (k v : Tm)                        -- object entry `k: v` (`v = nil`: `{$x}` / `{k}`)
  | obj (entries : Tm)                   -- `{…}`; as a pattern: list of `kv key pattern`
  | neg (t : Tm)
  | call (name : String) (args : Tm)     -- `f`, `f(a; b)`
  | pipe (l r : Tm)                      -- `l | r`
  | bind (l pat r : Tm)                  -- `l as pat | r`
  | comma (l r : Tm)
  | bin (op : String) (l r : Tm)         -- "and" "or" "alt" "update" "assign" "updateAdd" … "Add" … "Eq" "Lt" …
  | ite (c t e : Tm)                     -- `if c then t else e end` (`e = nil`: no else; `elif` nests)
  | def_ (name : String) (params : List String) (body rest : Tm)   -- `def name(params): body; rest`
  | reduce (xs pat init upd : Tm)        -- `reduce xs as pat (init; upd)`
  | pidx (i : Tm) (opt : Bool)           -- path part `[i]` / `.k`, `?`
  | prange (a b : Tm) (opt : Bool)       -- path part `[a:b]`, `[]` = `prange nil nil`
  | path (head parts : Tm)               -- `head` followed by path parts
  | other (dbg : String)                 -- anything else, as the parser's `Debug` output
  deriving DecidableEq, Repr

/-- (file, name, parameters, body) -/
abbrev DefRow := String × String × List String × Tm

end Jaq.Coll
