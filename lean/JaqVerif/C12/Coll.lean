/-
  C12 — impl-model of the collection built-ins over the shared `Jaq.Val`.

  Natives are hand models of `/repo/jaq-std/src/lib.rs` and `/repo/jaq-json/src/funs.rs`;
  filters defined in `defs.jq` are modelled by transcribing their definition onto the value
  operations (`Val.cmp`, `Val.eq`, `Val.add`, `Val.neg`, `Obj.*`).

  Switches for the three findings of DESIGN §7 (F-12a, F-12b, F-12c) are at the top:
  `false` = the model follows the *unfixed* tree; the integrator flips them with the fix.
-/
import JaqVerif.Val.Arith
import JaqVerif.C12.Sort

namespace Jaq.Coll

/-! ## switches: does the model follow the fixed code? -/

/-- F-12a: `f <= isize::MAX as f64` (current) vs `f < isize::MAX as f64` (design/fixes/C12-round-upper-edge.diff) -/
def fixedRoundGuard : Bool := true
/-- F-12c: `flatten($d)` through `map … | add` (current) vs `[flattens($d)]` (design/fixes/C12-flatten-depth.diff) -/
def fixedFlatten : Bool := true
/-- F-12b: `totype` pipes through multi-valued `fromjson` (current) vs exactly one value (design/fixes/C12-tonumber-single.diff) -/
def fixedToType : Bool := true

def sKey : Val := .tstr [107, 101, 121]             -- "key"
def sValue : Val := .tstr [118, 97, 108, 117, 101]  -- "value"
def vInt (i : Int) : Val := .num (.int i)

def errIter (v : Val) : Err := .typ v "iterable (array or object)"
def errArr (v : Val) : Err := .typ v "array"
def errStr (v : Val) : Err := .typ v "string"
def errNum (v : Val) : Err := .typ v "number"

/-! ## sorting natives on `Val` -/

/-- `sort`: `mutate_arr(|a| a.sort())` -/
def sort : Val → ValR
  | .arr a => .ok (.arr (isort Val.cmp a))
  | v => .error (errArr v)

def sortBy (kf : Val → Except Err (List Val)) : Val → ValR
  | .arr a => (sortByKey Val.cmp kf a).map .arr
  | v => .error (errArr v)

def groupBy (kf : Val → Except Err (List Val)) : Val → ValR
  | .arr a => (groupByKey Val.cmp Val.eq kf a).map fun gs => .arr (gs.map .arr)
  | v => .error (errArr v)

def uniqueBy (kf : Val → Except Err (List Val)) : Val → ValR
  | .arr a => (uniqueByKey .null Val.cmp Val.eq kf a).map .arr
  | v => .error (errArr v)

def minBy (kf : Val → Except Err (List Val)) : Val → ValR
  | .arr a => minByKey .null Val.cmp kf a
  | v => .error (errArr v)

def maxBy (kf : Val → Except Err (List Val)) : Val → ValR
  | .arr a => maxByKey .null Val.cmp kf a
  | v => .error (errArr v)

/-! ## keys and entries -/

/-- `ValT::key_values` -/
def keyValues : Val → Except Err (List (Val × Val))
  | .arr a => .ok ((List.range a.length).zip a |>.map fun (i, x) => (vInt (Int.ofNat i), x))
  | .obj o => .ok o
  | v => .error (errIter v)

/-- native `keys_unsorted` (jaq-core/src/funs.rs) -/
def keysUnsorted (v : Val) : ValR := (keyValues v).map fun kvs => .arr (kvs.map (·.1))

/-- `def keys: keys_unsorted | sort;` -/
def keys (v : Val) : ValR := keysUnsorted v >>= sort

def mkEntry (k v : Val) : Val := .obj [(sKey, k), (sValue, v)]

/-- `def to_entries: [key_values[] as [$key, $value] | { $key, $value }];` -/
def toEntries (v : Val) : ValR := (keyValues v).map fun kvs => .arr (kvs.map fun (k, x) => mkEntry k x)

/-- `.[k]` for the two constant keys used by `from_entries` (`index_opt` + `unwrap_or(Null)`) -/
def indexKey (v k : Val) : ValR :=
  match v with
  | .null => .ok .null
  | .obj o => .ok ((Obj.get o k).getD .null)
  | v => .error (.index v k)

/-- `.[]` (`ValT::values`) -/
def values : Val → Except Err (List Val)
  | .arr a => .ok a
  | .obj o => .ok (o.map (·.2))
  | v => .error (errIter v)

/-- one step of `reduce (.[] | { (.key): .value }) as $x ({}; . + $x)` -/
def fromEntriesStep (acc : Obj.Entries) (el : Val) : Except Err Obj.Entries :=
  match indexKey el sKey with
  | .error e => .error e
  | .ok k =>
    match indexKey el sValue with
    | .error e => .error e
    | .ok v => .ok (Obj.extend acc [(k, v)])

def fromEntriesLoop : Obj.Entries → List Val → Except Err Obj.Entries
  | acc, [] => .ok acc
  | acc, el :: rest =>
    match fromEntriesStep acc el with
    | .error e => .error e
    | .ok acc' => fromEntriesLoop acc' rest

/-- `def from_entries: reduce (.[] | { (.key): .value }) as $x ({}; . + $x);` -/
def fromEntries (v : Val) : ValR :=
  match values v with
  | .error e => .error e
  | .ok els => (fromEntriesLoop [] els).map .obj

/-- `with_entries(.)`: `to_entries | map(.) | from_entries` (`map(.)` rebuilds the same array) -/
def withEntriesId (v : Val) : ValR := toEntries v >>= fromEntries

/-! ## `indices`, `index`, `rindex` -/

/-- `x.windows(n).enumerate().filter_map(|(i, w)| (w == y).then_some(i))` for `n = |y| > 0`,
generic in the element type (values with `==`, or bytes) -/
def windowsIdx {α : Type} (eqv : List α → List α → Bool) (y : List α) : Nat → List α → List Nat
  | _, [] => []
  | i, x :: xs =>
    if (x :: xs).length < y.length then []
    else (if eqv ((x :: xs).take y.length) y then [i] else []) ++ windowsIdx eqv y (i + 1) xs

/-- does a window of `n` bytes starting at a character boundary also end at one?
(`ends.binary_search(&(i + y.len()))` of fix 4df8bf5; `chunks` are the characters from the
window's start on) -/
def endsAtBoundary : Nat → List (List UInt8) → Bool
  | 0, _ => true
  | _ + 1, [] => false
  | n + 1, c :: cs => if c.length ≤ n + 1 then endsAtBoundary (n + 1 - c.length) cs else false

/-- since fix 4df8bf5 (`indices` with a needle ending in a truncated UTF-8 sequence) a match has
to end at a character boundary too; `false` is the tree as pinned -/
def fixedIndicesBoundary : Bool := true

/-- the text-string arm: `x.char_indices().map_while(|(i, ..)| x.get(i..i + |y|)).enumerate()`
`.filter_map(|(k, w)| (w == y).then_some(k))` — `rest` is the input from the current character
on, `cs` its remaining characters (byte chunks of `Utf8.chars`) -/
def charWindowsIdx (y : List UInt8) : Nat → List UInt8 → List (List UInt8) → List Nat
  | _, _, [] => []
  | k, rest, ch :: cs =>
    if rest.length < y.length then []        -- `get` fails: `map_while` stops
    else (if rest.take y.length == y && (!fixedIndicesBoundary || endsAtBoundary y.length (ch :: cs))
          then [k] else []) ++ charWindowsIdx y (k + 1) (rest.drop ch.length) cs

/-- `Val::indices` (jaq-json/src/funs.rs) -/
def indicesNat (x y : Val) : Except Err (List Nat) :=
  match x, y with
  | .bstr a, .bstr b =>
    if b.isEmpty then .ok [] else .ok (windowsIdx (fun u v => u == v) b 0 a)
  | .tstr a, .tstr b =>
    if b.isEmpty then .ok [] else .ok (charWindowsIdx b 0 a (Utf8.chars a))
  | .arr a, .arr b =>
    if b.isEmpty then .ok [] else .ok (windowsIdx (listEq Val.eq) b 0 a)
  | .arr a, y => .ok ((List.range a.length).zip a |>.filterMap fun (i, v) => if Val.eq v y then some i else none)
  | x, y => .error (.index x y)

def indices (x y : Val) : ValR :=
  (indicesNat x y).map fun is => .arr (is.map fun i => vInt (Int.ofNat i))

/-- `def index($i): indices($i)[0];` -/
def index (x y : Val) : ValR := (indicesNat x y).map fun is =>
  match is.head? with
  | some i => vInt (Int.ofNat i)
  | none => .null

/-- `def rindex($i): indices($i)[-1];` -/
def rindex (x y : Val) : ValR := (indicesNat x y).map fun is =>
  match is.getLast? with
  | some i => vInt (Int.ofNat i)
  | none => .null

/-! ## `contains`, `inside` -/

/-- `contains_str`: substring on bytes -/
def isInfixB (pat : List UInt8) : List UInt8 → Bool
  | [] => pat.isEmpty
  | b :: s => pat.isPrefixOf (b :: s) || isInfixB pat s

/-- `Val::contains` with recursion fuel -/
def containsF : Nat → Val → Val → Bool
  | 0, _, _ => false
  | n + 1, a, b =>
    match a, b with
    | .bstr l, .bstr r => isInfixB r l
    | .tstr l, .tstr r => isInfixB r l
    | .arr l, .arr r => r.all fun rv => l.any fun lv => containsF n lv rv
    | .obj l, .obj r => r.all fun (k, rv) =>
        match Obj.get l k with
        | some lv => containsF n lv rv
        | none => false
    | a, b => Val.eq a b

def contains (a b : Val) : Bool := containsF (a.size + b.size) a b

/-- `def inside(xs): . as $x | xs | contains($x);` -/
def inside (a b : Val) : Bool := contains b a

/-! ## type tests and `type` (jaq-std/src/defs.jq) -/

def vLt (a b : Val) : Bool := Val.cmp a b == .lt
def vGt (a b : Val) : Bool := Val.cmp a b == .gt
def vGe (a b : Val) : Bool := Val.cmp a b != .lt

def eStr : Val := .tstr []
def eArr : Val := .arr []
def eObj : Val := .obj []

/-- `def isboolean: . == true or . == false;` -/
def isboolean (v : Val) : Bool := Val.eq v (.bool true) || Val.eq v (.bool false)
/-- `def isnumber:  . > true and . < "";` -/
def isnumber (v : Val) : Bool := vGt v (.bool true) && vLt v eStr
/-- `def isstring:  . >= ""  and . < [];` -/
def isstring (v : Val) : Bool := vGe v eStr && vLt v eArr
/-- `def isarray:   . >= []  and . < {};` -/
def isarray (v : Val) : Bool := vGe v eArr && vLt v eObj
/-- `def isobject:  . >= {};` -/
def isobject (v : Val) : Bool := vGe v eObj

def bytesOfAscii (s : String) : List UInt8 := s.toList.map fun c => UInt8.ofNat c.toNat

/-- `def type: if . == null then "null" elif isboolean then "boolean" elif . < "" then "number"
elif . < [] then "string" elif . < {} then "array" else "object" end;` -/
def typeName (v : Val) : String :=
  if Val.eq v .null then "null"
  else if isboolean v then "boolean"
  else if vLt v eStr then "number"
  else if vLt v eArr then "string"
  else if vLt v eObj then "array"
  else "object"

def typeOf (v : Val) : Val := .tstr (bytesOfAscii (typeName v))

/-- `def abs: if . < 0 then - . end;` -/
def abs (v : Val) : ValR := if vLt v (vInt 0) then Val.neg v else .ok v

/-! ## `flatten` -/

/-- `def add: reduce .[] as $x (null; . + $x)` on the elements -/
def addAll : Val → List Val → ValR
  | acc, [] => .ok acc
  | acc, x :: xs =>
    match Val.add acc x with
    | .error e => .error e
    | .ok acc' => addAll acc' xs

def mapM' {α β ε : Type} (f : α → Except ε β) : List α → Except ε (List β)
  | [] => .ok []
  | x :: xs =>
    match f x with
    | .error e => .error e
    | .ok y =>
      match mapM' f xs with
      | .error e => .error e
      | .ok ys => .ok (y :: ys)

/-- current tree, for an integer depth `$d`; `n` = number of levels still to open
(`$d > 0` ⇔ `n > 0`):
`def flatten($d): if $d > 0 then map(if isarray then flatten($d-1) else [.] end) | add end;` -/
def flattenCurN : Nat → Val → ValR
  | 0, v => .ok v
  | n + 1, v =>
    match values v with                               -- `map(g)` = `[.[] | g]`
    | .error e => .error e
    | .ok els =>
      match mapM' (fun x => if isarray x then flattenCurN n x else .ok (.arr [x])) els with
      | .error e => .error e
      | .ok parts => addAll .null parts

def flattenCur (d : Int) (v : Val) : ValR := flattenCurN d.toNat v

/-- the manual's definition (docs/stdlib.dj):
`def flattens($d): if isarray and $d >= 0 then .[] | flattens($d-1) end;` — `n = $d + 1` -/
def flattensN : Nat → Val → List Val
  | 0, v => [v]
  | n + 1, v =>
    match v with
    | .arr xs => xs.flatMap (flattensN n)
    | v => [v]

def flattens (d : Int) (v : Val) : List Val := if d < 0 then [v] else flattensN (d.toNat + 1) v

/-- the manual's `def flatten($d): [flattens($d)];` -/
def flattenSpec (d : Int) (v : Val) : Val := .arr (flattens d v)

/-- `flatten($d)` as the model follows it (switch) -/
def flattenDepth (d : Int) (v : Val) : ValR :=
  if fixedFlatten then .ok (flattenSpec d v) else flattenCur d v

/-- `def flatten: [recurse(arrays[]) | select(isarray | not)];` with fuel for the recursion:
the non-array leaves of the array tree, left to right -/
def leavesF : Nat → Val → List Val
  | 0, _ => []
  | n + 1, v =>
    match v with
    | .arr xs => xs.flatMap (leavesF n)
    | v => [v]

def leaves (v : Val) : List Val := leavesF v.size v

def flatten0 (v : Val) : Val := .arr (leaves v)

/-! ## `transpose` -/

/-- `length` on the rows `transpose` meets (arrays and `null`; other rows are outside the model) -/
def rowLen : Val → Option Nat
  | .arr a => some a.length
  | .null => some 0
  | _ => none

/-- `.[$i]` on a row -/
def rowGet (i : Nat) : Val → Val
  | .arr a => a[i]?.getD .null
  | _ => .null

/-- `def transpose: [range([.[] | length] | max) as $i | [.[][$i]]];` on an array whose rows
are arrays or `null`; `none` = outside the model.  `max` is `max_by(.)` on the lengths. -/
def rowLenV (r : Val) : Except Unit Val :=
  match rowLen r with
  | some n => .ok (vInt (Int.ofNat n))
  | none => .error ()

def transpose : Val → Option Val
  | .arr rows =>
    match mapM' rowLenV rows with
    | .error _ => none
    | .ok lens =>
      match maxByKey (ε := Unit) .null Val.cmp (fun v => .ok [v]) lens with
      | .ok (.num (.int m)) => some (.arr ((List.range m.toNat).map fun i => .arr (rows.map (rowGet i))))
      | .ok .null => some (.arr [])           -- `range(null)` is empty
      | _ => none
  | _ => none

/-! ## `floor`, `round`, `ceil` -/

inductive RMode where | floor | round | ceil
  deriving DecidableEq, Repr

/-- `2^1074`: one unit of `F64.units` -/
def unitsPerOne : Int := 2 ^ 1074

/-- exact `f64::floor` / `round` (half away from zero) / `ceil` of a finite float, as an integer -/
def exactRound (m : RMode) (b : UInt64) : Int :=
  let u := F64.units b
  match m with
  | .floor => u / unitsPerOne                       -- `Int./` rounds down for a positive divisor
  | .ceil => -((-u) / unitsPerOne)
  | .round => if u < 0 then -((2 * (-u) + unitsPerOne) / (2 * unitsPerOne))
              else (2 * u + unitsPerOne) / (2 * unitsPerOne)

/-- upper guard of `ValTx::round`: `f <= isize::MAX as f64` where `isize::MAX as f64 = 2^63` -/
def roundUpperOk (fixed : Bool) (i : Int) : Bool := if fixed then i < 2 ^ 63 else i ≤ 2 ^ 63

/-- the integer-valued float `f` (given by its exact value `i`) to a number:
in the guarded range `f as isize` (saturating), else `from_num(format!("{f:.0}"))`
(exact decimal expansion, read back as a big integer). -/
def roundConv (fixed : Bool) (i : Int) : Num :=
  if isizeMin ≤ i && roundUpperOk fixed i then
    .int (if i > isizeMax then isizeMax else i)
  else Num.ofInt i

/-- `ValTx::round` on a number -/
def roundNum (fixed : Bool) (m : RMode) (n : Num) : Num :=
  match n with
  | .int i => .int i
  | .big i => .big i
  | n =>
    let b := Num.toF64 n
    if F64.isFinite b then roundConv fixed (exactRound m b) else .float b

def roundVal (m : RMode) : Val → ValR
  | .num n => .ok (.num (roundNum fixedRoundGuard m n))
  | v => .error (errNum v)

/-- what the manual states: the closest smaller / closest / closest larger *integer* -/
def roundSpecNum (m : RMode) (n : Num) : Num :=
  match n with
  | .int i => .int i
  | .big i => .big i
  | n =>
    let b := Num.toF64 n
    if F64.isFinite b then Num.ofInt (exactRound m b) else .float b

/-! ## `tonumber`, `toboolean` -/

/-- `def totype(p; e): if p then . else fromjson | if p then . else e end end;`
`fj` is the output stream of the (third-party) JSON reader on the input: values, ended by at
most one error. -/
def toTypeCur (p : Val → Bool) (e : Err) (v : Val) (fj : List ValR) : List ValR :=
  if p v then [.ok v]
  else
    let rec go : List ValR → List ValR
      | [] => []
      | .error er :: _ => [.error er]
      | .ok y :: rest => if p y then .ok y :: go rest else [.error e]
    go fj

/-- the first error of a stream -/
def firstError : List ValR → Option Err
  | [] => none
  | .error e :: _ => some e
  | .ok _ :: rest => firstError rest

/-- the reading of the manual ("parsed to a number, failing if this does not succeed"):
exactly one output — the single parsed value if it has the type, else a failure
(`[fromjson] | if length == 1 and (.[0] | p) then .[0] else e end`: an error of the reader
is the failure) -/
def toTypeSpec (p : Val → Bool) (e : Err) (v : Val) (fj : List ValR) : List ValR :=
  if p v then [.ok v]
  else
    match firstError fj with
    | some er => [.error er]
    | none =>
      match fj with
      | [.ok y] => if p y then [.ok y] else [.error e]
      | _ => [.error e]

def toType (p : Val → Bool) (e : Err) (v : Val) (fj : List ValR) : List ValR :=
  if fixedToType then toTypeSpec p e v fj else toTypeCur p e v fj

def tonumber := toType isnumber (.str "cannot parse as number")
def toboolean := toType isboolean (.str "cannot parse as boolean")

/-! ## string prefixes and suffixes -/

def asBytes : Val → Option (List UInt8)
  | .bstr b | .tstr b => some b
  | _ => none

/-- same string kind as `v` (`as_sub_str`) -/
def subStr (v : Val) (b : List UInt8) : Val :=
  match v with
  | .bstr _ => .bstr b
  | _ => .tstr b

def isSuffixB (suf s : List UInt8) : Bool := suf.reverse.isPrefixOf s.reverse

def startswith (v s : Val) : ValR :=
  match asBytes v with
  | none => .error (errStr v)
  | some vb =>
    match asBytes s with
    | none => .error (errStr s)
    | some sb => .ok (.bool (sb.isPrefixOf vb))

def endswith (v s : Val) : ValR :=
  match asBytes v with
  | none => .error (errStr v)
  | some vb =>
    match asBytes s with
    | none => .error (errStr s)
    | some sb => .ok (.bool (isSuffixB sb vb))

/-- `strip_fix(.., <[u8]>::strip_prefix)` -/
def ltrimstr (v s : Val) : ValR :=
  match asBytes v with
  | none => .error (errStr v)
  | some vb =>
    match asBytes s with
    | none => .error (errStr s)
    | some sb => .ok (if sb.isPrefixOf vb then subStr v (vb.drop sb.length) else v)

/-- `strip_fix(.., <[u8]>::strip_suffix)` -/
def rtrimstr (v s : Val) : ValR :=
  match asBytes v with
  | none => .error (errStr v)
  | some vb =>
    match asBytes s with
    | none => .error (errStr s)
    | some sb => .ok (if isSuffixB sb vb then subStr v (vb.take (vb.length - sb.length)) else v)

end Jaq.Coll
