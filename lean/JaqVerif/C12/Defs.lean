/-
  C12 — impl-models of the collection filters that exist only as jq definitions
  (`jaq-core/src/defs.jq`, `jaq-json/src/defs.jq`, `jaq-std/src/defs.jq`), transcribed onto the
  natives they are made of (`.[]`, `.[] |= f` = `ValT::map_values`, `.. |= f` = `recurse_update`,
  `.[k] |= f` = `map_index`, `reduce`, `+`, `*`, `has` = `index_opt`), and the syntax trees of
  these definitions as the transcription read them (`expectedDefs`; the real parser's reading of
  the real files is `Gen/C12Defs.lean`, compared in `Props/C12.lean`).

  A filter argument `f` is a function `Flt = Val → List ValR`: all outputs of `f` on an input, in
  order; an error ends the stream.  (Infinite streams are outside the model.)
-/
import JaqVerif.C12.Coll
import JaqVerif.C12.Ast

namespace Jaq.Coll

/-! ## the definitions as transcribed -/

def expectedDefs : List DefRow := [
  -- paths/1  [core]  modelled by `pathsP`
  ("core", "paths", ["p"], (.pipe (.call "skip" (.cons (.num "1") (.cons (.call "path_value" (.cons .dotdot .nil)) .nil))) (.ite (.pipe (.path .id (.cons (.pidx (.num "1") false) .nil)) (.call "p" .nil)) (.path .id (.cons (.pidx (.num "0") false) .nil)) (.call "empty" .nil)))),
  -- getpath/1  [core]  modelled by `getpath`
  ("core", "getpath", ["$path"], (.reduce (.path (.var "$path") (.cons (.prange .nil .nil false) .nil)) (.var "$p") .id (.path .id (.cons (.pidx (.var "$p") false) .nil)))),
  -- delpaths/1  [core]  modelled by `delpaths`
  ("core", "delpaths", ["$paths"], (.reduce (.path (.var "$paths") (.cons (.prange .nil .nil false) .nil)) (.var "$path") .id (.bin "update" (.call "getpath" (.cons (.var "$path") .nil)) (.call "empty" .nil)))),
  -- map/1  [core]  modelled by `mapF`
  ("core", "map", ["f"], (.arr (.pipe (.path .id (.cons (.prange .nil .nil false) .nil)) (.call "f" .nil)))),
  -- map_values/1  [core]  modelled by `mapValues`
  ("core", "map_values", ["f"], (.bin "update" (.path .id (.cons (.prange .nil .nil false) .nil)) (.call "f" .nil))),
  -- walk/1  [core]  modelled by `walk`
  ("core", "walk", ["f"], (.bin "update" .dotdot (.call "f" .nil))),
  -- del/1  [core]  modelled by `delIndexF / delpaths (`del(.[k])`)`
  ("core", "del", ["f"], (.bin "update" (.call "f" .nil) (.call "empty" .nil))),
  -- join/1  [core]  modelled by `join`
  ("core", "join", ["$s"], (.pipe (.bin "update" (.path .id (.cons (.prange .nil .nil false) .nil)) (.call "tostring" .nil)) (.pipe (.bin "updateAdd" (.path .id (.cons (.prange .nil (.neg (.num "1")) false) (.cons (.prange .nil .nil false) .nil))) (.var "$s")) (.reduce (.path .id (.cons (.prange .nil .nil false) .nil)) (.var "$x") (.str .nil) (.bin "Add" .id (.var "$x")))))),
  -- combinations/0  [core]  modelled by `combinations`
  ("core", "combinations", [], (.pipe (.bin "update" (.path .id (.cons (.prange .nil .nil false) (.cons (.prange .nil .nil false) .nil))) (.arr .id)) (.reduce (.path .id (.cons (.prange .nil .nil false) .nil)) (.var "$a") (.arr .nil) (.bin "Add" .id (.path (.var "$a") (.cons (.prange .nil .nil false) .nil)))))),
  -- combinations/1  [core]  modelled by `combinationsN`
  ("core", "combinations", ["$n"], (.pipe (.arr (.call "limit" (.cons (.var "$n") (.cons (.call "repeat" (.cons .id .nil)) .nil)))) (.call "combinations" .nil))),
  -- to_entries/0  [core]  modelled by `toEntries (Coll)`
  ("core", "to_entries", [], (.arr (.bind (.path (.call "key_values" .nil) (.cons (.prange .nil .nil false) .nil)) (.arr (.cons (.var "$key") (.cons (.var "$value") .nil))) (.obj (.cons (.kv (.var "$key") .nil) (.cons (.kv (.var "$value") .nil) .nil)))))),
  -- from_entries/0  [core]  modelled by `fromEntries (Coll)`
  ("core", "from_entries", [], (.reduce (.pipe (.path .id (.cons (.prange .nil .nil false) .nil)) (.obj (.cons (.kv (.path .id (.cons (.pidx (.str (.cons (.lit "key") .nil)) false) .nil)) (.path .id (.cons (.pidx (.str (.cons (.lit "value") .nil)) false) .nil))) .nil))) (.var "$x") (.obj .nil) (.bin "Add" .id (.var "$x")))),
  -- with_entries/1  [core]  modelled by `withEntries`
  ("core", "with_entries", ["f"], (.pipe (.call "to_entries" .nil) (.pipe (.call "map" (.cons (.call "f" .nil) .nil)) (.call "from_entries" .nil)))),
  -- isempty/1  [core]  modelled by `(inside allG/anyG)`
  ("core", "isempty", ["g"], (.call "first" (.cons (.comma (.pipe (.call "g" .nil) (.call "false" .nil)) (.call "true" .nil)) .nil))),
  -- all/2  [core]  modelled by `allG`
  ("core", "all", ["g", "cond"], (.call "isempty" (.cons (.pipe (.call "g" .nil) (.bin "and" (.call "cond" .nil) (.call "empty" .nil))) .nil))),
  -- any/2  [core]  modelled by `anyG`
  ("core", "any", ["g", "cond"], (.pipe (.call "isempty" (.cons (.pipe (.call "g" .nil) (.bin "or" (.call "cond" .nil) (.call "empty" .nil))) .nil)) (.call "not" .nil))),
  -- all/1  [core]  modelled by `allF`
  ("core", "all", ["cond"], (.call "all" (.cons (.path .id (.cons (.prange .nil .nil false) .nil)) (.cons (.call "cond" .nil) .nil)))),
  -- any/1  [core]  modelled by `anyF`
  ("core", "any", ["cond"], (.call "any" (.cons (.path .id (.cons (.prange .nil .nil false) .nil)) (.cons (.call "cond" .nil) .nil)))),
  -- all/0  [core]  modelled by `all0`
  ("core", "all", [], (.call "all" (.cons (.path .id (.cons (.prange .nil .nil false) .nil)) (.cons .id .nil)))),
  -- any/0  [core]  modelled by `any0`
  ("core", "any", [], (.call "any" (.cons (.path .id (.cons (.prange .nil .nil false) .nil)) (.cons .id .nil)))),
  -- totype/2  [json]  modelled by `toTypeSpec (Coll)`
  ("json", "totype", ["p", "e"], (.ite (.call "p" .nil) .id (.pipe (.arr (.call "fromjson" .nil)) (.ite (.bin "and" (.bin "Eq" (.call "length" .nil) (.num "1")) (.pipe (.path .id (.cons (.pidx (.num "0") false) .nil)) (.call "p" .nil))) (.path .id (.cons (.pidx (.num "0") false) .nil)) (.call "e" .nil))))),
  -- tonumber/0  [json]  modelled by `tonumber (Coll)`
  ("json", "tonumber", [], (.call "totype" (.cons (.call "isnumber" .nil) (.cons (.call "error" (.cons (.str (.cons (.lit "cannot parse as number") .nil)) .nil)) .nil)))),
  -- toboolean/0  [json]  modelled by `toboolean (Coll)`
  ("json", "toboolean", [], (.call "totype" (.cons (.call "isboolean" .nil) (.cons (.call "error" (.cons (.str (.cons (.lit "cannot parse as boolean") .nil)) .nil)) .nil)))),
  -- transpose/0  [json]  modelled by `transpose (Coll)`
  ("json", "transpose", [], (.arr (.bind (.call "range" (.cons (.pipe (.arr (.pipe (.path .id (.cons (.prange .nil .nil false) .nil)) (.call "length" .nil))) (.call "max" .nil)) .nil)) (.var "$i") (.arr (.path .id (.cons (.prange .nil .nil false) (.cons (.pidx (.var "$i") false) .nil))))))),
  -- in/1  [json]  modelled by `inF`
  ("json", "in", ["xs"], (.bind .id (.var "$x") (.pipe (.call "xs" .nil) (.call "has" (.cons (.var "$x") .nil))))),
  -- inside/1  [json]  modelled by `inside (Coll)`
  ("json", "inside", ["xs"], (.bind .id (.var "$x") (.pipe (.call "xs" .nil) (.call "contains" (.cons (.var "$x") .nil))))),
  -- index/1  [json]  modelled by `index (Coll)`
  ("json", "index", ["$i"], (.path (.call "indices" (.cons (.var "$i") .nil)) (.cons (.pidx (.num "0") false) .nil))),
  -- rindex/1  [json]  modelled by `rindex (Coll)`
  ("json", "rindex", ["$i"], (.path (.call "indices" (.cons (.var "$i") .nil)) (.cons (.pidx (.neg (.num "1")) false) .nil))),
  -- isboolean/0  [std]  modelled by `isboolean (Coll)`
  ("std", "isboolean", [], (.bin "or" (.bin "Eq" .id (.call "true" .nil)) (.bin "Eq" .id (.call "false" .nil)))),
  -- isnumber/0  [std]  modelled by `isnumber (Coll)`
  ("std", "isnumber", [], (.bin "and" (.bin "Gt" .id (.call "true" .nil)) (.bin "Lt" .id (.str .nil)))),
  -- isstring/0  [std]  modelled by `isstring (Coll)`
  ("std", "isstring", [], (.bin "and" (.bin "Ge" .id (.str .nil)) (.bin "Lt" .id (.arr .nil)))),
  -- isarray/0  [std]  modelled by `isarray (Coll)`
  ("std", "isarray", [], (.bin "and" (.bin "Ge" .id (.arr .nil)) (.bin "Lt" .id (.obj .nil)))),
  -- isobject/0  [std]  modelled by `isobject (Coll)`
  ("std", "isobject", [], (.bin "Ge" .id (.obj .nil))),
  -- abs/0  [std]  modelled by `abs (Coll)`
  ("std", "abs", [], (.ite (.bin "Lt" .id (.num "0")) (.neg .id) .nil)),
  -- type/0  [std]  modelled by `typeName (Coll)`
  ("std", "type", [], (.ite (.bin "Eq" .id (.call "null" .nil)) (.str (.cons (.lit "null") .nil)) (.ite (.call "isboolean" .nil) (.str (.cons (.lit "boolean") .nil)) (.ite (.bin "Lt" .id (.str .nil)) (.str (.cons (.lit "number") .nil)) (.ite (.bin "Lt" .id (.arr .nil)) (.str (.cons (.lit "string") .nil)) (.ite (.bin "Lt" .id (.obj .nil)) (.str (.cons (.lit "array") .nil)) (.str (.cons (.lit "object") .nil)))))))),
  -- values/0  [std]  modelled by `selValues`
  ("std", "values", [], (.call "select" (.cons (.bin "Ne" .id (.call "null" .nil)) .nil))),
  -- nulls/0  [std]  modelled by `selNulls`
  ("std", "nulls", [], (.call "select" (.cons (.bin "Eq" .id (.call "null" .nil)) .nil))),
  -- booleans/0  [std]  modelled by `sel isboolean`
  ("std", "booleans", [], (.call "select" (.cons (.call "isboolean" .nil) .nil))),
  -- numbers/0  [std]  modelled by `sel isnumber`
  ("std", "numbers", [], (.call "select" (.cons (.call "isnumber" .nil) .nil))),
  -- strings/0  [std]  modelled by `sel isstring`
  ("std", "strings", [], (.call "select" (.cons (.call "isstring" .nil) .nil))),
  -- arrays/0  [std]  modelled by `sel isarray`
  ("std", "arrays", [], (.call "select" (.cons (.call "isarray" .nil) .nil))),
  -- objects/0  [std]  modelled by `sel isobject`
  ("std", "objects", [], (.call "select" (.cons (.call "isobject" .nil) .nil))),
  -- iterables/0  [std]  modelled by `selIterables`
  ("std", "iterables", [], (.call "select" (.cons (.bin "Ge" .id (.arr .nil)) .nil))),
  -- scalars/0  [std]  modelled by `selScalars`
  ("std", "scalars", [], (.call "select" (.cons (.bin "Lt" .id (.arr .nil)) .nil))),
  -- add/1  [std]  modelled by `addG`
  ("std", "add", ["f"], (.reduce (.call "f" .nil) (.var "$x") (.call "null" .nil) (.bin "Add" .id (.var "$x")))),
  -- add/0  [std]  modelled by `add0`
  ("std", "add", [], (.call "add" (.cons (.path .id (.cons (.prange .nil .nil false) .nil)) .nil))),
  -- min_by/1  [std]  modelled by `minByKey (Sort)`
  ("std", "min_by", ["f"], (.reduce (.call "min_by_or_empty" (.cons (.call "f" .nil) .nil)) (.var "$x") (.call "null" .nil) (.var "$x"))),
  -- max_by/1  [std]  modelled by `maxByKey (Sort)`
  ("std", "max_by", ["f"], (.reduce (.call "max_by_or_empty" (.cons (.call "f" .nil) .nil)) (.var "$x") (.call "null" .nil) (.var "$x"))),
  -- min/0  [std]  modelled by `minBy on `.``
  ("std", "min", [], (.call "min_by" (.cons .id .nil))),
  -- max/0  [std]  modelled by `maxBy on `.``
  ("std", "max", [], (.call "max_by" (.cons .id .nil))),
  -- unique_by/1  [std]  modelled by `uniqueByKey (Sort)`
  ("std", "unique_by", ["f"], (.arr (.pipe (.path (.call "group_by" (.cons (.call "f" .nil) .nil)) (.cons (.prange .nil .nil false) .nil)) (.path .id (.cons (.pidx (.num "0") false) .nil))))),
  -- unique/0  [std]  modelled by `uniqueBy on `.``
  ("std", "unique", [], (.call "unique_by" (.cons .id .nil))),
  -- pick/1  [std]  modelled by `pick`
  ("std", "pick", ["f"], (.reduce (.call "path_value" (.cons (.call "f" .nil) .nil)) (.arr (.cons (.var "$path") (.cons (.var "$value") .nil))) (.obj .nil) (.bin "Mul" .id (.reduce (.pipe (.var "$path") (.path (.call "reverse" .nil) (.cons (.prange .nil .nil false) .nil))) (.var "$p") (.var "$value") (.obj (.cons (.kv (.var "$p") .id) .nil)))))),
  -- keys/0  [std]  modelled by `keys (Coll)`
  ("std", "keys", [], (.pipe (.call "keys_unsorted" .nil) (.call "sort" .nil))),
  -- flatten/0  [std]  modelled by `flatten0 (Coll)`
  ("std", "flatten", [], (.arr (.pipe (.call "recurse" (.cons (.path (.call "arrays" .nil) (.cons (.prange .nil .nil false) .nil)) .nil)) (.call "select" (.cons (.pipe (.call "isarray" .nil) (.call "not" .nil)) .nil))))),
  -- flatten/1  [std]  modelled by `flattenSpec (Coll)`
  ("std", "flatten", ["$d"], (.def_ "rec" ["$d"] (.ite (.bin "and" (.call "isarray" .nil) (.bin "Ge" (.var "$d") (.num "0"))) (.pipe (.path .id (.cons (.prange .nil .nil false) .nil)) (.call "rec" (.cons (.bin "Sub" (.var "$d") (.num "1")) .nil))) .nil) (.arr (.call "rec" (.cons (.var "$d") .nil))))),
  -- split/2  [std]  modelled by `splitRe`
  ("std", "split", ["re", "flags"], (.call "split_" (.cons (.call "re" .nil) (.cons (.bin "Add" (.call "flags" .nil) (.str (.cons (.lit "g") .nil))) .nil)))),
  -- splits/2  [std]  modelled by `splits`
  ("std", "splits", ["re", "flags"], (.path (.call "split" (.cons (.call "re" .nil) (.cons (.call "flags" .nil) .nil))) (.cons (.prange .nil .nil false) .nil))),
  -- splits/1  [std]  modelled by `splits1`
  ("std", "splits", ["re"], (.call "splits" (.cons (.call "re" .nil) (.cons (.str .nil) .nil))))
]

/-! ## streams -/

abbrev Flt := Val → List ValR

/-- `collect::<Result<Vec<_>, _>>()` / array construction `[…]`: the values up to the first error -/
def collect : List ValR → Except Err (List Val)
  | [] => .ok []
  | .error e :: _ => .error e
  | .ok v :: rest =>
    match collect rest with
    | .error e => .error e
    | .ok vs => .ok (v :: vs)

/-- a stream stops after its first error -/
def cut : List ValR → List ValR
  | [] => []
  | .error e :: _ => [.error e]
  | .ok v :: rest => .ok v :: cut rest

/-- `ValT::as_bool`: everything but `null` and `false` -/
def asBool : Val → Bool
  | .null | .bool false => false
  | _ => true

/-- a filter with exactly one output -/
def pureF (g : Val → Val) : Flt := fun v => [.ok (g v)]

/-! ## `map`, `map_values`, `walk` -/

/-- `def map(f): [.[] | f];` -/
def mapF (f : Flt) (v : Val) : ValR :=
  match values v with
  | .error e => .error e
  | .ok els => (collect (els.flatMap f)).map .arr

/-- the object arm of `ValT::map_values`:
`o.into_iter().filter_map(|(k, v)| f(v).next().map(|v| Ok((k, v?)))).collect()` — the first
output replaces the value, no output removes the entry, an error is the result -/
def updEntries (g : Flt) : Obj.Entries → Except Err Obj.Entries
  | [] => .ok []
  | (k, x) :: rest =>
    match g x with
    | [] => updEntries g rest
    | .error e :: _ => .error e
    | .ok y :: _ =>
      match updEntries g rest with
      | .error e => .error e
      | .ok r => .ok ((k, y) :: r)

/-- `ValT::map_values(opt, f)` = `.[] |= f` (`opt = false`) / `.[]? |= f` (`opt = true`):
arrays are flat-mapped (`a.into_iter().flat_map(f).collect()`: ALL outputs), objects keep the
first output per entry -/
def mapValuesOpt (opt : Bool) (g : Flt) : Val → ValR
  | .arr a => (collect (a.flatMap g)).map .arr
  | .obj o => (updEntries g o).map .obj
  | v => if opt then .ok v else .error (errIter v)

/-- `def map_values(f): .[] |= f;` -/
def mapValues (f : Flt) (v : Val) : ValR := mapValuesOpt false f v

/-- `recurse_update(v, f) = then(v.map_values(Optional, |v| recurse_update(v, f)), f)`:
children first, then the value itself; all outputs of `f` on the rebuilt value -/
def walkF : Nat → Flt → Val → List ValR
  | 0, f, v => f v
  | n + 1, f, v =>
    match mapValuesOpt true (walkF n f) v with
    | .error e => [.error e]
    | .ok v' => f v'

/-- `def walk(f): .. |= f;` -/
def walk (f : Flt) (v : Val) : List ValR := walkF v.size f v

/-! ## `with_entries(f)` -/

/-- `def with_entries(f): to_entries | map(f) | from_entries;` -/
def withEntries (f : Flt) (v : Val) : ValR :=
  match toEntries v with
  | .error e => .error e
  | .ok es =>
    match mapF f es with
    | .error e => .error e
    | .ok es' => fromEntries es'

/-! ## `add`, `all`, `any` -/

/-- `reduce f as $x (acc; . + $x)` on the outputs of `f`: the first failure — of the stream or of
`+` — in pulling order is the result -/
def addS : Val → List ValR → ValR
  | acc, [] => .ok acc
  | _, .error e :: _ => .error e
  | acc, .ok x :: rest =>
    match Val.add acc x with
    | .error e => .error e
    | .ok acc' => addS acc' rest

/-- `def add(f): reduce f as $x (null; . + $x);` on the outputs of `f` -/
def addG (fs : List ValR) : ValR := addS .null fs

/-- `def add: add(.[]);` -/
def add0 (v : Val) : ValR :=
  match values v with
  | .error e => .error e
  | .ok els => addAll .null els

/-- `isempty(g | cond and empty)`: the first item decides — an error fails, a falsy output of
`cond` answers `false`; none at all answers `true` -/
def firstFalsy : List ValR → ValR
  | [] => .ok (.bool true)
  | .error e :: _ => .error e
  | .ok c :: rest => if asBool c then firstFalsy rest else .ok (.bool false)

/-- `isempty(g | cond or empty) | not` -/
def firstTruthy : List ValR → ValR
  | [] => .ok (.bool false)
  | .error e :: _ => .error e
  | .ok c :: rest => if asBool c then .ok (.bool true) else firstTruthy rest

/-- `l | r` on streams -/
def pipeS (s : List ValR) (f : Flt) : List ValR :=
  s.flatMap fun
    | .ok x => f x
    | .error e => [.error e]

/-- `def all(g; cond): isempty(g | cond and empty);` -/
def allG (gs : List ValR) (cond : Flt) : ValR := firstFalsy (pipeS gs cond)
/-- `def any(g; cond): isempty(g | cond  or empty) | not;` -/
def anyG (gs : List ValR) (cond : Flt) : ValR := firstTruthy (pipeS gs cond)

/-- `.[]` as a stream -/
def iterS (v : Val) : List ValR :=
  match values v with
  | .error e => [.error e]
  | .ok els => els.map .ok

/-- `def all(cond): all(.[]; cond);`  `def any(cond): any(.[]; cond);` -/
def allF (cond : Flt) (v : Val) : ValR := allG (iterS v) cond
def anyF (cond : Flt) (v : Val) : ValR := anyG (iterS v) cond
/-- `def all: all(.[]; .);`  `def any: any(.[]; .);` -/
def all0 (v : Val) : ValR := allF (pureF id) v
def any0 (v : Val) : ValR := anyF (pureF id) v

/-! ## selection filters -/

/-- `select(p)` for a predicate with one boolean output -/
def sel (p : Val → Bool) (v : Val) : List Val := if p v then [v] else []
/-- `def values: select(. != null);` -/
def selValues (v : Val) : List Val := sel (fun v => !Val.eq v .null) v
/-- `def nulls: select(. == null);` -/
def selNulls (v : Val) : List Val := sel (fun v => Val.eq v .null) v
/-- `def iterables: select(. >= []);` -/
def selIterables (v : Val) : List Val := sel (fun v => vGe v eArr) v
/-- `def scalars: select(. < []);` -/
def selScalars (v : Val) : List Val := sel (fun v => vLt v eArr) v

/-! ## `has`, `in` -/

/-- `PosUsize::wrap` + `abs_index` for a machine integer index -/
def absIndex (i : Int) (len : Nat) : Option Nat :=
  if 0 ≤ i then (if i.toNat < len then some i.toNat else none)
  else if i.natAbs ≤ len then some (len - i.natAbs) else none

/-- native `has($k)` = `index_opt(k).is_some()`, on the containers the property names:
`none` = outside this model (slices `{start, end}`, big integers, byte strings) -/
def hasF (v k : Val) : Option ValR :=
  match v, k with
  | .null, _ => some (.ok (.bool false))
  | .obj o, k => some (.ok (.bool (Obj.has o k)))
  | .arr a, .num (.int i) => some (.ok (.bool (absIndex i a.length).isSome))
  | .arr _, .arr _ => some (.ok (.bool true))        -- `.[$array]` is `indices`: always a value
  | .arr _, .obj _ => none
  | .arr _, .num (.big _) => none
  | .bstr _, _ => none
  | .tstr _, .obj _ => none                          -- a slice `{start, end}` of a text string
  | v, k => some (.error (.index v k))

/-- `def in(xs): . as $x | xs | has($x);` (`xs` with one output) -/
def inF (k xs : Val) : Option ValR := hasF xs k

/-! ## `join` -/

/-- `def join($s): .[] |= tostring | .[:-1][] += $s | reduce .[] as $x (""; . + $x);`
`ts` is `tostring` (JSON printing is C07's; the correspondence passes the real images) -/
def join (ts : Val → Val) (s : Val) (v : Val) : ValR :=
  match mapValues (pureF ts) v with                    -- `.[] |= tostring`
  | .error e => .error e
  | .ok (.arr strs) =>
    -- `.[:-1][] += $s`: every element but the last gets `. + $s`
    match mapM' (fun x => Val.add x s) strs.dropLast with
    | .error e => .error e
    | .ok pre => addAll (.tstr []) (pre ++ (strs.drop (strs.length - 1)))
  | .ok w => .error (errArr w)                          -- `.[:-1]` of an object

/-! ## `combinations` -/

/-- `reduce .[] as $a ([]; . + $a[])` where every `$a[]` is `[x]`: a `reduce` whose update has
several outputs continues with each of them (first row slowest) -/
def combos : List (List Val) → List (List Val) → List (List Val)
  | accs, [] => accs
  | accs, row :: rows => combos (accs.flatMap fun acc => row.map fun x => acc ++ [x]) rows

/-- `def combinations: .[][] |= [.] | reduce .[] as $a ([]; . + $a[]);` -/
def combinations (v : Val) : List ValR :=
  match values v with
  | .error e => [.error e]
  | .ok rows =>
    match mapM' values rows with                       -- `.[][] |= [.]` fails on a scalar row
    | .error e => [.error e]
    | .ok rs => (combos [[]] rs).map fun c => .ok (.arr c)

/-- `def combinations($n): [limit($n; repeat(.))] | combinations;` for `$n ≥ 0` -/
def combinationsN (n : Nat) (v : Val) : List ValR := combinations (.arr (List.replicate n v))

/-! ## `splits` (the regular-expression engine is a parameter) -/

/-- `def split (re; flags): split_(re; flags + "g");` — `sn` is the native `split_` -/
def splitRe (sn : Val → Val → Val → ValR) (re flags v : Val) : ValR :=
  match Val.add flags (.tstr [103]) with
  | .error e => .error e
  | .ok fl => sn re fl v

/-- `def splits(re; flags): split(re; flags)[];` -/
def splits (sn : Val → Val → Val → ValR) (re flags v : Val) : List ValR :=
  match splitRe sn re flags v with
  | .error e => [.error e]
  | .ok r => iterS r

/-- `def splits(re): splits(re; "");` -/
def splits1 (sn : Val → Val → Val → ValR) (re v : Val) : List ValR := splits sn re (.tstr []) v

/-! ## paths: `getpath`, `delpaths`, `del(.[k])`, `paths(p)`, `pick` -/

def errOob (i : Int) : Err := .str ("index " ++ toString i ++ " out of bounds")

/-- `getpath($path) |= empty` on a path of object keys and machine-integer array indices
(`map_index` along the path).  Outer `Option`: `none` = outside this model (slices, big
integers, byte strings).  Inner `Option`: `none` = the value itself is deleted (`. |= empty`). -/
def delPath : List Val → Val → Option (Except Err (Option Val))
  | [], _ => some (.ok none)
  | k :: ks, v =>
    match v with
    | .obj o =>
      match Obj.get o k with
      | some x =>
        match delPath ks x with
        | none => none
        | some (.error e) => some (.error e)
        | some (.ok (some y)) => some (.ok (some (.obj (Obj.insert o k y))))
        | some (.ok none) => some (.ok (some (.obj (Obj.swapRemove o k))))
      | none =>                                       -- `Vacant`: `f(null)`
        match delPath ks .null with
        | none => none
        | some (.error e) => some (.error e)
        | some (.ok (some y)) => some (.ok (some (.obj (o ++ [(k, y)]))))
        | some (.ok none) => some (.ok (some (.obj o)))
    | .arr a =>
      match k with
      | .num (.int i) =>
        match absIndex i a.length with
        | none => some (.error (errOob i))
        | some j =>
          match delPath ks (a[j]?.getD .null) with
          | none => none
          | some (.error e) => some (.error e)
          | some (.ok (some y)) => some (.ok (some (.arr (a.set j y))))
          | some (.ok none) => some (.ok (some (.arr (a.eraseIdx j))))
      | .num (.big _) | .obj _ => none
      | k => some (.error (.typ k "integer"))
    | .bstr _ | .tstr _ => none
    | v => some (.error (errIter v))

/-- `def delpaths($paths): reduce $paths[] as $path (.; getpath($path) |= empty);` — the paths
are applied one after the other, each to the result of the previous one; deleting the root
ends the fold without output -/
def delpaths : List (List Val) → Val → Option (List ValR)
  | [], v => some [.ok v]
  | p :: ps, v =>
    match delPath p v with
    | none => none
    | some (.error e) => some [.error e]
    | some (.ok none) => some []
    | some (.ok (some v')) => delpaths ps v'

/-- `def del(f): f |= empty;` for `f = .[k]` -/
def delIndex (k : Val) (v : Val) : Option (List ValR) := delpaths [[k]] v

/-- `path_value(..)`: every sub-value with its path, parents first (`rp` = reversed path) -/
def pathValuesF : Nat → List Val → Val → List (List Val × Val)
  | 0, _, _ => []
  | n + 1, rp, v =>
    (rp.reverse, v) ::
      match v with
      | .arr a => ((List.range a.length).zip a).flatMap fun ix => pathValuesF n (vInt (Int.ofNat ix.1) :: rp) ix.2
      | .obj o => o.flatMap fun kx => pathValuesF n (kx.1 :: rp) kx.2
      | _ => []

def pathValues (v : Val) : List (List Val × Val) := pathValuesF v.size [] v

/-- one element of `paths(p)`: `if .[1] | p then .[0] else empty end` on `[path, value]` -/
def pathsStep (p : Flt) (pv : List Val × Val) : List ValR :=
  (p pv.2).flatMap fun
    | .error e => [.error e]
    | .ok c => if asBool c then [.ok (.arr pv.1)] else []

/-- `def paths(p): skip(1; path_value(..)) | if .[1] | p then .[0] else empty end;` -/
def pathsP (p : Flt) (v : Val) : List ValR := cut (((pathValues v).drop 1).flatMap (pathsStep p))

/-- `reduce ($path | reverse[]) as $p ($value; {($p): .})` -/
def nest (path : List Val) (x : Val) : Val := path.foldr (fun p acc => .obj [(p, acc)]) x

/-- `def pick(f): reduce path_value(f) as [$path, $value] ({}; . * (nest));` on the outputs of
`path_value(f)` -/
def pickLoop : Val → List (List Val × Val) → ValR
  | acc, [] => .ok acc
  | acc, (path, x) :: rest =>
    match Val.mul acc (nest path x) with
    | .error e => .error e
    | .ok acc' => pickLoop acc' rest

def pick (pvs : List (List Val × Val)) : ValR := pickLoop (.obj []) pvs

/-- `.[k]` read access along a path of object keys / in-range indices (`getpath`), where defined -/
def getpathL : List Val → Val → Option Val
  | [], v => some v
  | k :: ks, .obj o => (Obj.get o k).bind (getpathL ks)
  | .num (.int i) :: ks, .arr a => ((absIndex i a.length).bind fun j => a[j]?).bind (getpathL ks)
  | _, _ => none

end Jaq.Coll
