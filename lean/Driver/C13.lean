import Driver.Common
import JaqVerif.C13.Filters

namespace Jaq.Driver.C13
open Jaq.C13

def showRes : Res → String
  | .ok v => "V " ++ showVal v
  | .err => "E"
  | .unsupported => "unsupported"

def strOf : Val → Option Bytes
  | .tstr b => some b
  | _ => none

/-- `ncaps (k (start stop name)*)*` -/
partial def parseCaps (toks : List String) : Option (List (List Cap)) :=
  let rec groups (k : Nat) (toks : List String) (acc : List Cap) : Option (List Cap × List String) :=
    match k with
    | 0 => some (acc.reverse, toks)
    | k + 1 =>
      match toks with
      | a :: b :: nm :: rest =>
        match a.toNat?, b.toNat?, Val.parseVXs [nm] 1 with
        | some x, some y, some ([v], []) => groups k rest ({ start := x, stop := y, name := strOf v } :: acc)
        | _, _, _ => none
      | _ => none
  let rec ms (n : Nat) (toks : List String) (acc : List (List Cap)) : Option (List (List Cap)) :=
    match n with
    | 0 => if toks.isEmpty then some acc.reverse else none
    | n + 1 =>
      match toks with
      | k :: rest =>
        match k.toNat? with
        | some k =>
          match groups k rest [] with
          | some (g, rest') => ms n rest' (g :: acc)
          | none => none
        | none => none
      | [] => none
  match toks with
  | n :: rest => match n.toNat? with | some n => ms n rest [] | none => none
  | [] => none

def handlers : List (String × Handler) := [
  ("c13.f", fun toks =>
    match toks with
    | op :: rest =>
      match Val.parseVXs rest 1 with
      | some ([v], rest') =>
        -- remaining tokens: 0, 1 or 2 argument values
        let args : Option (List Val) :=
          if rest'.isEmpty then some []
          else match Val.parseVXs rest' 1 with
            | some ([a], []) => some [a]
            | some ([a], r2) => (match Val.parseVXs r2 1 with | some ([b], []) => some [a, b] | _ => none)
            | _ => none
        match args with
        | some as => showRes (filterRun op v as)
        | none => "bad-request"
      | _ => "bad-request"
    | _ => "bad-request"),
  ("c13.fmt", fun toks =>
    match toks with
    | name :: rest => withVals 5 rest fun vs =>
      match vs with
      | [.tstr l0, v0, .tstr l1, v1, .tstr l2] => showRes (fmtString name l0 v0 l1 v1 l2)
      | _ => "bad-request"
    | _ => "bad-request"),
  -- ROUND 2: `c13.fmtn <name> (L <vx> | I <vx>)*` — any interleaving of literal and interpolated parts
  ("c13.fmtn", fun toks =>
    match toks with
    | name :: rest =>
      let rec go (fuel : Nat) (toks : List String) (acc : List FmtPart) : Option (List FmtPart) :=
        match fuel, toks with
        | _, [] => some acc.reverse
        | 0, _ => none
        | fuel + 1, tag :: rest =>
          match Val.parseVXs rest 1 with
          | some ([v], rest') =>
            if tag == "L" then (match v with | .tstr l => go fuel rest' (.lit l :: acc) | _ => none)
            else if tag == "I" then go fuel rest' (.interp v :: acc)
            else none
          | _ => none
      match go (rest.length + 1) rest [] with
      | some parts => showRes (fmtStringN name parts)
      | none => "bad-request"
    | _ => "bad-request"),
  ("c13.rx", fun toks =>
    match toks with
    | kind :: g :: n :: rest =>
      match Val.parseVXs rest 1 with
      | some ([.tstr s], rest') =>
        match parseCaps rest' with
        | some caps =>
          match rxRun kind (g == "T") (n == "T") s caps with
          | some (some v) => "V " ++ showVal v
          | some none => "PANIC"
          | none => "bad-request"
        | none => "bad-request"
      | _ => "bad-request"
    | _ => "bad-request"),
  -- ROUND 2: the engine contract (ordered, inside, on character boundaries) evaluated on a real engine result
  ("c13.rxc", fun toks =>
    match Val.parseVXs toks 1 with
    | some ([.tstr s], rest') =>
      match parseCaps rest' with
      | some caps => if contractB s caps then "T" else "F"
      | none => "bad-request"
    | _ => "bad-request")
]

end Jaq.Driver.C13
