import Driver.Common
import JaqVerif.C09.Consumers

namespace Jaq.Driver.C09
open Jaq.C09

def binop (op : String) (a b : Val) : String :=
  match op with
  | "add" => showValR (Val.add a b)
  | "sub" => showValR (Val.sub a b)
  | "mul" => showValR (Val.mul a b)
  | "div" => showValR (Val.div a b)
  | "rem" => showValR (Val.rem a b)
  | _ => "bad-op"

def showOrd : Ordering → String
  | .lt => "lt"
  | .eq => "eq"
  | .gt => "gt"

def showC {α : Type} (f : α → String) : Except CErr α → String
  | .ok v => "V " ++ f v
  | .error e => "E " ++ e.cls

def optVal : Option Val → Val
  | some v => v
  | none => .null

/-- `ldexp(1.0; i)` = 2^i correctly rounded (exact for the normal range, subnormal below, overflow above) -/
def ldexp1 (i : Int) : UInt64 :=
  if i > 1100 then F64.posInf
  else if i < -1200 then F64.posZero
  else if i ≥ 0 then F64.roundRat false (2 ^ i.toNat) 1
  else F64.roundRat false 1 (2 ^ (-i).toNat)

/-- items of a run: the marker `true` stands for an error item -/
def isMarker : Val → Bool
  | .bool true => true
  | _ => false

/-- the generator of the harness raises an error for the element `"E"` -/
def markErr : Val → Val
  | .tstr [0x45] => .bool true
  | v => v

def pairsOf : List Val → Option (List (Val × Val))
  | [] => some []
  | .arr [k, v] :: r => (pairsOf r).map fun t => (k, v) :: t
  | _ => none

def strsOf : List Val → Option (List (List UInt8))
  | [] => some []
  | .tstr b :: r => (strsOf r).map fun t => b :: t
  | _ => none

def two (toks : List String) (f : Val → Val → String) : String :=
  withVals 2 toks fun vs =>
    match vs with
    | [a, b] => f a b
    | _ => "bad-request"

def three (toks : List String) (f : Val → Val → Val → String) : String :=
  withVals 3 toks fun vs =>
    match vs with
    | [a, b, c] => f a b c
    | _ => "bad-request"

def handlers : List (String × Handler) := [
  ("c09.bin", fun toks =>
    match toks with
    | op :: rest => withVals 2 rest fun vs =>
      match vs with
      | [a, b] => binop op a b
      | _ => "bad-request"
    | _ => "bad-request"),
  ("c09.neg", fun toks => withVals 1 toks fun vs =>
    match vs with
    | [a] => showValR (Val.neg a)
    | _ => "bad-request"),
  ("c09.cmp", fun toks => two toks fun a b =>
    match a, b with
    | .num x, .num y => showOrd (numCmp x y)
    | _, _ => "bad-request"),
  ("c09.eq", fun toks => two toks fun a b =>
    match a, b with
    | .num x, .num y => if Num.eq x y then "T" else "F"
    | _, _ => "bad-request"),
  ("c09.len", fun toks => withVals 1 toks fun vs =>
    match vs with
    | [.num n] => "V " ++ showVal (.num (Num.length n))
    | _ => "bad-request"),
  ("c09.idx", fun toks => two toks fun c i =>
    match c with
    | .arr a => showC (fun o => showVal (optVal o)) (indexArr a i)
    | .bstr b => showC (fun o => showVal (optVal o)) (indexBytes b i)
    | _ => "bad-request"),
  ("c09.slice", fun toks => three toks fun c lo hi =>
    match c with
    | .arr a => showC (fun r => showVal (.arr r)) (sliceArr a lo hi)
    | .bstr b => showC (fun r => showVal (.bstr r)) (sliceBytes b lo hi)
    | .tstr b => showC (fun r => showVal (.tstr r)) (sliceText b lo hi)
    | _ => "bad-request"),
  ("c09.limit", fun toks => two toks fun n xs =>
    match n, xs with
    | .num n, .arr xs => "V " ++ showVal (.arr (limit n (xs.map markErr)))
    | _, _ => "bad-request"),
  ("c09.skip", fun toks => two toks fun n xs =>
    match n, xs with
    | .num n, .arr xs => "V " ++ showVal (.arr (skip isMarker n (xs.map markErr)))
    | _, _ => "bad-request"),
  ("c09.range", fun toks => three toks fun a b c =>
    match a, b, c with
    | .num a, .num b, .num c => "V " ++ showVal (.arr ((range 12 a b c).map .num))
    | _, _, _ => "bad-request"),
  ("c09.tobytes", fun toks => withVals 1 toks fun vs =>
    match vs with
    | [v] =>
      match toBytes v with
      | some b => "V " ++ showVal (.bstr b)
      | none => "E other"
    | _ => "bad-request"),
  ("c09.implode", fun toks => withVals 1 toks fun vs =>
    match vs with
    | [.arr a] => showC (fun b => showVal (.tstr b)) (implode a)
    | _ => "bad-request"),
  ("c09.i32", fun toks => withVals 1 toks fun vs =>
    match vs with
    | [v] => showC (fun i => showVal (.num (.float (ldexp1 i)))) (tryAsI32 v)
    | _ => "bad-request"),
  ("c09.key", fun toks => two toks fun es k =>
    match es with
    | .arr l =>
      match pairsOf l with
      | some ps =>
        let o := Obj.ofList ps
        showVal (.obj o) ++ " | " ++ (match Obj.get o k with | some v => showVal v | none => "-")
      | none => "bad-request"
    | _ => "bad-request"),
  ("c09.show", fun toks => withVals 1 toks fun vs =>
    match vs with
    | [.num n] =>
      match renderInt n with
      | some t => "H" ++ hexOfBytes t
      | none => "none"
    | _ => "bad-request"),
  ("c09.join", fun toks => two toks fun sep parts =>
    match sep, parts with
    | .tstr s, .arr l =>
      match strsOf l with
      | some ps => "V " ++ showVal (.tstr (joinBytes s ps))
      | none => "bad-request"
    | _, _ => "bad-request")
]

end Jaq.Driver.C09
