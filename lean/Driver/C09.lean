import Driver.Common

namespace Jaq.Driver.C09

def binop (op : String) (a b : Val) : String :=
  match op with
  | "add" => showValR (Val.add a b)
  | "sub" => showValR (Val.sub a b)
  | "mul" => showValR (Val.mul a b)
  | "div" => showValR (Val.div a b)
  | "rem" => showValR (Val.rem a b)
  | _ => "bad-op"

def handlers : List (String × Handler) := [
  ("c09.bin", fun toks =>
    match toks with
    | op :: rest => withVals 2 rest fun vs =>
      match vs with
      | [a, b] => binop op a b
      | _ => "bad-request"
    | _ => "bad-request"),
  ("c09.neg", fun toks => withVals 1 toks fun vs =>
    match vs with
    | [a] => showValR (Val.neg a)
    | _ => "bad-request")
]

end Jaq.Driver.C09
