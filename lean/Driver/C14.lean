import Driver.Common
import JaqVerif.C14.Yaml
import JaqVerif.C14.Tabular
import JaqVerif.C14.Cbor
import JaqVerif.C14.Toml
import JaqVerif.C14.Xml

namespace Jaq.Driver.C14

open Jaq.C14

/-- `-` stands for the empty byte string -/
def unhex (t : String) : Option (List UInt8) := if t == "-" then some [] else bytesOfHex t

def hexOr (b : List UInt8) : String := if b.isEmpty then "-" else hexOfBytes b

def withBytes (toks : List String) (f : List UInt8 → String) : String :=
  match toks with
  | [t] => match unhex t with
    | some b => f b
    | none => "bad-request"
  | _ => "bad-request"

def showRead : Except Yaml.RErr Val → String
  | .ok v => "V " ++ showVal v
  | .error _ => "E"

/-- cause of a plain-written string not reading back as itself (violation keys) -/
def yamlClass (s : List UInt8) : String :=
  if Yaml.mustQuoteActive s then "ok"
  else if Yaml.docMarkerLed s then "doc-marker-led"
  else if showRead (Yaml.readPlain s) == "V " ++ showVal (.tstr s) then "ok"
  else if Yaml.endsWhite s then "trailing-blank"
  else if (Yaml.stripSign s).head? == some 46 then "dot-led-number"
  else if s.head? == some 43 || s.head? == some 45 then "sign-led-number"
  else "other"

def showWrite : Except Tab.WErr (List UInt8) → String
  | .ok b => "W " ++ hexOr b
  | .error .row => "E row"
  | .error .field => "E field"


/-! CBOR item tokens: P<n> N<n> T<n> F<bits|nan> X<len|i> Y<len|i> A<len|i> M<len|i> S<n> K R<hex|-> -/

def lenTok : Option Nat → String
  | some n => toString n
  | none => "i"

def itemTok : Cbor.Item → String
  | .h (.positive n) => "P" ++ toString n
  | .h (.negative n) => "N" ++ toString n
  | .h (.tag t) => "T" ++ toString t
  | .h (.float f) => if F64.isNaN f then "Fnan" else "F" ++ hex16 f
  | .h (.text l) => "X" ++ lenTok l
  | .h (.bytes l) => "Y" ++ lenTok l
  | .h (.array l) => "A" ++ lenTok l
  | .h (.map l) => "M" ++ lenTok l
  | .h (.simple n) => "S" ++ toString n
  | .h .brk => "K"
  | .raw b => "R" ++ hexOr b

def parseLen (cs : List Char) : Option (Option Nat) :=
  if cs == ['i'] then some none else (natOfDecChars cs).map some

def tokItem (t : String) : Option Cbor.Item :=
  match t.toList with
  | 'P' :: cs => (natOfDecChars cs).map fun n => .h (.positive n)
  | 'N' :: cs => (natOfDecChars cs).map fun n => .h (.negative n)
  | 'T' :: cs => (natOfDecChars cs).map fun n => .h (.tag n)
  | 'S' :: cs => (natOfDecChars cs).map fun n => .h (.simple n)
  | 'F' :: cs => if cs == ['n', 'a', 'n'] then some (.h (.float F64.nan))
                 else (natOfHexChars cs).map fun n => .h (.float (UInt64.ofNat n))
  | 'X' :: cs => (parseLen cs).map fun l => .h (.text l)
  | 'Y' :: cs => (parseLen cs).map fun l => .h (.bytes l)
  | 'A' :: cs => (parseLen cs).map fun l => .h (.array l)
  | 'M' :: cs => (parseLen cs).map fun l => .h (.map l)
  | ['K'] => some (.h .brk)
  | 'R' :: cs => (unhex (String.ofList cs)).map .raw
  | _ => none

/-- `Val::obj(iter.collect())`: later duplicates overwrite (IndexMap) -/
partial def dedupObjs : Val → Val
  | .arr a => .arr (a.map dedupObjs)
  | .obj o => .obj (Obj.ofList (o.map fun (k, v) => (dedupObjs k, dedupObjs v)))
  | v => v

def showPErr : Cbor.PErr → String
  | .lex => "lex" | .simple _ => "simple" | .tag _ => "tag" | .brk => "brk" | .fuel => "fuel"

def cborParse (toks : List String) : String :=
  match toks.mapM tokItem with
  | none => "bad-request"
  | some items =>
    match Cbor.parseMany (items.length + 1) items with
    | .ok vs => "V " ++ showVal (dedupObjs (.arr vs))
    | .error e => "E " ++ showPErr e

def showTomlErr : Except Toml.WErr Unit → String
  | .ok _ => "ok"
  | .error .key => "E key"
  | .error .root => "E root"
  | .error .val => "E val"

def noFloat (_ : UInt64) : List UInt8 := [63]


/-! XML tokens: `D:<ver>:<enc?>:<y|n|~>` `P:<target>:<content?>` `C:<h>` `M:<h>` `T:<h>` `S:<p>:<l>` `A:<p>:<l>:<v>`
`O` `E` `Z:<p>:<l>` `X:<name>:<ext>:<internal>` `x` `Y:<name>:<ext>` `N` `L`; `<h>` = hex or `-` (empty),
`?` fields: `~` = absent; `<ext>` = `~` | `s<h>` | `p<h>,<h>` -/

def unhexOpt (t : String) : Option (Option (List UInt8)) := if t == "~" then some none else (unhex t).map some

def xmlExt (t : String) : Option (Option Xml.Ext) :=
  match t.toList with
  | ['~'] => some none
  | 's' :: cs => (unhex (String.ofList cs)).map fun l => some (.system l)
  | 'p' :: cs =>
    match (String.ofList cs).splitOn "," with
    | [a, b] => match unhex a, unhex b with
      | some a, some b => some (some (.pub a b))
      | _, _ => none
    | _ => none
  | _ => none

def xmlTok (t : String) : Option Xml.Tok :=
  match t.splitOn ":" with
  | ["D", v, e, s] =>
    match unhex v, unhexOpt e with
    | some v, some e =>
      if s == "~" then some (.decl v e none) else if s == "y" then some (.decl v e (some true))
      else if s == "n" then some (.decl v e (some false)) else none
    | _, _ => none
  | ["P", t, c] => match unhex t, unhexOpt c with
    | some t, some c => some (.pi t c)
    | _, _ => none
  | ["C", h] => (unhex h).map .cdata
  | ["M", h] => (unhex h).map .comment
  | ["T", h] => (unhex h).map .text
  | ["S", p, l] => match unhex p, unhex l with
    | some p, some l => some (.estart p l)
    | _, _ => none
  | ["A", p, l, v] => match unhex p, unhex l, unhex v with
    | some p, some l, some v => some (.attr p l v)
    | _, _, _ => none
  | ["O"] => some .eopen
  | ["E"] => some .eempty
  | ["Z", p, l] => match unhex p, unhex l with
    | some p, some l => some (.eclose p l)
    | _, _ => none
  | ["X", n, e, i] => match unhex n, xmlExt e, unhex i with
    | some n, some e, some i => some (.dtdStart n e i)
    | _, _, _ => none
  | ["x"] => some .dtdEnd
  | ["Y", n, e] => match unhex n, xmlExt e with
    | some n, some e => some (.emptyDtd n e)
    | _, _ => none
  | ["N"] => some .entity
  | ["L"] => some .lexerr
  | _ => none

def showXErr : Xml.Err → String
  | .lex => "lex" | .unmatched => "unmatched" | .unclosed => "unclosed" | .panic => "panic" | .fuel => "fuel" | .eof => "eof"

def showXParse : Except Xml.Err (List Val) → String
  | .ok vs => "V " ++ showVal (.arr vs)
  | .error e => "E " ++ showXErr e

def xmlParse (toks : List String) : String :=
  match toks.mapM xmlTok with
  | none => "bad-request"
  | some ts => showXParse (Xml.parseMany ts)

/-- does every attribute value satisfy the precondition of the `render` contract? -/
partial def xmlAttrsOk : Xml.Xml → Bool
  | .tac _ a c => a.all (fun e => Xml.attrValueOk Xml.attrQuoteFixedActive e.2) && (match c with | some c => xmlAttrsOk c | none => true)
  | .seq l => l.all xmlAttrsOk
  | .xmldecl a => a.all (fun e => Xml.attrValueOk Xml.attrQuoteFixedActive e.2)
  | _ => true

def xmlWrite (v : Val) : String :=
  match Xml.ofVal v with
  | .error .entry => "E entry"
  | .error .singleton => "E singleton"
  | .ok x => match Xml.write Xml.attrQuoteFixedActive x with
    | some b => "W " ++ hexOr b
    | none => "-"

/-- `fromxml` of `toxml`: the model reader on the tokens of what the model writer emits; `Q` when an
attribute value contains the quote it is written between (outside the tokenizer contract) -/
def xmlRt (v : Val) : String :=
  match Xml.ofVal v with
  | .error _ => "E write"
  | .ok x =>
    if !xmlAttrsOk x then "Q" else
    showXParse (Xml.parseMany (Xml.render (fun _ => []) x))

def handlers : List (String × Handler) := [
  ("c14.ymq", fun toks => withBytes toks fun s => if Yaml.mustQuoteActive s then "Q" else "P"),
  ("c14.ymqfixed", fun toks => withBytes toks fun s => if Yaml.mustQuoteFixed s then "Q" else "P"),
  ("c14.yread", fun toks => withBytes toks fun s =>
    if Yaml.plainContract s then showRead (Yaml.readPlain s) else "-"),
  ("c14.yclass", fun toks => withBytes toks yamlClass),
  ("c14.csvread", fun toks => withBytes toks fun s => "V " ++ showVal (.arr (Tab.readCsv s))),
  ("c14.tsvread", fun toks => withBytes toks fun s => "V " ++ showVal (.arr (Tab.readTsv s))),
  ("c14.csvwrite", fun toks => withVals 1 toks fun vs =>
    match vs with
    | [v] => showWrite (Tab.writeCsv noFloat v)
    | _ => "bad-request"),
  ("c14.tsvwrite", fun toks => withVals 1 toks fun vs =>
    match vs with
    | [v] => showWrite (Tab.writeTsv noFloat v)
    | _ => "bad-request"),
  ("c14.cborenc", fun toks => withVals 1 toks fun vs =>
    match vs with
    | [v] => " ".intercalate ((Cbor.encode id v).map itemTok)
    | _ => "bad-request"),
  ("c14.cborparse", cborParse),
  ("c14.tomlcheck", fun toks => withVals 1 toks fun vs =>
    match vs with
    | [v] => showTomlErr (Toml.checkRoot Toml.fixedActive v)
    | _ => "bad-request"),
  ("c14.tomlkey", fun toks => withBytes toks fun k => if Toml.keyIsBare Toml.fixedActive k then "B" else "Q"),
  ("c14.xmlparse", xmlParse),
  ("c14.xmlwrite", fun toks => withVals 1 toks fun vs =>
    match vs with
    | [v] => xmlWrite v
    | _ => "bad-request"),
  ("c14.xmlrt", fun toks => withVals 1 toks fun vs =>
    match vs with
    | [v] => xmlRt v
    | _ => "bad-request")
]

end Jaq.Driver.C14
