import Driver.Common
import JaqVerif.C14.Yaml
import JaqVerif.C14.Tabular
import JaqVerif.C14.Cbor
import JaqVerif.C14.Toml

namespace Jaq.Driver.C14

open Jaq.C14

/-- `-` stands for the empty byte string -/
def unhex (t : String) : Option (List UInt8) := if t == "-" then some [] else bytesOfHex t

def hexOr (b : List UInt8) : String := if b.isEmpty then "-" else hexOfBytes b

def withBytes (toks : List String) (f : List UInt8 → String) : String :=
  match toks with
  | [t] => match unhex t with
    | some b => f b
    | none => "bad-request"
  | _ => "bad-request"

def showRead : Except Yaml.RErr Val → String
  | .ok v => "V " ++ showVal v
  | .error _ => "E"

/-- cause of a plain-written string not reading back as itself (violation keys) -/
def yamlClass (s : List UInt8) : String :=
  if Yaml.mustQuoteActive s then "ok"
  else if Yaml.docMarkerLed s then "doc-marker-led"
  else if showRead (Yaml.readPlain s) == "V " ++ showVal (.tstr s) then "ok"
  else if Yaml.endsWhite s then "trailing-blank"
  else if (Yaml.stripSign s).head? == some 46 then "dot-led-number"
  else if s.head? == some 43 || s.head? == some 45 then "sign-led-number"
  else "other"

def showWrite : Except Tab.WErr (List UInt8) → String
  | .ok b => "W " ++ hexOr b
  | .error .row => "E row"
  | .error .field => "E field"


/-! CBOR item tokens: P<n> N<n> T<n> F<bits|nan> X<len|i> Y<len|i> A<len|i> M<len|i> S<n> K R<hex|-> -/

def lenTok : Option Nat → String
  | some n => toString n
  | none => "i"

def itemTok : Cbor.Item → String
  | .h (.positive n) => "P" ++ toString n
  | .h (.negative n) => "N" ++ toString n
  | .h (.tag t) => "T" ++ toString t
  | .h (.float f) => if F64.isNaN f then "Fnan" else "F" ++ hex16 f
  | .h (.text l) => "X" ++ lenTok l
  | .h (.bytes l) => "Y" ++ lenTok l
  | .h (.array l) => "A" ++ lenTok l
  | .h (.map l) => "M" ++ lenTok l
  | .h (.simple n) => "S" ++ toString n
  | .h .brk => "K"
  | .raw b => "R" ++ hexOr b

def parseLen (cs : List Char) : Option (Option Nat) :=
  if cs == ['i'] then some none else (natOfDecChars cs).map some

def tokItem (t : String) : Option Cbor.Item :=
  match t.toList with
  | 'P' :: cs => (natOfDecChars cs).map fun n => .h (.positive n)
  | 'N' :: cs => (natOfDecChars cs).map fun n => .h (.negative n)
  | 'T' :: cs => (natOfDecChars cs).map fun n => .h (.tag n)
  | 'S' :: cs => (natOfDecChars cs).map fun n => .h (.simple n)
  | 'F' :: cs => if cs == ['n', 'a', 'n'] then some (.h (.float F64.nan))
                 else (natOfHexChars cs).map fun n => .h (.float (UInt64.ofNat n))
  | 'X' :: cs => (parseLen cs).map fun l => .h (.text l)
  | 'Y' :: cs => (parseLen cs).map fun l => .h (.bytes l)
  | 'A' :: cs => (parseLen cs).map fun l => .h (.array l)
  | 'M' :: cs => (parseLen cs).map fun l => .h (.map l)
  | ['K'] => some (.h .brk)
  | 'R' :: cs => (unhex (String.ofList cs)).map .raw
  | _ => none

/-- `Val::obj(iter.collect())`: later duplicates overwrite (IndexMap) -/
partial def dedupObjs : Val → Val
  | .arr a => .arr (a.map dedupObjs)
  | .obj o => .obj (Obj.ofList (o.map fun (k, v) => (dedupObjs k, dedupObjs v)))
  | v => v

def showPErr : Cbor.PErr → String
  | .lex => "lex" | .simple _ => "simple" | .tag _ => "tag" | .brk => "brk" | .fuel => "fuel"

def cborParse (toks : List String) : String :=
  match toks.mapM tokItem with
  | none => "bad-request"
  | some items =>
    match Cbor.parseMany (items.length + 1) items with
    | .ok vs => "V " ++ showVal (dedupObjs (.arr vs))
    | .error e => "E " ++ showPErr e

def showTomlErr : Except Toml.WErr Unit → String
  | .ok _ => "ok"
  | .error .key => "E key"
  | .error .root => "E root"
  | .error .val => "E val"

def noFloat (_ : UInt64) : List UInt8 := [63]

def handlers : List (String × Handler) := [
  ("c14.ymq", fun toks => withBytes toks fun s => if Yaml.mustQuoteActive s then "Q" else "P"),
  ("c14.ymqfixed", fun toks => withBytes toks fun s => if Yaml.mustQuoteFixed s then "Q" else "P"),
  ("c14.yread", fun toks => withBytes toks fun s =>
    if Yaml.plainContract s then showRead (Yaml.readPlain s) else "-"),
  ("c14.yclass", fun toks => withBytes toks yamlClass),
  ("c14.csvread", fun toks => withBytes toks fun s => "V " ++ showVal (.arr (Tab.readCsv s))),
  ("c14.tsvread", fun toks => withBytes toks fun s => "V " ++ showVal (.arr (Tab.readTsv s))),
  ("c14.csvwrite", fun toks => withVals 1 toks fun vs =>
    match vs with
    | [v] => showWrite (Tab.writeCsv noFloat v)
    | _ => "bad-request"),
  ("c14.tsvwrite", fun toks => withVals 1 toks fun vs =>
    match vs with
    | [v] => showWrite (Tab.writeTsv noFloat v)
    | _ => "bad-request"),
  ("c14.cborenc", fun toks => withVals 1 toks fun vs =>
    match vs with
    | [v] => " ".intercalate ((Cbor.encode id v).map itemTok)
    | _ => "bad-request"),
  ("c14.cborparse", cborParse),
  ("c14.tomlcheck", fun toks => withVals 1 toks fun vs =>
    match vs with
    | [v] => showTomlErr (Toml.checkRoot Toml.fixedActive v)
    | _ => "bad-request"),
  ("c14.tomlkey", fun toks => withBytes toks fun k => if Toml.keyIsBare Toml.fixedActive k then "B" else "Q")
]

end Jaq.Driver.C14
