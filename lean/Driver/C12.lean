import Driver.Common
import JaqVerif.C12.Coll
import JaqVerif.C12.Defs
import JaqVerif.C08.Model

namespace Jaq.Driver.C12
open Jaq.Coll

def us (s : String) : String := String.ofList (s.toList.map fun c => if c == ' ' then '_' else c)

def startsWithB (pre : String) (b : List UInt8) : Bool := (bytesOfAscii pre).isPrefixOf b

/-- text after the last `" as "` of an ASCII message -/
def afterLastAs (b : List UInt8) : String :=
  let s := String.ofList (b.map fun x => Char.ofNat x.toNat)
  match (s.splitOn " as ").getLast? with
  | some t => t
  | none => s

/-- error class of an error *value* (the harness classifies the same way) -/
def clsOfVal (v : Val) : String :=
  match v with
  | .tstr b =>
    if startsWithB "cannot use " b then "typ:" ++ us (afterLastAs b)
    else if startsWithB "cannot index " b then "index"
    else if startsWithB "cannot calculate " b then "math"
    else "val " ++ showVal v
  | v => "val " ++ showVal v

def cls : Err → String
  | .typ _ ty => "typ:" ++ us ty
  | .index _ _ => "index"
  | .math _ _ _ => "math"
  | .pathExpr _ => "pathexpr"
  | .str s => clsOfVal (.tstr (bytesOfString s))
  | .val v => clsOfVal v

def showR : ValR → String
  | .ok v => "V " ++ showVal v
  | .error e => "E " ++ cls e

def showItems (l : List ValR) : String :=
  if l.isEmpty then "-" else " ; ".intercalate (l.map showR)

/-- one value from the front of the tokens -/
def val1 (toks : List String) : Option (Val × List String) := Val.parseVX (toks.length + 1) toks

/-- key table: per element `K<n> v1 … vn` (outputs of the key filter) or `X v` (its error) -/
partial def parseKeys (toks : List String) (acc : Array (Except Err (List Val))) :
    Option (Array (Except Err (List Val))) :=
  match toks with
  | [] => some acc
  | t :: rest =>
    match t.toList with
    | 'K' :: ds =>
      match natOfDecChars ds with
      | none => none
      | some n =>
        match Val.parseVXs rest n with
        | some (vs, rest') => parseKeys rest' (acc.push (.ok vs))
        | none => none
    | ['X'] =>
      match val1 rest with
      | some (v, rest') => parseKeys rest' (acc.push (.error (.val v)))
      | none => none
    | _ => none

/-- stream of `fromjson` outputs: `V v` / `E v` items -/
partial def parseStream (toks : List String) (acc : List ValR) : Option (List ValR) :=
  match toks with
  | [] => some acc.reverse
  | "V" :: rest =>
    match val1 rest with
    | some (v, rest') => parseStream rest' (.ok v :: acc)
    | none => none
  | "E" :: rest =>
    match val1 rest with
    | some (v, rest') => parseStream rest' (.error (.val v) :: acc)
    | none => none
  | _ => none

/-- run a keyed native of the generic model on an array whose elements carry their index;
the comparison and equality are C08's models of `impl Ord` / `impl PartialEq for Val` (the ones
the `sort_by_val_*` theorems of Props/C12 are about) -/
def keyed (op : String) (a : List Val) (tab : Array (Except Err (List Val))) : ValR :=
  let ix : List (Nat × Val) := (List.range a.length).zip a
  let kf : Nat × Val → Except Err (List Val) := fun p => tab.getD p.1 (.ok [])
  let dn : Nat × Val := (0, .null)
  match op with
  | "sort_by" => (sortByKey C08.cmp kf ix).map fun r => .arr (r.map (·.2))
  | "group_by" => (groupByKey C08.cmp C08.eq kf ix).map fun gs => .arr (gs.map fun g => .arr (g.map (·.2)))
  | "unique_by" => (uniqueByKey dn C08.cmp C08.eq kf ix).map fun r => .arr (r.map (·.2))
  | "min_by" => (minByKey dn C08.cmp kf ix).map (·.2)
  | "max_by" => (maxByKey dn C08.cmp kf ix).map (·.2)
  | _ => .error (.str "bad-op")

def intOfVal : Val → Option Int
  | .num (.int i) => some i
  | .num (.big i) => some i
  | _ => none

def un1 (f : Val → String) : Handler := fun toks => withVals 1 toks fun vs =>
  match vs with
  | [a] => f a
  | _ => "bad-request"

def bin2 (f : Val → Val → String) : Handler := fun toks => withVals 2 toks fun vs =>
  match vs with
  | [a, b] => f a b
  | _ => "bad-request"

def modeOf : String → Option RMode
  | "floor" => some .floor
  | "round" => some .round
  | "ceil" => some .ceil
  | _ => none

def showB (b : Bool) : String := showVal (.bool b)

def handlers1 : List (String × Handler) := [
  ("c12.keyed", fun toks =>
    match toks with
    | op :: rest =>
      match val1 rest with
      | some (.arr a, rest') =>
        match parseKeys rest' #[] with
        | some tab => if tab.size == a.length then showR (keyed op a tab) else "bad-request"
        | none => "bad-request"
      | some (v, _) => showR (.error (errArr v))
      | none => "bad-request"
    | _ => "bad-request"),
  ("c12.sort", un1 fun a => showR (sort a)),
  ("c12.keys", un1 fun a => showR (keys a)),
  ("c12.keys_unsorted", un1 fun a => showR (keysUnsorted a)),
  ("c12.to_entries", un1 fun a => showR (toEntries a)),
  ("c12.from_entries", un1 fun a => showR (fromEntries a)),
  ("c12.with_entries_id", un1 fun a => showR (withEntriesId a)),
  ("c12.indices", bin2 fun a b => showR (indices a b)),
  ("c12.index", bin2 fun a b => showR (index a b)),
  ("c12.rindex", bin2 fun a b => showR (rindex a b)),
  ("c12.contains", bin2 fun a b => "V " ++ showB (contains a b)),
  ("c12.inside", bin2 fun a b => "V " ++ showB (inside a b)),
  ("c12.type", un1 fun a => "V " ++ showVal (typeOf a)),
  ("c12.is", fun toks =>
    match toks with
    | w :: rest => withVals 1 rest fun vs =>
      match vs, w with
      | [a], "boolean" => "V " ++ showB (isboolean a)
      | [a], "number" => "V " ++ showB (isnumber a)
      | [a], "string" => "V " ++ showB (isstring a)
      | [a], "array" => "V " ++ showB (isarray a)
      | [a], "object" => "V " ++ showB (isobject a)
      | _, _ => "bad-request"
    | _ => "bad-request"),
  ("c12.abs", un1 fun a => showR (abs a)),
  ("c12.flatten", bin2 fun d v =>
    match intOfVal d with
    | some i => showR (flattenDepth i v)
    | none => "bad-request"),
  ("c12.flatten_spec", bin2 fun d v =>
    match intOfVal d with
    | some i => "V " ++ showVal (flattenSpec i v)
    | none => "bad-request"),
  ("c12.flatten0", un1 fun a => "V " ++ showVal (flatten0 a)),
  ("c12.transpose", un1 fun a =>
    match transpose a with
    | some t => "V " ++ showVal t
    | none => "unmodelled"),
  ("c12.bsearch_ok", fun toks => withVals 3 toks fun vs =>
    match vs with
    | [.arr a, x, r] =>
      match intOfVal r with
      | some i => if bsearchOk Val.cmp a x i then "ok" else "bad"
      | none => "bad"
    | _ => "bad-request"),
  ("c12.bsearch_ref", bin2 fun a x =>
    match a with
    | .arr a => "V " ++ showVal (vInt (bsearchRef Val.cmp a x))
    | v => showR (.error (errArr v))),
  ("c12.round", fun toks =>
    match toks with
    | m :: rest => withVals 1 rest fun vs =>
      match vs, modeOf m with
      | [a], some md => showR (roundVal md a)
      | _, _ => "bad-request"
    | _ => "bad-request"),
  ("c12.round_spec", fun toks =>
    match toks with
    | m :: rest => withVals 1 rest fun vs =>
      match vs, modeOf m with
      | [.num n], some md => "V " ++ showVal (.num (roundSpecNum md n))
      | [a], some _ => showR (.error (errNum a))
      | _, _ => "bad-request"
    | _ => "bad-request"),
  ("c12.totype", fun toks =>
    match toks with
    | w :: rest =>
      match val1 rest with
      | some (v, rest') =>
        match parseStream rest' [] with
        | some fj =>
          if w == "number" then showItems (tonumber v fj)
          else if w == "boolean" then showItems (toboolean v fj)
          else "bad-request"
        | none => "bad-request"
      | none => "bad-request"
    | _ => "bad-request"),
  ("c12.totype_spec", fun toks =>
    match toks with
    | w :: rest =>
      match val1 rest with
      | some (v, rest') =>
        match parseStream rest' [] with
        | some fj =>
          if w == "number" then showItems (toTypeSpec isnumber (.str "cannot parse as number") v fj)
          else if w == "boolean" then showItems (toTypeSpec isboolean (.str "cannot parse as boolean") v fj)
          else "bad-request"
        | none => "bad-request"
      | none => "bad-request"
    | _ => "bad-request"),
  ("c12.startswith", bin2 fun a b => showR (startswith a b)),
  ("c12.endswith", bin2 fun a b => showR (endswith a b)),
  ("c12.ltrimstr", bin2 fun a b => showR (ltrimstr a b)),
  ("c12.rtrimstr", bin2 fun a b => showR (rtrimstr a b))
]

/-! ### round 2: filters that are jq definitions -/

def unmodelledErr : Err := .str "@@unmodelled"

def isUnmodelled : ValR → Bool
  | .error (.str "@@unmodelled") => true
  | _ => false

/-- one stream `S<m> v1 … vm (. | X v)` -/
def parseOuts (toks : List String) : Option (List ValR × List String) :=
  match toks with
  | t :: rest =>
    match t.toList with
    | 'S' :: ds =>
      match natOfDecChars ds with
      | none => none
      | some m =>
        match Val.parseVXs rest m with
        | some (vs, "." :: rest') => some (vs.map .ok, rest')
        | some (vs, "X" :: rest') =>
          match val1 rest' with
          | some (e, rest'') => some (vs.map .ok ++ [.error (.val e)], rest'')
          | none => none
        | _ => none
    | _ => none
  | [] => none

partial def parseRows (n : Nat) (toks : List String) (acc : Array (String × List ValR)) :
    Option (Array (String × List ValR) × List String) :=
  if n == 0 then some (acc, toks)
  else
    match val1 toks with
    | some (x, rest) =>
      match parseOuts rest with
      | some (outs, rest') => parseRows (n - 1) rest' (acc.push (x.toVX, outs))
      | none => none
    | none => none

/-- function table `F<n> (input stream)*`; values outside the table answer `@@unmodelled` -/
def parseFn (toks : List String) : Option (Flt × List String) :=
  match toks with
  | t :: rest =>
    match t.toList with
    | 'F' :: ds =>
      match natOfDecChars ds with
      | none => none
      | some n =>
        match parseRows n rest #[] with
        | some (rows, rest') =>
          some ((fun v => let k := v.toVX
                          match rows.find? (fun r => r.1 == k) with
                          | some r => r.2
                          | none => [.error unmodelledErr]), rest')
        | none => none
    | _ => none
  | [] => none

def showItemsU (l : List ValR) : String := if l.any isUnmodelled then "unmodelled" else showItems l
def showRU (r : ValR) : String := if isUnmodelled r then "unmodelled" else showR r

/-- `<val> <fn table>` -/
def valFn (f : Val → Flt → String) : Handler := fun toks =>
  match val1 toks with
  | some (v, rest) =>
    match parseFn rest with
    | some (g, []) => f v g
    | _ => "bad-request"
  | none => "bad-request"

def pathsOfVal : Val → Option (List (List Val))
  | .arr ps => ps.mapM fun | .arr p => some p | _ => none
  | _ => none

def pairsOfVal : Val → Option (List (List Val × Val))
  | .arr ps => ps.mapM fun
    | .arr [.arr p, x] => some (p, x)
    | _ => none
  | _ => none

def showOptItems : Option (List ValR) → String
  | some l => showItems l
  | none => "unmodelled"

def handlers2 : List (String × Handler) := [
  ("c12.map", valFn fun v g => showRU (mapF g v)),
  ("c12.map_values", valFn fun v g => showRU (mapValues g v)),
  ("c12.walk", valFn fun v g => showItemsU (walk g v)),
  ("c12.all", valFn fun v g => showRU (allF g v)),
  ("c12.any", valFn fun v g => showRU (anyF g v)),
  ("c12.with_entries", valFn fun v g => showRU (withEntries g v)),
  ("c12.paths", valFn fun v g => showItemsU (pathsP g v)),
  ("c12.add", un1 fun a => showR (add0 a)),
  ("c12.all0", un1 fun a => showR (all0 a)),
  ("c12.any0", un1 fun a => showR (any0 a)),
  ("c12.sel", fun toks =>
    match toks with
    | w :: rest => withVals 1 rest fun vs =>
      match vs with
      | [a] =>
        let r : Option (List Val) :=
          match w with
          | "values" => some (selValues a)
          | "nulls" => some (selNulls a)
          | "booleans" => some (sel isboolean a)
          | "numbers" => some (sel isnumber a)
          | "strings" => some (sel isstring a)
          | "arrays" => some (sel isarray a)
          | "objects" => some (sel isobject a)
          | "iterables" => some (selIterables a)
          | "scalars" => some (selScalars a)
          | _ => none
        match r with
        | some l => showItems (l.map .ok)
        | none => "bad-request"
      | _ => "bad-request"
    | _ => "bad-request"),
  ("c12.has", bin2 fun v k => match hasF v k with | some r => showR r | none => "unmodelled"),
  ("c12.in", bin2 fun k xs => match inF k xs with | some r => showR r | none => "unmodelled"),
  ("c12.join", fun toks =>
    match Val.parseVXs toks 2 with
    | some ([v, s], rest) =>
      match parseFn rest with
      | some (g, []) =>
        -- `tostring` has exactly one output; anything else is outside the model
        let ts : Val → Val := fun x => match g x with | [.ok y] => y | _ => .null
        let dom : List Val := match values v with | .ok els => els | .error _ => []
        if dom.all (fun x => match g x with | [.ok _] => true | _ => false) then showR (join ts s v) else "unmodelled"
      | _ => "bad-request"
    | _ => "bad-request"),
  ("c12.combinations", un1 fun a => showItems (combinations a)),
  ("c12.combinations_n", fun toks =>
    match toks with
    | n :: rest => withVals 1 rest fun vs =>
      match vs, natOfDecChars n.toList with
      | [a], some k => showItems (combinationsN k a)
      | _, _ => "bad-request"
    | _ => "bad-request"),
  ("c12.splits", fun toks =>
    match Val.parseVXs toks 3 with
    | some ([re, fl, v], "R" :: rest) =>
      match parseStream rest [] with
      | some [r] => showItems (splits (fun _ _ _ => r) re fl v)
      | _ => "bad-request"
    | _ => "bad-request"),
  ("c12.delpaths", bin2 fun v ps =>
    match pathsOfVal ps with
    | some l => showOptItems (delpaths l v)
    | none => "unmodelled"),
  ("c12.del_index", bin2 fun v k => showOptItems (delIndex k v)),
  ("c12.pick", un1 fun a =>
    match pairsOfVal a with
    | some l => showR (pick l)
    | none => "unmodelled")
]

def handlers : List (String × Handler) := handlers1 ++ handlers2

end Jaq.Driver.C12
