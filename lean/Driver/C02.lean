import Driver.Common
import JaqVerif.C02.Update

/-!
  Driver of C02.  Request: `c02.eval <fuel> <input VX> <program tokens…>`; the program is a `PE`
  in prefix token syntax (printed by `harness/src/props/c02.rs` from the real parser's AST):

    .  ..  path f PARTS end   pipe f g  comma f g  bind f $x g  ite c t e  alt f g
    reduce xs $x i u   foreach xs $x i u   foreachp xs $x i u p
    first f  last f  limit n f  skip n f  try f  fix r body  rcall r
    var $x  lit VX  arr f  obj0  obj1 k v  neg f  or l r  and l r  math OP l r  cmp OP l r
    upd p u  assign p u  updmath OP p u  updalt p u  error_empty  pathof f  pathvalue f  keys_unsorted
    PARTS: ix? t | ix! t | it? | it! | rf? t | rf! t | rt? t | rt! t | rb? t t | rb! t t

  Answer: `v1 ; v2 ; … | ok` / `… | E <class>` / `… | FUEL`.
-/
namespace Jaq.Driver.C02
open Jaq.C02

def mathOfTok : String → Option MathOp
  | "add" => some .add | "sub" => some .sub | "mul" => some .mul | "div" => some .div
  | "rem" => some .rem | _ => none

def cmpOfTok : String → Option CmpOp
  | "eq" => some .eq | "ne" => some .ne | "lt" => some .lt | "le" => some .le
  | "gt" => some .gt | "ge" => some .ge | _ => none

mutual
  partial def parsePE : List String → Option (PE × List String)
    | [] => none
    | tok :: rest =>
      let un (c : PE → PE) := (parsePE rest).map fun (f, r) => (c f, r)
      let bin (c : PE → PE → PE) := do
        let (f, r) ← parsePE rest
        let (g, r) ← parsePE r
        pure (c f g, r)
      match tok with
      | "." => some (.id, rest)
      | ".." => some (.recurse, rest)
      | "path" => do
        let (f, r) ← parsePE rest
        let (ps, r) ← parseParts r
        pure (.path f ps, r)
      | "pipe" => bin .pipe
      | "comma" => bin .comma
      | "alt" => bin .alt
      | "bind" => do
        let (f, r) ← parsePE rest
        match r with
        | x :: r => do
          let (g, r) ← parsePE r
          pure (.bind f x g, r)
        | [] => none
      | "ite" => do
        let (c, r) ← parsePE rest
        let (t, r) ← parsePE r
        let (e, r) ← parsePE r
        pure (.ite c t e, r)
      | "reduce" | "foreach" | "foreachp" => do
        let (xs, r) ← parsePE rest
        match r with
        | x :: r => do
          let (i, r) ← parsePE r
          let (u, r) ← parsePE r
          if tok == "foreachp" then
            let (p, r) ← parsePE r
            pure (.fold .foreachProj xs x i u p, r)
          else
            pure (.fold (if tok == "reduce" then .reduce else .foreach) xs x i u .id, r)
        | [] => none
      | "first" => un .first
      | "last" => un .last
      | "limit" => bin .limit
      | "skip" => bin .skip
      | "try" => un .tryE
      | "fix" =>
        match rest with
        | x :: r => (parsePE r).map fun (b, r) => (.fix x b, r)
        | [] => none
      | "rcall" =>
        match rest with
        | x :: r => some (.rcall x, r)
        | [] => none
      | "var" =>
        match rest with
        | x :: r => some (.var x, r)
        | [] => none
      | "lit" => (Val.parseVX (rest.length + 1) rest).map fun (v, r) => (.lit v, r)
      | "arr" => un .arr
      | "obj0" => some (.obj0, rest)
      | "obj1" => bin .obj1
      | "neg" => un .neg
      | "or" => bin (.logic true)
      | "and" => bin (.logic false)
      | "math" =>
        match rest with
        | o :: r => do
          let op ← mathOfTok o
          let (f, r) ← parsePE r
          let (g, r) ← parsePE r
          pure (.math op f g, r)
        | [] => none
      | "cmp" =>
        match rest with
        | o :: r => do
          let op ← cmpOfTok o
          let (f, r) ← parsePE r
          let (g, r) ← parsePE r
          pure (.cmp op f g, r)
        | [] => none
      | "upd" => bin .update
      | "assign" => bin .assign
      | "updalt" => bin .updateAlt
      | "updmath" =>
        match rest with
        | o :: r => do
          let op ← mathOfTok o
          let (f, r) ← parsePE r
          let (g, r) ← parsePE r
          pure (.updateMath op f g, r)
        | [] => none
      | "error_empty" => some (.errorEmpty, rest)
      | "pathof" => un .pathOf
      | "pathvalue" => un .pathValue
      | "keys_unsorted" => some (.keysUnsorted, rest)
      | _ => none
  partial def parseParts : List String → Option (Parts × List String)
    | [] => none
    | tok :: rest =>
      let opt := tok.endsWith "?"
      match (tok.take 2).toString with
      | "en" => some (.nil, rest)
      | "ix" => do
        let (i, r) ← parsePE rest
        let (ps, r) ← parseParts r
        pure (.index i opt ps, r)
      | "it" => (parseParts rest).map fun (ps, r) => (.iter opt ps, r)
      | "rf" => do
        let (i, r) ← parsePE rest
        let (ps, r) ← parseParts r
        pure (.rangeFrom i opt ps, r)
      | "rt" => do
        let (i, r) ← parsePE rest
        let (ps, r) ← parseParts r
        pure (.rangeTo i opt ps, r)
      | "rb" => do
        let (i, r) ← parsePE rest
        let (j, r) ← parsePE r
        let (ps, r) ← parseParts r
        pure (.rangeBoth i j opt ps, r)
      | _ => none
end

def clsOf (e : Err) : String :=
  match e with
  | .val _ | .str _ => "other"
  | e => e.cls.replace " " "_"

def showOut (o : Out Val) : String :=
  " ; ".intercalate (o.vals.map showVal) ++ " | " ++
    (match o.stop with
     | none => "ok"
     | some (.err e) => "E " ++ clsOf e
     | some .fuel => "FUEL")

def handlers : List (String × Handler) := [
  ("c02.eval", fun toks =>
    match toks with
    | fuel :: rest =>
      match fuel.toNat?, Val.parseVX (rest.length + 1) rest with
      | some n, some (v, prog) =>
        match parsePE prog with
        | some (p, []) => showOut (run n p .nil v)
        | _ => "bad-program"
      | _, _ => "bad-request"
    | _ => "bad-request")
]

end Jaq.Driver.C02
