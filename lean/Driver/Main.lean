/- Line-protocol driver: one request per line `<op> <args…>`, one answer per line. -/
import Driver.Common
import Driver.C09

namespace Jaq.Driver

def allHandlers : List (String × Handler) :=
  C09.handlers

def answer (line : String) : String :=
  match splitTokens line with
  | [] => "bad-request"
  | op :: args =>
    match allHandlers.lookup op with
    | some h => h args
    | none => "unknown-op"

partial def loop (h : IO.FS.Stream) (out : IO.FS.Stream) : IO Unit := do
  let line ← h.getLine
  if line.isEmpty then return ()
  out.putStrLn (answer line)
  loop h out

end Jaq.Driver

def main : IO Unit := do
  let stdin ← IO.getStdin
  let stdout ← IO.getStdout
  Jaq.Driver.loop stdin stdout
