import Driver.Common
import JaqVerif.C10.Index

namespace Jaq.Driver.C10
open Jaq.C10

/-- error classes as the harness (`props/c10.rs`) computes them from the message text -/
def errShow (e : Err) : String :=
  match e with
  | .val v => "E val " ++ showVal v
  | .str s => if s == "index out of bounds" then "E oob" else if s == "has no length" then "E nolen" else "E str"
  | .typ _ ty => "E typ:" ++ ty.replace " " "_"
  | .math _ _ _ => "E math"
  | .index _ _ => "E index"
  | .pathExpr _ => "E pathexpr"

def showR : ValR → String
  | .ok v => "V " ++ showVal v
  | .error e => errShow e

def showItems (l : List ValR) : String :=
  if l.isEmpty then "-" else " ; ".intercalate (l.map showR)

def one (toks : List String) : Option (Val × List String) := Val.parseVX (toks.length + 1) toks

def bound (toks : List String) : Option (Option Val × List String) :=
  match toks with
  | "-" :: rest => some (none, rest)
  | _ => (one toks).map fun (v, r) => (some v, r)

def parseOpt : String → Option Opt
  | "E" => some .essential
  | "O" => some .optional
  | _ => none

def parsePart (toks : List String) : Option (Part × List String) :=
  match toks with
  | "I" :: rest => (one rest).map fun (v, r) => (.index v, r)
  | "R" :: rest =>
    match bound rest with
    | some (a, r1) => (bound r1).map fun (b, r2) => (.range a b, r2)
    | none => none
  | _ => none

/-- one output term of an update filter -/
inductive Term where
  | id | const (c : Val) | plus (c : Val) | err

def Term.eval (t : Term) (x : Val) : ValR :=
  match t with
  | .id => .ok x
  | .const c => .ok c
  | .plus c => Val.add x c
  | .err => .error (.val x)

def parseTerms : Nat → List String → Option (List Term × List String)
  | 0, toks => some ([], toks)
  | n + 1, toks =>
    let head : Option (Term × List String) :=
      match toks with
      | "." :: r => some (.id, r)
      | "X" :: r => some (.err, r)
      | "C" :: r => (one r).map fun (v, r') => (.const v, r')
      | "P" :: r => (one r).map fun (v, r') => (.plus v, r')
      | _ => none
    match head with
    | none => none
    | some (t, r) => (parseTerms n r).map fun (ts, r') => (t :: ts, r')

def updOf (ts : List Term) : Upd := fun x => ts.map fun t => t.eval x

def natTok (s : String) : Option Nat := natOfDecChars s.toList

def hRun (toks : List String) : String :=
  match toks with
  | _form :: o :: rest =>
    match parseOpt o, parsePart rest with
    | some opt, some (p, r) =>
      match one r with
      | some (v, []) => showItems (runPart p opt v)
      | _ => "bad-request"
    | _, _ => "bad-request"
  | _ => "bad-request"

def hUpd (toks : List String) : String :=
  match toks with
  | _form :: o :: rest =>
    match parseOpt o, parsePart rest with
    | some opt, some (p, n :: r) =>
      match natTok n with
      | some n =>
        match parseTerms n r with
        | some (ts, r') =>
          match one r' with
          | some (v, []) => showR (p.update v opt (updOf ts))
          | _ => "bad-request"
        | none => "bad-request"
      | none => "bad-request"
    | _, _ => "bad-request"
  | _ => "bad-request"

def sortKeys (v : Val) : Val :=
  match v with
  | .arr a => .arr (sortBy Val.cmp a)
  | v => v

def handlers : List (String × Handler) := [
  ("c10.run", hRun),
  ("c10.upd", hUpd),
  ("c10.has", fun toks => withVals 2 toks fun vs =>
    match vs with
    | [v, k] => showR (has v k)
    | _ => "bad-request"),
  ("c10.length", fun toks => withVals 1 toks fun vs =>
    match vs with
    | [v] => showR (length v)
    | _ => "bad-request"),
  ("c10.keysu", fun toks => withVals 1 toks fun vs =>
    match vs with
    | [v] => showR (keysUnsorted v)
    | _ => "bad-request"),
  ("c10.keys", fun toks => withVals 1 toks fun vs =>
    match vs with
    | [v] => showR ((keysUnsorted v).map sortKeys)
    | _ => "bad-request"),
  ("c10.pat", fun toks =>
    match toks with
    | n :: rest =>
      match natTok n with
      | some n => withVals (n + 1) rest fun vs =>
        match vs with
        | v :: ks => showR ((bindPat v ks).map .arr)
        | _ => "bad-request"
      | none => "bad-request"
    | _ => "bad-request"),
  ("c10.chars", fun toks => withVals 1 toks fun vs =>
    match vs with
    | [.tstr b] => showVal (.arr ((Utf8.chars b).map .tstr))
    | _ => "bad-request")
]

end Jaq.Driver.C10
