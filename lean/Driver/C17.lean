/- Driver for C17: `c17.parse` (plan of `Cli.parse` + the derived writer/reader choices as JSON)
   and `c17.run` (the process model `procMain` on an oracle table obtained from the harness). -/
import Driver.Common
import JaqVerif.C17.Run

namespace Jaq.Driver.C17
open Jaq Jaq.C17

/-! ### token helpers (`x<hex>` byte strings) -/

def unhx (t : String) : Option Bytes :=
  match t.toList with
  | 'x' :: cs => bytesOfHexChars cs
  | _ => none

def hx (b : Bytes) : String := "x" ++ hexOfBytes b

def argOfBytes (b : Bytes) : Arg :=
  match String.fromUTF8? (ByteArray.mk b.toArray) with
  | some s => .str s
  | none => .raw b

def Arg.bytes : Arg → Bytes
  | .str s => s.toUTF8.toList
  | .raw b => b

def parseArgs (toks : List String) : Option (List Arg) :=
  toks.mapM fun t => (unhx t).map argOfBytes

/-! ### JSON rendering of the plan -/

def jStr (s : String) : String := "\"" ++ s ++ "\""   -- only used on hex / identifiers
def jHexS (s : String) : String := jStr (hx s.toUTF8.toList)
def jHexA (a : Arg) : String := jStr (hx (Arg.bytes a))
def jBool (b : Bool) : String := if b then "true" else "false"
def jList (xs : List String) : String := "[" ++ ", ".intercalate xs ++ "]"
def jObj (kvs : List (String × String)) : String :=
  "{" ++ ", ".intercalate (kvs.map fun (k, v) => jStr k ++ ": " ++ v) ++ "}"

def fmtName : Format → String
  | .raw => "raw" | .raw0 => "raw0" | .json => "json" | .cbor => "cbor" | .toml => "toml"
  | .xml => "xml" | .yaml => "yaml" | .csv => "csv" | .tsv => "tsv"

def errName : CliError → String
  | .flag s => "flag:" ++ hx s.toUTF8.toList
  | .utf8 _ => "utf8"
  | .keyValue o => "keyvalue:" ++ o
  | .int o => "int:" ++ o
  | .path o => "path:" ++ o
  | .format o => "format:" ++ o

def plan (c : Cli) : String :=
  let tty : Tty := {}
  let pp := c.pp tty
  let special :=
    if c.version then "version" else if c.help then "help"
    else if c.runTests.isSome then "tests"
    else if c.inPlace && !c.files.isEmpty then "inplace" else "none"
  let filter := match c.filter with
    | none => jObj [("kind", jStr "none")]
    | some (.inline s) => jObj [("kind", jStr "inline"), ("hex", jHexS s)]
    | some (.fromFile p) => jObj [("kind", jStr "file"), ("hex", jHexA p)]
  let binds :=
    (c.arg.map fun (k, v) => jObj [("kind", jStr "A"), ("name", jHexS k), ("val", jHexS v)]) ++
    (c.rawfile.map fun (k, v) => jObj [("kind", jStr "R"), ("name", jHexS k), ("val", jHexA v)]) ++
    (c.slurpfile.map fun (k, v) => jObj [("kind", jStr "S"), ("name", jHexS k), ("val", jHexA v)]) ++
    (c.argjson.map fun (k, v) => jObj [("kind", jStr "J"), ("name", jHexS k), ("val", jHexS v)])
  let srcs :=
    if c.files.isEmpty then [jObj [("stdin", "true"), ("fmt", jStr (fmtName (c.from_.getD .json)))]]
    else c.files.map fun f =>
      jObj [("stdin", "false"), ("name", jHexA f),
            ("fmt", jStr (fmtName ((c.from_.orElse fun _ => Format.determine f).getD .json)))]
  jObj [
    ("ok", "true"), ("special", jStr special), ("filter", filter), ("binds", jList binds),
    ("positional", jList (c.args.map jHexS)), ("lib", jList (c.libraryPath.map jHexA)),
    ("srcs", jList srcs), ("slurp", jBool c.slurp), ("null", jBool c.nullInput),
    ("to", jStr (fmtName (c.to.getD .json))), ("join", jBool c.joinOutput),
    ("pp", jObj [("indent", match pp.indent with
                    | none => "null" | some cs => jStr (hx (String.ofList cs).toUTF8.toList)),
                 ("sort", jBool pp.sortKeys), ("color", jBool pp.color), ("sep", jBool pp.sepSpace)]),
    ("exit_status", jBool c.exitStatus), ("from_file", jBool c.fromFile),
    ("in_place", jBool c.inPlace), ("tab", jBool c.tab),
    ("indent", match c.indent with | none => "null" | some n => toString n)]

def parseOp (toks : List String) : String :=
  match parseArgs toks with
  | none => "bad-request"
  | some argv =>
    match Cli.parse argv with
    | .error e => jObj [("ok", "false"), ("error", jStr (errName e))]
    | .ok c => plan c

/-! ### the oracle table → `World DVal` -/

structure DVal where
  truthy : Bool := true
  str : Option Bytes := none
  body : Except Unit Bytes := .error ()
  path : Option Bytes := none   -- set by `pathVal` / `strVal`: identifies the file in `run`
deriving Inhabited

def parseDVal (parts : List String) : Option DVal :=
  match parts with
  | [t, s, b] =>
    let str := if s = "-" then some none else (unhx s).map some
    let body : Option (Except Unit Bytes) := if b = "!" then some (.error ()) else (unhx b).map .ok
    match str, body with
    | some str, some body => some { truthy := t = "1", str, body }
    | _, _ => none
  | _ => none

def parseItem (t : String) : Option (Item DVal) :=
  if t = "E" then some .bad
  else match t.splitOn ":" with
    | "V" :: rest => (parseDVal rest).map .val
    | _ => none

def parseEv (t : String) : Option (Ev DVal) :=
  if t = "P" then some .pull
  else match t.splitOn ":" with
    | "O" :: rest => (parseDVal rest).map .out
    | _ => none

def parseStop (t : String) : Option Stop :=
  match t.toList with
  | ['D'] => some .done
  | ['E'] => some .err
  | 'H' :: cs => (intOfDecChars cs).map .halt
  | _ => none

structure Src where
  key : Bytes              -- path bytes; `[0]` for stdin
  fmt : String
  status : String          -- load | read | ok
  trunc : Bool
  items : List (Item DVal)

structure Table where
  binds : List String := []
  compile : String := "ok"
  null : Bool := false
  srcs : List Src := []
  traces : List ((Nat × Option Nat) × Trace DVal) := []   -- (source index, position | none = null input)

def takeN {α} (f : String → Option α) : Nat → List String → Option (List α × List String)
  | 0, toks => some ([], toks)
  | _ + 1, [] => none
  | n + 1, t :: rest => do
    let a ← f t
    let (as, rest') ← takeN f n rest
    pure (a :: as, rest')

partial def parseTable (toks : List String) (tb : Table) : Option Table :=
  match toks with
  | [] => some tb
  | "B" :: n :: rest => do
    let n ← n.toNat?
    let (bs, rest') ← takeN some n rest
    parseTable rest' { tb with binds := bs }
  | "C" :: s :: rest => parseTable rest { tb with compile := s }
  | "NULL" :: s :: rest => parseTable rest { tb with null := s = "1" }
  | "SRC" :: key :: fmt :: status :: trunc :: n :: rest => do
    let key ← if key = "STDIN" then some [0] else unhx key
    let n ← n.toNat?
    let (items, rest') ← takeN parseItem n rest
    parseTable rest' { tb with srcs := tb.srcs ++ [{ key, fmt, status, trunc := trunc = "T", items }] }
  | "TR" :: idx :: pos :: n :: rest => do
    let idx ← idx.toNat?
    let pos ← if pos = "N" then some none else pos.toNat?.map some
    let n ← n.toNat?
    let (evs, rest') ← takeN parseEv n rest
    match rest' with
    | stop :: rest'' =>
      let stop ← parseStop stop
      parseTable rest'' { tb with traces := tb.traces ++ [((idx, pos), { evs, stop })] }
    | [] => none
  | _ => none

def stdinKey : Bytes := [0]

def findSrc (tb : Table) (key : Bytes) : Option (Nat × Src) :=
  (tb.srcs.zipIdx.find? fun (s, _) => s.key == key).map fun (s, i) => (i, s)

def bindPlan (c : Cli) : List (String × Bytes) :=   -- (kind, payload) in the model's order
  (c.arg.map fun (_, v) => ("A", v.toUTF8.toList)) ++
  (c.rawfile.map fun (_, p) => ("R", Arg.bytes p)) ++
  (c.slurpfile.map fun (_, p) => ("S", Arg.bytes p)) ++
  (c.argjson.map fun (_, v) => ("J", v.toUTF8.toList))

def bindOk (tb : Table) (c : Cli) (kind : String) (payload : Bytes) : Bool :=
  match ((bindPlan c).zip tb.binds).find? fun (kp, _) => kp.1 == kind && kp.2 == payload with
  | some (_, s) => s == "ok"
  | none => true

def world (tb : Table) (c : Cli) (ver help : Bytes) : World DVal :=
  { ops := { asBool := (·.truthy), strBytes := (·.str) }
    -- the value `null` of `--null-input`.  Its rendering depends on the output format and on the
    -- colour option; it is only ever printed when no filter is given (`Filter::default()` = identity),
    -- and then the harness has run that identity on `null` and reports the rendering in its trace.
    null :=
      let dflt : DVal := { truthy := false, body := .ok [110, 117, 108, 108] }
      if c.filter.isNone then
        match tb.traces.findSome? (fun (k, tr) =>
            if k.2.isNone then tr.evs.findSome? (fun e => match e with | .out v => some v | .pull => none) else none) with
        | some v => v
        | none => dflt
      else dflt
    tty := {}
    body := fun _ _ v => v.body
    strVal := fun s => { str := some s.toUTF8.toList, path := some s.toUTF8.toList }
    pathVal := fun a => { str := some (Arg.bytes a), path := some (Arg.bytes a) }
    bytesVal := fun b => { str := some b }
    parseJson := fun t => if bindOk tb c "J" t.toUTF8.toList then some {} else none
    loadFile := fun p =>
      match findSrc tb (Arg.bytes p) with
      | some (_, s) => if s.status = "load" then none else some (Arg.bytes p)
      | none => if bindOk tb c "R" (Arg.bytes p) then some (Arg.bytes p) else none
    jsonArray := fun (b : Bytes) => if bindOk tb c "S" b then some {} else none
    mkArgs := fun _ _ => {}
    envVal := {}
    readFilter := fun _ => if tb.compile = "io" then none else some ""
    compile := fun _ _ _ =>
      if tb.compile = "fail" then none
      else some {
        imported := []
        run := fun vars x rest =>
          let key := if c.files.isEmpty then stdinKey else
            ((vars.getLast?.bind (·.path)).getD [])
          match findSrc tb key with
          | none => { evs := [], stop := .err }
          | some (i, s) =>
            let pos : Option Nat := if c.nullInput then none else some (s.items.length - 1 - rest.length)
            let _ := x
            match tb.traces.find? fun (k, _) => k == (i, pos) with
            | some (_, tr) => tr
            | none => { evs := [], stop := .err } }
    reader := fun fmt _ b =>
      match findSrc tb b with
      | none => .error ()
      | some (_, s) =>
        if s.status = "read" || s.fmt ≠ fmtName fmt then .error () else .ok s.items
    stdin := stdinKey
    versionOut := ver
    helpOut := help }

def stepsSummary (r : MainRes DVal) : String :=
  ",".intercalate (r.files.map fun f =>
    "[" ++ ";".intercalate (f.steps.map fun s =>
      toString s.start ++ (if s.took then "m" else "n") ++ "+" ++ toString s.pulls ++ ">" ++ toString s.outs.length) ++ "]")

/-- did the model read up to the end of a truncated item list? -/
def truncHit (tb : Table) (r : MainRes DVal) : Bool :=
  (r.files.zipIdx).any fun (f, i) =>
    match tb.srcs[i]? with
    | some s => s.trunc && (f.steps.getLast?.map (·.next)).getD 0 ≥ s.items.length
    | none => false

def runOp (toks : List String) : String :=
  match toks with
  | fix :: ver :: help :: n :: rest =>
    match n.toNat?, unhx ver, unhx help with
    | some n, some ver, some help =>
      match parseArgs (rest.take n), parseTable (rest.drop n) {} with
      | some argv, some tb =>
        let fix := fix = "1"
        match Cli.parse argv with
        | .error _ =>
          let p := procMain (world tb {} ver help) argv fix
          s!"{p.exit} {if p.message then 1 else 0} 0 0 {hx p.stdout} -"
        | .ok c =>
          let W := world tb c ver help
          let p := procMain W argv fix
          let r := realMain W c fix
          let special := c.version || c.help || c.runTests.isSome
          let steps := if special || r.files.isEmpty then "-" else stepsSummary r
          let th := !special && truncHit tb r
          s!"{p.exit} {if p.message then 1 else 0} {if p.unmodelled then 1 else 0} {if th then 1 else 0} {hx p.stdout} {steps}"
      | _, _ => "bad-request"
    | _, _, _ => "bad-request"
  | _ => "bad-request"

def handlers : List (String × Handler) := [
  ("c17.parse", parseOp),
  ("c17.run", runOp)
]

end Jaq.Driver.C17
