/- C20 driver: `c20.<op> <oc> <vx>`; `oc` = 1 for a build with overflow checks (the harness), 0 for
   a wrapping build.  Answers `V <vx>` / `E <class>` / `P <mul|add>` / `U` (text outside the
   modelled RFC 3339 syntax).  The state of the tree (which repairs are applied) is
   `Jaq.Time.treeFixes`; `c20f.<op>` answers for the fully repaired code (`Fixes.all`). -/
import Driver.Common
import JaqVerif.C20.Epoch
import JaqVerif.C20.Strtime

namespace Jaq.Driver.C20
open Jaq.Time

def errCls : Err → String
  | .str "cannot convert" => "fail"
  | .str _ => "jiff"
  | e => e.cls

def showOut : Out Val → String
  | .ok (.ok v) => "V " ++ showVal v
  | .ok (.error e) => "E " ++ errCls e
  | .error .mulOverflow => "P mul"
  | .error .addOverflow => "P add"

def showR : Except Err Val → String
  | .ok v => "V " ++ showVal v
  | .error e => "E " ++ errCls e

def build (oc : String) : Build := ⟨oc != "0"⟩

def run (fx : Fixes) (op : String) (oc : String) (v : Val) : String :=
  match op with
  | "gmtime" => showOut (gmtime fx (build oc) v)
  | "mktime" => showOut (mktime fx (build oc) v)
  | "todate" => showR (todate fx v)
  | "fromdate" =>
    match fromdate fx v with
    | some r => showR r
    | none => "U"
  | "gm_mk" =>
    match gmtime fx (build oc) v with
    | .ok (.ok a) => showOut (mktime fx (build oc) a)
    | r => showOut r
  | "to_from" =>
    match todate fx v with
    | .ok s => (match fromdate fx s with | some r => showR r | none => "U")
    | .error e => "E " ++ errCls e
  | _ => "bad-op"

def handler (fx : Fixes) (op : String) : Handler := fun toks =>
  match toks with
  | oc :: rest => withVals 1 rest fun vs =>
    match vs with
    | [v] => run fx op oc v
    | _ => "bad-request"
  | _ => "bad-request"

def ops : List String := ["gmtime", "mktime", "todate", "fromdate", "gm_mk", "to_from"]

/-- independent calendar, for the harness-side oracle: `c20.civil <days>` → `y m d wd yd` -/
def civil : Handler := fun toks =>
  match toks with
  | [d] =>
    match intOfDec d with
    | some n =>
      let c := civilFromDays n
      s!"{c.1} {c.2.1} {c.2.2} {weekday n} {yearday n}"
    | none => "bad-request"
  | _ => "bad-request"

/-! `c20.strftime <hexfmt> <vx>` and `c20.strptime <hexfmt> <hextext>` (`-` = empty byte
string): the model of `strftime(F)` / `strptime(F)` of `JaqVerif/C20/Strtime.lean`; `U` when the
format is outside the modelled directive subset. -/

def unhexChars (t : String) : Option (List Char) :=
  if t == "-" then some [] else (bytesOfHex t).map fun bs => bs.map fun b => Char.ofNat b.toNat

def charsToVal (cs : List Char) : Val := .tstr (cs.map fun c => UInt8.ofNat c.toNat)

def strftimeH (fx : Fixes) : Handler := fun toks =>
  match toks with
  | fm :: rest =>
    match unhexChars fm with
    | none => "bad-request"
    | some fcs => withVals 1 rest fun vs =>
      match vs, parseFormat fcs with
      | [v], some items =>
        (match strftimeJaq fx ⟨true⟩ items v with
         | .ok (.ok cs) => "V " ++ showVal (charsToVal cs)
         | .ok (.error e) => "E " ++ errCls e
         | .error .mulOverflow => "P mul"
         | .error .addOverflow => "P add")
      | [_], none => "U"
      | _, _ => "bad-request"
  | _ => "bad-request"

def strptimeH : Handler := fun toks =>
  match toks with
  | [fm, tx] =>
    match unhexChars fm, unhexChars tx with
    | some fcs, some tcs =>
      (match parseFormat fcs with
       | some items => showR (strptimeJaq items tcs)
       | none => "U")
    | _, _ => "bad-request"
  | _ => "bad-request"

def handlers : List (String × Handler) :=
  ops.map (fun op => ("c20." ++ op, handler treeFixes op)) ++
  ops.map (fun op => ("c20f." ++ op, handler Fixes.all op)) ++
  [("c20.civil", civil), ("c20.strftime", strftimeH treeFixes), ("c20f.strftime", strftimeH Fixes.all),
   ("c20.strptime", strptimeH), ("c20f.strptime", strptimeH)]

end Jaq.Driver.C20
