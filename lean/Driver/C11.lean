/-
  Driver of C11: runs the impl-models of `JaqVerif/C11/Stream.lean` on outcomes sent as data.

  outcome  ::= <k> <vx>*k <stop>          stop ::= done | fuel | X | H<code> | E <vx>
  requests
    c11.nat <op> <n:vx> <outcome>                      op ∈ limit skip nth first last isempty
    c11.range <fuel> <from:vx> <to:vx> <by:vx>
    c11.fold <kind> <xs:outcome> <init:outcome> <m> (<i> <y:vx> <outcome>)*m [<p> (<i> <y:vx> <outcome>)*p]
                                                       kind ∈ reduce foreach foreachp
    c11.add <outcome>
  answer: items `V <vx>` joined by " ; ", then the stop (`done`, `fuel`, `X`, `H<code>`, `E <vx>`, `Emath`, …)
-/
import Driver.Common
import JaqVerif.C11.Stream

namespace Jaq.Driver.C11
open Jaq Jaq.C11

/-- text of jaq's `Error::math` messages; the model does not build message texts, so both sides
print such errors as the class `Emath` -/
def mathPrefix : List UInt8 := "cannot calculate ".toUTF8.toList

def isMathMsg : Val → Bool
  | .tstr b | .bstr b => mathPrefix.isPrefixOf b
  | _ => false

def showStop : Stop → String
  | .done => "done"
  | .fuel => "fuel"
  | .brk _ => "X"
  | .halt c => "H" ++ toString c
  | .err (.val v) => if isMathMsg v then "Emath" else "E " ++ showVal v
  | .err e => "E" ++ e.cls

def showOut (o : Out Val) : String :=
  " ; ".intercalate (o.vals.map (fun v => "V " ++ showVal v) ++ [showStop o.stop])

def parseStop : List String → Option (Stop × List String)
  | "done" :: r => some (.done, r)
  | "fuel" :: r => some (.fuel, r)
  | "X" :: r => some (.brk 0, r)
  | "E" :: r =>
    match Val.parseVX (r.length + 1) r with
    | some (v, r') => some (.err (.val v), r')
    | none => none
  | t :: r =>
    match t.toList with
    | 'H' :: cs => (intOfDecChars cs).map fun c => (.halt c, r)
    | _ => none
  | [] => none

def parseOut (toks : List String) : Option (Out Val × List String) :=
  match toks with
  | [] => none
  | k :: r =>
    match natOfDecChars k.toList with
    | none => none
    | some k =>
      match Val.parseVXs r k with
      | none => none
      | some (vs, r') =>
        match parseStop r' with
        | none => none
        | some (s, r'') => some (⟨vs, s⟩, r'')

/-- table of a filter with a bound `$x`: entries (index of x in xs, input value, outcome) -/
abbrev Table := List (Nat × String × Out Val)

def parseTable : Nat → List String → Option (Table × List String)
  | 0, r => some ([], r)
  | m + 1, i :: r =>
    match natOfDecChars i.toList, Val.parseVX (r.length + 1) r with
    | some i, some (y, r') =>
      match parseOut r' with
      | some (o, r'') =>
        match parseTable m r'' with
        | some (t, r''') => some ((i, showVal y, o) :: t, r''')
        | none => none
      | none => none
    | _, _ => none
  | _, [] => none

def parseCountTable (toks : List String) : Option (Table × List String) :=
  match toks with
  | m :: r => (natOfDecChars m.toList).bind fun m => parseTable m r
  | [] => none

def Table.get (t : Table) (i : Nat) (y : Val) : Out Val :=
  let key := showVal y
  match t.find? (fun e => e.1 == i && e.2.1 == key) with
  | some e => e.2.2
  | none => Out.fail (.str "table-miss")

def foldFuel : Nat := 200000

def indexed (o : Out Val) : Out (Nat × Val) := ⟨o.vals.zipIdx.map (fun p => (p.2, p.1)), o.stop⟩

def nat (op : String) (n : Val) (f : Out Val) : String :=
  match op with
  | "limit" => showOut (limit n f)
  | "skip" => showOut (skip n f)
  | "nth" => showOut (nth n f)
  | "first" => showOut (first f)
  | "last" => showOut (last f)
  | "isempty" => showOut ((isempty f).map Val.bool)
  | _ => "bad-op"

def handlers : List (String × Handler) := [
  ("c11.nat", fun toks =>
    match toks with
    | op :: rest =>
      match Val.parseVX (rest.length + 1) rest with
      | some (n, r) =>
        match parseOut r with
        | some (f, []) => nat op n f
        | _ => "bad-request"
      | none => "bad-request"
    | _ => "bad-request"),
  ("c11.range", fun toks =>
    match toks with
    | fuel :: rest =>
      match natOfDecChars fuel.toList with
      | some fuel => withVals 3 rest fun vs =>
        match vs with
        | [a, b, c] => showOut (rangeNative valRangeOps b c fuel (.ok a))
        | _ => "bad-request"
      | none => "bad-request"
    | _ => "bad-request"),
  ("c11.add", fun toks =>
    match parseOut toks with
    | some (xs, []) => showOut (addRun foldFuel xs)
    | _ => "bad-request"),
  ("c11.fold", fun toks =>
    match toks with
    | kind :: rest =>
      match parseOut rest with
      | some (xs, r1) =>
        match parseOut r1 with
        | some (init, r2) =>
          match parseCountTable r2 with
          | some (upd, r3) =>
            let xs' := indexed xs
            let f := fun (x : Nat × Val) (y : Val) => upd.get x.1 y
            match kind, r3 with
            | "reduce", [] => showOut (reduceRun foldFuel hintExact xs' init f)
            | "foreach", [] => showOut (foreachRun foldFuel hintExact xs' init f)
            | "foreachp", r3 =>
              match parseCountTable r3 with
              | some (proj, []) =>
                showOut (foreachProjRun foldFuel hintExact xs' init f fun x y => proj.get x.1 y)
              | _ => "bad-request"
            | _, _ => "bad-request"
          | none => "bad-request"
        | none => "bad-request"
      | none => "bad-request"
    | _ => "bad-request")
]

end Jaq.Driver.C11
