/- C03 driver: `c03.take <fuel> <k> <n-inputs> <inputs…> <input> <n-defs> <defs…> <term>`
   answers `I <items> c=<consumed> | R <items> c=<consumed> | P <0|1>` — the iterator model and the
   reference semantics taking `k` items, and whether the program satisfies `PureIndexFilters`.  Terms travel in prefix form (see `parseT`). -/
import Driver.Common
import JaqVerif.C03.Ref
import JaqVerif.C03.Iter

namespace Jaq.Driver.C03
open Jaq Jaq.C03

partial def parseT : List String → Option (T × List String)
  | "id" :: r => some (.id, r)
  | "empty" :: r => some (.empty, r)
  | "error" :: r => some (.error, r)
  | "input" :: r => some (.input, r)
  | "inputs" :: r => some (.inputs, r)
  | "lit" :: r => do
    let (v, r) ← Val.parseVX 100000 r
    pure (.lit v, r)
  | "halt" :: c :: r => do pure (.halt (← intOfDec c), r)
  | "var" :: i :: r => do pure (.var (← i.toNat?), r)
  | "call" :: i :: r => do pure (.call (← i.toNat?), r)
  | "tcall" :: i :: r => do pure (.tcall (← i.toNat?), r)
  | "range" :: a :: b :: c :: r => do pure (.range (← intOfDec a) (← intOfDec b) (← intOfDec c), r)
  | "comma" :: r => bin .comma r
  | "pipe" :: r => bin .pipe r
  | "as" :: r => bin .as_ r
  | "alt" :: r => bin .alt r
  | "or" :: r => bin (.logic true) r
  | "and" :: r => bin (.logic false) r
  | "try" :: r => bin .tryCatch r
  | "index" :: r => bin .index r
  | "ite" :: r => do
    let (c, r) ← parseT r
    let (t, r) ← parseT r
    let (e, r) ← parseT r
    pure (.ite c t e, r)
  | "first" :: r => un .first r
  | "label" :: r => un .label r
  | "limit" :: n :: r => do let k ← n.toNat?; un (.limit k) r
  | "skip" :: n :: r => do let k ← n.toNat?; un (.skip k) r
  | "arr" :: r => un .arr r
  | "add" :: r => bin (.math .add) r
  | "sub" :: r => bin (.math .sub) r
  | "mul" :: r => bin (.math .mul) r
  | "fvar" :: i :: r => do pure (.fvar (← i.toNat?), r)
  | "reduce" :: r => do
    let (xs, r) ← parseT r
    let (i, r) ← parseT r
    let (u, r) ← parseT r
    pure (.fold .reduce xs i u .id, r)
  | "foreach" :: r => do
    let (xs, r) ← parseT r
    let (i, r) ← parseT r
    let (u, r) ← parseT r
    pure (.fold .foreach xs i u .id, r)
  | "foreachp" :: r => do
    let (xs, r) ← parseT r
    let (i, r) ← parseT r
    let (u, r) ← parseT r
    let (p, r) ← parseT r
    pure (.fold .foreachP xs i u p, r)
  | "calla" :: ty :: i :: skip :: n :: r => do
    let ty ← (match ty with | "inline" => some CallTy.inline | "catch" => some CallTy.catch_ | _ => none)
    let (args, r) ← parseArgs (← n.toNat?) r
    pure (.callA ty (← i.toNat?) (← skip.toNat?) args, r)
  | "tcalla" :: i :: skip :: n :: r => do
    let (args, r) ← parseArgs (← n.toNat?) r
    pure (.tcallA (← i.toNat?) (← skip.toNat?) args, r)
  | _ => none
where
  parseArgs (n : Nat) (r : List String) : Option (List (Bool × T) × List String) :=
    match n with
    | 0 => some ([], r)
    | n + 1 =>
      match r with
      | "F" :: r => do
        let (a, r) ← parseT r
        let (rest, r) ← parseArgs n r
        pure ((true, a) :: rest, r)
      | "V" :: r => do
        let (a, r) ← parseT r
        let (rest, r) ← parseArgs n r
        pure ((false, a) :: rest, r)
      | _ => none
  bin (f : T → T → T) (r : List String) : Option (T × List String) := do
    let (a, r) ← parseT r
    let (b, r) ← parseT r
    pure (f a b, r)
  un (f : T → T) (r : List String) : Option (T × List String) := do
    let (a, r) ← parseT r
    pure (f a, r)

def parseTs : Nat → List String → Option (List T × List String)
  | 0, r => some ([], r)
  | n + 1, r => do
    let (t, r) ← parseT r
    let (ts, r) ← parseTs n r
    pure (t :: ts, r)

def showItem : Item → String
  | .ok v => "V " ++ showVal v
  | .err e => "E " ++ showVal e
  | .brk l => "B " ++ toString l
  | .halt c => "H " ++ toString c

/-- take up to `k` items; the flag says that the fuel ran out (divergence) -/
def takeItD (D : List T) (fuel : Nat) : Nat → It → World → List Item × World × Bool
  | 0, _, w => ([], w, false)
  | k + 1, it, w =>
    match next D fuel it w with
    | none => ([], w, true)
    | some (none, _, w1) => ([], w1, false)
    | some (some x, it', w1) =>
      let (xs, w2, d) := takeItD D fuel k it' w1
      (x :: xs, w2, d)

def takeRefD (D : List T) (fuel : Nat) : Nat → Th → World → List Item × World × Bool
  | 0, _, w => ([], w, false)
  | k + 1, th, w =>
    match force D fuel th w with
    | none => ([], w, true)
    | some (.done, w1) => ([], w1, false)
    | some (.yield x th', w1) =>
      let (xs, w2, d) := takeRefD D fuel k th' w1
      (x :: xs, w2, d)

def showRun (r : List Item × World × Bool) : String :=
  let (xs, w, d) := r
  let items := xs.map showItem ++ (if d then ["DIVERGE"] else [])
  (if items.isEmpty then "-" else " ; ".intercalate items) ++ " c=" ++ (if d then "?" else toString w.log.length)

def take (toks : List String) : Option String := do
  let fuelS :: kS :: ninS :: r := toks | none
  let fuel ← fuelS.toNat?
  let k ← kS.toNat?
  let nin ← ninS.toNat?
  let (ins, r) ← Val.parseVXs r nin
  let (v, r) ← Val.parseVX 100000 r
  let ndS :: r := r | none
  let nd ← ndS.toNat?
  let (D, r) ← parseTs nd r
  let (t, r) ← parseT r
  if !r.isEmpty then none
  let w : World := ⟨ins, []⟩
  let ctx : Ctx := ⟨[], 0⟩
  let iRes :=
    match mk D fuel t ctx v w with
    | none => ([], w, true)
    | some (it, w0) => takeItD D fuel k it w0
  let rRes := takeRefD D fuel k (.run t ctx v) w
  -- is the program inside the class the main theorem speaks about (`PureIndexFilters`)?
  let inClass := t.pureIdx && D.all T.pureIdx
  pure ("I " ++ showRun iRes ++ " | R " ++ showRun rRes ++ " | P " ++ (if inClass then "1" else "0"))

def handlers : List (String × Handler) := [
  ("c03.take", fun toks => (take toks).getD "bad-request")
]

end Jaq.Driver.C03
