/- Line-protocol handlers of C04 (see harness/src/props/c04.rs for the token syntax). -/
import Driver.Common
import Driver.C04Rt
import JaqVerif.C04.Tco
import JaqVerif.C04.TailNest
import JaqVerif.C04.Stack
import JaqVerif.C04.Nest
import JaqVerif.Gen.C04Defs

namespace Jaq.Driver.C04
open Jaq.C04

def natOf (s : String) : Nat := s.toNat?.getD 0

def csvNats (s : String) : List Nat :=
  if s.isEmpty then [] else (s.splitOn ",").map natOf

def parseParams (s : String) : List Param :=
  if s.isEmpty then [] else
    (s.splitOn ",").map fun p => ⟨p.startsWith "v", natOf (p.drop 1).toString⟩

def argsOfList : List Tm → Args
  | [] => .nil
  | a :: as => .cons a (argsOfList as)

/-- after the first `:` -/
def afterColon (s : String) : String := ":".intercalate ((s.splitOn ":").drop 1)
def beforeColon (s : String) : String := (s.splitOn ":").headD ""

mutual
partial def parseTm : List String → Option (Tm × List String)
  | [] => none
  | tok :: rest =>
    let two (k : Tm → Tm → Tm) : Option (Tm × List String) := do
      let (a, r) ← parseTm rest
      let (b, r) ← parseTm r
      pure (k a b, r)
    let three (k : Tm → Tm → Tm → Tm) : Option (Tm × List String) := do
      let (a, r) ← parseTm rest
      let (b, r) ← parseTm r
      let (c, r) ← parseTm r
      pure (k a b c, r)
    if tok == "L" then some (.leaf, rest)
    else if tok == "U" then do let (a, r) ← parseTm rest; pure (.un a, r)
    else if tok == "T" then two .tryc
    else if tok == "B" then two .bin
    else if tok == "P" then two fun a b => .pipe a none b
    else if tok == "M" then two .comma
    else if tok == "A" then two .alt
    else if tok == "I" then three .ite
    else if tok.startsWith "Lb" then do
      let (a, r) ← parseTm rest
      pure (.label (natOf (tok.drop 2).toString) a, r)
    else if tok.startsWith "V" then some (.var (natOf (tok.drop 1).toString), rest)
    else if tok.startsWith "K" then some (.brk (natOf (tok.drop 1).toString), rest)
    else if tok.startsWith "Q:" then two fun a b => .pipe a (some (csvNats (afterColon tok))) b
    else if tok.startsWith "R:" then three fun a b c => .reduce a (csvNats (afterColon tok)) b c
    else if tok.startsWith "F:" then three fun a b c => .foreach2 a (csvNats (afterColon tok)) b c
    else if tok.startsWith "G:" then do
      let (a, r) ← parseTm rest
      let (b, r) ← parseTm r
      let (c, r) ← parseTm r
      let (d, r) ← parseTm r
      pure (.foreach3 a (csvNats (afterColon tok)) b c d, r)
    else if tok.startsWith "C" then do
      let (as, r) ← parseN (natOf (afterColon tok)) rest
      pure (.call (natOf ((beforeColon tok).drop 1).toString) (argsOfList as), r)
    else if tok.startsWith "X" then do
      let (as, r) ← parseN (natOf (tok.drop 1).toString) rest
      pure (.nary (argsOfList as), r)
    else if tok.startsWith "D" then do
      let (b, r) ← parseTm rest
      let (t, r) ← parseTm r
      pure (.defIn (natOf ((beforeColon tok).drop 1).toString) (parseParams (afterColon tok)) b t, r)
    else none
partial def parseN : Nat → List String → Option (List Tm × List String)
  | 0, r => some ([], r)
  | n + 1, r => do
    let (a, r) ← parseTm r
    let (as, r) ← parseN n r
    pure (a :: as, r)
end

def toDefS : Tm → Option DefS
  | .defIn n ps b _ => some ⟨n, ps, b⟩
  | _ => none

/-- `<K> <def1> … <defK> <main>` -/
def parseProgram (toks : List String) : Option (List DefS × Tm) := do
  let k :: rest := toks | none
  let (ds, r) ← parseN (natOf k) rest
  let ds ← ds.mapM toDefS
  let (m, r) ← parseTm r
  if r.isEmpty then pure (ds, m) else none

/-- the prelude the real loader always starts with: `def !empty: {}[];` -/
def emptyDef : DefS := ⟨999, [], .nary (.cons .leaf .nil)⟩

/-- `typ skip @ rank of the callee among all callees`, as `call_seq` of the harness -/
def callSeq (s : St) : String :=
  let es := (List.range s.next).filterMap fun i => s.lookup i
  let calls := es.filterMap fun e => match e.ct with
    | .callDef id _ skip typ => some (id, skip, typ)
    | _ => none
  let callees := (calls.map (·.1)).eraseDups
  let rank (id : Nat) : Nat := (callees.filter (· < id)).length
  ",".intercalate (calls.map fun (id, skip, typ) => s!"{typ.show}{skip}@{rank id}")

def scriptOfToks : Nat → List String → List Script.It
  | 0, _ => []
  | k + 1, hd :: rest =>
    let n := natOf (hd.drop 1).toString
    let items := (rest.take n).map fun t =>
      if t.startsWith "t" then Script.Item.tail (natOf (t.drop 1).toString) else .out (natOf (t.drop 1).toString)
    ⟨hd.startsWith "e", items⟩ :: scriptOfToks k (rest.drop n)
  | _, [] => []

def nestOfToks : Nat → List String → List Bool
  | 0, _ => []
  | k + 1, hd :: rest =>
    let n := natOf (hd.drop 1).toString
    (hd.startsWith "E" || hd.startsWith "I") :: nestOfToks k (rest.drop n)
  | _, [] => []

partial def parseAd : List String → Option (Ad × List String)
  | [] => none
  | tok :: r =>
    if tok == "C" then do
      let (a, r) ← parseAd r
      let (b, r) ← parseAd r
      pure (.chainAB a b, r)
    else if tok == "Z" then do
      let (s, r) ← parseAd r
      pure (.lazyU s, r)
    else if tok == "O-" then some (.once none, r)
    else if tok.startsWith "Oo" then some (.once (some (.out (natOf (tok.drop 2).toString))), r)
    else if tok.startsWith "Ot" then some (.once (some (.tail (natOf (tok.drop 2).toString))), r)
    else none

def adTrace : Nat → Ad → List String → List String
  | 0, _, acc => acc
  | n + 1, a, acc =>
    let h := if a.hintZero then "h1" else "h0"
    match a.next with
    | some (.out v, a') => adTrace n a' (acc ++ [s!"{h}o{v}"])
    | some (.tail k, a') => adTrace n a' (acc ++ [s!"{h}t{k}"])
    | none => acc ++ [s!"{h}end"]

def handlers : List (String × Handler) := [
  ("c04.compile", fun toks =>
    match parseProgram toks with
    | some (ds, m) => let (id, s) := compileMain (emptyDef :: ds) m; s!"{id}|{s.showTable}"
    | none => "bad-request"),
  ("c04.callseq", fun toks =>
    match parseProgram toks with
    | some (ds, m) => let (_, s) := compileMain (emptyDef :: ds) m; "~" ++ callSeq s
    | none => "bad-request"),
  -- is the program a tail nest (narrow: as the property words it / wide: as the compiler sees it)?
  ("c04.spec", fun toks =>
    match parseProgram toks with
    | some (ds, m) =>
      let nest := nestOf (emptyDef :: ds) m
      s!"{decide (TailNest false nest)} {decide (TailNest true nest)}"
    | none => "bad-request"),
  ("c04.builtin_calls", fun _ =>
    let (_, s) := compileMain (emptyDef :: Gen.prelude) .leaf
    callSeq s),
  -- `name/arity` of every generated definition that is not a tail nest
  ("c04.builtin_nontail", fun _ =>
    " ".intercalate ((nonTailDefs (emptyDef :: Gen.prelude)).map fun i => (Gen.texts[i - 1]?).getD s!"#{i}")),
  ("c04.stack", fun toks =>
    match toks with
    | pulls :: k :: rest => Script.trace (scriptOfToks (natOf k) rest) (natOf pulls)
    | _ => "bad-request"),
  ("c04.adapters", fun toks =>
    match toks with
    | n :: rest =>
      match parseAd rest with
      | some (a, []) => " ".intercalate (adTrace (natOf n) a [])
      | _ => "bad-request"
    | _ => "bad-request"),
  -- stacks of stacks: script heads `e|i|E|I<n>` (capital = instantiated as a nested `CatchOne` stack)
  ("c04.nstack", fun toks =>
    match toks with
    | pulls :: k :: rest =>
      let nest := nestOfToks (natOf k) rest
      Script.ntrace (scriptOfToks (natOf k) (rest.map String.toLower)) nest (natOf pulls)
    | _ => "bad-request")
] ++ Jaq.Driver.C04Rt.handlers

end Jaq.Driver.C04
