/- Driver for C18: runs the in-place protocol model on traces of the real binary and on scenarios.

Token syntax (one request per line, blank separated):
  path   `<hexdir>/<hexname>`           (hex of the bytes; kept as the model's `Path` as is)
  op     `L,<path>` `T,<path>` `W,<path>,<hex>` `U,<path>` `S,<path>,<mode>` `R,<path>,<path>` `C,<path>,<mode>`
  file   `F,<path>,<hex>,<mode>`
  job    `J,<path>,<tmp>,<mode>,<fault>,<vals>`  fault: none load pre f<i>.<k> p<i> w<n> stat rename chmod
         vals: `_` (no value) or values joined by `;`, a value `-` (no output) or outputs joined by `:`,
         an output `-` (no write) or writes joined by `.`, a write = hex (or `e` for the empty write)
Requests
  c18.trace <ok|err|kill> <nF> file… <nOps> op… <nQ> path…
     → `A<0|1> R<idx|-> P<phase> V<0|1><0|1><0|1> <nJ> job… | state…`   (state: `-` or `<hex>,<mode>` per queried path)
  c18.scenario <kill n|-> <nF> file… <nJ> job… <nQ> path…
     → `A<0|1> W<0|1> O<hex stdout> <nOps> op… | state…`
-/
import Driver.Common
import JaqVerif.C18.InPlace

namespace Jaq.Driver.C18
open Jaq.C18

def parsePath (s : String) : Option Path :=
  match s.splitOn "/" with
  | [d, n] => some ⟨d, n⟩
  | _ => none

def showPath (p : Path) : String := p.dir ++ "/" ++ p.name

def parseOp (s : String) : Option Op :=
  match s.splitOn "," with
  | ["L", p] => (parsePath p).map Op.load
  | ["T", p] => (parsePath p).map Op.mkTemp
  | ["W", p, b] => do some (Op.write (← parsePath p) (← bytesOfHex b))
  | ["U", p] => (parsePath p).map Op.unlink
  | ["S", p, m] => do some (Op.stat (← parsePath p) (← m.toNat?))
  | ["R", t, p] => do some (Op.rename (← parsePath t) (← parsePath p))
  | ["C", p, m] => do some (Op.chmod (← parsePath p) (← m.toNat?))
  | _ => none

def showOp : Op → String
  | .load p => "L," ++ showPath p
  | .mkTemp p => "T," ++ showPath p
  | .write p b => "W," ++ showPath p ++ "," ++ hexOfBytes b
  | .unlink p => "U," ++ showPath p
  | .stat p m => "S," ++ showPath p ++ "," ++ toString m
  | .rename t p => "R," ++ showPath t ++ "," ++ showPath p
  | .chmod p m => "C," ++ showPath p ++ "," ++ toString m

def parseFile (s : String) : Option (Path × Bytes × Mode) :=
  match s.splitOn "," with
  | ["F", p, b, m] => do some (← parsePath p, ← bytesOfHex b, ← m.toNat?)
  | _ => none

def parseFault (s : String) : Option (Option Fault) :=
  match s with
  | "none" => some none
  | "load" => some (some .loadErr)
  | "pre" => some (some .preErr)
  | "stat" => some (some .statErr)
  | "rename" => some (some .renameErr)
  | "chmod" => some (some .chmodErr)
  | _ =>
    match s.toList with
    | 'f' :: rest =>
      match (String.ofList rest).splitOn "." with
      | [i, k] => do some (some (.filterErr (← i.toNat?) (← k.toNat?)))
      | _ => none
    | 'p' :: rest => (String.ofList rest).toNat?.map fun i => some (.parseErr i)
    | 'w' :: rest => (String.ofList rest).toNat?.map fun n => some (.writeErr n)
    | _ => none

def showFault : Option Fault → String
  | none => "none"
  | some .loadErr => "load"
  | some .preErr => "pre"
  | some .statErr => "stat"
  | some .renameErr => "rename"
  | some .chmodErr => "chmod"
  | some (.filterErr i k) => "f" ++ toString i ++ "." ++ toString k
  | some (.parseErr i) => "p" ++ toString i
  | some (.writeErr n) => "w" ++ toString n

def parseWrite (s : String) : Option Bytes := if s = "e" then some [] else bytesOfHex s
def parseOutput (s : String) : Option (List Bytes) :=
  if s = "-" then some [] else (s.splitOn ".").mapM parseWrite
def parseValue (s : String) : Option (List (List Bytes)) :=
  if s = "-" then some [] else (s.splitOn ":").mapM parseOutput
def parseVals (s : String) : Option (List (List (List Bytes))) :=
  if s = "_" then some [] else (s.splitOn ";").mapM parseValue

def parseJob (s : String) : Option Job :=
  match s.splitOn "," with
  | ["J", p, t, m, f, v] => do
    some { path := ← parsePath p, tmp := ← parsePath t, mode := ← m.toNat?, fault := ← parseFault f,
           vals := ← parseVals v }
  | _ => none

/-- decoded jobs are shown with their complete output as one write -/
def showJob (j : Job) : String :=
  "J," ++ showPath j.path ++ "," ++ showPath j.tmp ++ "," ++ toString j.mode ++ "," ++ showFault j.fault
    ++ "," ++ (let o := j.output; if o.isEmpty then "e" else hexOfBytes o)

def showState (fs : FS) (p : Path) : String :=
  match fs p with
  | none => "-"
  | some (c, m) => hexOfBytes c ++ "," ++ toString m

def showPhase : Phase → String
  | .idle => "idle" | .loaded _ => "loaded" | .writing .. => "writing" | .statted .. => "statted"
  | .renamed .. => "renamed" | .dead => "dead"

def b01 (b : Bool) : String := if b then "1" else "0"

/-- take `n` parsed items -/
def takeN {α} (parse : String → Option α) : Nat → List String → Option (List α × List String)
  | 0, toks => some ([], toks)
  | n + 1, t :: toks => do
    let x ← parse t
    let (xs, rest) ← takeN parse n toks
    some (x :: xs, rest)
  | _ + 1, [] => none

def section_ {α} (parse : String → Option α) : List String → Option (List α × List String)
  | n :: toks => do takeN parse (← n.toNat?) toks
  | [] => none

def trace (toks : List String) : String :=
  match toks with
  | kind :: toks =>
    match (do
      let (files, toks) ← section_ parseFile toks
      let (ops, toks) ← section_ parseOp toks
      let (qs, _) ← section_ parsePath toks
      some (files, ops, qs)) with
    | none => "bad-request"
    | some (files, ops, qs) =>
      let fs0 : FS := AFS.get files
      let acc := match kind with
        | "ok" => accepts true ops
        | "err" => accepts false ops
        | _ => acceptsPrefix ops
      let rej := match Mon.init.rejectAt ops 0 with | some i => toString i | none => "-"
      let ph := match Mon.init.run ops with | some s => showPhase s.phase | none => "reject"
      let jobs := decode ops
      let pre := decide (ops <+: protocol jobs)
      let fin : FS := AFS.get (execA files ops)   -- = exec fs0 ops  (Lemmas/C18Afs `execA_get`)
      "A" ++ b01 acc ++ " R" ++ rej ++ " P" ++ ph ++ " V" ++ b01 pre ++ b01 (staticWF jobs) ++ b01 (fsWF fs0 jobs)
        ++ " " ++ toString jobs.length ++ String.join (jobs.map fun j => " " ++ showJob j)
        ++ " |" ++ String.join (qs.map fun q => " " ++ showState fin q)
  | [] => "bad-request"

def scenario (toks : List String) : String :=
  match toks with
  | kill :: toks =>
    match (do
      let (files, toks) ← section_ parseFile toks
      let (jobs, toks) ← section_ parseJob toks
      let (qs, _) ← section_ parsePath toks
      some (files, jobs, qs)) with
    | none => "bad-request"
    | some (files, jobs, qs) =>
      let fs0 : FS := AFS.get files
      let all := protocol jobs
      let ops := match kill.toNat? with | some n => all.take n | none => all
      let fin : FS := AFS.get (execA files ops)
      "A" ++ b01 (acceptsPrefix ops) ++ " W" ++ b01 (staticWF jobs && fsWF fs0 jobs)
        ++ " O" ++ (let o := stdoutRun jobs; if o.isEmpty then "e" else hexOfBytes o)
        ++ " " ++ toString ops.length ++ String.join (ops.map fun o => " " ++ showOp o)
        ++ " |" ++ String.join (qs.map fun q => " " ++ showState fin q)
  | [] => "bad-request"

def handlers : List (String × Handler) := [
  ("c18.trace", trace),
  ("c18.scenario", scenario)
]

end Jaq.Driver.C18
