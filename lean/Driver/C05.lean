import Driver.Common
import JaqVerif.C05.Kernels
import JaqVerif.Val.Utf8

namespace Jaq.Driver.C05
open Jaq.C05

/-- a bound / index token: `-` (absent / null) or a VX number -/
def posOf (tok : String) : Option (Option (Option PosUsize)) :=
  -- outer none: bad request; middle none: not an integer in range (type error in jaq); inner: bound
  if tok == "-" then some (some none)
  else match Val.parseVXs [tok] 1 with
    | some ([.num n], []) => some ((Jaq.C05.asPosUsize n).map some)
    | _ => none

def showP {α} (f : α → String) : P α → String
  | .ok a => f a
  | .error _ => "P"

def showST (st : Nat × Nat) : String :=
  if st.2 == 0 then "- 0" else s!"{st.1} {st.2}"

def natOf (s : String) : Option Nat := natOfDecChars s.toList

def startsOf (s : String) : List Nat :=
  if s == "-" then [] else (s.splitOn ",").filterMap natOf

/-- string of characters from UTF-8 bytes (the requests only carry valid UTF-8) -/
def charsOfBytes (b : List UInt8) : List Char :=
  (Utf8.chunks b).map fun (c, _) => Char.ofNat (c.getD 0xFFFD)

def handlers : List (String × Handler) := [
  -- c05.index <vx num> <len>
  ("c05.index", fun toks => match toks with
    | [i, len] => match posOf i, natOf len with
      | some (some (some p)), some len => showP (fun o => match o with | some k => s!"some {k}" | none => "none") (indexAfterAbs p len)
      | some none, some _ => "none"   -- `Val::index`: an integer beyond usize indexes nothing
      | _, _ => "bad-request"
    | _ => "bad-request"),
  -- c05.skiptake <lo> <hi> <len>
  ("c05.skiptake", fun toks => match toks with
    | [lo, hi, len] => match posOf lo, posOf hi, natOf len with
      | some (some lo), some (some hi), some len =>
        showP (fun (r : Nat × Nat) => showST (r.1, r.2 - r.1)) (rangeOfSkipTake len (skipTake lo hi len))
      | some _, some _, some _ => "err"
      | _, _, _ => "bad-request"
    | _ => "bad-request"),
  -- c05.stc <len> <starts> <lo> <hi>
  ("c05.stc", fun toks => match toks with
    | [len, st, lo, hi] => match natOf len, posOf lo, posOf hi with
      | some len, some (some lo), some (some hi) => showP showST (skipTakeChars (startsOf st) len lo hi)
      | some _, some _, some _ => "err"
      | _, _, _ => "bad-request"
    | _ => "bad-request"),
  -- c05.spliceb <lo> <hi> <hex bytes> <hex replacement>   (byte strings: skip_take_bytes)
  ("c05.spliceb", fun toks => match toks with
    | [lo, hi, b, r] => match posOf lo, posOf hi, bytesOfHex (b.drop 1).toString, bytesOfHex (r.drop 1).toString with
      | some (some lo), some (some hi), some b, some r =>
        let st := skipTake lo hi b.length
        showP (fun _ => "x" ++ hexOfBytes (spliceSpec b st.1 st.2 r)) (bytesSplice b.length st.1 st.2 r.length)
      | some _, some _, some _, some _ => "err"
      | _, _, _, _ => "bad-request"
    | _ => "bad-request"),
  -- c05.splicec <lo> <hi> <hex text> <hex replacement>   (text strings: skip_take_chars)
  ("c05.splicec", fun toks => match toks with
    | [lo, hi, b, r] => match posOf lo, posOf hi, bytesOfHex (b.drop 1).toString, bytesOfHex (r.drop 1).toString with
      | some (some lo), some (some hi), some b, some r =>
        match skipTakeChars (Utf8.starts b) b.length lo hi with
        | .error _ => "P"
        | .ok st => showP (fun _ => "x" ++ hexOfBytes (spliceSpec b st.1 st.2 r)) (bytesSplice b.length st.1 st.2 r.length)
      | some _, some _, some _, some _ => "err"
      | _, _, _, _ => "bad-request"
    | _ => "bad-request"),
  -- c05.implode <int> / c05.implode-fixed <int>
  ("c05.implode", fun toks => match toks with
    | [i] => match intOfDecChars i.toList with
      | some i => showP (fun p => match p with
          | .byte b => "x" ++ hexOfBytes [UInt8.ofNat b]
          | .char c => "x" ++ hexOfBytes (Utf8.encode c)
          | .err => "err") (implodeStep i)
      | none => "bad-request"
    | _ => "bad-request"),
  ("c05.implode-fixed", fun toks => match toks with
    | [i] => match intOfDecChars i.toList with
      | some i => showP (fun p => match p with
          | .byte b => "x" ++ hexOfBytes [UInt8.ofNat b]
          | .char c => "x" ++ hexOfBytes (Utf8.encode c)
          | .err => "err") (implodeStepFixed i)
      | none => "bad-request"
    | _ => "bad-request"),
  -- c05.space <x hex utf8> / c05.space-fixed: characters left after `space`, or `detached`
  ("c05.space", fun toks => match toks with
    | [h] => match bytesOfHex (h.drop 1).toString with
      | some b => match spaceAll false (charsOfBytes b) with
        | .suffix t => s!"in {t.length}"
        | .detached => "detached"
      | none => "bad-request"
    | _ => "bad-request"),
  ("c05.space-fixed", fun toks => match toks with
    | [h] => match bytesOfHex (h.drop 1).toString with
      | some b => match spaceAll true (charsOfBytes b) with
        | .suffix t => s!"in {t.length}"
        | .detached => "detached"
      | none => "bad-request"
    | _ => "bad-request"),
  -- c05.cborneg <n>
  ("c05.cborneg", fun toks => match toks with
    | [n] => match natOf n with
      | some n => showP (fun (i : Int) => s!"{i}") (cborNegative n)
      | none => "bad-request"
    | _ => "bad-request")
]

end Jaq.Driver.C05
