import Driver.Common
import JaqVerif.C05.Kernels
import JaqVerif.C05.Kernels2
import JaqVerif.C05.Compile
import JaqVerif.Val.Utf8

namespace Jaq.Driver.C05
open Jaq.C05

/-- a bound / index token: `-` (absent / null) or a VX number -/
def posOf (tok : String) : Option (Option (Option PosUsize)) :=
  -- outer none: bad request; middle none: not an integer in range (type error in jaq); inner: bound
  if tok == "-" then some (some none)
  else match Val.parseVXs [tok] 1 with
    | some ([.num n], []) => some ((Jaq.C05.asPosUsize n).map some)
    | _ => none

def showP {α} (f : α → String) : P α → String
  | .ok a => f a
  | .error _ => "P"

def showST (st : Nat × Nat) : String :=
  if st.2 == 0 then "- 0" else s!"{st.1} {st.2}"

def natOf (s : String) : Option Nat := natOfDecChars s.toList

def startsOf (s : String) : List Nat :=
  if s == "-" then [] else (s.splitOn ",").filterMap natOf

/-- string of characters from UTF-8 bytes (the requests only carry valid UTF-8) -/
def charsOfBytes (b : List UInt8) : List Char :=
  (Utf8.chunks b).map fun (c, _) => Char.ofNat (c.getD 0xFFFD)

def natList (s : String) : List Nat :=
  if s == "-" then [] else (s.splitOn ",").filterMap natOf

def showNats (l : List Nat) : String :=
  if l.isEmpty then "-" else ",".intercalate (l.map toString)

def pairList (s : String) : List (Nat × Nat) :=
  if s == "-" then [] else (s.splitOn ",").filterMap fun p =>
    match p.splitOn ":" with
    | [a, b] => match natOf a, natOf b with
      | some a, some b => some (a, b)
      | _, _ => none
    | _ => none

def shapeOf (s : String) : Option IShape :=
  match s.toList with
  | ['o'] => some .other
  | 'b' :: r => (natOfDecChars r).map .bstr
  | 't' :: r => (natOfDecChars r).map .tstr
  | 'a' :: r => (natOfDecChars r).map .arr
  | _ => none

def numOf (tok : String) : Option Num :=
  match Val.parseVXs [tok] 1 with
  | some ([.num n], []) => some n
  | _ => none

def sigOf (s : String) : Option (List BK) :=
  if s == "-" then some [] else s.toList.mapM fun c => if c = 'v' then some BK.var else if c = 'f' then some BK.fn else none

/-- parser of the prefix token syntax of `CTm Nat` (see `skeleton` in harness/src/props/c05.rs):
`L` | `V x` | `B x` | `C name arity <args>` | `N <l> <r>` | `La x <t>` | `Bi n x1…xn <l> <r> <keys>` |
`D name n (v|f)x1…(v|f)xn <body> <rest>` -/
partial def parseCTm : List String → Option (CTm Nat × List String)
  | "L" :: r => some (.leaf, r)
  | "V" :: x :: r => (natOf x).map fun x => (.var x, r)
  | "B" :: x :: r => (natOf x).map fun x => (.brk x, r)
  | "C" :: n :: a :: r => do
    let n ← natOf n
    let a ← natOf a
    let (args, r) ← parseCTm r
    pure (.call n a args, r)
  | "N" :: r => do
    let (l, r) ← parseCTm r
    let (t, r) ← parseCTm r
    pure (.node l t, r)
  | "La" :: x :: r => do
    let x ← natOf x
    let (t, r) ← parseCTm r
    pure (.label x t, r)
  | "Bi" :: n :: r => do
    let n ← natOf n
    let vars ← (r.take n).mapM natOf
    let r := r.drop n
    let (l, r) ← parseCTm r
    let (t, r) ← parseCTm r
    let (k, r) ← parseCTm r
    pure (.bind l vars t k, r)
  | "D" :: name :: n :: r => do
    let name ← natOf name
    let n ← natOf n
    let args ← (r.take n).mapM fun a => match a.toList with
      | 'v' :: x => (natOfDecChars x).map fun x => (true, x)
      | 'f' :: x => (natOfDecChars x).map fun x => (false, x)
      | _ => none
    let r := r.drop n
    let (b, r) ← parseCTm r
    let (t, r) ← parseCTm r
    pure (.defn name args b t, r)
  | _ => none

def handlers : List (String × Handler) := [
  -- c05.index <vx num> <len>
  ("c05.index", fun toks => match toks with
    | [i, len] => match posOf i, natOf len with
      | some (some (some p)), some len => showP (fun o => match o with | some k => s!"some {k}" | none => "none") (indexAfterAbs p len)
      | some none, some _ => "none"   -- `Val::index`: an integer beyond usize indexes nothing
      | _, _ => "bad-request"
    | _ => "bad-request"),
  -- c05.skiptake <lo> <hi> <len>
  ("c05.skiptake", fun toks => match toks with
    | [lo, hi, len] => match posOf lo, posOf hi, natOf len with
      | some (some lo), some (some hi), some len =>
        showP (fun (r : Nat × Nat) => showST (r.1, r.2 - r.1)) (rangeOfSkipTake len (skipTake lo hi len))
      | some _, some _, some _ => "err"
      | _, _, _ => "bad-request"
    | _ => "bad-request"),
  -- c05.stc <len> <starts> <lo> <hi>
  ("c05.stc", fun toks => match toks with
    | [len, st, lo, hi] => match natOf len, posOf lo, posOf hi with
      | some len, some (some lo), some (some hi) => showP showST (skipTakeChars (startsOf st) len lo hi)
      | some _, some _, some _ => "err"
      | _, _, _ => "bad-request"
    | _ => "bad-request"),
  -- c05.spliceb <lo> <hi> <hex bytes> <hex replacement>   (byte strings: skip_take_bytes)
  ("c05.spliceb", fun toks => match toks with
    | [lo, hi, b, r] => match posOf lo, posOf hi, bytesOfHex (b.drop 1).toString, bytesOfHex (r.drop 1).toString with
      | some (some lo), some (some hi), some b, some r =>
        let st := skipTake lo hi b.length
        showP (fun _ => "x" ++ hexOfBytes (spliceSpec b st.1 st.2 r)) (bytesSplice b.length st.1 st.2 r.length)
      | some _, some _, some _, some _ => "err"
      | _, _, _, _ => "bad-request"
    | _ => "bad-request"),
  -- c05.splicec <lo> <hi> <hex text> <hex replacement>   (text strings: skip_take_chars)
  ("c05.splicec", fun toks => match toks with
    | [lo, hi, b, r] => match posOf lo, posOf hi, bytesOfHex (b.drop 1).toString, bytesOfHex (r.drop 1).toString with
      | some (some lo), some (some hi), some b, some r =>
        match skipTakeChars (Utf8.starts b) b.length lo hi with
        | .error _ => "P"
        | .ok st => showP (fun _ => "x" ++ hexOfBytes (spliceSpec b st.1 st.2 r)) (bytesSplice b.length st.1 st.2 r.length)
      | some _, some _, some _, some _ => "err"
      | _, _, _, _ => "bad-request"
    | _ => "bad-request"),
  -- c05.implode <int> (current tree) / c05.implode-asfound <int> (before 496d12c)
  ("c05.implode-asfound", fun toks => match toks with
    | [i] => match intOfDecChars i.toList with
      | some i => showP (fun p => match p with
          | .byte b => "x" ++ hexOfBytes [UInt8.ofNat b]
          | .char c => "x" ++ hexOfBytes (Utf8.encode c)
          | .err => "err") (implodeStepAsFound i)
      | none => "bad-request"
    | _ => "bad-request"),
  ("c05.implode", fun toks => match toks with
    | [i] => match intOfDecChars i.toList with
      | some i => showP (fun p => match p with
          | .byte b => "x" ++ hexOfBytes [UInt8.ofNat b]
          | .char c => "x" ++ hexOfBytes (Utf8.encode c)
          | .err => "err") (implodeStep i)
      | none => "bad-request"
    | _ => "bad-request"),
  -- c05.space <x hex utf8> (current tree) / c05.space-asfound: characters left after `space`, or `detached`
  ("c05.space-asfound", fun toks => match toks with
    | [h] => match bytesOfHex (h.drop 1).toString with
      | some b => match spaceAll false (charsOfBytes b) with
        | .suffix t => s!"in {t.length}"
        | .detached => "detached"
      | none => "bad-request"
    | _ => "bad-request"),
  ("c05.space", fun toks => match toks with
    | [h] => match bytesOfHex (h.drop 1).toString with
      | some b => match spaceAll true (charsOfBytes b) with
        | .suffix t => s!"in {t.length}"
        | .detached => "detached"
      | none => "bad-request"
    | _ => "bad-request"),
  -- c05.cborneg <n>
  ("c05.cborneg", fun toks => match toks with
    | [n] => match natOf n with
      | some n => showP (fun (i : Int) => s!"{i}") (cborNegative n)
      | none => "bad-request"
    | _ => "bad-request")  ,
  -- c05.regexoff <x hex utf8 haystack> <byte starts of the captures, in the order of Match::new>
  ("c05.regexoff", fun toks => match toks with
    | [h, st] => match bytesOfHex (h.drop 1).toString with
      | some b => showP showNats (matchOffsets true ⟨Utf8.starts b ++ [b.length], 0⟩ (natList st))
      | none => "bad-request"
    | _ => "bad-request"),
  -- c05.mismatch <len> <s:e,…>: lengths of the mismatch slices
  ("c05.mismatch", fun toks => match toks with
    | [len, ms] => match natOf len with
      | some len => showP (fun r => showNats (r.map fun p => p.2 - p.1)) (mismatches len 0 (pairList ms))
      | none => "bad-request"
    | _ => "bad-request"),
  -- c05.stripfix <pre|suf> <x hex> <x hex fix>
  ("c05.stripfix", fun toks => match toks with
    | [k, s, f] => match bytesOfHex (s.drop 1).toString, bytesOfHex (f.drop 1).toString with
      | some s, some f => showP (fun (r : Nat × Nat) => s!"{r.1} {r.2}")
          (stripFix (if k == "pre" then stripPrefix else stripSuffix) s f)
      | _, _ => "bad-request"
    | _ => "bad-request"),
  -- c05.conv <i32|byte> <vx number>
  ("c05.conv", fun toks => match toks with
    | [k, n] => match numOf n with
      | some n =>
        if k == "i32" then (match tryAsI32 n with | some _ => "some" | none => "none")
        else (match toByte n with | some b => s!"some {b}" | none => "none")
      | none => "bad-request"
    | _ => "bad-request"),
  -- c05.bsearch <ok|err> <i>
  ("c05.bsearch", fun toks => match toks with
    | [k, i] => match natOf i with
      | some i => showP (fun (v : Int) => s!"{v}") (bsearchIdx (if k == "ok" then .ok i else .error i))
      | none => "bad-request"
    | _ => "bad-request"),
  -- c05.indices <shape x> <shape y> <starts of x>
  ("c05.indices", fun toks => match toks with
    | [x, y, st] => match shapeOf x, shapeOf y with
      | some x, some y => showP (fun o => match o with | some _ => "ok" | none => "err") (indicesKernel x y (natList st))
      | _, _ => "bad-request"
    | _ => "bad-request"),
  -- c05.envshape <signature: string of v/f, or ->
  ("c05.envshape", fun toks => match toks with
    | [sg] => match sigOf sg with
      | some σ => showP (fun (e : List BK) => s!"ok {e.length}") (popAll σ.reverse (bindVars σ []))
      | none => "bad-request"
    | _ => "bad-request"),
  -- c05.setup: compiling the filters of the correspondence cases (must not panic)
  ("c05.setup", fun _ => "ok"),
  -- c05.cwalk <prefix tokens of a CTm>
  ("c05.cwalk", fun toks => match parseCTm toks with
    | some (t, []) => showP (fun (s : Locals Nat) => s!"ok {s.vars.total}") (cwalk t Locals.empty)
    | _ => "bad-request")
]

end Jaq.Driver.C05
