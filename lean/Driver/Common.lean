/- Helpers shared by the per-property driver modules (line protocol, see DESIGN.md §3.2). -/
import JaqVerif.Val.Arith

namespace Jaq.Driver

/-- all NaNs are one NaN in answers (the harness canonicalises the same way) -/
partial def canon : Val → Val
  | .num (.float f) => .num (.float (F64.canonNaN f))
  | .arr a => .arr (a.map canon)
  | .obj o => .obj (o.map fun (k, v) => (canon k, canon v))
  | v => v

def showVal (v : Val) : String := (canon v).toVX

def showValR : ValR → String
  | .ok v => "V " ++ showVal v
  | .error e => "E " ++ e.cls

/-- parse exactly `n` values from the tokens and apply `f` -/
def withVals (n : Nat) (toks : List String) (f : List Val → String) : String :=
  match Val.parseVXs toks n with
  | some (vs, []) => f vs
  | _ => "bad-request"

abbrev Handler := List String → String

end Jaq.Driver
