import Driver.Common
import JaqVerif.C15.Parse
import JaqVerif.C15.Print
import JaqVerif.C15.Spec

namespace Jaq.Driver.C15
open Jaq.C15

/-- strings: `'abc` if non-empty and all characters are ASCII alphanumerics or one of `_$@.:`, else `x<hex of UTF-8>` -/
def encS (s : Str) : String :=
  let safe (c : Char) : Bool := c.isAlphanum || c = '_' || c = '$' || c = '@' || c = '.' || c = ':'
  if !s.isEmpty && s.all safe then "'" ++ String.ofList s
  else "x" ++ hexOfBytes (String.ofList s).toUTF8.toList

def mathS : Math → String
  | .add => "Add" | .sub => "Sub" | .mul => "Mul" | .div => "Div" | .rem => "Rem"

def cmpS : Cmp → String
  | .lt => "Lt" | .le => "Le" | .gt => "Gt" | .ge => "Ge" | .eq => "Eq" | .ne => "Ne"

mutual
/-- token tree as an s-expression (same format as `tok_sexp` of the harness) -/
partial def tokS : Token → String
  | .word x => s!"(W {encS x})"
  | .var x => s!"(V {encS x})"
  | .fmt x => s!"(F {encS x})"
  | .num x => s!"(N {encS x})"
  | .sym x => s!"(Y {encS x})"
  | .str ps => "(S" ++ String.join (ps.map partS) ++ ")"
  | .block o ts => s!"(B {encS [o]}" ++ String.join (ts.map fun t => " " ++ tokS t) ++ ")"
partial def partS : SPart → String
  | .lit x => s!" (L {encS x})"
  | .interp t => s!" (T {tokS t})"
  | .chr c => s!" (C {c.toNat})"
end

mutual
partial def termS : Term → String
  | .id => "Id"
  | .recurse => "Rec"
  | .num n => s!"(Num {encS n})"
  | .str fmt parts =>
    let f := match fmt with | none => "-" | some f => encS f
    let ps := parts.map fun
      | .lit x => s!" (L {encS x})"
      | .term t => s!" (T {termS t})"
      | .chr c => s!" (C {c.toNat})"
    s!"(Str {f}{String.join ps})"
  | .arr none => "(Arr)"
  | .arr (some t) => s!"(Arr {termS t})"
  | .obj es =>
    let xs := es.map fun
      | (k, none) => s!" (E {termS k})"
      | (k, some v) => s!" (E {termS k} {termS v})"
    s!"(Obj{String.join xs})"
  | .neg t => s!"(Neg {termS t})"
  | .binop l o r => s!"(Bin {binopS o} {termS l} {termS r})"
  | .label x t => s!"(Label {encS x} {termS t})"
  | .brk x => s!"(Break {encS x})"
  | .fold k xs p as => s!"(Fold {encS k} {termS xs} {patS p}{listS as})"
  | .tryCatch t none => s!"(Try {termS t})"
  | .tryCatch t (some c) => s!"(Try {termS t} {termS c})"
  | .ite its e =>
    let bs := its.map fun (c, t) => s!" (B {termS c} {termS t})"
    let es := match e with | none => "" | some e => s!" (Else {termS e})"
    s!"(If{String.join bs}{es})"
  | .defs ds t =>
    let xs := ds.map fun
      | .mk n as b => s!" (D {encS n} (A{String.join (as.map fun a => " " ++ encS a)}) {termS b})"
    s!"(Defs{String.join xs} (In {termS t}))"
  | .call n as => s!"(Call {encS n}{listS as})"
  | .var x => s!"(Var {encS x})"
  | .path t ps =>
    let xs := ps.map fun (p, o) =>
      let o := if o then "?" else "!"
      match p with
      | .index i => s!" (I {termS i} {o})"
      | .range a b => s!" (R {optS a} {optS b} {o})"
    s!"(Path {termS t}{String.join xs})"
partial def listS (ts : List Term) : String := String.join (ts.map fun t => " " ++ termS t)
partial def optS : Option Term → String
  | none => "-"
  | some t => termS t
partial def patS : Pattern → String
  | .var x => s!"(PV {encS x})"
  | .arr ps => s!"(PA{String.join (ps.map fun p => " " ++ patS p)})"
  | .obj es => s!"(PO{String.join (es.map fun (k, p) => s!" (E {termS k} {patS p})")})"
partial def binopS : BinOp → String
  | .pipe none => "Pipe"
  | .pipe (some p) => s!"(As {patS p})"
  | .comma => "Comma" | .alt => "Alt" | .or => "Or" | .and => "And"
  | .math m => mathS m
  | .cmp c => cmpS c
  | .assign => "Assign" | .update => "Update"
  | .updateMath m => "U" ++ mathS m
  | .updateAlt => "UAlt"
end

def textOfHex (h : String) : Option Str :=
  match bytesOfHex h with
  | none => none
  | some bs => (String.fromUTF8? (ByteArray.mk bs.toArray)).map String.toList

def parseS (s : Str) : String :=
  match parse s with
  | none => "ERR"
  | some t => termS t

/-! ### generators (SplitMix64, seeded by the request) -/

instance : Inhabited BinOp := ⟨.comma⟩
instance : Inhabited Pattern := ⟨.var []⟩

abbrev G := StateM UInt64

def nextU64 : G UInt64 := modifyGet fun (s : UInt64) =>
  let s : UInt64 := s + 0x9E3779B97F4A7C15
  let z : UInt64 := (s ^^^ (s >>> 30)) * 0xBF58476D1CE4E5B9
  let z : UInt64 := (z ^^^ (z >>> 27)) * 0x94D049BB133111EB
  ((z ^^^ (z >>> 31) : UInt64), s)

def below (n : Nat) : G Nat := do
  let x ← nextU64
  pure (if n = 0 then 0 else x.toNat % n)

def choose {α} [Inhabited α] (xs : List α) : G α := do
  let i ← below xs.length
  pure (xs[i]!)

def stream (seed : Nat) (n : Nat) : List Nat :=
  if seed = 0 then [] else
  ((List.range n).mapM (fun _ => do let x ← nextU64; pure (x.toNat % 1000003))).run' (UInt64.ofNat seed)

def cl (s : String) : Str := s.toList

def leafPool : List Term := [
  .call (cl "a") [], .num (cl "1"), .var (cl "$x"), .id, .call (cl "b") [], .num (cl "2.5e3"),
  .path .id [(.index (.str none [.lit (cl "k")]), false)], .recurse, .str none [.lit (cl "s")],
  .call (cl "f") [.num (cl "0")], .arr none, .neg (.num (cl "3"))]

def modelOpsD : List BinOp := [
  .pipe none, .comma, .pipe (some (.var (cl "$x"))),
  .assign, .update, .updateMath .add, .updateMath .sub, .updateMath .mul, .updateMath .div, .updateMath .rem, .updateAlt,
  .alt, .or, .and, .cmp .eq, .cmp .ne, .cmp .lt, .cmp .le, .cmp .gt, .cmp .ge,
  .math .add, .math .sub, .math .mul, .math .div, .math .rem]

/-- operator trees in prefix notation: `B<op index> <left> <right>` | `L<leaf index>` -/
partial def readTree : List String → Option (Term × List String)
  | [] => none
  | t :: rest =>
    match t.toList with
    | 'L' :: ds => (natOfDecChars ds).map fun k => (leafPool[k % leafPool.length]!, rest)
    | 'B' :: ds => do
      let k ← natOfDecChars ds
      let o ← modelOpsD[k]?
      let (l, r1) ← readTree rest
      let (r, r2) ← readTree r1
      pure (.binop l o r, r2)
    | _ => none

def names : List Str := [cl "f", cl "g", cl "a", cl "map", cl "m::f", cl "x1", cl "_y", cl "not", cl "if_"]
def vars : List Str := [cl "$x", cl "$y", cl "$__loc__", cl "$a1", cl "$_"]
def nums : List Str := [cl "0", cl "1", cl "12", cl "1.5", cl "1e3", cl "0.1E-2", cl "7e+2", cl "100"]
def idents : List Str := [cl "a", cl "b", cl "key", cl "if", cl "then", cl "and", cl "or", cl "reduce", cl "def", cl "as", cl "end", cl "_k1", cl "try", cl "label", cl "import", cl "__loc__"]
def lits : List Str := [cl "abc", cl " ", cl "a b", cl "#x", cl "é", cl "(", cl "日本", cl "$x", cl "a-b", cl "1"]
def chrs : List Char := ['\n', '\t', '"', '\\', '/', 'A', 'é', Char.ofNat 8, Char.ofNat 12, '\r', Char.ofNat 0x2028, Char.ofNat 0]
def fmts : List Str := [cl "@json", cl "@base64", cl "@text", cl "@x"]

mutual
partial def genPat (size : Nat) : G Pattern := do
  let c ← below (if size = 0 then 1 else 4)
  match c with
  | 0 | 1 => do pure (.var (← choose vars))
  | 2 => do
    let n ← below 3
    let ps ← (List.range (n + 1)).mapM fun _ => genPat (size / 2)
    pure (.arr ps)
  | _ => do
    let n ← below 3
    let es ← (List.range (n + 1)).mapM fun _ => do
      let k ← below 5
      let p ← genPat (size / 2)
      match k with
      | 0 => do
        let v ← choose vars
        pure (Term.fromStr v.tail, Pattern.var v)
      | 1 => do pure (Term.fromStr (← choose idents), p)
      | 2 => do pure (← genStr (size / 2), p)
      | 3 => do pure (Term.fromStr (← choose lits), p)
      | _ => do
        let t ← genTerm (size / 2)
        pure (t, p)
    pure (.obj es)

partial def genStr (size : Nat) : G Term := do
  let f ← below 4
  let fmt ← (if f = 0 then do pure (some (← choose fmts)) else pure none)
  let n ← below 4
  let rec go (k : Nat) (lastLit : Bool) : G (List StrPart) := do
    if k = 0 then pure [] else
    let c ← below (if lastLit then 2 else 3)
    match c with
    | 0 => do
      let ch ← choose chrs
      pure (StrPart.chr ch :: (← go (k - 1) false))
    | 1 => do
      let t ← genTerm (size / 2)
      pure (StrPart.term t :: (← go (k - 1) false))
    | _ => do
      let l ← choose lits
      pure (StrPart.lit l :: (← go (k - 1) true))
  let ps ← go n false
  pure (.str fmt ps)

partial def genTerm (size : Nat) : G Term := do
  if size = 0 then
    let c ← below 9
    match c with
    | 0 => pure .id
    | 1 => pure .recurse
    | 2 => do pure (.num (← choose nums))
    | 3 => do pure (.var (← choose vars))
    | 4 => do pure (.call (← choose names) [])
    | 5 => do pure (Term.fromStr (← choose lits))
    | 6 => do pure (.brk (← choose vars))
    | 7 => pure (.arr none)
    | _ => pure (.obj [])
  else
    let sub := size - 1
    let c ← below 24
    match c with
    | 0 | 1 | 2 | 3 | 4 | 5 | 6 => do
      let o ← choose modelOpsD
      let o ← (match o with
        | .pipe (some _) => do pure (BinOp.pipe (some (← genPat 2)))
        | o => pure o)
      let k ← below (sub + 1)
      pure (.binop (← genTerm k) o (← genTerm (sub - k)))
    | 7 => do pure (.neg (← genTerm sub))
    | 8 | 9 | 10 => do
      let base ← genTerm (sub / 2)
      let n ← below 3
      let ps ← (List.range (n + 1)).mapM fun _ => do
        let k ← below 7
        let o ← below 3
        let p ← (match k with
          | 0 | 1 => do pure (Part.index (Term.fromStr (← choose idents)))
          | 2 => do pure (Part.index (← genStr (sub / 3)))
          | 3 => do pure (Part.index (← genTerm (sub / 3)))
          | 4 => pure (Part.range none none)
          | 5 => do pure (Part.range (some (← genTerm (sub / 3))) none)
          | _ => do
            let a ← below 2
            let lo ← (if a = 0 then pure none else do pure (some (← genTerm (sub / 3))))
            pure (Part.range lo (some (← genTerm (sub / 3)))))
        pure (p, o == 0)
      pure (.path base ps)
    | 11 => do pure (.tryCatch (← genTerm sub) none)
    | 12 => do
      let k ← below (sub + 1)
      pure (.tryCatch (← genTerm k) (some (← genTerm (sub - k))))
    | 13 | 14 => do
      let n ← below 3
      let its ← (List.range (n + 1)).mapM fun _ => do
        pure (← genTerm (sub / 3), ← genTerm (sub / 3))
      let e ← below 2
      let els ← (if e = 0 then pure none else do pure (some (← genTerm (sub / 3))))
      pure (.ite its els)
    | 15 | 16 => do
      let kind ← choose [cl "reduce", cl "foreach"]
      let n ← choose [2, 3, 2, 3, 0, 1, 4]
      let as ← (List.range n).mapM fun _ => genTerm (sub / 3)
      pure (.fold kind (← genTerm (sub / 3)) (← genPat 2) as)
    | 17 => do
      let n ← below 2
      let ds ← (List.range (n + 1)).mapM fun _ => do
        let na ← below 3
        let as ← (List.range na).mapM fun _ => do
          let v ← below 2
          if v = 0 then choose vars else choose [cl "f", cl "g", cl "h"]
        pure (Def.mk (← choose [cl "f", cl "g", cl "h", cl "_r"]) as (← genTerm (sub / 3)))
      pure (.defs ds (← genTerm (sub / 3)))
    | 18 => do pure (.label (← choose vars) (← genTerm sub))
    | 19 => do
      let n ← below 3
      let as ← (List.range (n + 1)).mapM fun _ => genTerm (sub / 2)
      pure (.call (← choose names) as)
    | 20 => do pure (.arr (some (← genTerm sub)))
    | 21 | 22 => do
      let n ← below 3
      let es ← (List.range (n + 1)).mapM fun _ => do
        let k ← below 8
        match k with
        | 0 => do pure (Term.var (← choose vars), none)
        | 1 => do pure (Term.var (← choose vars), some (← genTerm (sub / 3)))
        | 2 => do pure (Term.fromStr (← choose idents), none)
        | 3 => do pure (Term.fromStr (← choose idents), some (← genTerm (sub / 3)))
        | 4 => do pure (← genStr (sub / 3), none)
        | 5 => do pure (← genStr (sub / 3), some (← genTerm (sub / 3)))
        | 6 => do pure (Term.fromStr (← choose lits), some (← genTerm (sub / 3)))
        | _ => do
          let k ← genTerm (sub / 3)
          let k := match k with
            | .var _ => Term.id   -- `($x): v` has the same AST as `$x: v`; fine, but keep keys diverse
            | k => k
          pure (k, some (← genTerm (sub / 3)))
      pure (.obj es)
    | _ => genStr sub
end

def renderAns (mode seed : Nat) (t : Term) : String :=
  let forms := stream (2 * seed) 600
  let trivia := stream (2 * seed + 1) 1200
  let text := printTerm mode forms trivia t
  hexOfBytes (String.ofList text).toUTF8.toList ++ " " ++ termS t

def handlers : List (String × Handler) := [
  ("c15.specgroup", fun toks =>
    match toks.map (fun t => natOfDecChars t.toList) with
    | [some i, some j] => (match Spec.specGroup i j with | some true => "R" | some false => "L" | none => "?")
    | _ => "bad-request"),
  ("c15.specname", fun toks =>
    match toks.map (fun t => natOfDecChars t.toList) with
    | [some i] => (match Spec.specNames[i]? with
      | some n => hexOfBytes (String.ofList n).toUTF8.toList
      | none => "?")
    | _ => "bad-request"),
  ("c15.rtree", fun toks =>
    match toks with
    | m :: s :: rest =>
      match natOfDecChars m.toList, natOfDecChars s.toList, readTree rest with
      | some mode, some seed, some (t, []) => renderAns mode seed t
      | _, _, _ => "bad-request"
    | _ => "bad-request"),
  ("c15.rand", fun toks =>
    match toks.map (fun t => natOfDecChars t.toList) with
    | [some seed, some size, some mode] =>
      let t := (genTerm size).run' (UInt64.ofNat seed)
      renderAns mode seed t
    | _ => "bad-request"),
  ("c15.parse", fun toks =>
    match toks with
    | [h] => match textOfHex h with
      | some s => parseS s
      | none => "bad-request"
    | [] => parseS []
    | _ => "bad-request"),
  ("c15.lex", fun toks =>
    match toks with
    | [h] => match textOfHex h with
      | some s => (match lex s with | some ts => "OK" ++ String.join (ts.map fun t => " " ++ tokS t) | none => "ERR")
      | none => "bad-request"
    | [] => "OK"
    | _ => "bad-request")
]

end Jaq.Driver.C15
