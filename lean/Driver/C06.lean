import Driver.Common
import JaqVerif.C06.Trace

/-! Line protocol of C06:
    c06.effects <term tokens>                         → `eff <set> natives <name/ar,…>`
    c06.monitor <set> <stdout 0|1> <n> <hexpath>*n <event>*   → `accept <#exec events>` | `reject <idx> <reason>` | `nomarker`
    c06.rows                                          → every native / prelude definition with its effect set
    c06.missing                                       → natives of the generated inventory without a row; rows without native
    term tokens:  C <kind> <n> <sub>*n | K <hexname> <n> <arg>*n | D <n> <body>*n <rest>
    event tokens: M Z R:<hexpath> W:<hexpath> P:<hexpath> U:<call>:<hexpath> S:<call> X:<call> T I E O ?:<call> -/
namespace Jaq.Driver.C06

open Jaq.C06

def strOfHex (h : String) : Option String :=
  if h == "-" then some "" else (bytesOfHex h).map stringOfBytes

def pathOfString (s : String) : Path :=
  match s.splitOn "/" with
  | "" :: rest => rest
  | l => l

def pathOfHex (h : String) : Option Path := (strOfHex h).map pathOfString

def coreOf : String → Core
  | "id" => .id | "recurse" => .recurse | "num" => .num | "str" => .str | "arr" => .arr | "obj" => .obj
  | "neg" => .neg | "binop" => .binop | "label" => .label | "break" => .brk | "fold" => .fold
  | "try" => .try_ | "ite" => .ite | "var" => .var | "path" => .path | _ => .pat

mutual
partial def parseTerm : List String → Option (Term × List String)
  | "C" :: k :: n :: rest =>
    match n.toNat? with
    | none => none
    | some n => (parseTerms n rest).map fun (ts, r) => (.core (coreOf k) (Terms.ofList ts), r)
  | "K" :: h :: n :: rest =>
    match strOfHex h, n.toNat? with
    | some name, some n => (parseTerms n rest).map fun (ts, r) => (.call name (Terms.ofList ts), r)
    | _, _ => none
  | "D" :: n :: rest =>
    match n.toNat? with
    | none => none
    | some n =>
      match parseTerms n rest with
      | none => none
      | some (bs, r) => (parseTerm r).map fun (t, r') => (.defs (Terms.ofList bs) t, r')
  | _ => none
partial def parseTerms : Nat → List String → Option (List Term × List String)
  | 0, toks => some ([], toks)
  | n + 1, toks =>
    match parseTerm toks with
    | none => none
    | some (t, r) => (parseTerms n r).map fun (ts, r') => (t :: ts, r')
end

def showRef (n : FnRef) : String := n.1 ++ "/" ++ toString n.2

def parseEvent (tok : String) : Option Event :=
  match tok.splitOn ":" with
  | ["M"] => some .markBegin
  | ["Z"] => some .markEnd
  | ["T"] => some .thread
  | ["I"] => some .readStdin
  | ["E"] => some .writeStderr
  | ["O"] => some .writeStdout
  | ["R", h] => (pathOfHex h).map .openRead
  | ["W", h] => (pathOfHex h).map .openWrite
  | ["P", h] => (pathOfHex h).map .probe
  | ["U", c, h] => (pathOfHex h).map (.mutate c)
  | ["S", c] => some (.net c)
  | ["X", c] => some (.proc c)
  | ["?", c] => some (.unknown c)
  | _ => none

def monitorReq (toks : List String) : String :=
  match toks with
  | eff :: out :: n :: rest =>
    match n.toNat? with
    | none => "bad-request"
    | some n =>
      let inputs := (rest.take n).filterMap pathOfHex
      let evs := (rest.drop n).map parseEvent
      if inputs.length != n || evs.any Option.isNone then "bad-request"
      else
        let tr := evs.filterMap id
        let pol : Policy := { eff := EffectSet.ofStr eff, inputs := inputs, stdout := out == "1" }
        if !sawExec tr then "nomarker"
        else match monitor pol tr with
          | .accept => "accept " ++ toString (execCount .load tr)
          | .reject i why => "reject " ++ toString i ++ " " ++ why.toStr
  | _ => "bad-request"

def handlers : List (String × Handler) := [
  ("c06.effects", fun toks =>
    match parseTerm toks with
    | some (t, []) =>
      "eff " ++ (effectsOf t).toStr ++ " natives " ++ ",".intercalate ((nativesOf t).eraseDups.map showRef)
    | _ => "bad-request"),
  ("c06.monitor", monitorReq),
  ("c06.rows", fun _ =>
    let ns := Gen.natives.map fun n => "N " ++ showRef n ++ "=" ++ (match rowOf n with | some r => r.toStr | none => "MISSING")
    let ds := defTable.reverse.map fun d => "D " ++ showRef d.1 ++ "=" ++ (EffectSet.joinAll (d.2.map rowD)).toStr
    ";".intercalate (ns ++ ds)),
  ("c06.missing", fun _ =>
    let miss := Gen.natives.filter fun n => (rowOf n).isNone
    let stale := rows.filter fun r => !Gen.natives.contains r.1
    "missing " ++ ",".intercalate (miss.map showRef) ++ " stale " ++ ",".intercalate (stale.map fun r => showRef r.1))
]

end Jaq.Driver.C06
