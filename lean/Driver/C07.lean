import Driver.Common
import JaqVerif.C07.Read
import JaqVerif.Lemmas.C07Ryu

namespace Jaq.Driver.C07
open Jaq.C07

/-- `c | s | i<n> | t`, optionally followed by `S` (sort keys); mirrors `pp_of` of the harness and
`Cli::pp` of jaq/src/main.rs -/
def ppOf (spec : String) : Option Pp :=
  let cs := spec.toList
  let (sort, body) := if cs.getLast? == some 'S' then (true, cs.dropLast) else (false, cs)
  match body with
  | ['c'] => some { indent := none, sortKeys := sort, sepSpace := false }
  | ['s'] => some { indent := none, sortKeys := sort, sepSpace := true }
  | ['t'] => some { indent := some [0x09], sortKeys := sort, sepSpace := true }
  | 'i' :: ds =>
    match natOfDecChars ds with
    | some n => some { indent := some (List.replicate n 0x20), sortKeys := sort, sepSpace := true }
    | none => none
  | _ => none

def showRead (r : List Val × Bool) : String :=
  let items := r.1.map (fun v => "V " ++ showVal v) ++ (if r.2 then ["E"] else [])
  if items.isEmpty then "-" else " ; ".intercalate items

def handlers : List (String × Handler) := [
  ("c07.write", fun toks =>
    match toks with
    | spec :: rest =>
      match ppOf spec with
      | some pp => withVals 1 rest fun vs =>
        match vs with
        | [v] => hexOfBytes (write Cfg.model pp v)
        | _ => "bad-request"
      | none => "bad-request"
    | _ => "bad-request"),
  ("c07.read", fun toks =>
    match toks with
    | [mode] | [mode, _] =>
      let hex := match toks with | [_, h] => h | _ => ""
      match bytesOfHex hex with
      | none => "bad-request"
      | some i =>
        if mode == "single" then
          match parseSingle i with
          | some v => "V " ++ showVal v
          | none => "E"
        else showRead (parseMany i)
    | _ => "bad-request"),
  -- round 2: the guard of `ryu_model_digits_roundtrip_partial` (the digit search of `ryuModel`
  -- succeeds within 18 digits), evaluated for a float
  ("c07.ryufound", fun toks => withVals 1 toks fun vs =>
    match vs with
    | [.num (.float f)] => if ryuFound (F64.abs f) then "1" else "0"
    | _ => "bad-request")
]

end Jaq.Driver.C07
