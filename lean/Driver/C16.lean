import Driver.Common
import JaqVerif.C16.Load
import JaqVerif.C16.Search
import JaqVerif.C16.Inline
import JaqVerif.C16.Lexical

/-!
Driver for C16.  Requests (tokens separated by blanks, see `harness/src/props/c16.rs`):

  c16.run    G<k> g… FILES<n> (P|path src)… MAIN|path src     → load trace, load/compile errors or output
  c16.inline (same arguments)                                 → the inlined program as jq text + its model output
  c16.cli    NAMED<n> … E|hex A|hex F|hex G0 FILES… MAIN…         → outcome under the run-time vector of `real_main`
  c16.find   …                                                → which file `Import::find` answers
  c16.setext <fix 0|1> =name =ext                              → `set_extension` on a relative path

  src  := BAD | H<n> dir… N<k> def… | H<n> dir… T tm
  dir  := i|rel  |  m|rel|alias  |  d|rel|$name
  def  := F|name|<np> param… tm
  tm   := T|tag | V|$x | C|f|<n> tm… | Q|m|f|<n> tm… | B|$x tm tm | L|$l tm | D|<n> def… tm | A|<n> tm…
-/
namespace Jaq.Driver.C16
open Jaq.C16

abbrev P := String
abbrev S := String

def numAfter (s : String) (k : Nat) : Nat := (s.drop k).toString.toNat!

mutual
partial def parseTm : List String → Option (Tm × List String)
  | [] => none
  | tok :: rest =>
    match tok.splitOn "|" with
    | ["T", t] => some (.tag t, rest)
    | ["V", x] => some (.var x, rest)
    | ["C", f, n] => do
      let (args, r) ← parseTms n.toNat! rest
      pure (.call f args, r)
    | ["Q", m, f, n] => do
      let (args, r) ← parseTms n.toNat! rest
      pure (.qcall m f args, r)
    | ["B", x] => do
      let (v, r) ← parseTm rest
      let (b, r) ← parseTm r
      pure (.bind v x b, r)
    | ["L", l] => do
      let (b, r) ← parseTm rest
      pure (.lbl l b, r)
    | ["D", n] => do
      let (ds, r) ← parseDefs n.toNat! rest
      let (b, r) ← parseTm r
      pure (.defs ds b, r)
    | ["A", n] => do
      let (ts, r) ← parseTms n.toNat! rest
      pure (.arr ts, r)
    | _ => none
partial def parseTms : Nat → List String → Option (List Tm × List String)
  | 0, r => some ([], r)
  | n + 1, r => do
    let (t, r) ← parseTm r
    let (ts, r) ← parseTms n r
    pure (t :: ts, r)
partial def parseDef : List String → Option (Def × List String)
  | [] => none
  | tok :: rest =>
    match tok.splitOn "|" with
    | ["F", name, np] =>
      let np := np.toNat!
      let ps := (rest.take np).map fun p => if p.startsWith "$" then Param.var p else Param.fn p
      match parseTm (rest.drop np) with
      | some (b, r) => some (.mk name ps b, r)
      | none => none
    | _ => none
partial def parseDefs : Nat → List String → Option (List Def × List String)
  | 0, r => some ([], r)
  | n + 1, r => do
    let (d, r) ← parseDef r
    let (ds, r) ← parseDefs n r
    pure (d :: ds, r)
end

def parseDir (tok : String) : Option (Directive S) :=
  match tok.splitOn "|" with
  | ["i", rel] => some ⟨rel, none⟩
  | ["m", rel, al] => some ⟨rel, some al⟩
  | ["d", rel, x] => some ⟨rel, some x⟩
  | _ => none

def parseDirs : Nat → List String → Option (List (Directive S) × List String)
  | 0, r => some ([], r)
  | n + 1, tok :: r => do
    let d ← parseDir tok
    let (ds, r) ← parseDirs n r
    pure (d :: ds, r)
  | _, [] => none

def parseSrc : List String → Option (Src S Body × List String)
  | "BAD" :: r => some (.bad, r)
  | h :: r =>
    if h.startsWith "H" then do
      let (dirs, r) ← parseDirs (numAfter h 1) r
      match r with
      | "T" :: r => do
        let (t, r) ← parseTm r
        pure (.ok dirs ⟨[], some t⟩, r)
      | n :: r =>
        if n.startsWith "N" then do
          let (ds, r) ← parseDefs (numAfter n 1) r
          pure (.ok dirs ⟨ds, none⟩, r)
        else none
      | [] => none
    else none
  | [] => none

def parseFiles : Nat → List String → Option (List (P × Src S Body) × List String)
  | 0, r => some ([], r)
  | n + 1, tok :: r =>
    match tok.splitOn "|" with
    | ["P", path] => do
      let (src, r) ← parseSrc r
      let (fs, r) ← parseFiles n r
      pure ((path, src) :: fs, r)
    | _ => none
  | _, [] => none

structure Req where
  globals : List String
  files : List (P × Src S Body)
  mainPath : P
  mainSrc : Src S Body

def parseReq (toks : List String) : Option Req :=
  match toks with
  | g :: r =>
    if !g.startsWith "G" then none else
    let k := numAfter g 1
    let globals := r.take k
    match r.drop k with
    | f :: r =>
      if !f.startsWith "FILES" then none else do
      let (files, r) ← parseFiles (numAfter f 5) r
      match r with
      | m :: r =>
        match m.splitOn "|" with
        | ["MAIN", mp] => do
          let (src, _) ← parseSrc r
          pure ⟨globals, files, mp, src⟩
        | _ => none
      | [] => none
    | [] => none
  | [] => none

def stripAt (s : String) : String := String.ofList (s.toList.reverse.dropWhile (· = '@')).reverse

/-- the in-memory reader of the harness: the path is the directive's text without trailing `@` -/
def memReader (files : List (P × Src S Body)) : Reader P S Body := fun _parent rel =>
  let path := stripAt rel
  match files.lookup path with
  | some src => .ok (path, src)
  | none => .error "file not found"

def errClass (e : String) : String :=
  if e = circularMsg then "circular" else if e = "file not found" then "notfound" else "other"

def showModErr : ModErr S → String
  | .syntax => "syntax"
  | .io errs => "io[" ++ ",".intercalate (errs.map fun (s, e) => s ++ "=" ++ errClass e) ++ "]"

def showTrace (tr : List (P × S)) : String :=
  "TRACE " ++ ",".intercalate (tr.map fun (p, s) => p ++ ">" ++ s)

def showUndef : Undef → String
  | .mod => "mod" | .var => "var" | .filter n => "filter" ++ toString n

def insertSorted (x : String) : List String → List String
  | [] => [x]
  | y :: r => if x ≤ y then x :: y :: r else y :: insertSorted x r

def sortStrings (l : List String) : List String := l.foldr insertSorted []

structure Loaded where
  st : LState P S Body
  graph : Graph S
  paths : List P
  vv : VarVals
  imports : List (P × S)
  fv : List (Nat × P × S × String)

/-- model pipeline up to the loaded graph; `Sum.inl` = answer text for a load failure -/
def loadReq (r : Req) : String ⊕ Loaded :=
  let fuel := r.files.length + 2
  match load (memReader r.files) fuel "" ⟨[], none⟩ r.mainPath r.mainSrc with
  | none => .inl "FUEL"
  | some (st, .err errs) =>
    .inl (showTrace st.trace ++ " ## LOADERR " ++ ";".intercalate (errs.map fun (p, e) => p ++ ":" ++ showModErr e))
  | some (st, .ok deps main) =>
    let fv := fileVars deps main
    let g : Graph S := graphOf deps main r.globals
    let vv : VarVals := {
      imported := fv.map fun (_, p, s, _) => V.tag ("D:" ++ p ++ ":" ++ s),
      globals := r.globals.zipIdx.map fun (x, i) => V.tag ("G:" ++ x ++ ":" ++ toString i) }
    .inr { st, graph := g, paths := (deps ++ [main]).map (·.1), vv, imports := fv.map fun (_, p, s, _) => (p, s), fv }

def showCompErrs (l : Loaded) (errs : List (Nat × List (String × Undef))) : String :=
  "COMPERR " ++ ";".intercalate (errs.map fun (i, es) =>
    l.paths[i]?.getD "?" ++ ":[" ++ ",".intercalate (sortStrings (es.map fun (n, u) => n ++ "/" ++ showUndef u)) ++ "]")

def runReq (r : Req) : String :=
  match loadReq r with
  | .inl s => s
  | .inr l =>
    let head := showTrace l.st.trace ++ " ## IMPORTS " ++ ",".intercalate (l.imports.map fun (p, s) => p ++ ">" ++ s) ++ " ## "
    let errs := compileErrors l.graph
    if !errs.isEmpty then head ++ showCompErrs l errs
    else
      match runGraph l.graph l.vv with
      | .ok v => head ++ "OUT " ++ v.json
      | .error e => head ++ "EVALERR " ++ e

/-! printing the probe language as jq text -/
mutual
partial def showTm : Tm → String
  | .tag t => "\"" ++ t ++ "\""
  | .var x => x
  | .call f [] => f
  | .call f args => f ++ "(" ++ "; ".intercalate (args.map showTm) ++ ")"
  | .qcall m f [] => m ++ "::" ++ f
  | .qcall m f args => m ++ "::" ++ f ++ "(" ++ "; ".intercalate (args.map showTm) ++ ")"
  | .bind v x b => "(" ++ showTm v ++ " as " ++ x ++ " | " ++ showTm b ++ ")"
  | .lbl l b => "(label " ++ l ++ " | " ++ showTm b ++ ")"
  | .defs [] b => showTm b
  | .defs ds b => "(" ++ " ".intercalate (ds.map showDef) ++ " " ++ showTm b ++ ")"
  | .arr ts => "[" ++ ", ".intercalate (ts.map showTm) ++ "]"
partial def showDef : Def → String
  | .mk n [] b => "def " ++ n ++ ": " ++ showTm b ++ ";"
  | .mk n ps b =>
    "def " ++ n ++ "(" ++ "; ".intercalate (ps.map fun p => match p with | .var x => x | .fn f => f) ++ "): " ++ showTm b ++ ";"
end

def inlineReq (r : Req) : String :=
  match loadReq r with
  | .inl _ => "NONE"
  | .inr l =>
    if !(compileErrors l.graph).isEmpty then "NONE"
    else
      let fv := l.fv
      let dataOf : Nat → List (String × Tm) := fun i =>
        (fv.filter fun e => e.1 = i).map fun (_, p, s, x) => (x, Tm.tag ("D:" ++ p ++ ":" ++ s))
      let t := inline l.graph dataOf
      -- the inlined text is one program without directives: evaluated (a) by the modular evaluator on
      -- a graph with a single module, (b) by the lexical evaluator `evalL` (`runSingle`);
      -- (c) `runLexical`: the closure form of the inlined program that the theorem is about
      let g1 : Graph S := { mods := [⟨[], [], ⟨[], none⟩⟩, ⟨[(0, none)], [], ⟨[], some t⟩⟩], globals := r.globals }
      let showR (x : Except String V) : String := match x with
        | .ok v => "OUT " ++ v.json
        | .error e => "EVALERR " ++ e
      let out := showR (if (compileErrors g1).isEmpty then runGraph g1 { imported := [], globals := l.vv.globals } else .error "comperr")
      "PROG " ++ showTm t ++ " ## " ++ out ++ " ## " ++ showR (runSingle r.globals l.vv.globals t) ++ " ## " ++
        showR (runLexical l.graph l.vv)

/-! command line: the run-time vector of `real_main` -/

def hexDigit (c : Char) : Nat :=
  if '0' ≤ c ∧ c ≤ '9' then c.toNat - '0'.toNat else if 'a' ≤ c ∧ c ≤ 'f' then c.toNat - 'a'.toNat + 10 else 0

def unhexBytes : List Char → List UInt8
  | a :: b :: r => UInt8.ofNat (hexDigit a * 16 + hexDigit b) :: unhexBytes r
  | _ => []

def unhex (s : String) : String := (String.fromUTF8? ⟨(unhexBytes s.toList).toArray⟩).getD "?"

/-- c16.cli NAMED<n> (kind|$name|value)… E|hexjson A|hexjson F|hexname G0 FILES… MAIN…
    The named variables arrive in COMMAND-LINE order; the model orders them as `binds` does,
    names the globals as `parse_compile` does (`cliGlobals`), the prelude (module 0) defines
    `input_filename` as `$!input_filename` (`jaq/src/filter.rs: defs`), and a data import is the
    array of the values in the file (one string `D:<file>` per data file). -/
def cliReq (toks : List String) : String :=
  match toks with
  | nm :: r =>
    let n := numAfter nm 5
    let named := (r.take n).filterMap fun t => match t.splitOn "|" with
      | [k, x, v] => some (k, (x.drop 1).toString, v)
      | _ => none
    match r.drop n with
    | e :: a :: f :: rest =>
      let kind (k : String) : List (String × V) :=
        (named.filter fun t => t.1 = k).map fun (_, x, v) => (x, if k = "slurpfile" then V.arr [V.tag v] else V.tag v)
      let argsV := V.raw (unhex ((a.drop 2).toString))
      let envV := V.raw (unhex ((e.drop 2).toString))
      let c : CliVars V := ⟨kind "arg", kind "rawfile", kind "slurpfile", kind "argjson", argsV, envV⟩
      let gl := cliGlobals c (V.tag (unhex ((f.drop 2).toString)))
      match parseReq rest with
      | none => "bad-request"
      | some rq =>
        let prelude : Body := ⟨[Def.mk "input_filename" [] (.var "$!input_filename")], none⟩
        let fuel := rq.files.length + 2
        match load (memReader rq.files) fuel "" prelude rq.mainPath rq.mainSrc with
        | none => "FUEL"
        | some (_, .err _) => "LOADERR"
        | some (_, .ok deps main) =>
          let g : Graph S := graphOf deps main (gl.map (·.1))
          let vv : VarVals := {
            imported := (fileVars deps main).map fun (_, _, s, _) => V.arr [V.tag ("D:" ++ stripAt s)],
            globals := gl.map (·.2) }
          if !(compileErrors g).isEmpty then "COMPERR"
          else
            let showR (x : Except String V) : String := match x with
              | .ok v => "OUT " ++ v.json
              | .error e => "EVALERR " ++ e
            showR (runGraph g vv) ++ " ## " ++ showR (runLexical g vv)
    | _ => "bad-request"
  | [] => "bad-request"

/-! search -/

/-- `1` the property's rule, `0` replace always, `c` the code as it currently is (`extFixApplied`) -/
def fixFlag (s : String) : Bool := if s = "1" then true else if s = "c" then extFixApplied else false

def unEq (s : String) : List Char := (s.drop 1).toString.toList

def showAbs (p : List FName) : String := "/" ++ "/".intercalate (p.map String.ofList)

def absOf (s : String) : List FName :=
  (parsePath (unEq s)).filterMap fun c => match c with | .normal n => some n | _ => none

def optPath (s : String) : Option RPath := if s = "-" then none else some (parsePath (unEq s))

/-- c16.find <fix> =ext home origin =cwd =parentFile =rel M<n> =meta… L<n> =lib… F<n> =file… D<n> =dir… -/
def findReq (toks : List String) : String :=
  match toks with
  | fix :: ext :: home :: origin :: cwd :: parent :: rel :: m :: r =>
    let nm := numAfter m 1
    let metas := (r.take nm).map fun s => parsePath (unEq s)
    match r.drop nm with
    | l :: r =>
      let nl := numAfter l 1
      let libs := (r.take nl).map fun s => parsePath (unEq s)
      match r.drop nl with
      | f :: r =>
        let nf := numAfter f 1
        let files := (r.take nf).map absOf
        match r.drop nf with
        | d :: r =>
          let nd := numAfter d 1
          let dirs := (r.take nd).map absOf
          let fs : FS := fun p =>
            if files.contains p then some .file
            else if p = [] ∨ dirs.contains p ∨ files.any (fun f => p.isPrefixOf f ∧ p ≠ f) ∨ dirs.any (fun f => p.isPrefixOf f) then some .dir
            else none
          let env : SearchEnv := { home := optPath home, origin := optPath origin, cwd := absOf cwd, extOnlyWhenMissing := fixFlag fix }
          match findFile env fs (parsePath (unEq parent)) (parsePath (unEq rel)) metas (libsOf libs) (unEq ext) with
          | .ok q => "OK " ++ showAbs q
          | .error e => "ERR " ++ (if e = nonRelativeMsg then "nonrelative" else "notfound")
        | [] => "bad-request"
      | [] => "bad-request"
    | [] => "bad-request"
  | _ => "bad-request"

def showComp : Comp → String
  | .root => "/" | .cur => "." | .parent => ".." | .normal n => String.ofList n

def setextReq (toks : List String) : String :=
  match toks with
  | [fix, name, ext] =>
    let env : SearchEnv := { home := none, origin := none, cwd := [], extOnlyWhenMissing := fixFlag fix }
    "/".intercalate ((applyExt env (parsePath (unEq name)) (unEq ext)).map showComp)
  | _ => "bad-request"

def handlers : List (String × Handler) := [
  ("c16.run", fun toks => match parseReq toks with | some r => runReq r | none => "bad-request"),
  ("c16.inline", fun toks => match parseReq toks with | some r => inlineReq r | none => "bad-request"),
  ("c16.cli", cliReq),
  ("c16.find", findReq),
  ("c16.setext", setextReq)
]

end Jaq.Driver.C16
