/- C19 driver: runs the copy-on-write heap model on an operation script.
   request:  c19.cow <n> <init> <op> …
     <init>  `-` or `,`-separated arrays (`1.2.3`, `e` = empty): every thread starts with a handle to each (shared, count n)
     <op>    N<t>:<arr> | C<t>:<i> | D<t>:<i> | M<t>:<i>:<x> (push x) | T<t>:<i> | R<t>:<i>
   answer:   per thread `h=<arr>@<cell class>#<count>,…;o=<arr>|…`, threads joined by ` / `
             (cell classes numbered by first occurrence over threads 0…n-1). -/
import Driver.Common
import JaqVerif.C19.Cow

namespace Jaq.Driver.C19
open Jaq.C19

def parseInt? (s : String) : Option Int := s.toInt?

def parseArr (s : String) : Option (List Int) :=
  if s == "e" then some [] else (s.splitOn ".").mapM parseInt?

def showArr (l : List Int) : String :=
  if l.isEmpty then "e" else ".".intercalate (l.map toString)

def parseOp (s : String) : Option (Nat × Op (List Int)) :=
  match s.toList with
  | [] => none
  | c :: rest =>
    match (String.ofList rest).splitOn ":" with
    | [t, a] =>
      match t.toNat?, c with
      | some t, 'N' => (parseArr a).map fun v => (t, .new v)
      | some t, 'C' => a.toNat?.map fun i => (t, .clone i)
      | some t, 'D' => a.toNat?.map fun i => (t, .drop i)
      | some t, 'T' => a.toNat?.map fun i => (t, .take i)
      | some t, 'R' => a.toNat?.map fun i => (t, .read i)
      | _, _ => none
    | [t, a, x] =>
      match t.toNat?, a.toNat?, parseInt? x, c with
      | some t, some i, some x, 'M' => some (t, .mutate i (· ++ [x]))
      | _, _, _, _ => none
    | _ => none

def classOf (seen : List Nat) (a : Nat) : List Nat × Nat :=
  match seen.idxOf? a with
  | some k => (seen, k)
  | none => (seen ++ [a], seen.length)

def showSys (s : CSys (List Int)) : String :=
  let rec go (u : Nat) (fuel : Nat) (seen : List Nat) (acc : List String) : List String :=
    match fuel with
    | 0 => acc
    | fuel + 1 =>
      let c := s.thr u
      let (seen, hs) := c.hs.foldl (fun (st : List Nat × List String) a =>
        let (seen', k) := classOf st.1 a
        let v := match s.heap.val a with | some v => showArr v | none => "DANGLING"
        (seen', st.2 ++ [s!"{v}@{k}#{s.heap.rc a}"])) (seen, [])
      let line := "h=" ++ ",".intercalate hs ++ ";o=" ++ "|".intercalate (c.out.map showArr)
      go (u + 1) fuel seen (acc ++ [line])
  " / ".intercalate (go 0 s.n [] [])

def cow (toks : List String) : String :=
  match toks with
  | n :: init :: ops =>
    match n.toNat?, (if init == "-" then some [] else (init.splitOn ",").mapM parseArr), ops.mapM parseOp with
    | some n, some vs, some es => showSys (crun es (initShared vs n))
    | _, _, _ => "bad-request"
  | _ => "bad-request"

def handlers : List (String × Handler) := [("c19.cow", cow)]

end Jaq.Driver.C19
