import Driver.Common
import JaqVerif.C08.Model

/-! Line-protocol handlers of C08 (`c08.cmp`, `c08.eq`, `c08.feed`, `c08.f <template>`). -/
namespace Jaq.Driver.C08
open Jaq Jaq.C08

def ordStr : Ordering → String
  | .lt => "lt"
  | .eq => "eq"
  | .gt => "gt"

/-- little-endian hex of `n` in `k` bytes -/
def hexLE (n k : Nat) : String :=
  hexOfBytes ((List.range k).map fun i => UInt8.ofNat ((n / 256 ^ i) % 256))

/-- number of 64-bit digits of a magnitude -/
def digits64 (n : Nat) : Nat := if n == 0 then 0 else n.log2 / 64 + 1

/-- the `Hasher` calls as the harness's recording hasher prints them (little-endian host) -/
def tokStr : Tok → String
  | .u8 n => s!"b{n}"
  | .len n => s!"z{n}"
  | .f64 b => "w" ++ hexLE b.toNat 8
  | .bytes b => "w" ++ hexOfBytes b
  | .big i =>
    let d := digits64 i.natAbs
    let sign := if i < 0 then 0 else if i == 0 then 1 else 2
    if d == 0 then s!"i{sign}" else s!"i{sign} z{d} w{hexLE i.natAbs (8 * d)}"

def feedStr (v : Val) : String :=
  let t := (feed v).map tokStr
  if t.isEmpty then "-" else " ".intercalate t

def int (i : Int) : Val := .num (.int i)
def str (s : String) : Val := .tstr (bytesOfString s)
def bool (b : Bool) : Val := .bool b
def mk (kvs : Entries) : Val := .obj (C08.Obj.ofList kvs)

partial def nums : Val → List Num
  | .num n => [n]
  | .arr a => a.flatMap nums
  | .obj o => o.flatMap fun p => nums p.1 ++ nums p.2
  | _ => []

/-- cheap bucket key: numbers that are `==` convert to the same float up to the sign of zero -/
def zkey (n : Num) : UInt64 :=
  let f := n.toF64
  if F64.isZero f then 0 else f

/-- two of the numbers inside the values are `==` but hash differently: a hashed look-up of
one for the other then depends on the hasher's seed (hash tags of 7 bits) -/
partial def objs : Val → List Val
  | .arr a => a.flatMap objs
  | .obj o => .obj o :: o.flatMap fun p => objs p.1 ++ objs p.2
  | _ => []

def objLen : Val → Nat
  | .obj o => o.length
  | _ => 0

def incoherent (vs : List Val) : Bool :=
  let ps := ((vs.flatMap nums).map fun n => (zkey n, numFeed n, n)).eraseDups
  let os := (vs.flatMap objs).map fun v => (objLen v, feed v, v)
  (ps.any fun p => ps.any fun q => p.1 == q.1 && p.2.1 != q.2.1 && Num.eq p.2.2 q.2.2) ||
  (os.any fun p => os.any fun q => p.1 == q.1 && p.2.1 != q.2.1 && C08.eq p.2.2 q.2.2)

def arrOf? : Val → Option (List Val)
  | .arr a => some a
  | _ => none

def optNull : Option Val → Val
  | some v => v
  | none => .null

def intsToVal (l : List Nat) : Val := .arr (l.map fun i => int (Int.ofNat i))

/-- the templates; `none` = the real filter raises an error -/
def template (name : String) (a b : Val) : Option Val :=
  let x := str "x"
  let y := str "y"
  match name with
  | "ord" =>
    let c := C08.cmp a b
    some (.arr [bool (c == .lt), bool (c != .gt), bool (C08.eq a b), bool (!C08.eq a b),
      bool (c != .lt), bool (c == .gt)])
  | "sort2" => some (.arr (sort [b, a]))
  | "uniq2" => some (.arr (unique [b, a, b]))
  | "grp2" => some (.arr ((groupBy [b, a, b]).map .arr))
  | "minmax" =>
    some (.arr [optNull (minOf [a, b]), optNull (maxOf [a, b]), optNull (minOf [b, a]), optNull (maxOf [b, a])])
  | "has" => some (bool (C08.Obj.has (C08.Obj.ofList [(a, int 1), (x, int 2)]) b))
  | "get" => some (optNull (C08.Obj.get (C08.Obj.ofList [(a, int 1), (x, int 2)]) b))
  | "has1" => some (bool (C08.Obj.has (C08.Obj.ofList [(a, int 1)]) b))
  | "sub" => some (.arr (sub [a, .null] [b]))
  | "idx" => some (intsToVal (indices [.null, a, a] b))
  | "index" => some (match indices [.null, a] b with | i :: _ => int (Int.ofNat i) | [] => .null)
  | "cont" => some (.arr [bool (contains (.arr [a]) (.arr [b])), bool (contains a b), bool (contains b a)])
  | "objadd" => some (.obj (C08.Obj.extend (C08.Obj.ofList [(a, int 1), (x, int 2)]) (C08.Obj.ofList [(b, int 3)])))
  | "objmul" =>
    some (.obj (C08.Obj.merge (C08.Obj.ofList [(a, mk [(str "p", int 1)]), (x, int 2)])
      (C08.Obj.ofList [(b, mk [(str "q", int 2)]), (y, mk [])])))
  | "mk" => some (mk [(a, int 1), (b, int 2)])
  | "set" => some (.obj (C08.Obj.update (C08.Obj.ofList [(a, int 1), (x, int 2)]) b fun _ => some (int 3)))
  | "upd" => some (.obj (C08.Obj.update (C08.Obj.ofList [(a, int 1), (x, int 2)]) b fun v => some (.arr [v])))
  | "del" => some (.obj (C08.Obj.update (C08.Obj.ofList [(a, int 1), (x, int 2), (y, int 3)]) b fun _ => none))
  | "objeq" =>
    let o1 := mk [(a, int 1), (x, int 2)]
    let o2 := mk [(x, int 2), (b, int 1)]
    some (.arr [bool (C08.eq o1 o2), bool (C08.cmp o1 o2 == .lt), bool (C08.eq (mk [(a, int 1)]) (mk [(b, int 1)]))])
  | "arrsub" => do let l ← arrOf? a; let r ← arrOf? b; pure (.arr (sub l r))
  | "arridx" => do let l ← arrOf? a; pure (intsToVal (indices l b))
  | "arrbs" => do
    let l ← arrOf? a
    match bsearchSpec l b with
    | [i] => pure (int i)
    | _ => none
  | "sort" => do let l ← arrOf? a; pure (.arr (sort l))
  | "unique" => do let l ← arrOf? a; pure (.arr (unique l))
  | "group" => do let l ← arrOf? a; pure (.arr ((groupBy l).map .arr))
  | "mm" => do let l ← arrOf? a; pure (.arr [optNull (minOf l), optNull (maxOf l)])
  | _ => none

def handlers : List (String × Handler) := [
  ("c08.cmp", fun toks => withVals 2 toks fun vs =>
    match vs with
    | [a, b] => ordStr (C08.cmp a b)
    | _ => "bad-request"),
  ("c08.eq", fun toks => withVals 2 toks fun vs =>
    match vs with
    | [a, b] => (if C08.eq a b then "T" else "F") ++ (if incoherent [a, b] then " !incoherent" else "")
    | _ => "bad-request"),
  ("c08.feed", fun toks => withVals 1 toks fun vs =>
    match vs with
    | [a] => feedStr a
    | _ => "bad-request"),
  ("c08.ce", fun toks => withVals 2 toks fun vs =>
    match vs with
    | [a, b] =>
      ordStr (C08.cmp a b) ++ (if C08.eq a b then " T" else " F") ++
        (if incoherent [a, b] then " !incoherent" else "")
    | _ => "bad-request"),
  ("c08.all", fun toks =>
    match toks with
    | names :: rest => withVals 2 rest fun vs =>
      match vs with
      | [a, b] =>
        let rs := (names.splitOn ",").map fun name =>
          match template name a b with
          | some v => "V " ++ showVal v
          | none => "E"
        ";".intercalate rs ++ (if incoherent [a, b] then " !incoherent" else "")
      | _ => "bad-request"
    | _ => "bad-request")
]

end Jaq.Driver.C08
