/- C01 driver: parses the s-expression of a `parse::Term` printed by the harness, compiles it
with the Compile model, runs the Machine model (as written / as fixed) and the definitional
semantics, and prints the three outcomes (see `checks/c01.py`). -/
import Driver.Common
import JaqVerif.Core.Machine
import JaqVerif.Core.Fragment

namespace Jaq.Driver.C01
open Jaq Jaq.Core

def unhex (tok : String) : Option String :=
  match tok.toList with
  | 'x' :: cs => (bytesOfHexChars cs).bind fun bs => String.fromUTF8? (ByteArray.mk bs.toArray)
  | _ => none

abbrev P (α : Type) := List String → Option (α × List String)

def pStr : P String
  | t :: r => (unhex t).map (·, r)
  | [] => none

def pNat : P Nat
  | t :: r => t.toNat?.map (·, r)
  | [] => none

def bopOf : String → Option Bop
  | "comma" => some .comma | "alt" => some .alt | "or" => some .or | "and" => some .and
  | "add" => some (.math .add) | "sub" => some (.math .sub) | "mul" => some (.math .mul)
  | "div" => some (.math .div) | "rem" => some (.math .rem)
  | "lt" => some (.cmp .lt) | "le" => some (.cmp .le) | "gt" => some (.cmp .gt)
  | "ge" => some (.cmp .ge) | "eq" => some (.cmp .eq) | "ne" => some (.cmp .ne)
  | "assign" => some .assign | "update" => some .update | "ualt" => some .updateAlt
  | "uadd" => some (.updateMath .add) | "usub" => some (.updateMath .sub) | "umul" => some (.updateMath .mul)
  | "udiv" => some (.updateMath .div) | "urem" => some (.updateMath .rem)
  | _ => none

partial def pMany {α : Type} (p : P α) : Nat → P (List α)
  | 0, r => some ([], r)
  | n+1, r => do
    let (a, r) ← p r
    let (as, r) ← pMany p n r
    pure (a :: as, r)

mutual
  partial def pTerm : P Term
    | "id" :: r => some (.id, r)
    | "rec" :: r => some (.recurse, r)
    | "num" :: r => do let (s, r) ← pStr r; pure (.num s, r)
    | "str" :: f :: r => do
      let fmt ← (if f == "-" then some none else (unhex f).map some)
      let (n, r) ← pNat r
      let (ps, r) ← pMany pStrPart n r
      pure (.str fmt ps, r)
    | "arr0" :: r => some (.arr none, r)
    | "arr1" :: r => do let (t, r) ← pTerm r; pure (.arr (some t), r)
    | "obj" :: r => do
      let (n, r) ← pNat r
      let (es, r) ← pMany pEntry n r
      pure (.obj es, r)
    | "neg" :: r => do let (t, r) ← pTerm r; pure (.neg t, r)
    | "pipe" :: r => do
      let (l, r) ← pTerm r
      let (p, r) ← pOptPat r
      let (rr, r) ← pTerm r
      pure (.pipe l p rr, r)
    | "bin" :: op :: r => do
      let op ← bopOf op
      let (l, r) ← pTerm r
      let (rr, r) ← pTerm r
      pure (.binop l op rr, r)
    | "label" :: r => do let (x, r) ← pStr r; let (t, r) ← pTerm r; pure (.label x t, r)
    | "brk" :: r => do let (x, r) ← pStr r; pure (.brk x, r)
    | "fold" :: r => do
      let (name, r) ← pStr r
      let (xs, r) ← pTerm r
      let (p, r) ← pPat r
      let (n, r) ← pNat r
      let (as, r) ← pMany pTerm n r
      pure (.fold name xs p as, r)
    | "try" :: r => do
      let (t, r) ← pTerm r
      let (c, r) ← pOptTerm r
      pure (.tryCatch t c, r)
    | "ite" :: r => do
      let (n, r) ← pNat r
      let (its, r) ← pMany pPair n r
      let (e, r) ← pOptTerm r
      pure (.ite its e, r)
    | "defs" :: r => do
      let (n, r) ← pNat r
      let (ds, r) ← pMany pDef n r
      let (t, r) ← pTerm r
      pure (.defs ds t, r)
    | "call" :: r => do
      let (name, r) ← pStr r
      let (n, r) ← pNat r
      let (as, r) ← pMany pTerm n r
      pure (.call name as, r)
    | "var" :: r => do let (x, r) ← pStr r; pure (.var x, r)
    | "path" :: r => do
      let (t, r) ← pTerm r
      let (n, r) ← pNat r
      let (ps, r) ← pMany pPart n r
      pure (.path t ps, r)
    | _ => none
  partial def pOptTerm : P (Option Term)
    | "0" :: r => some (none, r)
    | "1" :: r => do let (t, r) ← pTerm r; pure (some t, r)
    | _ => none
  partial def pPair : P (Term × Term) := fun r => do
    let (a, r) ← pTerm r
    let (b, r) ← pTerm r
    pure ((a, b), r)
  partial def pEntry : P (Term × Option Term) := fun r => do
    let (k, r) ← pTerm r
    let (v, r) ← pOptTerm r
    pure ((k, v), r)
  partial def pStrPart : P StrPart
    | "L" :: r => do let (s, r) ← pStr r; pure (.lit s, r)
    | "T" :: r => do let (t, r) ← pTerm r; pure (.interp t, r)
    | _ => none
  partial def pOptPat : P (Option Pattern)
    | "0" :: r => some (none, r)
    | "1" :: r => do let (p, r) ← pPat r; pure (some p, r)
    | _ => none
  partial def pPat : P Pattern
    | "pv" :: r => do let (x, r) ← pStr r; pure (.var x, r)
    | "pa" :: r => do let (n, r) ← pNat r; let (ps, r) ← pMany pPat n r; pure (.arr ps, r)
    | "po" :: r => do
      let (n, r) ← pNat r
      let (ps, r) ← pMany (fun r => do let (k, r) ← pTerm r; let (p, r) ← pPat r; pure ((k, p), r)) n r
      pure (.obj ps, r)
    | _ => none
  partial def pDef : P Def
    | "def" :: r => do
      let (name, r) ← pStr r
      let (n, r) ← pNat r
      let (ps, r) ← pMany pStr n r
      let (b, r) ← pTerm r
      pure (.mk name ps b, r)
    | _ => none
  partial def pPart : P (Part × Opt)
    | "idx" :: r => do
      let (t, r) ← pTerm r
      let (o, r) ← pOpt r
      pure ((.index t, o), r)
    | "rng" :: r => do
      let (a, r) ← pOptTerm r
      let (b, r) ← pOptTerm r
      let (o, r) ← pOpt r
      pure ((.range a b, o), r)
    | _ => none
  partial def pOpt : P Opt
    | "?" :: r => some (.optional, r)
    | "!" :: r => some (.essential, r)
    | _ => none
end

/-! ### constructs outside the modelled language (answer `UNSUPPORTED`) -/
mutual
  partial def sup : Term → Bool
    | .str fmt parts => fmt.isNone && parts.all fun | .lit _ => true | .interp t => sup t
    | .arr (some t) => sup t
    | .obj kvs => kvs.all fun (k, v) => sup k && (match v with | some v => sup v | none => true)
    | .neg t => sup t
    | .pipe l p r => sup l && sup r && (match p with | some p => supPat p | none => true)
    | .binop l op r => sup l && sup r && (match op with
        | .assign | .update | .updateMath _ | .updateAlt => false
        | .math .div => false
        | _ => true)
    | .label _ t => sup t
    | .fold _ xs p as => sup xs && supPat p && as.all sup
    | .tryCatch t c => sup t && (match c with | some c => sup c | none => true)
    | .ite its e => its.all (fun (a, b) => sup a && sup b) && (match e with | some e => sup e | none => true)
    | .defs ds t => ds.all (fun d => sup d.body) && sup t
    | .call _ as => as.all sup
    | .path t ps => sup t && ps.all fun (p, _) => match p with
        | .index i => sup i
        | .range a b => (match a with | some a => sup a | none => true) && (match b with | some b => sup b | none => true)
    | _ => true
  partial def supPat : Pattern → Bool
    | .var _ => true
    | .arr ps => ps.all supPat
    | .obj kps => kps.all fun (k, p) => sup k && supPat p
end

/-! ### does the compiled table contain a cycle (recursion possible)? -/
def childIds : CTerm → List Nat
  | .arr f | .label f | .neg f => [f]
  | .objSingle a b | .comma a b | .assign a b | .update a b | .updateAlt a b | .alt a b | .tryCatch a b => [a, b]
  | .updateMath a _ b | .logic a _ b | .math a _ b | .cmp a _ b => [a, b]
  | .pipe l p r => [l, r] ++ patIds p
  | .ite a b c => [a, b, c]
  | .callDef id as _ _ => id :: as.map ArgK.get
  | .native _ as => as.map ArgK.get
  | .fold xs p i u k => [xs, i, u] ++ patIds (some p) ++ (match k with | .foreach (some q) => [q] | _ => [])
  | .path f ps => f :: ps.flatMap fun (p, _) => match p with
      | .index i => [i]
      | .range a b => a.toList ++ b.toList
  | _ => []
where
  patIds : Option CPat → List Nat
    | none => []
    | some .var => []
    | some (.idx ps) => ps.flatMap fun (k, p) => k :: patIdsF 50 p
  patIdsF : Nat → CPat → List Nat
    | 0, _ => []
    | _, .var => []
    | n+1, .idx ps => ps.flatMap fun (k, p) => k :: patIdsF n p

partial def reach (tab : Array CTerm) (todo : List Nat) (seen : List Nat) : List Nat :=
  match todo with
  | [] => seen
  | i :: rest =>
    if seen.contains i then reach tab rest seen
    else reach tab (childIds (tab.getD i .id) ++ rest) (i :: seen)

/-- is a cycle reachable from the entry term? -/
def isRecursive (terms : List CTerm) (entry : Nat) : Bool :=
  let tab := terms.toArray
  (reach tab [entry] []).any fun i =>
    match tab.getD i .id with
    | .callDef id _ _ _ => (reach tab (childIds (tab.getD id .id)) []).contains id
    | _ => false

/-! ### answers -/
def showOut (limit : Nat) (o : Out) : String :=
  let vs := o.vals.take limit
  let items := vs.map fun v => "V " ++ showVal v
  let tail : List String :=
    if o.vals.length ≥ limit then [] else
    match o.stop with
    | .done => []
    | .err e => ["E " ++ showVal (errToVal e)]
    | .brk _ => ["X brk"]
    | .halt c => ["X halt(" ++ toString c ++ ")"]
    | .fuel => ["FUEL"]
  let all := items ++ tail
  if all.isEmpty then "-" else " ; ".intercalate all

/-- `c01.run <fuelN> <fuelR> <limit> <ndefs> def* term <vx>`; fuelN for programs whose table
has no cycle, fuelR otherwise (the Machine gets three times as much plus 20) -/
def runReq (toks : List String) : String :=
  match (do
    let (fuelN, r) ← pNat toks
    let (fuelR, r) ← pNat r
    let (limit, r) ← pNat r
    let (nd, r) ← pNat r
    let (ds, r) ← pMany pDef nd r
    let (t, r) ← pTerm r
    let (v, r) ← Val.parseVX 64 r
    if r.isEmpty then some (fuelN, fuelR, limit, ds, t, v) else none) with
  | none => "bad-request"
  | some (fuelN, fuelR, limit, ds, t, v) =>
    if !(sup t) then "UNSUPPORTED" else
    let p := compile c01Natives ds t
    if !p.errs.isEmpty then "C " ++ toString p.errs.length else
    let recu := isRecursive p.terms p.id
    let fuel := if recu then fuelR else fuelN
    let mfuel := if recu then fuel + fuel / 2 + 6 else 3 * fuel + 20
    let oa := runProg { cartDropsErr := true, pathDropsErr := true } p mfuel v
    let oc := runProg { cartDropsErr := false, pathDropsErr := true } p mfuel v
    let ofx := runProg { cartDropsErr := false, pathDropsErr := false } p mfuel v
    let os := eval fuel 0 (preludeEnv ds) t v
    -- F: inside the proved fragment and no call reaches the prelude except `!empty` (its first definition,
    -- terms 0 and 1): the theorem is stated for the prelude consisting of `def !empty: {}[];`
    let preLen := (compile c01Natives ds .id).terms.length - 1
    let emptyLen := if (ds.head?.map Def.name) == some emptyName then 2 else 0
    let frag := inFragment (emptyLen == 2) t && (reach p.terms.toArray [p.id] []).all (fun i => i ≥ preLen || i < emptyLen)
    "ok " ++ (if recu then "R" else "N") ++ (if frag then "F" else "") ++ " | " ++ showOut limit oa ++ " | " ++ showOut limit oc ++ " | " ++ showOut limit ofx ++ " | " ++ showOut limit os

/-! ### the model's table in the syntax of Rust's `Debug` for `compile::Term` -/
def rustStr (s : String) : String :=
  "\"" ++ String.join (s.toList.map fun c =>
    if c == '"' then "\\\"" else if c == '\\' then "\\\\" else if c == '\n' then "\\n"
    else if c == '\t' then "\\t" else if c == '\r' then "\\r" else String.singleton c) ++ "\""

def tid (i : Nat) : String := "TermId(" ++ toString i ++ ")"
def optTid : Option Nat → String
  | none => "None"
  | some i => "Some(" ++ tid i ++ ")"

partial def showPat : CPat → String
  | .var => "Var"
  | .idx ps => "Idx([" ++ ", ".intercalate (ps.map fun (k, p) => "(" ++ tid k ++ ", " ++ showPat p ++ ")") ++ "])"

def showArgs (as : List (ArgK Nat)) : String :=
  "[" ++ ", ".intercalate (as.map fun
    | .var a => "Var(" ++ tid a ++ ")"
    | .fn a => "Fun(" ++ tid a ++ ")") ++ "]"

def showMath : MathOp → String
  | .add => "Add" | .sub => "Sub" | .mul => "Mul" | .div => "Div" | .rem => "Rem"
def showCmp : CmpOp → String
  | .lt => "Lt" | .le => "Le" | .gt => "Gt" | .ge => "Ge" | .eq => "Eq" | .ne => "Ne"
def showCT : CallType → String
  | .inline => "Inline" | .throw => "Throw" | .catchOne => "CatchOne" | .catchAll => "CatchAll"

def showCTerm : CTerm → String
  | .id => "Id" | .recurse => "Recurse" | .toString => "ToString"
  | .int i => "Int(" ++ toString i ++ ")"
  | .num s => "Num(" ++ rustStr s ++ ")"
  | .str s => "Str(" ++ rustStr s ++ ")"
  | .arr f => "Arr(" ++ tid f ++ ")"
  | .objEmpty => "ObjEmpty"
  | .objSingle k v => "ObjSingle(" ++ tid k ++ ", " ++ tid v ++ ")"
  | .var i => "Var(" ++ toString i ++ ")"
  | .callDef id as skip ct => "CallDef(" ++ tid id ++ ", " ++ showArgs as ++ ", " ++ toString skip ++ ", " ++ showCT ct ++ ")"
  | .native n as => "Native(" ++ toString n ++ ", " ++ showArgs as ++ ")"
  | .label f => "Label(" ++ tid f ++ ")"
  | .neg f => "Neg(" ++ tid f ++ ")"
  | .pipe l p r => "Pipe(" ++ tid l ++ ", " ++ (match p with | none => "None" | some p => "Some(" ++ showPat p ++ ")") ++ ", " ++ tid r ++ ")"
  | .comma l r => "Comma(" ++ tid l ++ ", " ++ tid r ++ ")"
  | .assign l r => "Assign(" ++ tid l ++ ", " ++ tid r ++ ")"
  | .update l r => "Update(" ++ tid l ++ ", " ++ tid r ++ ")"
  | .updateMath l o r => "UpdateMath(" ++ tid l ++ ", " ++ showMath o ++ ", " ++ tid r ++ ")"
  | .updateAlt l r => "UpdateAlt(" ++ tid l ++ ", " ++ tid r ++ ")"
  | .logic l b r => "Logic(" ++ tid l ++ ", " ++ toString b ++ ", " ++ tid r ++ ")"
  | .math l o r => "Math(" ++ tid l ++ ", " ++ showMath o ++ ", " ++ tid r ++ ")"
  | .cmp l o r => "Cmp(" ++ tid l ++ ", " ++ showCmp o ++ ", " ++ tid r ++ ")"
  | .alt l r => "Alt(" ++ tid l ++ ", " ++ tid r ++ ")"
  | .tryCatch l r => "TryCatch(" ++ tid l ++ ", " ++ tid r ++ ")"
  | .ite a b c => "Ite(" ++ tid a ++ ", " ++ tid b ++ ", " ++ tid c ++ ")"
  | .fold xs p i u k => "Fold(" ++ tid xs ++ ", " ++ showPat p ++ ", " ++ tid i ++ ", " ++ tid u ++ ", " ++
      (match k with | .reduce => "Reduce" | .foreach q => "Foreach(" ++ optTid q ++ ")") ++ ")"
  | .path f ps => "Path(" ++ tid f ++ ", Path([" ++ ", ".intercalate (ps.map fun (p, o) =>
      "(" ++ (match p with
        | .index i => "Index(" ++ tid i ++ ")"
        | .range a b => "Range(" ++ optTid a ++ ", " ++ optTid b ++ ")") ++ ", " ++
      (match o with | .optional => "Optional" | .essential => "Essential") ++ ")") ++ "]))"

/-- `c01.table <ndefs> def* term` → `<entry> ;; <term 0> ;; …` -/
def tableReq (toks : List String) : String :=
  match (do
    let (nd, r) ← pNat toks
    let (ds, r) ← pMany pDef nd r
    let (t, r) ← pTerm r
    if r.isEmpty then some (ds, t) else none) with
  | none => "bad-request"
  | some (ds, t) =>
    let p := compile c01Natives ds t
    if !p.errs.isEmpty then "C" else
    " ;; ".intercalate (toString p.id :: p.terms.map showCTerm)

def handlers : List (String × Handler) := [
  ("c01.run", runReq),
  ("c01.table", tableReq)
]

end Jaq.Driver.C01
