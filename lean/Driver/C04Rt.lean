/- Line-protocol handlers of the C04 run-time correspondences `c04.fold` and `c04.lldrop`
   (token syntax and trace format: header of harness/src/bin/c04_rt.rs).  The harness runs the
   real `fold` / `impl Drop for List`; here the same request is replayed on the models
   `Fold.turn` and `LL.iterDrop` of JaqVerif/C04/Stack.lean. -/
import Driver.Common
import JaqVerif.C04.Stack

namespace Jaq.Driver.C04Rt
open Jaq.C04

def natOf (s : String) : Nat := s.toNat?.getD 0

/-- `o<v>` = Ok(v), `e<code>` = Err(code) -/
def resOf (t : String) : Except Nat Nat :=
  if t.startsWith "e" then .error (natOf (t.drop 1).toString) else .ok (natOf (t.drop 1).toString)

/-! ### fold -/

/-- a running update iterator (what `f x y` returned): numbered in creation order -/
structure URun where
  uid : Nat
  x : Nat
  y : Nat
  /-- does `size_hint` report `(0, Some(0))` when nothing is left (hint kinds `e`, `u`) -/
  exact : Bool
  rest : List (Except Nat Nat)

def uiter : Iter URun (Except Nat Nat) where
  next r := match r.rest with
    | [] => none
    | a :: as => some (a, { r with rest := as })
  hintZero r := r.exact && r.rest.isEmpty

structure FoldCase where
  mode : Nat
  pulls : Nat
  init : Nat
  xs : List (Except Nat Nat)
  a : Nat
  b : Nat
  tab : List Nat
  scripts : List (Bool × List (Except Nat Nat))

def scriptsOfToks : Nat → List String → List (Bool × List (Except Nat Nat))
  | 0, _ => []
  | _, [] => []
  | k + 1, hd :: rest =>
    let n := natOf (hd.drop 1).toString
    (hd.startsWith "e" || hd.startsWith "u", (rest.take n).map resOf) :: scriptsOfToks k (rest.drop n)

/-- `<mode> <pulls> <init> X<n> <x>*n T<A>x<B> <k>*(A*B) K<k> (<h><len> <r>*len)*k` -/
def parseFold : List String → Option FoldCase
  | mode :: pulls :: init :: xn :: rest => do
    if !xn.startsWith "X" then none
    let n := natOf (xn.drop 1).toString
    let xs := (rest.take n).map resOf
    let t :: rest := rest.drop n | none
    if !t.startsWith "T" then none
    let [a, b] := ((t.drop 1).toString.splitOn "x").map natOf | none
    let tab := (rest.take (a * b)).map natOf
    let k :: rest := rest.drop (a * b) | none
    if !k.startsWith "K" then none
    some ⟨natOf mode, natOf pulls, natOf init, xs, a, b, tab, scriptsOfToks (natOf (k.drop 1).toString) rest⟩
  | _ => none

abbrev FSt := FStack Nat (Option Nat) Nat Nat URun

/-- the arguments of the real `fold` in the three ways jaq calls it (filter.rs `fold_run`);
`uid` numbers the next iterator that `f` makes -/
def ops (c : FoldCase) (uid : Nat) : FoldOps Nat (Option Nat) Nat String Nat URun where
  S := uiter
  f x y :=
    match c.scripts[(c.tab[(x % c.a) * c.b + (y % c.b)]?).getD 0]? with
    | some (exact, items) => ⟨uid, x, y, exact, items⟩
    | none => ⟨uid, x, y, true, []⟩
  tc x := if c.mode == 3 then some x else none
  inner x y :=
    if c.mode == 1 then none
    else match x with
      | some x => some s!"o{x}:{y}"
      | none => some s!"o{y}"
  outer y := if c.mode == 1 then some s!"o{y}" else none

def nOut (st : FSt) : Nat :=
  st.countP fun fr => match fr.2 with
    | .output _ _ => true
    | .input _ => false

def counts (st : FSt) : String := s!"#{st.length},{nOut st}"

/-- one `next()` of the fold iterator: turns until `.done`; logs what the turn polls (the top
frame decides: `Input` polls its copy of xs, `Output` its update iterator) with the size of the
stack at that moment, and the call of `f` when the turn made a new update iterator -/
def pull (c : FoldCase) : Nat → Nat → FSt → String → Option (String × Option (Except Nat String) × FSt × Nat)
  | 0, _, _, _ => none
  | fuel + 1, uid, st, log =>
    let log := match st with
      | (xs, .input _) :: _ => log ++ s!"x{c.xs.length - xs.length}" ++ counts st
      | (_, .output _ ys) :: _ => log ++ s!"n{ys.uid}" ++ counts st
      | [] => log
    match Fold.turn (ops c uid) st with
    | .done r st' => some (log, r, st', uid)
    | .again st' =>
      match st' with
      | (_, .output _ ys) :: _ =>
        if ys.uid == uid then pull c fuel (uid + 1) st' (log ++ s!"f{ys.x},{ys.y}")
        else pull c fuel uid st' log
      | _ => pull c fuel uid st' log

def showItem : Option (Except Nat String) → String
  | some (.ok s) => s
  | some (.error e) => s!"e{e}"
  | none => "end"

def foldLoop (c : FoldCase) : Nat → Nat → FSt → List String → List String
  | 0, _, _, acc => acc
  | pulls + 1, uid, st, acc =>
    match pull c 1000000 uid st "" with
    | none => acc ++ ["diverges"]
    | some (log, r, st', uid') =>
      let acc := acc ++ [s!"{log}>{showItem r}" ++ counts st']
      if r.isNone then acc else foldLoop c pulls uid' st' acc

def foldTrace (c : FoldCase) : String :=
  " ".intercalate (foldLoop c c.pulls 0 [(c.xs, .input c.init)] [])

/-! ### Drop for List -/

def consN (rc : Nat) : Nat → LL → LL
  | 0, t => t
  | n + 1, t => consN rc n (.cons rc t)

/-- `(<rc>x<count>)* (u<rc> | n<rc>)`, the chain from the head -/
def parseLL (toks : List String) : Option LL :=
  match toks.reverse with
  | [] => none
  | term :: conses =>
    let rc := natOf (term.drop 1).toString
    let t? : Option LL :=
      if term.startsWith "u" then some (.unforced rc)
      else if term.startsWith "n" then some (.nil rc)
      else none
    t?.bind fun t =>
      -- `conses` is innermost first
      conses.foldlM (init := t) fun t tok =>
        match (tok.splitOn "x").map natOf with
        | [rc, n] => some (consN rc n t)
        | _ => none

/-- What the harness can observe of `drop(handle)`:
  * `t` payload drops = turns of the `while let` (each turn takes `(head, tail)` out of a node
    and drops `_head`) = `iterDrop.1`;
  * `f` nodes freed = `iterDrop.2.1`;
  * `d` the maximal number of node frees in progress at once.  `iterDrop.2.2` counts frames of
    `List::drop` instead (1 = the handle being dropped, 2 = the hollowed node's own `drop`
    inside `*self = tail`), where no probe can be put.  A node is freed by the `Rc` field drop
    *after* the `List::drop` of its handle has returned, so "depth ≤ 2" (no `List::drop` under
    the hollowed node's) means that node frees never nest: observable 1 as soon as anything
    is freed, whatever the length; every frame the model claims beyond 2 would be one more
    node free in progress (as under the derived drop glue, `LL.naiveDepth`). -/
def llTrace (l : LL) : String :=
  let (turns, freed, depth) := l.iterDrop
  s!"t{turns} f{freed} d{min freed 1 + (depth - 2)}"

def handlers : List (String × Handler) := [
  ("c04.fold", fun toks =>
    match parseFold toks with
    | some c => foldTrace c
    | none => "bad-request"),
  ("c04.lldrop", fun toks =>
    match parseLL toks with
    | some l => llTrace l
    | none => "bad-request")
]

end Jaq.Driver.C04Rt
