import JaqVerif.Val.Basic
import JaqVerif.Val.Float
import JaqVerif.Val.Num
import JaqVerif.Val.Order
import JaqVerif.Val.Utf8
import JaqVerif.Val.Arith
