import JaqVerif.Props.C09
import JaqVerif.Val.Arith
import JaqVerif.Val.Basic
import JaqVerif.Val.Float
import JaqVerif.Val.Num
import JaqVerif.Val.Order
import JaqVerif.Val.Utf8
